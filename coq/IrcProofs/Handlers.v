(* IrcProofs/Handlers.v — every client command handler keeps the mid invariant, never panics
   and never leaves the modelled domain. *)
From stdpp Require Import gmap.
From Coq Require Import Strings.String Strings.Ascii ZArith NArith Lia.
From RV Require Import Base.Text Irc.Str Irc.Parse Irc.State Irc.Monad Irc.Cmds.
From RV Require Import IrcProofs.WP IrcProofs.Inv IrcProofs.InvPrims IrcProofs.StrLemmas.
Local Open Scope string_scope.

(* deletion discipline: a session other than the acting one is only ever deleted by an
   operator or a services link — exactly the sessions MaybeDeleteSession purges afterwards *)
Definition priv (sv : server) (k : N * N) : Prop :=
  exists s, sv_sessions sv !! k = Some s /\ (s_server s || s_operator s) = true.
Definition Disc (k : N * N) (sv : server) : Prop :=
  forall k' s', sv_sessions sv !! k' = Some s' -> s_deleted s' = true -> k' = k \/ priv sv k.

Lemma flags_same_priv sv sv' k : flags_same sv sv' -> priv sv k -> priv sv' k.
Proof.
  intros H (s & Hs & Hp). specialize (H k). rewrite Hs in H. cbn in H.
  destruct (sv_sessions sv' !! k) as [s'|] eqn:Hs'; [|discriminate]. cbn in H. injection H as _ H2 H3 _.
  exists s'. split; [exact Hs'|]. now rewrite H2, H3.
Qed.
Lemma flags_same_Disc sv sv' k : flags_same sv sv' -> Disc k sv -> Disc k sv'.
Proof.
  intros H D k' s' Hs' Hd'. pose proof (H k') as Hk'. rewrite Hs' in Hk'. cbn in Hk'.
  destruct (sv_sessions sv !! k') as [s0|] eqn:Hs0; [|discriminate]. cbn in Hk'. injection Hk' as H1 _ _ _ _.
  destruct (D k' s0 Hs0) as [->|Hp]; [congruence|now left|]. right. eapply flags_same_priv; eauto.
Qed.

(* the acting session's secret is long enough for generateCaptchaURL's s.auth[:8] *)
Definition auth_ok (sv : server) : Prop :=
  forall k s, sv_sessions sv !! k = Some s -> snd k = 0%N -> 8 <= slen (s_auth s).
Lemma flags_same_auth sv sv' : flags_same sv sv' -> auth_ok sv -> auth_ok sv'.
Proof.
  intros H A k s' Hs' Hk0. specialize (H k). rewrite Hs' in H. cbn in H.
  destruct (sv_sessions sv !! k) as [s|] eqn:Hs; [|discriminate]. cbn in H. injection H as _ _ _ H4 _.
  rewrite H4. now apply (A k).
Qed.

(* a session that is logged in has a nickname *)
Definition login_ok (sv : server) : Prop :=
  forall k s, sv_sessions sv !! k = Some s -> login_bit s = true.
Lemma flags_same_login sv sv' : flags_same sv sv' -> login_ok sv -> login_ok sv'.
Proof.
  intros H A k s' Hs'. specialize (H k). rewrite Hs' in H. cbn in H.
  destruct (sv_sessions sv !! k) as [s|] eqn:Hs; [|discriminate]. cbn in H. injection H as _ _ _ _ H5.
  rewrite H5. now apply (A k).
Qed.

Record Good (k : N * N) (sv : server) : Prop := {
  g_inv : InvM sv;
  g_live : live sv k;
  g_disc : Disc k sv;
  g_key0 : snd k = 0%N;
  g_auth : auth_ok sv;
  g_login : login_ok sv;
}.

(* postcondition of handlers that change nothing *)
Definition unchanged (sv : server) : unit -> server -> rctx -> Prop := fun _ sv' _ => sv' = sv.

Lemma wp_reply_num k cmd ps (Q : unit -> server -> rctx -> Prop) sv r :
  (forall r', r_msgid r' = r_msgid r -> Q tt sv r') -> wp (reply_num k cmd ps) Q sv r.
Proof. intros H. unfold reply_num. apply wp_bind, wp_getS, wp_emit. exact H. Qed.
Lemma wp_reply_svc cmd ps (Q : unit -> server -> rctx -> Prop) sv r :
  (forall r', r_msgid r' = r_msgid r -> Q tt sv r') -> wp (reply_svc cmd ps) Q sv r.
Proof. intros H. unfold reply_svc. apply wp_bind, wp_getS, wp_emit. exact H. Qed.

Lemma wp_param m i (Q : string -> server -> rctx -> Prop) sv r :
  i < nparams m -> (forall p, nth_error (m_params m) i = Some p -> Q p sv r) -> wp (param m i) Q sv r.
Proof.
  intros Hi H. unfold param. destruct (nth_error (m_params m) i) as [p|] eqn:E.
  - apply wp_ret, H. reflexivity.
  - apply nth_error_None in E. unfold nparams in Hi. lia.
Qed.

Lemma wp_liftR_ex {A} (x : res A) (Q : A -> server -> rctx -> Prop) sv r :
  (exists a, x = Ok a) -> (forall a, x = Ok a -> Q a sv r) -> wp (liftR x) Q sv r.
Proof. intros [a H] HQ. eapply wp_liftR; [exact H|]. now apply HQ. Qed.

(* one step of symbolic execution *)
Ltac wp_step :=
  lazymatch goal with
  | |- wp (bindM ?hd _) _ _ _ =>
      lazymatch hd with
      | getS => apply wp_bind | cfgM => apply wp_bind | replyCount => apply wp_bind
      | sessM _ => apply wp_bind | chanM _ => apply wp_bind | nickM _ => apply wp_bind
      | param _ _ => apply wp_bind | liftR _ => apply wp_bind | retM _ => apply wp_bind
      | emit _ _ => apply wp_bind | reply_num _ _ _ => apply wp_bind | reply_svc _ _ => apply wp_bind
      | prefix_name _ => apply wp_bind | msg_prefix _ => apply wp_bind
      | bindM _ _ => apply wp_bind
      | whenM _ (emit _ _) => apply wp_bind | whenM _ (reply_num _ _ _) => apply wp_bind
      | (if _ then _ else _) => apply wp_bind
      | (match _ with _ => _ end) => apply wp_bind
      end
  | |- wp (retM _) _ _ _ => apply wp_ret
  | |- wp getS _ _ _ => apply wp_getS
  | |- wp cfgM _ _ _ => apply wp_cfgM
  | |- wp replyCount _ _ _ => apply wp_replyCount
  | |- wp (emit _ _) _ _ _ => apply wp_emit; intros ? ?
  | |- wp (reply_num _ _ _) _ _ _ => apply wp_reply_num; intros ? ?
  | |- wp (reply_svc _ _) _ _ _ => apply wp_reply_svc; intros ? ?
  | |- wp (whenM _ _) _ _ _ => apply wp_whenM; intros ?
  | |- wp (chanM _) _ _ _ => apply wp_chanM
  | |- wp (nickM _) _ _ _ => apply wp_nickM
  | |- wp (sessM ?k) _ _ _ => eapply wp_sessM; [eassumption|]
  | |- wp (param _ _) _ _ _ => apply wp_param; [cbn in *; lia|intros ? ?]
  | |- wp (liftR _) _ _ _ => apply wp_liftR_ex; [|intros ? ?]
  | |- wp (if ?b then _ else _) _ _ _ => destruct b eqn:?
  | |- wp (match ?x with _ => _ end) _ _ _ => destruct x eqn:?
  | |- wp (let _ := _ in _) _ _ _ => cbv zeta
  end.

Lemma cmd_motd_ok k m sv r s : sv_sessions sv !! k = Some s -> wp (cmd_motd k m) (unchanged sv) sv r.
Proof. intros Hs. unfold cmd_motd. repeat wp_step. reflexivity. Qed.

Lemma cmd_ping_ok k m sv r s : sv_sessions sv !! k = Some s -> wp (cmd_ping k m) (unchanged sv) sv r.
Proof. intros Hs. unfold cmd_ping. repeat wp_step; reflexivity. Qed.

(* ---- helpers for the read-only handlers ------------------------------------------------------ *)
Lemma collectM_ok {A B} (l : list A) (f : A -> res (option B)) :
  (forall x, In x l -> exists o, f x = Ok o) -> exists bs, collectM l f = Ok bs.
Proof.
  induction l as [|x l IH]; intros H; cbn [collectM].
  - now eexists.
  - destruct (H x (or_introl eq_refl)) as [o ->].
    destruct IH as [bs ->]; [intros y Hy; apply H; now right|]. now eexists.
Qed.

Lemma member_session_ok sv lc c n p :
  InvM sv -> sv_channels sv !! lc = Some c -> c_nicks c !! n = Some p ->
  exists t, member_session sv n = Ok t.
Proof.
  intros I Hc Hn. destruct (i_memb_c sv I _ _ _ _ Hc Hn) as (k & s & Hk & Hs & _).
  unfold member_session. rewrite Hk, Hs. now eexists.
Qed.

Lemma member_session_indexed sv n k :
  InvM sv -> sv_nicks sv !! n = Some k -> exists t, member_session sv n = Ok t.
Proof.
  intros I Hk. destruct (inv_index_session sv n k I Hk) as [s Hs]. unfold member_session. rewrite Hk, Hs. now eexists.
Qed.

(* obligations "this recipient computation / collection does not fail" *)
Ltac solve_ok :=
  lazymatch goal with
  | |- exists a, rc_channel _ _ = Ok a => eapply rc_channel_ok; eassumption
  | |- exists a, rc_channel_but _ _ _ = Ok a => eapply rc_channel_but_ok; eassumption
  | |- exists a, rc_common _ _ = Ok a => eapply rc_common_ok; eassumption
  end.

Lemma cmd_names_ok k m sv r : InvM sv -> present sv k -> wp (cmd_names k m) (unchanged sv) sv r.
Proof.
  intros I [s Hs]. unfold cmd_names. repeat wp_step; try reflexivity.
  apply collectM_ok. intros [n p] Hin. apply elem_of_list_In, elem_of_map_to_list in Hin. cbn [fst snd].
  match goal with Hc : sv_channels sv !! _ = Some _ |- _ =>
    destruct (member_session_ok sv _ _ _ _ I Hc Hin) as [t ->] end.
  destruct (_ && _); now eexists.
Qed.

Lemma collectM_In {A B} (l : list A) (f : A -> res (option B)) bs b :
  collectM l f = Ok bs -> In b bs -> exists x, In x l /\ f x = Ok (Some b).
Proof.
  revert bs. induction l as [|x l IH]; intros bs H Hb; cbn [collectM] in H.
  - injection H as <-. destruct Hb.
  - destruct (f x) as [o| |] eqn:Hx; try discriminate.
    destruct (collectM l f) as [bs'| |] eqn:Hl; try discriminate. injection H as <-.
    destruct o as [b'|].
    + destruct Hb as [->|Hb].
      * exists x. split; [now left|exact Hx].
      * destruct (IH _ eq_refl Hb) as (y & Hy & Hfy). exists y. split; [now right|exact Hfy].
    + destruct (IH _ eq_refl Hb) as (y & Hy & Hfy). exists y. split; [now right|exact Hfy].
Qed.

Lemma insert_sorted_In x y l : In y (insert_sorted x l) <-> y = x \/ In y l.
Proof.
  induction l as [|z l IH]; cbn [insert_sorted].
  - cbn. intuition.
  - destruct (String.leb x z); cbn; [intuition|]. rewrite IH. intuition.
Qed.
Lemma sort_strings_In y l : In y (sort_strings l) <-> In y l.
Proof.
  unfold sort_strings. induction l as [|x l IH]; cbn [fold_right]; [reflexivity|].
  rewrite insert_sorted_In, IH. cbn. intuition.
Qed.

Lemma cmd_who_ok k m sv r : InvM sv -> present sv k -> wp (cmd_who k m) (unchanged sv) sv r.
Proof.
  intros I [s Hs]. unfold cmd_who. repeat wp_step; try reflexivity.
  - apply collectM_ok. intros [n p] Hin. apply elem_of_list_In, elem_of_map_to_list in Hin. cbn [fst snd].
    match goal with Hc : sv_channels sv !! _ = Some _ |- _ =>
      destruct (member_session_ok sv _ _ _ _ I Hc Hin) as [t ->] end.
    match goal with |- context [if ?b then _ else _] => destruct b end; now eexists.
  - (* the loop over the collected nicks *)
    apply wp_bind. eapply wp_mono.
    + apply (wp_forM _ _ (fun sv' _ => sv' = sv)); [reflexivity|].
      intros nick sv' r' Hin ->. apply (proj1 (sort_strings_In _ _)) in Hin.
      match goal with Hcol : collectM _ _ = Ok _ |- _ =>
        destruct (collectM_In _ _ _ _ Hcol Hin) as ([n p] & Hnp & Hf) end.
      apply elem_of_list_In, elem_of_map_to_list in Hnp. cbn [fst snd] in Hf.
      match goal with Hc : sv_channels sv !! _ = Some _ |- _ =>
        destruct (i_memb_c sv I _ _ _ _ Hc Hnp) as (k2 & s2 & Hk2 & Hs2 & _) end.
      unfold member_session in Hf. rewrite Hk2, Hs2 in Hf.
      destruct (i_idx_sound sv I _ _ Hk2) as (_ & s3 & Hs3 & _ & Hl3). rewrite Hs2 in Hs3. injection Hs3 as <-.
      assert (nick = s_nick s2) by (match type of Hf with context [if ?b then _ else _] => destruct b end; congruence). subst nick.
      repeat wp_step; try reflexivity.
      unfold member_session. rewrite Hl3, Hk2, Hs2. now eexists.
    + intros [] sv' r' ->. repeat wp_step. reflexivity.
Qed.

Lemma cmd_whois_ok k m sv r :
  InvM sv -> present sv k -> 1 <= nparams m -> wp (cmd_whois k m) (unchanged sv) sv r.
Proof.
  intros I [s Hs] Hp. unfold cmd_whois. wp_step. wp_step.
  repeat wp_step; try reflexivity.
  - (* the target session exists *)
    match goal with Hk : sv_nicks sv !! _ = Some ?tk |- _ =>
      destruct (inv_index_session sv _ _ I Hk) as [t Ht]; eapply wp_sessM; [exact Ht|];
      destruct (i_idx_sound sv I _ _ Hk) as (_ & t' & Ht' & Htd & _); rewrite Ht in Ht'; injection Ht' as <- end.
    repeat wp_step; try reflexivity.
    apply collectM_ok. intros ch Hin. apply elem_of_list_In, elem_of_elements in Hin.
    destruct (i_memb_s sv I _ _ _ Ht Htd Hin) as (c & Hc & [[o v] Hm]). rewrite Hc.
    match goal with |- context [if ?b then _ else _] => destruct b end; [now eexists|].
    rewrite Hm. now eexists.
Qed.

(* dereferencing an index entry *)
Ltac wp_sess_of_index I :=
  lazymatch goal with
  | |- wp (sessM ?tk) _ ?sv _ =>
      match goal with Hk : sv_nicks sv !! _ = Some tk |- _ =>
        let t := fresh "t" in let Ht := fresh "Ht" in let Htd := fresh "Htd" in let Htl := fresh "Htl" in
        destruct (i_idx_sound sv I _ _ Hk) as (_ & t & Ht & Htd & Htl); eapply wp_sessM; [exact Ht|]
      end
  end.

Lemma cmd_list_ok k m sv r : InvM sv -> present sv k -> wp (cmd_list k m) (unchanged sv) sv r.
Proof.
  intros I [s Hs]. unfold cmd_list. wp_step. wp_step. wp_step. wp_step. cbv zeta.
  apply wp_bind. eapply wp_mono.
  - apply (wp_forM _ _ (fun sv' _ => sv' = sv)); [reflexivity|].
    intros lc sv' r' Hin ->.
    assert (Hex : is_Some (sv_channels sv !! lc)).
    { match type of Hin with In _ (if ?b then _ else _) => destruct b end.
      - apply filter_In in Hin. destruct Hin as [_ Hin]. now apply bool_decide_eq_true in Hin.
      - apply (proj1 (sort_strings_In _ _)) in Hin. apply elem_of_list_In, elem_of_list_fmap in Hin.
        destruct Hin as ([lc' c] & -> & Hin). apply elem_of_map_to_list in Hin. now exists c. }
    destruct Hex as [c Hc]. rewrite Hc. repeat wp_step; reflexivity.
  - intros [] sv' r' ->. repeat wp_step. reflexivity.
Qed.

Lemma cmd_ison_ok k m sv r : InvM sv -> present sv k -> wp (cmd_ison k m) (unchanged sv) sv r.
Proof.
  intros I [s Hs]. unfold cmd_ison. repeat wp_step; try reflexivity.
  apply collectM_ok. intros n Hin. destruct (sv_nicks sv !! nick_to_lower n) as [tk|] eqn:Hk; [|now eexists].
  destruct (inv_index_session sv _ _ I Hk) as [t ->]. now eexists.
Qed.

Lemma cmd_userhost_ok k m sv r : InvM sv -> present sv k -> wp (cmd_userhost k m) (unchanged sv) sv r.
Proof.
  intros I [s Hs]. unfold cmd_userhost. repeat wp_step; try reflexivity.
  apply collectM_ok. intros n Hin. destruct (sv_nicks sv !! nick_to_lower n) as [tk|] eqn:Hk; [|now eexists].
  destruct (inv_index_session sv _ _ I Hk) as [t ->]. now eexists.
Qed.

Lemma cmd_knock_ok k m sv r :
  InvM sv -> present sv k -> 1 <= nparams m -> wp (cmd_knock k m) (unchanged sv) sv r.
Proof.
  intros I [s Hs] Hp. unfold cmd_knock. repeat wp_step; try reflexivity. solve_ok.
Qed.

Lemma cmd_privmsg_ok k m sv r : InvM sv -> present sv k -> wp (cmd_privmsg k m) (unchanged sv) sv r.
Proof.
  intros I [s Hs]. unfold cmd_privmsg. repeat wp_step; try reflexivity; try solve_ok.
  wp_sess_of_index I. repeat wp_step; reflexivity.
Qed.

Lemma service_alias_shape c e : service_alias c = Some e -> exists r, e = String "P" (String "R" r).
Proof.
  unfold service_alias. cbn [assoc_str].
  repeat (destruct (String.eqb c _); [intros [= <-]; eexists; reflexivity|]). discriminate.
Qed.

Lemma cmd_service_alias_ok k m sv r :
  InvM sv -> present sv k -> wp (cmd_service_alias k m) (unchanged sv) sv r.
Proof.
  intros I Hk. unfold cmd_service_alias. destruct (service_alias (to_upper (m_cmd m))) as [expanded|] eqn:He.
  - destruct (service_alias_shape _ _ He) as [rest ->].
    destruct (parse_message (String "P" (String "R" rest) ++ sjoin " " (m_params m))) as [p|] eqn:Hp.
    + now apply cmd_privmsg_ok.
    + exfalso. cbn [String.append] in Hp. revert Hp. apply parse_message_some_2; [now left|reflexivity].
  - apply wp_ret. reflexivity.
Qed.

(* ---- Good-preserving primitive steps -------------------------------------------------------- *)
Record Fine (k : N * N) (sv : server) : Prop := {
  f_inv : InvM sv;
  f_present : present sv k;
  f_disc : Disc k sv;
  f_auth : auth_ok sv;
  f_login : login_ok sv;
}.

Lemma Good_Fine k sv : Good k sv -> Fine k sv.
Proof. intros [I L D K0 A Lg]. split; [exact I|now apply live_present|exact D|exact A|exact Lg]. Qed.

(* everything the handlers look at besides sessions: unchanged by a session update *)
Definition rest_same (sv sv' : server) : Prop :=
  sv_nicks sv' = sv_nicks sv /\ sv_channels sv' = sv_channels sv /\ sv_config sv' = sv_config sv /\
  sv_svsholds sv' = sv_svsholds sv /\ sv_netname sv' = sv_netname sv /\ sv_serverSessions sv' = sv_serverSessions sv.

Lemma Good_flags k sv sv' : Good k sv -> InvM sv' -> flags_same sv sv' -> Good k sv'.
Proof.
  intros [I L D K0 A Lg] I' F. split; [exact I'|eapply flags_same_live; eauto|eapply flags_same_Disc; eauto|exact K0|eapply flags_same_auth; eauto|eapply flags_same_login; eauto].
Qed.
Lemma Fine_flags k sv sv' : Fine k sv -> InvM sv' -> flags_same sv sv' -> Fine k sv'.
Proof.
  intros [I L D A Lg] I' F. split; [exact I'|eapply flags_same_present; eauto|eapply flags_same_Disc; eauto|eapply flags_same_auth; eauto|eapply flags_same_login; eauto].
Qed.

Definition upd_sess_state (k' : N * N) (f : session -> session) (sv : server) : server :=
  set_sessions (fun m => match m !! k' with Some s => <[k' := f s]> m | None => m end) sv.

Lemma wp_updSess_good_at k k' f sv r :
  sess_same f -> (forall s, sv_sessions sv !! k' = Some s -> flags (f s) = flags s) -> Good k sv ->
  wp (updSess k' f) (fun _ sv' _ => Good k sv' /\ rest_same sv sv' /\
        (forall k2, sv_sessions sv' !! k2 = (if bool_decide (k' = k2) then f else id) <$> (sv_sessions sv !! k2))) sv r.
Proof.
  intros Hf Hk G. apply wp_updSess. split; [|split].
  - eapply Good_flags; [exact G|apply InvM_updSess_same; [exact Hf|apply G]|now apply flags_same_updSess_at].
  - repeat split.
  - intros k2. cbn [sv_sessions set_sessions]. rewrite lookup_upd_sess.
    destruct (bool_decide (k' = k2)), (sv_sessions sv !! k2); reflexivity.
Qed.

Lemma wp_updSess_good k k' f sv r :
  sess_same f -> flags_keep f -> Good k sv ->
  wp (updSess k' f) (fun _ sv' _ => Good k sv' /\ rest_same sv sv' /\
        (forall k2, sv_sessions sv' !! k2 = (if bool_decide (k' = k2) then f else id) <$> (sv_sessions sv !! k2))) sv r.
Proof.
  intros Hf Hk G. apply wp_updSess. split; [|split].
  - eapply Good_flags; [exact G|apply InvM_updSess_same; [exact Hf|apply G]|now apply flags_same_updSess].
  - repeat split.
  - intros k2. cbn [sv_sessions set_sessions]. rewrite lookup_upd_sess.
    destruct (bool_decide (k' = k2)), (sv_sessions sv !! k2); reflexivity.
Qed.

Lemma wp_updChan_good k lc f sv r :
  chan_same f -> Good k sv ->
  wp (updChan lc f) (fun _ sv' _ => Good k sv' /\ sv_sessions sv' = sv_sessions sv /\ sv_nicks sv' = sv_nicks sv /\
        sv_config sv' = sv_config sv /\ sv_netname sv' = sv_netname sv /\ sv_serverSessions sv' = sv_serverSessions sv /\
        (forall lc2, sv_channels sv' !! lc2 = (if bool_decide (lc = lc2) then f else id) <$> (sv_channels sv !! lc2))) sv r.
Proof.
  intros Hf G. apply wp_updChan. split; [|repeat split].
  - eapply Good_flags; [exact G|apply InvM_updChan_same; [exact Hf|apply G]|now apply flags_same_other].
  - intros lc2. cbn [sv_channels set_channels]. rewrite lookup_upd_chan.
    destruct (bool_decide (lc = lc2)), (sv_channels sv !! lc2); reflexivity.
Qed.

Lemma Good_other k sv sv' :
  sv_sessions sv' = sv_sessions sv -> sv_nicks sv' = sv_nicks sv -> sv_channels sv' = sv_channels sv ->
  Good k sv -> Good k sv'.
Proof.
  intros Hs Hn Hc G. eapply Good_flags; [exact G|eapply InvM_other; eauto; apply G|now apply flags_same_other].
Qed.

(* apply a Good-style specification to the head of a bind and continue with a fresh state *)
Ltac wp_apply lem :=
  apply wp_bind; eapply wp_mono; [eapply lem; eauto|cbv beta; intros ? ? ? ?].
Ltac wp_apply_last lem :=
  eapply wp_mono; [eapply lem; eauto|cbv beta; intros ? ? ? ?].

(* sess_same / flags_keep / chan_same side conditions are by computation *)
Ltac solve_same :=
  first [ (intros ?; repeat split; reflexivity) | (intros ?; reflexivity) ].

Ltac wp_sess_acting G :=
  lazymatch goal with
  | |- wp (sessM ?k) _ ?sv _ =>
      let s := fresh "s" in let Hs := fresh "Hs" in let Hd := fresh "Hd" in
      destruct (g_live k sv G) as (s & Hs & Hd); eapply wp_sessM; [exact Hs|]
  end.

Definition good_post (k : N * N) : unit -> server -> rctx -> Prop := fun _ sv' _ => Good k sv'.

Lemma unchanged_good k sv (m : M unit) r :
  Good k sv -> wp m (unchanged sv) sv r -> wp m (good_post k) sv r.
Proof. intros G H. eapply wp_mono; [exact H|]. intros [] sv' r' ->. exact G. Qed.

Lemma cmd_away_ok k m sv r : Good k sv -> wp (cmd_away k m) (good_post k) sv r.
Proof.
  intros G. unfold cmd_away. wp_apply wp_updSess_good; try solve_same.
  destruct H as (G1 & _). apply wp_bind. wp_sess_acting G1. repeat wp_step; exact G1.
Qed.

(* cmd_oper sets the operator flag of the acting session: the discipline can only get weaker *)
Lemma Good_set_operator k sv :
  Good k sv ->
  Good k (upd_sess_state k (fun s => ss_modes (set_mode 111 true) (ss_operator true s)) sv).
Proof.
  intros [I L D K0 A Lg]. set (f := fun s => ss_modes (set_mode 111 true) (ss_operator true s)).
  assert (I' : InvM (upd_sess_state k f sv)) by (apply InvM_updSess_same; [solve_same|exact I]).
  destruct L as (s & Hs & Hd).
  assert (Hl : forall k2, sv_sessions (upd_sess_state k f sv) !! k2 = (if bool_decide (k = k2) then f else id) <$> (sv_sessions sv !! k2)).
  { intros k2. unfold upd_sess_state. cbn [sv_sessions set_sessions]. rewrite lookup_upd_sess.
    destruct (bool_decide (k = k2)), (sv_sessions sv !! k2); reflexivity. }
  split; [exact I'| | |exact K0| |].
  - exists (f s). rewrite Hl, bool_decide_true, Hs by reflexivity. split; [reflexivity|exact Hd].
  - intros k2 s2. rewrite Hl. destruct (sv_sessions sv !! k2) as [s0|] eqn:Hs0; [|discriminate].
    cbn. intros [= <-] Hd2.
    assert (Hd0 : s_deleted s0 = true) by (destruct (bool_decide (k = k2)); exact Hd2).
    destruct (D _ _ Hs0 Hd0) as [->|(sp & Hsp & Hp)]; [now left|]. right.
    exists (f sp). rewrite Hl, bool_decide_true, Hsp by reflexivity. split; [reflexivity|].
    cbn. apply orb_true_r.
  - intros k2 s2. rewrite Hl. destruct (sv_sessions sv !! k2) as [s0|] eqn:Hs0; [|discriminate].
    cbn. intros [= <-] Hk0. specialize (A k2 s0 Hs0 Hk0). destruct (bool_decide (k = k2)); exact A.
  - intros k2 s2. rewrite Hl. destruct (sv_sessions sv !! k2) as [s0|] eqn:Hs0; [|discriminate].
    cbn. intros [= <-]. specialize (Lg k2 s0 Hs0). destruct (bool_decide (k = k2)); exact Lg.
Qed.

Lemma cmd_oper_ok k m sv r : Good k sv -> 2 <= nparams m -> wp (cmd_oper k m) (good_post k) sv r.
Proof.
  intros G Hp. unfold cmd_oper. repeat wp_step.
  wp_sess_acting G. wp_step.
  - repeat wp_step. exact G.
  - apply wp_bind, wp_updSess. pose proof (Good_set_operator k sv G) as G1. unfold upd_sess_state in G1.
    apply wp_bind. wp_sess_acting G1. repeat wp_step. exact G1.
Qed.

Lemma rest_same_refl sv : rest_same sv sv.
Proof. repeat split. Qed.
Lemma rest_same_trans a b c : rest_same a b -> rest_same b c -> rest_same a c.
Proof. intros (A1&A2&A3&A4&A5&A6) (B1&B2&B3&B4&B5&B6). repeat split; congruence. Qed.

(* the nickname and channel list of every session are unchanged *)
Definition nicks_same (sv sv' : server) : Prop :=
  forall k2, (fun s => (s_nick s, s_channels s)) <$> (sv_sessions sv' !! k2) =
             (fun s => (s_nick s, s_channels s)) <$> (sv_sessions sv !! k2).
Lemma nicks_same_refl sv : nicks_same sv sv.
Proof. intros k2. reflexivity. Qed.

Definition good_rest (k : N * N) (sv : server) {A} : A -> server -> rctx -> Prop :=
  fun _ sv' _ => Good k sv' /\ rest_same sv sv' /\ nicks_same sv sv'.

Lemma verify_captcha_ok e k c sv r :
  Good k sv -> wp (verify_captcha e k c) (good_rest k sv) sv r.
Proof.
  intros G. unfold verify_captcha. apply wp_bind. wp_sess_acting G.
  repeat wp_step; try (lazymatch goal with |- good_rest _ _ _ _ _ => split; [exact G|split; [apply rest_same_refl|apply nicks_same_refl]] end).
  wp_apply wp_updSess_good; try solve_same.
  match goal with H : _ /\ _ /\ _ |- _ => destruct H as (G1 & R1 & L1) end. wp_step. split; [exact G1|split; [exact R1|]].
  intros k2. rewrite L1. destruct (bool_decide (k = k2)), (sv_sessions sv !! k2); reflexivity.
Qed.

Lemma captcha_url_check_ok k sv r : Good k sv -> wp (captcha_url_check k) (unchanged sv) sv r.
Proof.
  intros G. unfold captcha_url_check. apply wp_bind. wp_sess_acting G. wp_step.
  - exfalso. pose proof (g_auth k sv G k s Hs (g_key0 k sv G)) as Ha.
    match goal with Hlt : Nat.ltb _ 8 = true |- _ => apply Nat.ltb_lt in Hlt; lia end.
  - wp_step. reflexivity.
Qed.

Lemma good_of_rest k sv {A} (a : A) sv' r' : good_rest k sv a sv' r' -> Good k sv'.
Proof. intros [G _]. exact G. Qed.

Lemma maybe_login_ok e k m sv r : Good k sv -> wp (maybe_login e k m) (good_post k) sv r.
Proof.
  intros G. unfold maybe_login. apply wp_bind. wp_sess_acting G.
  wp_step; [wp_step; exact G|]. wp_step; [wp_step; exact G|].
  wp_step. wp_step.
  (* the captcha test *)
  apply wp_bind. eapply (wp_mono _ (good_rest k sv)).
  { destruct (g_captchaLogin (sv_config sv)).
    - apply verify_captcha_ok; exact G.
    - apply wp_ret. split; [exact G|split; [apply rest_same_refl|apply nicks_same_refl]]. }
  intros ok sv1 r1 (G1 & _ & N1). cbv beta. destruct (negb ok).
  - wp_apply captcha_url_check_ok. match goal with H : unchanged _ _ _ _ |- _ => red in H; subst end. repeat wp_step. exact G1.
  - assert (Hnick1 : forall s1, sv_sessions sv1 !! k = Some s1 -> s_nick s1 <> "").
    { intros s1 Hs1. specialize (N1 k). rewrite Hs1, Hs in N1. cbn in N1. injection N1 as -> _.
      match goal with Hb : is_empty (s_nick s) || _ = false |- _ =>
        apply orb_false_iff in Hb; destruct Hb as [Hb _]; now apply is_empty_false in Hb end. }
    wp_apply wp_updSess_good_at; [solve_same| |].
    { intros s1 Hs1. pose proof (g_login _ _ G1 k s1 Hs1) as Hb. specialize (Hnick1 s1 Hs1).
      unfold flags. cbn. f_equal. unfold login_bit in *. cbn. rewrite Hb.
      destruct (s_nick s1); [congruence|reflexivity]. }
    match goal with H : _ /\ _ /\ _ |- _ => destruct H as (G2 & _ & _) end.
    wp_step. wp_step. apply wp_bind. wp_sess_acting G2.
    repeat wp_step.
    (* what remains: the impossible nil result of ParseMessage, the nested OPER, and the tail *)
    all: try (exfalso; match goal with Hp : parse_message _ = None |- _ =>
                revert Hp; cbn [String.append]; apply parse_message_some_2; [right; now left|reflexivity] end).
    all: try (eapply wp_mono; [apply cmd_oper_ok; [exact G2|
                match goal with Hlt : Nat.ltb 1 _ = true |- _ => apply Nat.ltb_lt in Hlt; lia end]|
                intros [] ? ? ?; cbv beta]).
    all: unfold good_post in * |-.
    all: lazymatch goal with |- wp _ _ ?svx _ =>
           match goal with GG : Good _ svx |- _ =>
             apply wp_bind; eapply wp_mono; [eapply wp_updSess_good; [solve_same|solve_same|exact GG]|];
             cbv beta; intros ? ? ? (G5 & _ & _);
             apply unchanged_good; [exact G5|]; destruct (g_live _ _ G5) as (s5 & Hs5 & _); eapply cmd_motd_ok; eauto
           end end.
Qed.

Lemma cmd_user_ok e k m sv r : Good k sv -> 1 <= nparams m -> wp (cmd_user e k m) (good_post k) sv r.
Proof.
  intros G Hp. unfold cmd_user. repeat wp_step.
  wp_apply wp_updSess_good; try solve_same.
  match goal with H : _ /\ _ /\ _ |- _ => destruct H as (G1 & _ & _) end. now apply maybe_login_ok.
Qed.

Lemma cmd_pass_ok e k m sv r : Good k sv -> wp (cmd_pass e k m) (good_post k) sv r.
Proof.
  intros G. unfold cmd_pass.
  apply wp_bind. eapply (wp_mono _ (fun _ sv' _ => Good k sv')).
  { apply wp_whenM; intros _; [|exact G]. wp_apply_last wp_updSess_good; try solve_same.
    match goal with H : _ /\ _ /\ _ |- _ => destruct H as (G1 & _ & _) end. exact G1. }
  intros [] sv1 r1 G1. cbv beta. apply wp_bind. wp_sess_acting G1.
  apply wp_bind. eapply (wp_mono _ (fun _ sv' _ => Good k sv')).
  { apply wp_whenM; intros _; [|exact G1]. wp_apply_last wp_updSess_good; try solve_same.
    match goal with H : _ /\ _ /\ _ |- _ => destruct H as (G2 & _ & _) end. exact G2. }
  intros [] sv2 r2 G2. cbv beta. now apply maybe_login_ok.
Qed.

Lemma change_nick_good ka k s nick onlyCaps sv r :
  Good ka sv -> sv_sessions sv !! k = Some s -> s_deleted s = false ->
  valid_nick nick = true ->
  (onlyCaps = true -> nick_to_lower nick = nick_to_lower (s_nick s)) ->
  (onlyCaps = false -> sv_nicks sv !! nick_to_lower nick = None) ->
  wp (change_nick k nick (nick_to_lower (s_nick s)) onlyCaps) (good_post ka) sv r.
Proof.
  intros G Hs Hd Hv Hc Hf. apply wp_change_nick. unfold good_post.
  eapply Good_flags; [exact G| |apply flags_same_nick; [now apply valid_nick_nonempty|intros s0 Hs0; eapply (g_login _ _ G); eauto]].
  eapply InvM_change_nick; eauto. apply G.
Qed.

Lemma wp_modS_good k f sv r :
  (sv_sessions (f sv) = sv_sessions sv) -> (sv_nicks (f sv) = sv_nicks sv) -> (sv_channels (f sv) = sv_channels sv) ->
  Good k sv -> wp (modS f) (good_post k) sv r.
Proof. intros H1 H2 H3 G. apply wp_modS. unfold good_post. eapply Good_other; eauto. Qed.

Lemma cmd_nick_ok e k m sv r : Good k sv -> wp (cmd_nick e k m) (good_post k) sv r.
Proof.
  intros G. unfold cmd_nick. apply wp_bind. wp_sess_acting G. wp_step. wp_step. cbv zeta.
  set (nick := match m_params m with p :: _ => p | [] => "" end).
  wp_step; [repeat wp_step; exact G|].
  wp_step; [repeat wp_step; exact G|].
  wp_step; [repeat wp_step; exact G|].
  (* facts established by the three tests *)
  match goal with Hv : negb (valid_nick nick) = false |- _ => apply negb_false_iff in Hv; rename Hv into Hvalid end.
  match goal with Ht : _ || is_services_nick nick = false |- _ =>
    apply orb_false_iff in Ht; destruct Ht as [Hidx _] end.
  set (onlyCaps := s_loggedIn s && String.eqb (nick_to_lower nick) (nick_to_lower (if s_loggedIn s then s_nick s else "*"))) in *.
  assert (Hcaps : onlyCaps = true -> nick_to_lower nick = nick_to_lower (s_nick s)).
  { unfold onlyCaps. intros H. apply andb_true_iff in H. destruct H as [Hl He]. rewrite Hl in He. now apply String.eqb_eq in He. }
  assert (Hfree : onlyCaps = false -> sv_nicks sv !! nick_to_lower nick = None).
  { intros Ho. rewrite Ho in Hidx. rewrite andb_true_r in Hidx. apply bool_decide_eq_false in Hidx.
    destruct (sv_nicks sv !! nick_to_lower nick); [exfalso; apply Hidx; now eexists|reflexivity]. }
  (* the SVSHOLD test: the state changes at most in svsholds *)
  apply wp_bind. eapply (wp_mono _ (fun _ sv' _ => Good k sv' /\ sv_sessions sv' = sv_sessions sv /\ sv_nicks sv' = sv_nicks sv)).
  { destruct (sv_svsholds sv !! nick_to_lower nick) as [h|].
    - wp_step.
      + repeat wp_step. auto.
      + apply wp_bind, wp_modS, wp_ret. split; [|split; reflexivity]. apply (Good_other k sv); [reflexivity|reflexivity|reflexivity|exact G].
    - wp_step. auto. }
  intros held sv1 r1 (G1 & Hs1 & Hn1). cbv beta.
  wp_step; [wp_step; exact G1|]. wp_step; [wp_step; exact G1|].
  assert (Hsk1 : sv_sessions sv1 !! k = Some s) by (rewrite Hs1; exact Hs).
  wp_apply change_nick_good; [now rewrite Hn1; auto|].
  match goal with H : good_post _ _ _ _ |- _ => unfold good_post in H; rename H into G2 end.
  wp_step.
  - wp_step. wp_step. wp_step. wp_sess_acting G2. repeat wp_step; [eapply rc_common_ok; apply G2|exact G2].
  - now apply maybe_login_ok.
Qed.

Lemma in_set_true x (m : gset string) : in_set x m = true <-> x ∈ m.
Proof. unfold in_set. apply bool_decide_eq_true. Qed.
Lemma in_set_false x (m : gset string) : in_set x m = false <-> x ∉ m.
Proof. unfold in_set. apply bool_decide_eq_false. Qed.

(* the acting live session is a member of every channel it lists *)
Lemma acting_member sv k s lc c :
  InvM sv -> sv_sessions sv !! k = Some s -> s_deleted s = false -> lc ∈ s_channels s ->
  sv_channels sv !! lc = Some c -> is_Some (c_nicks c !! nick_to_lower (s_nick s)).
Proof.
  intros I Hs Hd Hin Hc. destruct (i_memb_s sv I _ _ _ Hs Hd Hin) as (c' & Hc' & Hm). congruence.
Qed.

Lemma wp_chanop_of c n (Q : bool -> server -> rctx -> Prop) sv r :
  is_Some (c_nicks c !! n) -> (forall o, Q o sv r) -> wp (chanop_of c n) Q sv r.
Proof. intros [[o v] H] HQ. unfold chanop_of. rewrite H. apply wp_ret, HQ. Qed.

Lemma cmd_topic_ok k m sv r : Good k sv -> 1 <= nparams m -> wp (cmd_topic k m) (good_post k) sv r.
Proof.
  intros G Hp. unfold cmd_topic. wp_step. wp_step. apply wp_bind. wp_sess_acting G. wp_step. wp_step. cbv zeta.
  wp_step; [|repeat wp_step; exact G].
  wp_step; [repeat wp_step; exact G|].
  match goal with Hi : negb (in_set _ _) = false |- _ => apply negb_false_iff, in_set_true in Hi; rename Hi into Hin end.
  match goal with Hc : sv_channels sv !! _ = Some ?c |- _ =>
    pose proof (acting_member sv k s _ c (g_inv _ _ G) Hs Hd Hin Hc) as Hmem; rename Hc into Hchan end.
  assert (Hrc : exists ids, rc_channel sv c = Ok ids) by (eapply rc_channel_ok; [apply G|exact Hchan]).
  wp_step.
  - (* clear the topic *)
    apply wp_bind, wp_chanop_of; [exact Hmem|intros o]. wp_step; [repeat wp_step; exact G|].
    wp_apply wp_updChan_good; [intros ?; split; reflexivity|].
    match goal with H : Good _ _ /\ _ |- _ => destruct H as (G1 & _) end.
    repeat wp_step; [exact Hrc|exact G1].
  - wp_step.
    + repeat wp_step; exact G.
    + apply wp_bind, wp_chanop_of; [exact Hmem|intros o]. wp_step; [repeat wp_step; exact G|].
      wp_apply wp_updChan_good; [intros ?; split; reflexivity|].
      match goal with H : Good _ _ /\ _ |- _ => destruct H as (G1 & _) end.
      repeat wp_step; [exact Hrc|exact G1].
Qed.

(* ---- MODE ------------------------------------------------------------------------------------ *)
Lemma wp_updChan_at_good k lc f sv r :
  (forall c, sv_channels sv !! lc = Some c -> c_name (f c) = c_name c /\ dom (c_nicks (f c)) = dom (c_nicks c)) ->
  Good k sv ->
  wp (updChan lc f) (fun _ sv' _ => Good k sv' /\ (is_Some (sv_channels sv !! lc) -> is_Some (sv_channels sv' !! lc))) sv r.
Proof.
  intros Hf G. apply wp_updChan. split.
  - eapply Good_flags; [exact G|apply InvM_updChan_at; [exact Hf|apply G]|now apply flags_same_other].
  - intros [c Hc]. cbn [sv_channels set_channels]. rewrite Hc, lookup_insert. now eexists.
Qed.

Definition mode_inv (k : N * N) (lc : string) : server -> Prop :=
  fun sv => Good k sv /\ is_Some (sv_channels sv !! lc).

Lemma cmd_mode_chan_step_ok k lc channelname isChanOp mode queryOnly sv r :
  mode_inv k lc sv ->
  wp (cmd_mode_chan_step k lc channelname isChanOp mode queryOnly) (fun _ sv' _ => mode_inv k lc sv') sv r.
Proof.
  intros [G [c0 Hc0]]. unfold cmd_mode_chan_step. apply wp_bind. wp_sess_acting G. wp_step. wp_step. cbv zeta.
  assert (J : mode_inv k lc sv) by (split; [exact G|now exists c0]).
  (* a chan_same update keeps the loop invariant *)
  assert (Hupd : forall f (Q : unit -> server -> rctx -> Prop) r0,
            (forall c, sv_channels sv !! lc = Some c -> c_name (f c) = c_name c /\ dom (c_nicks (f c)) = dom (c_nicks c)) ->
            (forall sv' r', mode_inv k lc sv' -> Q tt sv' r') -> wp (updChan lc f) Q sv r0).
  { intros f Q r0 Hf HQ. eapply wp_mono; [apply wp_updChan_at_good; [exact Hf|exact G]|].
    intros [] sv' r' [G' Hex]. apply HQ. split; [exact G'|apply Hex; now exists c0]. }
  wp_step.
  - wp_step; [repeat wp_step; exact J|].
    apply wp_bind.
    eapply (wp_mono _ (fun _ sv' _ => mode_inv k lc sv')); [|intros [] sv' r' J'; wp_step; exact J'].
    repeat (wp_step; [apply Hupd; [intros c _; split; reflexivity|intros sv' r' J'; exact J']|]).
    wp_step.
    { (* +k / -k *)
      wp_step. wp_step. rewrite Hc0. wp_step.
      - wp_step; [wp_step; exact J|].
        apply wp_bind, Hupd; [intros c _; split; reflexivity|intros sv1 r1 [G1 Hex1]].
        repeat wp_step.
        eapply wp_mono; [apply wp_updChan_at_good; [intros c _; split; reflexivity|exact G1]|].
        intros [] svz rz [G' Hex]. split; [exact G'|now apply Hex].
      - repeat wp_step.
        apply wp_bind, Hupd; [intros c _; split; reflexivity|intros sv1 r1 [G1 Hex1]].
        eapply wp_mono; [apply wp_updChan_at_good; [intros c _; split; reflexivity|exact G1]|].
        intros [] svz rz [G' Hex]. split; [exact G'|now apply Hex]. }
    wp_step.
    { (* +x *) wp_step; [apply Hupd; [intros c _; split; reflexivity|intros sv' r' J'; exact J']|repeat wp_step; exact J]. }
    wp_step.
    { (* +o / -o *)
      wp_step. wp_step. rewrite Hc0. repeat wp_step; try exact J.
      apply Hupd; [|intros sv' r' J'; exact J'].
      intros c Hc. rewrite Hc0 in Hc. injection Hc as <-. split; [reflexivity|]. cbn.
      apply dom_insert_lookup_L. match goal with Hl : c_nicks c0 !! _ = Some _ |- _ => rewrite Hl; now eexists end. }
    wp_step.
    { (* bans *) apply Hupd; [intros c _; split; reflexivity|intros sv' r' J'; exact J']. }
    repeat wp_step. exact J.
  - (* ban list query *)
    wp_step. wp_step. rewrite Hc0. apply wp_bind. eapply (wp_mono _ (fun _ sv' _ => sv' = sv)).
    + apply (wp_forM _ _ (fun sv' _ => sv' = sv)); [reflexivity|]. intros p sv' r' _ ->. repeat wp_step. reflexivity.
    + intros [] sv' r' ->. repeat wp_step. exact J.
Qed.

Lemma cmd_mode_chan_loop_ok k lc channelname isChanOp modes queryOnly sv r :
  mode_inv k lc sv ->
  wp (cmd_mode_chan_loop k lc channelname isChanOp modes queryOnly) (fun _ sv' _ => mode_inv k lc sv') sv r.
Proof.
  revert queryOnly sv r. induction modes as [|md modes IH]; intros queryOnly sv r J; cbn [cmd_mode_chan_loop].
  - apply wp_ret. exact J.
  - apply wp_bind. eapply wp_mono; [apply cmd_mode_chan_step_ok; exact J|].
    intros st sv' r' J'. cbv beta. destruct (fst st); [apply wp_ret; exact J'|]. now apply IH.
Qed.

Lemma cmd_mode_ok k m sv r : Good k sv -> 1 <= nparams m -> wp (cmd_mode k m) (good_post k) sv r.
Proof.
  intros G Hp. unfold cmd_mode. wp_step. wp_step. apply wp_bind. wp_sess_acting G. wp_step. wp_step. cbv zeta.
  wp_step.
  - (* channel mode *)
    match goal with Hi : in_set _ _ = true |- _ => apply in_set_true in Hi; rename Hi into Hin end.
    destruct (i_memb_s sv (g_inv _ _ G) _ _ _ Hs Hd Hin) as (c & Hc & Hmem). rewrite Hc.
    wp_step; [repeat wp_step; exact G|].
    apply wp_bind, wp_chanop_of; [exact Hmem|intros o]. cbv zeta.
    apply wp_bind. eapply wp_mono; [apply cmd_mode_chan_loop_ok; split; [exact G|now exists c]|].
    intros st sv1 r1 [G1 [c1 Hc1]]. cbv beta.
    wp_step; [wp_step; exact G1|]. wp_step; [wp_step; exact G1|].
    wp_step. wp_step. wp_step; [wp_step; exact G1|].
    wp_step. wp_step. apply wp_bind. wp_sess_acting G1. rewrite Hc1.
    repeat wp_step; [eapply rc_channel_ok; [apply G1|exact Hc1]|exact G1].
  - (* user mode *)
    wp_step; [|repeat wp_step; exact G].
    wp_step; [repeat wp_step; exact G|].
    apply wp_bind. wp_sess_of_index (g_inv _ _ G). cbv zeta.
    wp_step; [repeat wp_step; exact G|].
    apply wp_bind. eapply (wp_mono _ (fun _ sv' _ => Good k sv' /\ rest_same sv sv')).
    + apply (wp_forM _ _ (fun sv' _ => Good k sv' /\ rest_same sv sv')); [split; [exact G|apply rest_same_refl]|].
      intros md sv' r' _ [G' R']. wp_step; [|wp_step; auto].
      wp_apply_last wp_updSess_good; try solve_same.
      match goal with H : _ /\ _ /\ _ |- _ => destruct H as (G2 & R2 & _) end.
      split; [exact G2|eapply rest_same_trans; eauto].
    + intros [] sv1 r1 [G1 R1]. cbv beta. apply wp_bind. wp_sess_acting G1.
      destruct R1 as (Hn1 & _).
      match goal with Hk : sv_nicks sv !! _ = Some ?tk |- _ =>
        assert (Htk1 : exists t1, sv_sessions sv1 !! tk = Some t1)
          by (rewrite <- Hn1 in Hk; eapply inv_index_session; [apply G1|exact Hk]) end.
      destruct Htk1 as [t1 Ht1]. apply wp_bind. eapply wp_sessM; [exact Ht1|]. repeat wp_step. exact G1.
Qed.

Lemma cmd_invite_ok k m sv r : Good k sv -> 2 <= nparams m -> wp (cmd_invite k m) (good_post k) sv r.
Proof.
  intros G Hp. unfold cmd_invite. wp_step. wp_step. wp_step. wp_step. apply wp_bind. wp_sess_acting G.
  wp_step. wp_step. cbv zeta.
  wp_step; [|repeat wp_step; exact G].
  wp_step; [|repeat wp_step; exact G].
  wp_step. wp_step; [|repeat wp_step; exact G].
  apply wp_bind. wp_sess_of_index (g_inv _ _ G).
  wp_step; [repeat wp_step; exact G|]. wp_step; [repeat wp_step; exact G|].
  match goal with Hc : sv_channels sv !! _ = Some ?c |- _ =>
    assert (Hrc : exists ids, rc_channel sv c = Ok ids) by (eapply rc_channel_ok; [apply G|exact Hc]) end.
  wp_apply wp_updSess_good; try solve_same.
  match goal with H : _ /\ _ /\ _ |- _ => destruct H as (G1 & _ & _) end.
  repeat wp_step; try exact G1. exact Hrc.
Qed.

(* ---- membership primitives in Good form ------------------------------------------------------- *)
Lemma leave_channel_good k lc c lcnick p tk sv r :
  Good k sv -> sv_channels sv !! lc = Some c -> c_nicks c !! lcnick = Some p -> sv_nicks sv !! lcnick = Some tk ->
  wp (leave_channel lc lcnick tk) (good_post k) sv r.
Proof.
  intros G Hc Hp Hk. apply wp_leave_channel. unfold good_post.
  destruct (InvM_leave sv lc c lcnick p tk (g_inv _ _ G) Hc Hp Hk) as [I' F'].
  eapply Good_flags; eauto.
Qed.

Lemma add_member_good k lc c0 me tk op sv r :
  Good k sv -> chan_ok sv lc c0 -> sv_nicks sv !! me = Some tk ->
  wp (add_member lc c0 me tk op)
     (fun _ sv' _ => Good k sv' /\ sv_channels sv' !! lc = Some (cc_nicks (<[me := (op, false)]>) c0) /\
                     sv_nicks sv' = sv_nicks sv /\ sv_serverSessions sv' = sv_serverSessions sv) sv r.
Proof.
  intros G Hok Hme. apply wp_add_member. split; [|split; [|split; reflexivity]].
  - eapply Good_flags; [exact G|eapply InvM_add_member; eauto; apply G|].
    unfold add_member_state.
    apply (flags_same_trans _ (set_channels (<[lc := cc_nicks (<[me := (op, false)]>) c0]>) sv));
      [apply flags_same_other; reflexivity|].
    apply flags_same_updSess. intros s0. reflexivity.
  - unfold add_member_state. cbn [sv_channels set_sessions set_channels]. apply lookup_insert.
Qed.

Lemma delete_state_sessions k s sv k' :
  sv_sessions (delete_state k s sv) !! k' =
  (fun s0 => (if bool_decide (k = k') then ss_deleted true else id)
               (ss_invited (fun i => i ∖ (list_to_set (emptied_keys (nick_to_lower (s_nick s)) (sv_channels sv)) : gset string)) s0))
    <$> (sv_sessions sv !! k').
Proof.
  unfold delete_state. cbn [sv_sessions set_sessions set_nicks set_channels].
  rewrite lookup_upd_sess, !lookup_fmap.
  destruct (decide (k = k')) as [->|Hn]; [rewrite !bool_decide_true by reflexivity|rewrite !bool_decide_false by congruence];
    destruct (sv_sessions sv !! k'); reflexivity.
Qed.

Lemma delete_session_fine k tk t sv r (Q : unit -> server -> rctx -> Prop) :
  Fine k sv -> sv_sessions sv !! tk = Some t -> s_deleted t = false -> (tk = k \/ priv sv k) ->
  (forall sv' r', Fine k sv' -> present sv' tk -> (forall k2, k2 <> tk -> live sv k2 -> live sv' k2) ->
                  (priv sv k -> priv sv' k) -> (forall k2, present sv' k2 -> present sv k2) -> Q tt sv' r') ->
  wp (delete_session tk) Q sv r.
Proof.
  intros [I P D A Lg] Ht Htd Hpriv HQ.
  assert (Hpriv' : priv sv k -> priv (delete_state tk t sv) k).
  { intros (sp & Hsp & Hp). exists ((if bool_decide (tk = k) then ss_deleted true else id)
       (ss_invited (fun i => i ∖ (list_to_set (emptied_keys (nick_to_lower (s_nick t)) (sv_channels sv)) : gset string)) sp)).
    rewrite delete_state_sessions, Hsp. split; [reflexivity|]. destruct (bool_decide (tk = k)); exact Hp. }
  eapply wp_delete_session; [exact Ht|].
  apply HQ; [| | |exact Hpriv'|intros k2 [s2 Hs2]; rewrite delete_state_sessions in Hs2; unfold present;
                                destruct (sv_sessions sv !! k2); [now eexists|discriminate]].
  - split.
    + now apply InvM_delete.
    + destruct P as [s Hs]. unfold present. rewrite delete_state_sessions, Hs. now eexists.
    + intros k' s'. rewrite delete_state_sessions. destruct (sv_sessions sv !! k') as [s0|] eqn:Hs0; [|discriminate].
      cbn. intros [= <-] Hd'.
      destruct (decide (tk = k')) as [<-|Hne].
      * destruct Hpriv as [->|Hp]; [now left|right; now apply Hpriv'].
      * rewrite bool_decide_false in Hd' by assumption. cbn in Hd'.
        destruct (D _ _ Hs0 Hd') as [->|Hp]; [now left|right; now apply Hpriv'].
    + intros k2 s2. rewrite delete_state_sessions. destruct (sv_sessions sv !! k2) as [s0|] eqn:Hs0; [|discriminate].
      cbn. intros [= <-] Hk0. specialize (A k2 s0 Hs0 Hk0). destruct (bool_decide (tk = k2)); exact A.
    + intros k2 s2. rewrite delete_state_sessions. destruct (sv_sessions sv !! k2) as [s0|] eqn:Hs0; [|discriminate].
      cbn. intros [= <-]. specialize (Lg k2 s0 Hs0). destruct (bool_decide (tk = k2)); exact Lg.
  - unfold present. rewrite delete_state_sessions, Ht. now eexists.
  - intros k2 Hne (s2 & Hs2 & Hd2). unfold live. rewrite delete_state_sessions, Hs2.
    eexists. split; [reflexivity|]. rewrite bool_decide_false by congruence. exact Hd2.
Qed.

Lemma member_key_acting sv k s lc c p :
  InvM sv -> sv_sessions sv !! k = Some s -> s_deleted s = false ->
  sv_channels sv !! lc = Some c -> c_nicks c !! nick_to_lower (s_nick s) = Some p ->
  sv_nicks sv !! nick_to_lower (s_nick s) = Some k.
Proof.
  intros I Hs Hd Hc Hm. destruct (i_memb_c sv I _ _ _ _ Hc Hm) as (k' & s' & Hk' & _).
  destruct (i_idx_sound sv I _ _ Hk') as (Hne & _).
  apply (i_idx_complete sv I _ _ Hs Hd). intros E. apply Hne. rewrite E. reflexivity.
Qed.

Lemma bool_decide_is_Some_true {A} (o : option A) : bool_decide (is_Some o) = true -> exists a, o = Some a.
Proof. intros H. apply bool_decide_eq_true in H. exact H. Qed.
Lemma bool_decide_is_Some_false {A} (o : option A) : bool_decide (is_Some o) = false -> o = None.
Proof. intros H. apply bool_decide_eq_false in H. destruct o; [exfalso; apply H; now eexists|reflexivity]. Qed.

Ltac name_member pm Hname :=
  match goal with Hm : negb (bool_decide (is_Some _)) = false |- _ =>
    apply negb_false_iff, bool_decide_is_Some_true in Hm; destruct Hm as [pm Hname] end.

Lemma cmd_part_ok k m sv r : Good k sv -> 1 <= nparams m -> wp (cmd_part k m) (good_post k) sv r.
Proof.
  intros G Hp. unfold cmd_part. wp_step. wp_step.
  apply (wp_forM _ _ (fun sv' _ => Good k sv')); [exact G|].
  intros channelname sv1 r1 _ G1. apply wp_bind. wp_sess_acting G1. wp_step. wp_step. cbv zeta.
  wp_step; [|repeat wp_step; exact G1].
  wp_step; [repeat wp_step; exact G1|].
  name_member pm Hm.
  match goal with Hc : sv_channels sv1 !! _ = Some ?c |- _ =>
    pose proof (member_key_acting sv1 k s _ c pm (g_inv _ _ G1) Hs Hd Hc Hm) as Hk;
    assert (Hrc : exists ids, rc_channel sv1 c = Ok ids) by (eapply rc_channel_ok; [apply G1|exact Hc]) end.
  wp_step. wp_step; [exact Hrc|]. wp_step. wp_step.
  eapply leave_channel_good; eauto.
Qed.

Lemma cmd_kick_ok k m sv r : Good k sv -> 2 <= nparams m -> wp (cmd_kick k m) (good_post k) sv r.
Proof.
  intros G Hp. unfold cmd_kick. wp_step. wp_step. wp_step. wp_step. apply wp_bind. wp_sess_acting G.
  wp_step. wp_step. cbv zeta.
  wp_step; [|repeat wp_step; exact G].
  wp_step; [|repeat wp_step; exact G]. wp_step.
  wp_step; [repeat wp_step; exact G|].
  wp_step; [repeat wp_step; exact G|].
  name_member pm Hm.
  match goal with Hc : sv_channels sv !! _ = Some ?c |- _ =>
    assert (Hrc : exists ids, rc_channel sv c = Ok ids) by (eapply rc_channel_ok; [apply G|exact Hc]);
    destruct (i_memb_c sv (g_inv _ _ G) _ _ _ _ Hc Hm) as (tk & t & Hk & _ & _) end.
  wp_step. wp_step; [exact Hrc|]. wp_step. wp_step. rewrite Hk.
  eapply leave_channel_good; eauto.
Qed.

(* ---- QUIT / KILL / GLINE: sessions get deleted ---------------------------------------------------- *)
Definition fine_post (k : N * N) : unit -> server -> rctx -> Prop := fun _ sv' _ => Fine k sv'.

Lemma good_fine_post k (m : M unit) sv r : wp m (good_post k) sv r -> wp m (fine_post k) sv r.
Proof. intros H. eapply wp_mono; [exact H|]. intros [] sv' r' G. now apply Good_Fine. Qed.

Lemma cmd_quit_ok k m sv r : Good k sv -> wp (cmd_quit k m) (fine_post k) sv r.
Proof.
  intros G. unfold cmd_quit. destruct (g_live _ _ G) as (s & Hs & Hd).
  apply wp_bind. eapply (delete_session_fine k); [apply Good_Fine; exact G|exact Hs|exact Hd|now left|].
  intros sv1 r1 F1 [s1 Hs1] _ _ _. apply wp_bind. eapply wp_sessM; [exact Hs1|].
  apply wp_whenM; intros _; [|exact F1].
  wp_step. wp_step. wp_step. wp_step; [eapply rc_common_ok; apply F1|]. repeat wp_step. exact F1.
Qed.

Lemma is_operator_priv sv k s : sv_sessions sv !! k = Some s -> s_operator s = true -> priv sv k.
Proof. intros Hs Ho. exists s. split; [exact Hs|]. rewrite Ho. apply orb_true_r. Qed.

Lemma cmd_kill_ok k m sv r : Good k sv -> 1 <= nparams m -> wp (cmd_kill k m) (fine_post k) sv r.
Proof.
  intros G Hp. unfold cmd_kill. apply wp_bind. wp_sess_acting G. wp_step. wp_step.
  wp_step; [repeat wp_step; now apply Good_Fine|].
  match goal with Ho : negb (s_operator s) = false |- _ => apply negb_false_iff in Ho; rename Ho into Hop end.
  wp_step. wp_step. wp_step; [|repeat wp_step; now apply Good_Fine].
  match goal with Hk : sv_nicks sv !! _ = Some ?tk |- _ =>
    destruct (i_idx_sound sv (g_inv _ _ G) _ _ Hk) as (_ & t & Ht & Htd & _) end.
  apply wp_bind. eapply (delete_session_fine k); [apply Good_Fine; exact G|exact Ht|exact Htd|right; eapply is_operator_priv; eauto|].
  intros sv1 r1 F1 [t1 Ht1] _ _ _. apply wp_bind. eapply wp_sessM; [exact Ht1|].
  wp_step. wp_step. wp_step. wp_step; [eapply rc_common_ok; apply F1|]. repeat wp_step. exact F1.
Qed.

Lemma cmd_gline_ok k m sv r : Good k sv -> 1 <= nparams m -> wp (cmd_gline k m) (fine_post k) sv r.
Proof.
  intros G Hp. unfold cmd_gline. apply wp_bind. wp_sess_acting G. wp_step. wp_step.
  wp_step; [repeat wp_step; now apply Good_Fine|].
  wp_step. wp_step. wp_step; [|repeat wp_step; now apply Good_Fine].
  apply wp_bind. wp_sess_of_index (g_inv _ _ G).
  wp_step; [repeat wp_step; now apply Good_Fine|].
  apply wp_bind, wp_modS. apply cmd_kill_ok; [|exact Hp].
  apply (Good_other k sv); [reflexivity|reflexivity|reflexivity|exact G].
Qed.

(* ---- JOIN ------------------------------------------------------------------------------------- *)
(* MODE / TOPIC with the channel name only are pure queries *)
Lemma cmd_mode_query_unchanged k ch sv r :
  Good k sv -> wp (cmd_mode k (IMsg None "MODE" [ch])) (unchanged sv) sv r.
Proof.
  intros G. unfold cmd_mode. cbn [param m_params nth_error]. wp_step. wp_step. apply wp_bind. wp_sess_acting G.
  wp_step. wp_step. cbv zeta. cbn [normalize_modes m_params List.length Nat.eqb].
  wp_step.
  - match goal with Hi : in_set _ _ = true |- _ => apply in_set_true in Hi; rename Hi into Hin end.
    destruct (i_memb_s sv (g_inv _ _ G) _ _ _ Hs Hd Hin) as (c & Hc & Hmem). rewrite Hc.
    repeat wp_step. reflexivity.
  - wp_step; [|repeat wp_step; reflexivity].
    wp_step; [repeat wp_step; reflexivity|].
    apply wp_bind. wp_sess_of_index (g_inv _ _ G). repeat wp_step. reflexivity.
Qed.

Lemma cmd_topic_query_unchanged_live k ch sv r :
  InvM sv -> live sv k -> wp (cmd_topic k (IMsg None "TOPIC" [ch])) (unchanged sv) sv r.
Proof.
  intros I (s & Hs & Hd). unfold cmd_topic. cbn [param m_params nth_error]. wp_step. wp_step. apply wp_bind.
  eapply wp_sessM; [exact Hs|].
  wp_step. wp_step. cbv zeta. cbn [nparams m_params List.length Nat.eqb trailing last is_empty andb].
  wp_step; [|repeat wp_step; reflexivity].
  wp_step; [repeat wp_step; reflexivity|].
  rewrite andb_false_r. repeat wp_step; reflexivity.
Qed.
Lemma cmd_topic_query_unchanged k ch sv r :
  Good k sv -> wp (cmd_topic k (IMsg None "TOPIC" [ch])) (unchanged sv) sv r.
Proof. intros G. apply cmd_topic_query_unchanged_live; apply G. Qed.

Definition join_inv (k : N * N) (sv0 : server) : server -> Prop :=
  fun sv => Good k sv /\ sv_nicks sv = sv_nicks sv0.

Lemma join_one_ok e k channelname key sv0 sv r me0 :
  join_inv k sv0 sv -> sv_nicks sv0 !! me0 = Some k ->
  wp (join_one e k channelname key) (fun _ sv' _ => join_inv k sv0 sv') sv r.
Proof.
  intros [G Hn0] Hme0. assert (J : join_inv k sv0 sv) by (split; assumption).
  unfold join_one. apply wp_bind. wp_sess_acting G. wp_step. wp_step. cbv zeta.
  (* the current nick of the acting session is the indexed one *)
  assert (Hme : nick_to_lower (s_nick s) = me0).
  { rewrite <- Hn0 in Hme0. destruct (i_idx_sound sv (g_inv _ _ G) _ _ Hme0) as (_ & s' & Hs' & _ & Hl). congruence. }
  wp_step; [repeat wp_step; exact J|].
  set (lc := chan_to_lower channelname).
  (* first phase: the admission tests *)
  apply wp_bind.
  eapply (wp_mono _ (fun go sv' _ => join_inv k sv0 sv' /\ sv_channels sv' = sv_channels sv /\
            match go with
            | None => True
            | Some (created, c) =>
                (created = false /\ sv_channels sv !! lc = Some c) \/
                (created = true /\ sv_channels sv !! lc = None /\ chan_to_lower (c_name c) = lc /\ c_nicks c = ∅)
            end)).
  { destruct (sv_channels sv !! lc) as [c|] eqn:Hc.
    - wp_step; [repeat wp_step; split; [exact J|split; [reflexivity|exact Logic.I]]|].
      wp_step.
      + wp_apply verify_captcha_ok.
        match goal with H : good_rest _ _ _ _ _ |- _ => destruct H as (G1 & (Rn & Rc & _) & _) end.
        assert (J1 : join_inv k sv0 sv') by (split; [exact G1|congruence]).
        wp_step.
        * wp_step; [repeat wp_step; split; [exact J1|split; [exact Rc|exact Logic.I]]|].
          wp_step. split; [exact J1|split; [exact Rc|left; auto]].
        * wp_apply captcha_url_check_ok. match goal with H : unchanged _ _ _ _ |- _ => red in H; subst end.
          repeat wp_step. split; [exact J1|split; [exact Rc|exact Logic.I]].
      + wp_step; [repeat wp_step; split; [exact J|split; [reflexivity|exact Logic.I]]|].
        wp_step; [repeat wp_step; split; [exact J|split; [reflexivity|exact Logic.I]]|].
        wp_step. split; [exact J|split; [reflexivity|left; auto]].
    - cbv zeta. wp_step; [repeat wp_step; split; [exact J|split; [reflexivity|exact Logic.I]]|].
      wp_step. split; [exact J|split; [reflexivity|right; repeat split; reflexivity]]. }
  intros go sv1 r1 ([G1 Hn1] & Hch1 & Hgo). cbv beta.
  destruct go as [[created c]|]; [|wp_step; split; assumption].
  (* drop the invitation *)
  apply wp_bind.
  eapply (wp_mono _ (fun _ sv' _ => join_inv k sv0 sv' /\ sv_channels sv' = sv_channels sv)).
  { apply wp_whenM; intros _; [|split; [split; assumption|exact Hch1]].
    wp_apply_last wp_updSess_good; try solve_same.
    match goal with H : _ /\ _ /\ _ |- _ => destruct H as (G2 & (Rn & Rc & _) & _) end.
    split; [split; [exact G2|congruence]|congruence]. }
  intros [] sv2 r2 ([G2 Hn2] & Hch2). cbv beta zeta. rewrite Hme.
  wp_step; [wp_step; split; assumption|].
  (* add the member *)
  assert (Hok : chan_ok sv2 lc c).
  { destruct Hgo as [(-> & Hc)|(-> & Hc & Hname & Hemp)].
    - apply chan_ok_existing; [apply G2|]. now rewrite Hch2.
    - destruct c as [nm tn tt tp ns ms ky bs]. cbn in Hname, Hemp. subst ns.
      split; [exact Hname|]. split.
      + intros n p Hp. cbn in Hp. rewrite lookup_empty in Hp. discriminate.
      + intros k2 s2 Hs2 Hd2 Hin. destruct (i_memb_s sv2 (g_inv _ _ G2) _ _ _ Hs2 Hd2 Hin) as (c' & Hc' & _).
        rewrite Hch2 in Hc'. congruence. }
  assert (Hk2 : sv_nicks sv2 !! me0 = Some k) by (rewrite Hn2; exact Hme0).
  wp_apply add_member_good.
  match goal with H : Good _ _ /\ _ |- _ => destruct H as (G3 & Hc3 & Hn3 & _) end.
  assert (J3 : join_inv k sv0 sv') by (split; [exact G3|congruence]).
  wp_step. wp_step. wp_step. wp_step; [eapply rc_channel_ok; [apply G3|exact Hc3]|].
  wp_step. wp_step. apply wp_bind.
  lazymatch goal with |- wp _ _ ?svx _ => eapply (wp_mono _ (fun _ sv' _ => sv' = svx)) end.
  { apply wp_whenM; intros _; [wp_step|]; reflexivity. }
  intros [] sv4 r4 ->. cbv beta. wp_step. wp_step.
  wp_apply cmd_mode_query_unchanged. match goal with H : unchanged _ _ _ _ |- _ => red in H; subst end.
  wp_apply cmd_topic_query_unchanged. match goal with H : unchanged _ _ _ _ |- _ => red in H; subst end.
  eapply wp_mono; [apply cmd_names_ok; [apply G3|apply live_present, G3]|].
  intros [] sv5 r5 ->. exact J3.
Qed.

Lemma cmd_join_ok e k m sv r :
  Good k sv -> (forall s, sv_sessions sv !! k = Some s -> s_nick s <> "") -> 1 <= nparams m ->
  wp (cmd_join e k m) (good_post k) sv r.
Proof.
  intros G Hnick Hp. unfold cmd_join. wp_step. wp_step. cbv zeta.
  destruct (g_live _ _ G) as (s & Hs & Hd).
  pose proof (i_idx_complete sv (g_inv _ _ G) _ _ Hs Hd (Hnick s Hs)) as Hme.
  eapply wp_mono.
  - apply (wp_forM _ _ (fun sv' _ => join_inv k sv sv')); [split; [exact G|reflexivity]|].
    intros ck sv1 r1 _ J1. eapply join_one_ok; eauto.
  - intros [] sv' r' [G' _]. exact G'.
Qed.
