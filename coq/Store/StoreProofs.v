(* Store/StoreProofs.v — C09: the LevelDB keyspace model (Store/KV.v) refines the abstract pair
   (log : N -> option entry, stable : bytes -> option bytes); C18 statements are collected from
   WireProofs / ProtoProofs / BatchProofs.
   Assumptions, all explicit: legacy JSON is an abstract codec (round trip, never starts with
   'p', never empty); indexes < 2^64 and DeleteRange's max < 2^64-1; LevelDB durability
   (reopen keeps the map) is built into the model.  [variant]: Repaired needs nothing more;
   Pinned additionally needs every DeleteRange to avoid the index 0x737461626c657374. *)
From Coq Require Import List NArith ZArith Bool Lia ZifyN ZifyNat ZifyBool Sorting.Sorted.
From Coq Require Import Strings.String Strings.Ascii.
From RV Require Import Store.Wire Store.WireProofs Store.Proto Store.ProtoProofs Store.KV Store.KVProofs.
Import ListNotations.
Local Open Scope string_scope.
Local Open Scope N_scope.

Ltac Zify.zify_post_hook ::= Z.div_mod_to_equations.
Ltac splits := repeat match goal with |- _ /\ _ => split end.

(* ---- the abstract pair -------------------------------------------------------------------------- *)
Record astate := AState { a_log : N -> option rlog; a_stab : string -> option string }.
Definition a_empty : astate := AState (fun _ => None) (fun _ => None).

Fixpoint last_with_index (i : N) (ls : list rlog) : option rlog :=
  match ls with
  | [] => None
  | l :: r => match last_with_index i r with
              | Some x => Some x
              | None => if l_index l =? i then Some l else None
              end
  end.

Definition astep (a : astate) (o : op) : astate :=
  match o with
  | OStoreLogs ls =>
      AState (fun i => match last_with_index i ls with Some l => Some l | None => a_log a i end) (a_stab a)
  | OStoreLogProto p =>
      AState (fun i => if i =? pl_index p then Some (log_of_pb_store p) else a_log a i) (a_stab a)
  | ODeleteRange min max =>
      AState (fun i => if (min <=? i) && (i <=? max) then None else a_log a i) (a_stab a)
  | OSet k v => AState (a_log a) (fun k' => if String.eqb k' k then Some v else a_stab a k')
  | OSetU64 k v => AState (a_log a) (fun k' => if String.eqb k' k then Some (be8 v) else a_stab a k')
  | _ => a          (* reads; close/reopen; ConvertToProto *)
  end.
Fixpoint arun (a : astate) (ops : list op) : astate :=
  match ops with [] => a | o :: r => arun (astep a o) r end.

(* min / max of the domain below 2^64, 0 when empty *)
Definition is_min (f : N -> option rlog) (n : N) : Prop :=
  (n = 0 /\ forall i, i < U64 -> f i = None) \/
  (n < U64 /\ f n <> None /\ forall i, i < U64 -> f i <> None -> n <= i).
Definition is_max (f : N -> option rlog) (n : N) : Prop :=
  (n = 0 /\ forall i, i < U64 -> f i = None) \/
  (n < U64 /\ f n <> None /\ forall i, i < U64 -> f i <> None -> i <= n).

Section Store.
Variable json_enc_log : rlog -> option string.
Variable json_dec_log : string -> option rlog.
Variable json_dec_msg : string -> option msg.
Variable offset : N.
(* the entries legacy JSON can carry (e.g. append times within years 0..9999) *)
Variable json_dom : rlog -> Prop.
Hypothesis json_rt : forall l, wf_log l -> json_dom l ->
  exists v, json_enc_log l = Some v /\ json_dec_log v = Some l /\ starts_p v = false /\ v <> EmptyString.

Notation step := (step json_enc_log json_dec_log json_dec_msg offset).
Notation run := (run json_enc_log json_dec_log json_dec_msg offset).
Notation get_log := (get_log json_dec_log).
Notation read_store := (read_store json_dec_log).
Notation from_bytes := (from_bytes json_dec_msg).

(* two entries that a reader cannot tell apart after ConvertToProto: all fields equal, data
   byte-identical or (command entries) decoding to the same replicated message *)
Definition msg_index (l : rlog) : N := id_from_raft_index offset (l_index l).
Definition log_equiv (l l' : rlog) : Prop :=
  l_index l = l_index l' /\ l_term l = l_term l' /\ l_type l = l_type l' /\ l_ext l = l_ext l' /\
  l_sec l = l_sec l' /\ l_nsec l = l_nsec l' /\
  (l_data l = l_data l' \/
   (l_type l = 0 /\ exists m, from_bytes (l_data l) (msg_index l) = ROk m /\
                             from_bytes (l_data l') (msg_index l') = ROk m)).

Lemma log_equiv_refl l : log_equiv l l.
Proof. unfold log_equiv. repeat split; try reflexivity. now left. Qed.

Lemma log_equiv_trans a b c : log_equiv a b -> log_equiv b c -> log_equiv a c.
Proof.
  intros (A1 & A2 & A3 & A4 & A5 & A6 & A7) (B1 & B2 & B3 & B4 & B5 & B6 & B7).
  unfold log_equiv. repeat split; try congruence.
  assert (Iab : msg_index a = msg_index b) by (unfold msg_index; congruence).
  destruct A7 as [A7|[T [m [M1 M2]]]], B7 as [B7|[T' [m' [M1' M2']]]].
  - left. congruence.
  - right. split; [congruence|]. exists m'. rewrite A7, Iab. now split.
  - right. split; [exact T|]. exists m. split; [exact M1|]. assert (msg_index b = msg_index c) by (unfold msg_index; congruence).
    rewrite <- B7, <- H. exact M2.
  - right. split; [exact T|]. exists m. split; [exact M1|]. rewrite M2 in M1'. inversion M1'. subst. exact M2'.
Qed.

(* the domain in which ConvertToProto is defined: command entries carry a replicated message *)
Definition convertible (l : rlog) : Prop :=
  l_type l = 0 -> exists m, from_bytes (l_data l) (msg_index l) = ROk m /\ wf_msg m /\ str_ok (encode_for_raft m).

(* [rel]: how stored entries may differ from what was written.  Two instances: equality (no
   conversion allowed) and log_equiv (conversions allowed). *)
Variable rel : rlog -> rlog -> Prop.
Variable conv_allowed : bool.
Variable P : rlog -> Prop.           (* extra domain condition on stored entries *)
Hypothesis rel_refl : forall l, rel l l.
Hypothesis rel_conv : conv_allowed = true -> forall x l l', rel x l -> log_equiv l l' -> rel x l'.
Hypothesis P_conv : conv_allowed = true -> forall l, P l -> convertible l.
Hypothesis P_equiv : conv_allowed = true -> forall l l', P l -> wf_log l' -> log_equiv l l' -> P l'.

(* ---- invariant ------------------------------------------------------------------------------------ *)
Definition val_ok (v : string) : Prop :=
  v <> EmptyString /\ exists e, read_store v = ROk e /\ wf_log e /\ P e.
Definition wf_kvs (l : kvs) : Prop :=
  sorted l /\ keys_ok l /\ forall i v, i < U64 -> kv_get (log_key i) l = Some v -> val_ok v.

Definition L (s : store) (i : N) : obs := get_log s i.
Definition T (s : store) (k : string) : option string := kv_get (stable_key k) (st_kv s).

Definition sim (s : store) (a : astate) : Prop :=
  wf_kvs (st_kv s) /\
  (forall i, i < U64 ->
     match a_log a i with
     | Some l => exists l', L s i = ObsLog l' /\ rel l l'
     | None => L s i = ObsNotFound
     end) /\
  (forall k, T s k = a_stab a k).

Lemma sim_none_iff s a i : sim s a -> i < U64 -> (kv_get (log_key i) (st_kv s) = None <-> a_log a i = None).
Proof.
  intros (W & HL & _) Hi. specialize (HL i Hi). unfold L, KV.get_log in HL.
  destruct W as (_ & _ & Wv).
  destruct (kv_get (log_key i) (st_kv s)) as [v|] eqn:E.
  - destruct (Wv i v Hi E) as (_ & e & Re & _). rewrite Re in HL.
    destruct (a_log a i); [split; discriminate|discriminate].
  - destruct (a_log a i); [destruct HL as [l' [HL _]]; discriminate|tauto].
Qed.

(* ---- what may be asked ---------------------------------------------------------------------------- *)
Definition entry_ok (proto : bool) (l : rlog) : Prop :=
  wf_log l /\ P l /\ (proto = false -> json_dom l).

Definition op_ok (var : variant) (proto : bool) (o : op) : Prop :=
  match o with
  | OGetLog i => i < U64
  | OStoreLogs ls => Forall (entry_ok proto) ls
  | OStoreLogProto p => wf_pb_log p /\ P (log_of_pb_store p)
  | ODeleteRange min max =>
      min < U64 /\ max < U64 - 1 /\
      match var with Repaired => True | Pinned => ~ (min <= S_index /\ S_index <= max) end
  | OReopen true => conv_allowed = true
  | OConvert => conv_allowed = true
  | _ => True
  end.

Fixpoint run_ok (var : variant) (s : store) (ops : list op) : Prop :=
  match ops with
  | [] => True
  | o :: r => op_ok var (st_proto s) o /\ run_ok var (fst (step var s o)) r
  end.

(* ---- what is observed ------------------------------------------------------------------------------ *)
Definition aobs (a : astate) (o : op) (ob : obs) : Prop :=
  match o with
  | OFirst => exists n, ob = ObsIndex n /\ is_min (a_log a) n
  | OLast => exists n, ob = ObsIndex n /\ is_max (a_log a) n
  | OGetLog i => match a_log a i with
                 | Some l => exists l', ob = ObsLog l' /\ rel l l'
                 | None => ob = ObsNotFound
                 end
  | OGet k => ob = ObsBytes (a_stab a k)
  | OGetU64 k => match a_stab a k with
                 | None => ob = ObsU64 0
                 | Some v => match be8_decode v with Some n => ob = ObsU64 n | None => ob = ObsPanic end
                 end
  | OReopen true => True
  | OConvert => True
  | _ => ob = ObsOk
  end.

Fixpoint trace_ok (a : astate) (ops : list op) (obss : list obs) : Prop :=
  match ops, obss with
  | [], [] => True
  | o :: r, ob :: obr => aobs a o ob /\ trace_ok (astep a o) r obr
  | _, _ => False
  end.

(* ---- writers ---------------------------------------------------------------------------------------- *)
Lemma wf_log_of_pb p : wf_pb_log p -> wf_log (log_of_pb_store p).
Proof.
  intros (H1 & H2 & H3 & H4 & H5 & H6). unfold log_of_pb_store.
  destruct (as_time (pl_at p)) as [s n] eqn:E. unfold wf_log.
  cbn [l_index l_term l_type l_data l_ext l_sec l_nsec]. repeat split; try assumption.
  - unfold u8_of_Z. lia.
  - unfold as_time in E. destruct (pl_at p) as [[s0 n0]|]; inversion E; subst.
    + unfold i64_of_Z, two63, two64.
      destruct (Z.ltb_spec ((s0 + n0 / billion) mod 18446744073709551616) 9223372036854775808); lia.
    + unfold two63. lia.
  - unfold as_time in E. destruct (pl_at p) as [[s0 n0]|]; inversion E; subst.
    + unfold i64_of_Z, two63, two64.
      destruct (Z.ltb_spec ((s0 + n0 / billion) mod 18446744073709551616) 9223372036854775808); lia.
    + unfold two63. lia.
  - unfold as_time in E. destruct (pl_at p) as [[s0 n0]|]; inversion E; subst; unfold billion; lia.
  - unfold as_time in E. destruct (pl_at p) as [[s0 n0]|]; inversion E; subst; unfold billion; lia.
Qed.

Lemma encode_log_val_ok l : wf_log l -> P l -> val_ok (encode_log l).
Proof.
  intros W Pl. split; [discriminate|]. exists l. split; [now apply read_store_encode_log|now split].
Qed.

Definition put_for (l : rlog) (kv : string * string) : Prop :=
  fst kv = log_key (l_index l) /\ snd kv <> EmptyString /\ read_store (snd kv) = ROk l.

Lemma encode_all_spec proto ls :
  Forall (entry_ok proto) ls ->
  exists puts, encode_all json_enc_log proto ls = Some puts /\ Forall2 put_for ls puts.
Proof.
  induction 1 as [|l ls (W & Pl & J) _ [puts [E F]]]; simpl.
  - exists []. split; [reflexivity|constructor].
  - destruct proto.
    + rewrite E. eexists. split; [reflexivity|]. constructor; [|exact F].
      split; [reflexivity|]. split; [discriminate|]. now apply read_store_encode_log.
    + destruct (json_rt l W (J eq_refl)) as (v & Ev & Dv & Pv & Nv). rewrite Ev, E.
      eexists. split; [reflexivity|]. constructor; [|exact F].
      split; [reflexivity|]. split; [exact Nv|]. cbn [snd].
      unfold Proto.read_store, read_with. now rewrite Pv, Dv.
Qed.

Lemma last_put_puts i ls puts :
  i < U64 -> Forall (fun l => l_index l < U64) ls -> Forall2 put_for ls puts ->
  match last_put (log_key i) puts with
  | Some v => exists l, last_with_index i ls = Some l /\ v <> EmptyString /\ read_store v = ROk l
  | None => last_with_index i ls = None
  end.
Proof.
  intros Hi Hidx F. induction F as [|l [k v] ls puts (K & Nv & Rv) F IH]; cbn [last_put last_with_index]; [reflexivity|].
  inversion Hidx as [|x y Hl Hls]; subst. specialize (IH Hls).
  destruct (last_put (log_key i) puts) as [v'|].
  - destruct IH as [l' [E R]]. exists l'. now rewrite E.
  - rewrite IH. cbn [fst snd] in *. subst k.
    rewrite log_key_eqb by assumption. rewrite N.eqb_sym.
    destruct (l_index l =? i); [exists l; now repeat split|reflexivity].
Qed.

Lemma last_put_stable k ls puts :
  Forall2 put_for ls puts -> last_put (stable_key k) puts = None.
Proof.
  induction 1 as [|l [k' v] ls puts (K & _) F IH]; cbn [last_put]; [reflexivity|]. rewrite IH.
  cbn [fst] in K. subst k'.
  destruct (String.eqb_spec (stable_key k) (log_key (l_index l))) as [E|_]; [|reflexivity].
  now apply stable_key_not_log_key in E.
Qed.

Lemma puts_keys ls puts x :
  Forall (fun l => l_index l < U64) ls -> Forall2 put_for ls puts -> In x (map fst puts) -> key_ok x.
Proof.
  intros Hidx F. induction F as [|l [k v] ls puts (K & _) F IH]; cbn [map fst In]; [intros []|].
  inversion Hidx; subst. intros [<-|H]; [|now apply IH].
  right. exists (l_index l). now split.
Qed.

Lemma sorted_unique k v l : sorted l -> In (k, v) l -> kv_get k l = Some v.
Proof.
  intros H. induction H as [|[k0 v0] l Hs IH Hall]; simpl; [intros []|].
  intros [E|Hin].
  - inversion E; subst. now rewrite String.eqb_refl.
  - rewrite Forall_forall in Hall. specialize (Hall _ Hin). unfold lt_key in Hall. simpl in Hall.
    rewrite String.eqb_sym, eqb_false_of_compare by congruence. now apply IH.
Qed.

Lemma wf_kvs_apply_puts puts l :
  wf_kvs l ->
  (forall x, In x (map fst puts) -> key_ok x) ->
  (forall i v, i < U64 -> last_put (log_key i) puts = Some v -> val_ok v) ->
  wf_kvs (apply_puts puts l).
Proof.
  intros (Hs & Hk & Hv) Kp Vp. split; [now apply sorted_apply_puts|]. split.
  - unfold keys_ok. apply Forall_forall. intros [k v] Hin.
    assert (In k (map fst (apply_puts puts l))) as Hk' by (apply in_map_iff; now exists (k, v)).
    apply keys_apply_puts in Hk'. destruct Hk' as [H|H]; [now apply Kp|].
    unfold keys_ok in Hk. rewrite Forall_forall in Hk. apply in_map_iff in H.
    destruct H as [[k2 v2] [<- H2]]. now apply (Hk _ H2).
  - intros i v Hi. rewrite kv_get_apply_puts.
    destruct (last_put (log_key i) puts) as [v'|] eqn:E.
    + intros H. inversion H; subst. now apply (Vp i).
    + now apply Hv.
Qed.

(* ---- ConvertToProto ----------------------------------------------------------------------------------- *)
(* how a value may change: not at all, or to a value that reads as an equivalent entry *)
Definition vrel (v0 v : string) : Prop :=
  v = v0 \/
  exists e0 e, read_store v0 = ROk e0 /\ read_store v = ROk e /\ v <> EmptyString /\
               wf_log e /\ P e /\ log_equiv e0 e.

Lemma vrel_trans a b c : vrel a b -> vrel b c -> vrel a c.
Proof.
  intros [->|(e0 & e & R0 & R & N & W & Pe & Q)] [->|(e0' & e' & R0' & R' & N' & W' & Pe' & Q')].
  - now left.
  - right. now exists e0', e'.
  - right. now exists e0, e.
  - right. rewrite R in R0'. inversion R0'; subst. exists e0, e'. splits; try assumption.
    eapply log_equiv_trans; eassumption.
Qed.

Definition allocated (buf : pb_msg) : Prop := pm_id buf <> None /\ pm_session buf <> None.

Lemma from_bytes_default b idx m : from_bytes b idx = ROk m -> default_id m idx = m.
Proof.
  unfold Proto.from_bytes.
  destruct (if starts_p b then decode_msg (tail b) else match json_dec_msg b with Some m0 => ROk m0 | None => RPanic end) as [m0| |];
    try discriminate.
  intros H. inversion H; subst. unfold default_id.
  destruct (N.eqb_spec (fst (m_id m0)) 0) as [E|E].
  - destruct m0 as [[i r] ? ? ? ? ? ? ? ? ?]. cbn in *. subst. unfold set_m_idid. cbn.
    destruct (N.eqb_spec idx 0); [subst|]; reflexivity.
  - destruct (N.eqb_spec (fst (m_id m0)) 0); [contradiction|reflexivity].
Qed.

Lemma convert_entry_spec buf v :
  conv_allowed = true -> allocated buf -> val_ok v ->
  let '(c, buf') := convert_entry json_dec_log json_dec_msg offset buf v in
  allocated buf' /\ match c with CPut v' _ => vrel v v' | _ => True end.
Proof.
  intros CA [A1 A2] (Nv & e & Re & We & Pe). unfold convert_entry.
  assert (Rf : read_frombytes json_dec_log v = ROk e).
  { destruct v; [contradiction|exact Re]. }
  rewrite Rf.
  destruct (negb (l_type e =? 0)) eqn:Ty.
  - split; [now split|]. destruct (is_json v); [|exact I].
    right. exists e, e. splits; try assumption; try discriminate.
    + now apply read_store_encode_log.
    + apply log_equiv_refl.
  - apply negb_false_iff in Ty. apply N.eqb_eq in Ty.
    destruct (is_json v || is_json (l_data e)); [|split; [now split|exact I]].
    destruct (P_conv CA e Pe Ty) as (m & Fm & Wm & Sm). fold (msg_index e). rewrite Fm.
    destruct (pm_id buf) as [i0|] eqn:Ei; [|contradiction].
    destruct (pm_session buf) as [s0|] eqn:Es; [|contradiction].
    rewrite (copy_agrees m buf i0 s0 Ei Es).
    fold (encode_msg_checked m). rewrite encode_msg_checked_ok by exact Wm.
    split; [split; discriminate|].
    set (e' := RLog (l_index e) (l_term e) (l_type e) (String "p"%char (encode_msg m)) (l_ext e) (l_sec e) (l_nsec e)).
    assert (We' : wf_log e').
    { destruct We as (W1 & W2 & W3 & W4 & W5 & W6 & W7). unfold wf_log, e'.
      cbn [l_index l_term l_type l_data l_ext l_sec l_nsec]. repeat split; try assumption; apply W6 || apply W7. }
    assert (Q : log_equiv e e').
    { unfold log_equiv, e'. cbn [l_index l_term l_type l_data l_ext l_sec l_nsec].
      repeat split; try reflexivity. right. split; [exact Ty|]. exists m. split; [exact Fm|].
      unfold msg_index. cbn [l_index]. fold (msg_index e).
      change (String "p"%char (encode_msg m)) with (encode_for_raft m).
      rewrite from_bytes_proto by exact Wm. f_equal. eapply from_bytes_default. exact Fm. }
    right. exists e, e'. splits; try assumption; try discriminate.
    + now apply read_store_encode_log.
    + now apply (P_equiv CA e e').
Qed.

(* every put of the batch rewrites an existing key with a related value *)
Definition good_puts (db0 : kvs) (puts : list (string * string)) : Prop :=
  forall k v', In (k, v') puts -> exists i v0, i < U64 /\ k = log_key i /\ kv_get k db0 = Some v0 /\ vrel v0 v'.

Definition db_rel (db0 db : kvs) : Prop :=
  sorted db /\ keys_ok db /\
  forall k, match kv_get k db0, kv_get k db with
            | None, None => True
            | Some v0, Some v => is_stable k = true /\ v = v0 \/ is_stable k = false /\ vrel v0 v
            | _, _ => False
            end.

Lemma db_rel_refl db : sorted db -> keys_ok db -> db_rel db db.
Proof.
  intros Hs Hk. split; [exact Hs|]. split; [exact Hk|]. intros k.
  destruct (kv_get k db) as [v|]; [|exact I].
  destruct (is_stable k); [left; now split|right; split; [reflexivity|now left]].
Qed.

Lemma db_rel_apply db0 db puts :
  db_rel db0 db -> good_puts db0 puts -> db_rel db0 (apply_puts puts db).
Proof.
  revert db. induction puts as [|[k v'] r IH]; intros db R G; simpl; [exact R|].
  apply IH.
  - destruct R as (Hs & Hk & Hr). destruct (G k v' (or_introl eq_refl)) as (i & v0 & Hi & -> & G0 & Gv).
    split; [now apply sorted_put|]. split.
    { apply keys_ok_put; [|exact Hk]. right. now exists i. }
    intros k2. rewrite kv_get_put. destruct (String.eqb_spec k2 (log_key i)) as [->|N].
    + rewrite G0. right. split; [apply log_key_not_stable|exact Gv].
    + apply Hr.
  - intros k2 v2 Hin. apply G. now right.
Qed.

Lemma good_puts_app db0 a b : good_puts db0 a -> good_puts db0 b -> good_puts db0 (a ++ b)%list.
Proof. intros Ga Gb k v Hin. apply in_app_or in Hin. destruct Hin; [now apply Ga|now apply Gb]. Qed.

Lemma convert_loop_spec db0 :
  conv_allowed = true -> wf_kvs db0 ->
  forall it buf pending db,
    (forall k v, In (k, v) it -> kv_get k db0 = Some v /\ key_ok k) ->
    allocated buf -> good_puts db0 pending -> db_rel db0 db ->
    db_rel db0 (fst (convert_loop json_dec_log json_dec_msg offset buf it pending db)).
Proof.
  intros CA (Hs0 & Hk0 & Hv0). induction it as [|[k v] it IH]; intros buf pending db Hit Hb Gp R.
  - simpl. now apply db_rel_apply.
  - cbn [convert_loop]. destruct (is_stable k) eqn:Sk; [simpl; now apply db_rel_apply|].
    destruct (Hit k v (or_introl eq_refl)) as [Gk Kk].
    destruct (key_ok_nonstable k Kk Sk) as (i & Hi & ->).
    pose proof (Hv0 i v Hi Gk) as Vv.
    pose proof (convert_entry_spec buf v CA Hb Vv) as Sp.
    destruct (convert_entry json_dec_log json_dec_msg offset buf v) as [c buf'].
    destruct Sp as [Hb' Hc].
    assert (Hit' : forall k0 v0, In (k0, v0) it -> kv_get k0 db0 = Some v0 /\ key_ok k0).
    { intros k0 v0 H0. apply Hit. now right. }
    destruct c as [v' cmd| | | |]; try exact R.
    + assert (Gp' : good_puts db0 (pending ++ [(log_key i, v')])%list).
      { apply good_puts_app; [exact Gp|]. intros k2 v2 [E|[]]. inversion E; subst.
        exists i, v. now repeat split. }
      destruct (cmd && (100 <? N.of_nat (Datatypes.length (pending ++ [(log_key i, v')])%list))).
      * apply IH; try assumption; [intros ? ? []|]. now apply db_rel_apply.
      * now apply IH.
    + now apply IH.
Qed.

Lemma skip_stable_incl l k v : In (k, v) (skip_stable l) -> In (k, v) l.
Proof.
  induction l as [|[k0 v0] l IH]; simpl; [tauto|].
  destruct (is_stable k0); [intros H; right; now apply IH|simpl; tauto].
Qed.

Lemma convert_to_proto_spec db0 :
  conv_allowed = true -> wf_kvs db0 ->
  db_rel db0 (fst (convert_to_proto json_dec_log json_dec_msg offset db0)).
Proof.
  intros CA W. pose proof W as (Hs & Hk & Hv). unfold convert_to_proto.
  destruct (skip_stable db0) as [|x it] eqn:E; [simpl; now apply db_rel_refl|].
  apply convert_loop_spec; try assumption.
  - intros k v Hin. rewrite <- E in Hin. apply skip_stable_incl in Hin. split; [now apply sorted_unique|].
    unfold keys_ok in Hk. rewrite Forall_forall in Hk. apply (Hk _ Hin).
  - split; discriminate.
  - intros k v [].
  - now apply db_rel_refl.
Qed.

Lemma db_rel_wf db0 db : wf_kvs db0 -> db_rel db0 db -> wf_kvs db.
Proof.
  intros (Hs0 & Hk0 & Hv0) (Hs & Hk & Hr). split; [exact Hs|]. split; [exact Hk|].
  intros i v Hi G. specialize (Hr (log_key i)). rewrite G in Hr.
  destruct (kv_get (log_key i) db0) as [v0|] eqn:G0; [|contradiction].
  rewrite log_key_not_stable in Hr. destruct Hr as [[Hr _]|[_ Hr]]; [discriminate|].
  destruct Hr as [->|(e0 & e & R0 & R & N & W & Pe & Q)]; [now apply (Hv0 i)|].
  split; [exact N|]. now exists e.
Qed.

Lemma sim_after_convert s a db mode :
  conv_allowed = true -> sim s a -> db_rel (st_kv s) db -> sim (Store db mode) a.
Proof.
  intros CA (W & HL & HT) R. pose proof (db_rel_wf _ _ W R) as W'.
  destruct R as (Hs & Hk & Hr). destruct W as (_ & _ & Hv0).
  split; [exact W'|]. split.
  - intros i Hi. specialize (HL i Hi). specialize (Hr (log_key i)).
    unfold L, KV.get_log in *. cbn [st_kv].
    destruct (kv_get (log_key i) (st_kv s)) as [v0|] eqn:G0.
    + destruct (kv_get (log_key i) db) as [v|]; [|contradiction].
      rewrite log_key_not_stable in Hr. destruct Hr as [[Hr _]|[_ Hr]]; [discriminate|].
      destruct Hr as [->|(e0 & e & R0 & R & N & We & Pe & Q)]; [exact HL|].
      rewrite R0 in HL. rewrite R. destruct (a_log a i) as [l|]; [|discriminate].
      destruct HL as (l' & E & Rl). injection E as E'. subst l'. exists e. split; [reflexivity|].
      now apply (rel_conv CA l e0 e).
    + destruct (kv_get (log_key i) db); [contradiction|exact HL].
  - intros k. rewrite <- HT. unfold T. cbn [st_kv]. specialize (Hr (stable_key k)).
    destruct (kv_get (stable_key k) (st_kv s)) as [v0|], (kv_get (stable_key k) db) as [v|]; try contradiction; try reflexivity.
    rewrite stable_key_stable in Hr. destruct Hr as [[_ ->]|[Hr _]]; [reflexivity|discriminate].
Qed.

(* ---- one step preserves the simulation --------------------------------------------------------------- *)
Lemma L_of_get s i v e : kv_get (log_key i) (st_kv s) = Some v -> read_store v = ROk e -> L s i = ObsLog e.
Proof. intros G R. unfold L, KV.get_log. now rewrite G, R. Qed.

Lemma sim_write_stable s a k v :
  sim s a -> sim (Store (kv_put (stable_key k) v (st_kv s)) (st_proto s))
                 (AState (a_log a) (fun k' => if String.eqb k' k then Some v else a_stab a k')).
Proof.
  intros ((Hs & Hk & Hv) & HL & HT). split; [|split].
  - split; [now apply sorted_put|]. split; [apply keys_ok_put; [left; now exists k|exact Hk]|].
    intros i v' Hi. cbn [st_kv]. rewrite kv_get_put_other by (apply not_eq_sym, stable_key_not_log_key).
    now apply Hv.
  - intros i Hi. cbn [a_log]. specialize (HL i Hi). unfold L, KV.get_log in *. cbn [st_kv].
    rewrite kv_get_put_other by (apply not_eq_sym, stable_key_not_log_key). exact HL.
  - intros k'. unfold T. cbn [st_kv a_stab]. rewrite kv_get_put.
    destruct (String.eqb_spec k' k) as [->|N].
    + now rewrite String.eqb_refl.
    + destruct (String.eqb_spec (stable_key k') (stable_key k)) as [E|_]; [apply stable_key_inj in E; contradiction|].
      apply HT.
Qed.

Theorem step_sim var s a o :
  sim s a -> op_ok var (st_proto s) o ->
  sim (fst (step var s o)) (astep a o) /\ aobs a o (snd (step var s o)).
Proof.
  intros S Ok. pose proof S as (W & HL & HT). pose proof W as (Hs & Hk & Hv).
  destruct o as [| |i|ls|p|min max|k v|k|k v|k|proto|]; cbn [KV.step astep aobs fst snd].
  - (* FirstIndex *)
    split; [exact S|]. destruct (first_index_spec _ Hs Hk) as (n & E & Sp). rewrite E.
    exists n. split; [reflexivity|]. destruct Sp as [[-> Sp]|(Hn & Sp1 & Sp2)].
    + left. split; [reflexivity|]. intros i Hi. apply (sim_none_iff s a i S Hi). now apply Sp.
    + right. split; [exact Hn|]. split.
      * intros C. apply (sim_none_iff s a n S Hn) in C. contradiction.
      * intros i Hi Hne. apply Sp2; [exact Hi|]. intros C. apply (sim_none_iff s a i S Hi) in C. contradiction.
  - (* LastIndex *)
    split; [exact S|]. destruct (last_index_spec _ Hs Hk) as (n & E & Sp). rewrite E.
    exists n. split; [reflexivity|]. destruct Sp as [[-> Sp]|(Hn & Sp1 & Sp2)].
    + left. split; [reflexivity|]. intros i Hi. apply (sim_none_iff s a i S Hi). now apply Sp.
    + right. split; [exact Hn|]. split.
      * intros C. apply (sim_none_iff s a n S Hn) in C. contradiction.
      * intros i Hi Hne. apply Sp2; [exact Hi|]. intros C. apply (sim_none_iff s a i S Hi) in C. contradiction.
  - (* GetLog *)
    split; [exact S|]. cbn [op_ok] in Ok. exact (HL i Ok).
  - (* StoreLogs *)
    cbn [op_ok] in Ok. destruct (encode_all_spec _ _ Ok) as (puts & E & F). rewrite E. cbn [fst snd].
    split; [|reflexivity].
    assert (Hidx : Forall (fun l => l_index l < U64) ls).
    { eapply Forall_impl; [|exact Ok]. intros l (Wl & _). apply Wl. }
    assert (HPl : forall i l, last_with_index i ls = Some l -> wf_log l /\ P l).
    { clear -Ok. intros i l. induction Ok as [|x ls (Wx & Px & _) _ IH]; simpl; [discriminate|].
      destruct (last_with_index i ls); [exact IH|]. destruct (l_index x =? i); [|discriminate].
      intros H; inversion H; subst. now split. }
    split; [|split].
    + cbn [st_kv]. apply wf_kvs_apply_puts; [exact W|intros x; now apply (puts_keys ls)|].
      intros i v Hi Lp. pose proof (last_put_puts i ls puts Hi Hidx F) as Q. rewrite Lp in Q.
      destruct Q as (l & El & Nv & Rv). destruct (HPl i l El). split; [exact Nv|]. now exists l.
    + intros i Hi. cbn [a_log]. pose proof (last_put_puts i ls puts Hi Hidx F) as Q.
      unfold L, KV.get_log. cbn [st_kv]. rewrite kv_get_apply_puts.
      destruct (last_put (log_key i) puts) as [v|].
      * destruct Q as (l & El & Nv & Rv). rewrite El, Rv. exists l. split; [reflexivity|apply rel_refl].
      * rewrite Q. exact (HL i Hi).
    + intros k. unfold T. cbn [st_kv a_stab]. rewrite kv_get_apply_puts, (last_put_stable k ls puts F). apply HT.
  - (* StoreLogProto *)
    destruct Ok as [Wp Pp]. split; [|reflexivity].
    assert (Hi0 : pl_index p < U64) by apply Wp.
    split; [|split]; cbn [st_kv].
    + split; [now apply sorted_put|]. split; [apply keys_ok_put; [right; now exists (pl_index p)|exact Hk]|].
      intros i v Hi. rewrite kv_get_put, log_key_eqb by assumption.
      destruct (N.eqb_spec i (pl_index p)) as [->|N]; [|now apply Hv].
      intros H; inversion H; subst. split; [discriminate|]. exists (log_of_pb_store p).
      split; [now apply read_store_encode_pblog|]. split; [now apply wf_log_of_pb|exact Pp].
    + intros i Hi. cbn [a_log]. unfold L, KV.get_log. cbn [st_kv].
      rewrite kv_get_put, log_key_eqb by assumption.
      destruct (N.eqb_spec i (pl_index p)) as [->|N]; [|exact (HL i Hi)].
      rewrite read_store_encode_pblog by exact Wp. eexists. split; [reflexivity|apply rel_refl].
    + intros k. unfold T. cbn [st_kv a_stab].
      rewrite kv_get_put_other by apply stable_key_not_log_key. apply HT.
  - (* DeleteRange *)
    destruct Ok as (Hmin & Hmax & Hvar). split; [|reflexivity].
    split; [|split]; cbn [st_kv].
    + split; [now apply sorted_filter|]. split; [now apply keys_ok_filter|].
      intros i v Hi. rewrite get_after_delete_range_log by assumption.
      destruct ((min <=? i) && (i <=? max)); [discriminate|now apply Hv].
    + intros i Hi. cbn [a_log]. unfold L, KV.get_log. cbn [st_kv].
      rewrite get_after_delete_range_log by assumption.
      destruct ((min <=? i) && (i <=? max)); [reflexivity|exact (HL i Hi)].
    + intros k. unfold T. cbn [st_kv a_stab]. destruct var.
      * rewrite get_after_delete_range_stable_pinned by assumption.
        destruct (N.leb_spec min S_index), (N.leb_spec S_index max); cbn [andb]; try apply HT.
        exfalso. apply Hvar. now split.
      * rewrite get_after_delete_range_stable_repaired. apply HT.
  - (* Set *) split; [now apply sim_write_stable|reflexivity].
  - (* Get *) split; [exact S|]. now rewrite <- HT.
  - (* SetUint64 *) split; [now apply sim_write_stable|reflexivity].
  - (* GetUint64 *)
    split; [exact S|]. rewrite <- HT. unfold T. destruct (kv_get (stable_key k) (st_kv s)) as [v|]; [|reflexivity].
    destruct (be8_decode v); reflexivity.
  - (* Reopen *)
    destruct proto.
    + cbn [op_ok] in Ok. pose proof (convert_to_proto_spec (st_kv s) Ok W) as R.
      destruct (convert_to_proto json_dec_log json_dec_msg offset (st_kv s)) as [db r]. cbn [fst snd] in *.
      split; [|exact I]. apply (sim_after_convert s a db true Ok S R).
    + cbn [fst snd]. split; [|reflexivity]. exact S.
  - (* ConvertToProto *)
    cbn [op_ok] in Ok. pose proof (convert_to_proto_spec (st_kv s) Ok W) as R.
    destruct (convert_to_proto json_dec_log json_dec_msg offset (st_kv s)) as [db r]. cbn [fst snd] in *.
    split; [|exact I]. apply (sim_after_convert s a db (st_proto s) Ok S R).
Qed.

(* ---- any operation sequence ---------------------------------------------------------------------------- *)
Theorem run_sim var : forall ops s a,
  sim s a -> run_ok var s ops ->
  sim (fst (run var s ops)) (arun a ops) /\ trace_ok a ops (snd (run var s ops)).
Proof.
  induction ops as [|o r IH]; intros s a S Ok.
  - split; [exact S|exact I].
  - destruct Ok as [Ok1 Ok2]. pose proof (step_sim var s a o S Ok1) as [S1 O1].
    cbn [KV.run arun]. destruct (step var s o) as [s1 ob] eqn:E1. cbn [fst snd] in *.
    specialize (IH s1 (astep a o) S1 Ok2).
    destruct (run var s1 r) as [s2 obr]. cbn [fst snd] in *. destruct IH as [S2 O2].
    split; [exact S2|]. split; assumption.
Qed.

Lemma sim_empty proto : sim (empty_store proto) a_empty.
Proof.
  split; [|split].
  - split; [constructor|]. split; [constructor|]. intros i v _ H. discriminate.
  - intros i _. reflexivity.
  - intros k. reflexivity.
Qed.
End Store.

(* ---- the two instances ------------------------------------------------------------------------------------ *)
Definition json_codec_ok (jenc : rlog -> option string) (jdec : string -> option rlog) (jdom : rlog -> Prop) : Prop :=
  forall l, wf_log l -> jdom l ->
    exists v, jenc l = Some v /\ jdec v = Some l /\ starts_p v = false /\ v <> EmptyString.

Definition any_entry (_ : rlog) : Prop := True.

(* no conversion to protobuf in the sequence: stored entries are returned exactly *)
Theorem refinement_exact jenc jdec jdm off jdom var proto ops :
  json_codec_ok jenc jdec jdom ->
  run_ok jenc jdec jdm off jdom false any_entry var (empty_store proto) ops ->
  sim jdec eq any_entry (fst (run jenc jdec jdm off var (empty_store proto) ops)) (arun a_empty ops) /\
  trace_ok eq a_empty ops (snd (run jenc jdec jdm off var (empty_store proto) ops)).
Proof.
  intros J Ok. apply (run_sim jenc jdec jdm off jdom J eq false any_entry); try discriminate.
  - reflexivity.
  - apply sim_empty.
  - exact Ok.
Qed.

Lemma convertible_equiv jdm off l l' :
  convertible jdm off l -> wf_log l' -> log_equiv jdm off l l' -> convertible jdm off l'.
Proof.
  intros C _ (E1 & E2 & E3 & E4 & E5 & E6 & E7) Ty.
  rewrite <- E3 in Ty. destruct (C Ty) as (m & Fm & Wm & Sm).
  assert (Ei : msg_index off l = msg_index off l') by (unfold msg_index; congruence).
  destruct E7 as [E7|(_ & m' & M1 & M2)].
  - exists m. rewrite <- E7, <- Ei. split; [exact Fm|split; assumption].
  - rewrite Fm in M1. injection M1 as <-. exists m. split; [exact M2|split; assumption].
Qed.

(* with ConvertToProto / reopening in protobuf mode: equal up to log_equiv (all fields
   intact, data byte-identical or decoding to the same replicated message) *)
Theorem refinement_convert jenc jdec jdm off jdom var proto ops :
  json_codec_ok jenc jdec jdom ->
  run_ok jenc jdec jdm off jdom true (convertible jdm off) var (empty_store proto) ops ->
  sim jdec (log_equiv jdm off) (convertible jdm off)
      (fst (run jenc jdec jdm off var (empty_store proto) ops)) (arun a_empty ops) /\
  trace_ok (log_equiv jdm off) a_empty ops (snd (run jenc jdec jdm off var (empty_store proto) ops)).
Proof.
  intros J Ok.
  apply (run_sim jenc jdec jdm off jdom J (log_equiv jdm off) true (convertible jdm off)).
  - apply log_equiv_refl.
  - intros _ x l l'. apply log_equiv_trans.
  - intros _ l H. exact H.
  - intros _ l l'. apply convertible_equiv.
  - apply sim_empty.
  - exact Ok.
Qed.

(* ---- no shadowing, for EVERY index and key (no domain restriction at all) ------------------------------- *)
Definition is_log_write (o : op) : bool :=
  match o with OStoreLogs _ | OStoreLogProto _ => true | _ => false end.

Lemma last_put_encode_all_stable jenc proto k ls : forall puts,
  encode_all jenc proto ls = Some puts -> last_put (stable_key k) puts = None.
Proof.
  induction ls as [|l ls IH]; intros puts E; simpl in E.
  - inversion E. reflexivity.
  - destruct (if proto then Some (encode_log l) else jenc l) as [v|]; [|discriminate].
    destruct (encode_all jenc proto ls) as [t|]; [|discriminate]. inversion E; subst.
    cbn [last_put]. rewrite (IH t eq_refl).
    destruct (String.eqb_spec (stable_key k) (log_key (l_index l))) as [Q|_]; [|reflexivity].
    now apply stable_key_not_log_key in Q.
Qed.

(* writes to the log never change a stable-store read *)
Theorem log_writes_keep_stable jenc jdec jdm off var s o k :
  is_log_write o = true ->
  T (fst (step jenc jdec jdm off var s o)) k = T s k.
Proof.
  destruct o; try discriminate; intros _; cbn [KV.step].
  - destruct (encode_all jenc (st_proto s) ls) as [puts|] eqn:E; [|reflexivity].
    unfold T. cbn [fst st_kv]. rewrite kv_get_apply_puts. now rewrite (last_put_encode_all_stable _ _ _ _ _ E).
  - unfold T. cbn [fst st_kv]. apply kv_get_put_other, stable_key_not_log_key.
Qed.

(* the repaired DeleteRange never changes a stable-store read, whatever min and max *)
Theorem delete_range_keeps_stable jenc jdec jdm off s min max k :
  T (fst (step jenc jdec jdm off Repaired s (ODeleteRange min max))) k = T s k.
Proof. unfold T. cbn [KV.step fst st_kv]. apply get_after_delete_range_stable_repaired. Qed.

(* writes to the stable store never change a GetLog, for every index *)
Theorem stable_writes_keep_log jenc jdec jdm off var s k v i :
  get_log jdec (fst (step jenc jdec jdm off var s (OSet k v))) i = get_log jdec s i /\
  forall n, get_log jdec (fst (step jenc jdec jdm off var s (OSetU64 k n))) i = get_log jdec s i.
Proof.
  split; [|intros n]; unfold get_log; cbn [KV.step fst st_kv];
    now rewrite kv_get_put_other by (apply not_eq_sym, stable_key_not_log_key).
Qed.

(* closing and reopening without conversion is the identity on the map *)
Theorem reopen_identity jenc jdec jdm off var s :
  st_kv (fst (step jenc jdec jdm off var s (OReopen false))) = st_kv s.
Proof. reflexivity. Qed.

(* ---- the pinned DeleteRange is refuted ----------------------------------------------------------------- *)
Definition witness_ops : list op :=
  [OSet "k" "v"; ODeleteRange S_index S_index; OGet "k"].

Theorem pinned_refuted jenc jdec jdm off jdom :
  run_ok jenc jdec jdm off jdom false any_entry Repaired (empty_store true) witness_ops /\
  snd (run jenc jdec jdm off Pinned (empty_store true) witness_ops) = [ObsOk; ObsOk; ObsBytes None] /\
  snd (run jenc jdec jdm off Repaired (empty_store true) witness_ops) = [ObsOk; ObsOk; ObsBytes (Some "v")] /\
  ~ trace_ok eq a_empty witness_ops (snd (run jenc jdec jdm off Pinned (empty_store true) witness_ops)).
Proof.
  assert (E1 : snd (run jenc jdec jdm off Pinned (empty_store true) witness_ops) = [ObsOk; ObsOk; ObsBytes None])
    by (vm_compute; reflexivity).
  assert (E2 : snd (run jenc jdec jdm off Repaired (empty_store true) witness_ops) = [ObsOk; ObsOk; ObsBytes (Some "v")])
    by (vm_compute; reflexivity).
  split; [|split; [exact E1|split; [exact E2|]]].
  - cbn [run_ok witness_ops op_ok]. unfold U64, S_index. repeat split; lia.
  - rewrite E1. cbn [trace_ok witness_ops aobs astep a_stab a_empty]. intros (_ & _ & H & _).
    rewrite String.eqb_refl in H. discriminate.
Qed.

(* ---- direct statements of the individual clauses ---------------------------------------------------------- *)
(* FirstIndex / LastIndex of any state in the simulation: min / max of the log's domain, 0 when
   empty; a stable key is never mistaken for an index *)
Theorem sim_first_last jdec rel P s a :
  sim jdec rel P s a ->
  (exists n, first_index (st_kv s) = ROk n /\ is_min (a_log a) n) /\
  (exists n, last_index (st_kv s) = ROk n /\ is_max (a_log a) n).
Proof.
  intros S. pose proof S as ((Hs & Hk & Hv) & HL & HT). split.
  - destruct (first_index_spec _ Hs Hk) as (n & E & Sp). exists n. split; [exact E|].
    destruct Sp as [[-> Sp]|(Hn & Sp1 & Sp2)].
    + left. split; [reflexivity|]. intros i Hi. apply (sim_none_iff jdec rel P s a i S Hi). now apply Sp.
    + right. split; [exact Hn|]. split.
      * intros C. apply (sim_none_iff jdec rel P s a n S Hn) in C. contradiction.
      * intros i Hi Hne. apply Sp2; [exact Hi|]. intros C. apply (sim_none_iff jdec rel P s a i S Hi) in C. contradiction.
  - destruct (last_index_spec _ Hs Hk) as (n & E & Sp). exists n. split; [exact E|].
    destruct Sp as [[-> Sp]|(Hn & Sp1 & Sp2)].
    + left. split; [reflexivity|]. intros i Hi. apply (sim_none_iff jdec rel P s a i S Hi). now apply Sp.
    + right. split; [exact Hn|]. split.
      * intros C. apply (sim_none_iff jdec rel P s a n S Hn) in C. contradiction.
      * intros i Hi Hne. apply Sp2; [exact Hi|]. intros C. apply (sim_none_iff jdec rel P s a i S Hi) in C. contradiction.
Qed.

(* GetLog: exactly the stored, undeleted entry (all six fields), or raft's not-found *)
Theorem sim_get_exact jdec P s a i :
  sim jdec eq P s a -> i < U64 ->
  get_log jdec s i = match a_log a i with Some l => ObsLog l | None => ObsNotFound end.
Proof.
  intros (_ & HL & _) Hi. specialize (HL i Hi). unfold L in HL.
  destruct (a_log a i); [|exact HL]. destruct HL as (l' & E & ->). exact E.
Qed.

(* stable store: a read returns the last value written for the key, nil / 0 when absent *)
Theorem stable_last_write jenc jdec jdm off var s k v k' :
  T (fst (step jenc jdec jdm off var s (OSet k v))) k' = (if String.eqb k' k then Some v else T s k') /\
  forall n, T (fst (step jenc jdec jdm off var s (OSetU64 k n))) k' =
            (if String.eqb k' k then Some (be8 n) else T s k').
Proof.
  assert (E : String.eqb (stable_key k') (stable_key k) = String.eqb k' k).
  { destruct (String.eqb_spec k' k) as [->|N]; [apply String.eqb_refl|].
    apply String.eqb_neq. intros Q. apply stable_key_inj in Q. contradiction. }
  split; [|intros n]; unfold T; cbn [KV.step fst st_kv]; now rewrite kv_get_put, E.
Qed.

Theorem stable_reads jenc jdec jdm off var s k :
  snd (step jenc jdec jdm off var s (OGet k)) = ObsBytes (T s k) /\
  snd (step jenc jdec jdm off var s (OGetU64 k)) =
    match T s k with
    | None => ObsU64 0
    | Some v => match be8_decode v with Some n => ObsU64 n | None => ObsPanic end
    end /\
  forall n, n < U64 -> be8_decode (be8 n) = Some n.
Proof. repeat split. intros n Hn. now apply be8_decode_be8. Qed.
