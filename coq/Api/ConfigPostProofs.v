(* Api/ConfigPostProofs.v — proofs about Api/ConfigPost.v (property C16). *)
From Coq Require Import List Bool NArith Ascii String Lia.
From RV Require Import Base.Text Api.Auth Api.ConfigPost.
Import ListNotations.
Local Open Scope string_scope.

Section Config.
Variable base : Type.
Variable toml_parse : string -> option (base * list (string * string)).
Notation cstate := (cstate base).
Notation post_config := (post_config base toml_parse).
Notation capply := (capply base toml_parse).
Notation creplay := (creplay base toml_parse).
Notation cfg_step := (cfg_step base toml_parse).
Notation cfg_step_from := (cfg_step_from base toml_parse).
Notation takes_effect := (takes_effect base toml_parse).
Notation ceffects := (ceffects base toml_parse).

Definition accepted (st : cstate) (hdr body : string) : Prop :=
  exists d r, post_config st hdr body = CPropose d r.

(* accepted <-> the body parses and the header names the revision in force (on the leader) *)
Theorem accept_iff st hdr body :
  cs_leader st = true ->
  (accepted st hdr body <-> toml_parse body <> None /\ parse_uint0 hdr = Some (cs_rev st)).
Proof.
  intros Hl. unfold accepted, ConfigPost.post_config. rewrite Hl. simpl.
  destruct (parse_uint0 hdr) as [rev|].
  - destruct (toml_parse body) as [p|].
    + destruct (N.eqb_spec rev (cs_rev st)).
      * subst. split; [intros _; split; congruence|]. intros _. eauto.
      * split; [intros (d & r & H); discriminate|]. intros [_ H]. inversion H. congruence.
    + split; [intros (d & r & H); discriminate|]. intros [H _]. congruence.
  - split; [intros (d & r & H); discriminate|]. intros [_ H]. discriminate.
Qed.

(* what is proposed: the body as posted, with revision + 1 *)
Theorem propose_shape st hdr body d r :
  post_config st hdr body = CPropose d r ->
  d = body /\ r = (cs_rev st + 1)%N /\ cs_leader st = true /\ toml_parse body <> None.
Proof.
  unfold ConfigPost.post_config. destruct (parse_uint0 hdr) as [rev|]; [|discriminate].
  destruct (toml_parse body) as [p|]; [|discriminate].
  destruct (cs_leader st); simpl; [|discriminate].
  destruct (N.eqb_spec rev (cs_rev st)); [|discriminate].
  intros H. inversion H; subst. repeat split; congruence.
Qed.

(* accepted => revision + 1 exactly, configuration = the parsed body *)
Theorem accepted_step st hdr body :
  accepted st hdr body ->
  exists b bl, toml_parse body = Some (b, bl) /\
    cs_rev (cfg_step st hdr body) = (cs_rev st + 1)%N /\
    cs_base (cfg_step st hdr body) = b /\ cs_banned (cfg_step st hdr body) = bl.
Proof.
  intros (d & r & H). unfold ConfigPost.cfg_step, ConfigPost.cfg_step_from. rewrite H.
  apply propose_shape in H. destruct H as (-> & -> & _ & Hp).
  unfold ConfigPost.capply. destruct (toml_parse body) as [[b bl]|]; [|congruence].
  rewrite N.eqb_refl. exists b, bl. auto.
Qed.

(* rejected (any reason) => nothing changes *)
Theorem rejected_unchanged st hdr body :
  ~ accepted st hdr body -> cfg_step st hdr body = st.
Proof.
  intros H. unfold ConfigPost.cfg_step, ConfigPost.cfg_step_from. destruct (post_config st hdr body) eqn:E; try reflexivity.
  exfalso. apply H. unfold accepted. eauto.
Qed.

(* the state machine skips a Config entry that does not parse, whatever revision it carries *)
Theorem fsm_skips_invalid st d r : toml_parse d = None -> capply st (CEConfig d r) = st.
Proof. intros H. unfold ConfigPost.capply. now rewrite H. Qed.

Theorem fsm_installs_valid st d r b bl :
  toml_parse d = Some (b, bl) -> r = (cs_rev st + 1)%N ->
  capply st (CEConfig d r) = mkC r b bl (cs_leader st).
Proof. intros H ->. unfold ConfigPost.capply. now rewrite H, N.eqb_refl. Qed.

(* a Config entry that does not follow the revision in force is skipped, whatever it carries *)
Theorem fsm_skips_out_of_sequence st d r : r <> (cs_rev st + 1)%N -> capply st (CEConfig d r) = st.
Proof.
  intros H. unfold ConfigPost.capply. destruct (toml_parse d) as [[b bl]|]; [|reflexivity].
  destruct (N.eqb_spec r (cs_rev st + 1)%N); [congruence|reflexivity].
Qed.

(* GLINE writes the replicated configuration: Banned[addr] = reason, nothing else *)
Lemma scompare_refl s : String.compare s s = Eq.
Proof. induction s as [|c r IH]; simpl; [reflexivity|]. unfold Ascii.compare. now rewrite N.compare_refl. Qed.
Lemma ban_lookup_insert_same a r l : ban_lookup a (ban_insert a r l) = Some r.
Proof.
  induction l as [|[k v] tl IH]; simpl; [now rewrite String.eqb_refl|].
  destruct (String.compare a k) eqn:E; simpl.
  - now rewrite String.eqb_refl.
  - now rewrite String.eqb_refl.
  - destruct (String.eqb_spec k a); [subst; rewrite scompare_refl in E; discriminate|exact IH].
Qed.
Lemma compare_eq_eq a k : String.compare a k = Eq -> a = k.
Proof. apply String.compare_eq_iff. Qed.
Lemma ban_lookup_insert_other a r l x : x <> a -> ban_lookup x (ban_insert a r l) = ban_lookup x l.
Proof.
  intros Hne. induction l as [|[k v] tl IH]; simpl.
  - destruct (String.eqb_spec a x); congruence.
  - destruct (String.compare a k) eqn:E; simpl.
    + apply compare_eq_eq in E. subst k. destruct (String.eqb_spec a x); congruence.
    + destruct (String.eqb_spec a x); [congruence|reflexivity].
    + destruct (String.eqb k x); [reflexivity|exact IH].
Qed.

Theorem gline_writes_config st a r :
  let st' := capply st (CEGline a r) in
  cs_rev st' = cs_rev st /\ cs_base st' = cs_base st /\
  ban_lookup a (cs_banned st') = Some r /\
  (forall x, x <> a -> ban_lookup x (cs_banned st') = ban_lookup x (cs_banned st)).
Proof.
  simpl. repeat split; [apply ban_lookup_insert_same|]. intros x Hx. now apply ban_lookup_insert_other.
Qed.

(* two replicas of the same log have the same configuration at every position: the
   configuration part of the state is a function of the log alone (leadership is node-local) *)
Definition same_config (s1 s2 : cstate) : Prop :=
  cs_rev s1 = cs_rev s2 /\ cs_base s1 = cs_base s2 /\ cs_banned s1 = cs_banned s2.

Lemma capply_same s1 s2 e : same_config s1 s2 -> same_config (capply s1 e) (capply s2 e).
Proof.
  intros (Hr & Hb & Hl). destruct e as [d r|a r|]; simpl.
  - rewrite Hr. destruct (toml_parse d) as [[b bl]|]; [|unfold same_config; auto].
    destruct (N.eqb r (cs_rev s2 + 1)); unfold same_config; simpl; auto.
  - unfold same_config; simpl. now rewrite Hr, Hb, Hl.
  - unfold same_config; auto.
Qed.

Theorem replicas_same_config l : forall s1 s2 n,
  same_config s1 s2 -> same_config (creplay (firstn n l) s1) (creplay (firstn n l) s2).
Proof.
  induction l as [|e r IH]; intros s1 s2 n H; destruct n; simpl; auto.
  apply IH. now apply capply_same.
Qed.

(* posts issued one after another: the revision counts the accepted ones *)
Fixpoint run_posts (ps : list (string * string)) (st : cstate) : cstate :=
  match ps with [] => st | (h, b) :: r => run_posts r (cfg_step st h b) end.

Theorem revision_counts_accepted ps : forall st,
  cs_leader st = true ->
  exists k, (k <= List.length ps)%nat /\ cs_rev (run_posts ps st) = (cs_rev st + N.of_nat k)%N.
Proof.
  induction ps as [|[h b] r IH]; intros st Hl; simpl.
  - exists 0%nat. split; [lia|]. now rewrite N.add_0_r.
  - unfold ConfigPost.cfg_step at 1, ConfigPost.cfg_step_from at 1. destruct (post_config st h b) eqn:E;
      try (destruct (IH st Hl) as (k & Hk & Hr); exists k; split; [lia|exact Hr]).
    apply propose_shape in E. destruct E as (-> & -> & _ & Hp). unfold ConfigPost.capply.
    destruct (toml_parse b) as [[bb bl]|]; [|congruence]. rewrite N.eqb_refl.
    destruct (IH (mkC (cs_rev st + 1)%N bb bl (cs_leader st)) Hl) as (k & Hk & Hr).
    exists (S k). split; [lia|]. rewrite Hr. simpl cs_rev. lia.
Qed.

(* ---- ANY log: no assumption about what the proposing handlers saw (commit b3bad2c, D20) ------- *)

(* one entry: the revision stays or goes up by exactly one *)
Theorem entry_revision_step st e :
  cs_rev (capply st e) = cs_rev st \/ cs_rev (capply st e) = (cs_rev st + 1)%N.
Proof.
  destruct e as [d r|a r|]; simpl; auto.
  destruct (toml_parse d) as [[b bl]|]; auto.
  destruct (N.eqb_spec r (cs_rev st + 1)%N); simpl; auto.
Qed.

(* the configuration in force changes only together with the revision: a Config entry that
   leaves the revision alone leaves everything alone; no entry changes the non-ban part
   without raising the revision *)
Theorem config_changes_only_with_revision st e :
  cs_rev (capply st e) = cs_rev st ->
  cs_base (capply st e) = cs_base st /\
  (forall d r, e = CEConfig d r -> capply st e = st).
Proof.
  destruct e as [d r|a r|]; simpl; intros H.
  - destruct (toml_parse d) as [[b bl]|] eqn:Hp.
    + destruct (N.eqb_spec r (cs_rev st + 1)%N) as [->|Hne]; simpl in *; [lia|].
      split; [reflexivity|]. intros d' r' E. reflexivity.
    + split; [reflexivity|]. intros d' r' E. reflexivity.
  - split; [reflexivity|]. intros d r' E. discriminate.
  - split; [reflexivity|]. intros d r' E. discriminate.
Qed.

Theorem takes_effect_spec st e :
  takes_effect st e = true <->
  exists d b bl, e = CEConfig d (cs_rev st + 1)%N /\ toml_parse d = Some (b, bl) /\
                 capply st e = mkC (cs_rev st + 1)%N b bl (cs_leader st).
Proof.
  destruct e as [d r|a r|]; simpl.
  - destruct (toml_parse d) as [[b bl]|] eqn:Hp.
    + destruct (N.eqb_spec r (cs_rev st + 1)%N) as [->|Hne].
      * split; [intros _; exists d, b, bl; rewrite Hp; auto|auto].
      * split; [discriminate|]. intros (d' & b' & bl' & E & _). inversion E; congruence.
    + split; [discriminate|]. intros (d' & b' & bl' & E & Hp' & _). inversion E; subst. congruence.
  - split; [discriminate|]. intros (d & b & bl & E & _). discriminate.
  - split; [discriminate|]. intros (d & b & bl & E & _). discriminate.
Qed.

Lemma no_effect_unchanged_rev st e : takes_effect st e = false -> cs_rev (capply st e) = cs_rev st.
Proof.
  destruct e as [d r|a r|]; simpl; auto.
  destruct (toml_parse d) as [[b bl]|]; auto. destruct (N.eqb r (cs_rev st + 1)); [discriminate|auto].
Qed.
Lemma effect_rev st e : takes_effect st e = true -> cs_rev (capply st e) = (cs_rev st + 1)%N.
Proof. intros H. apply takes_effect_spec in H. destruct H as (d & b & bl & _ & _ & ->). reflexivity. Qed.

Fixpoint seqN (start : N) (len : nat) : list N :=
  match len with O => [] | S k => start :: seqN (start + 1)%N k end.

(* whole logs — any mix of consecutive, stale, future and duplicate revisions, unparsable
   bodies, GLINEs and other entries: the updates that take effect carry exactly the revisions
   rev0+1, rev0+2, ..., each once, and the final revision counts them *)
Theorem log_effects_consecutive l : forall st,
  ceffects l st = seqN (cs_rev st + 1)%N (List.length (ceffects l st)) /\
  cs_rev (creplay l st) = (cs_rev st + N.of_nat (List.length (ceffects l st)))%N.
Proof.
  induction l as [|e r IH]; intros st; simpl.
  - split; [reflexivity|]. now rewrite N.add_0_r.
  - destruct (IH (capply st e)) as [H1 H2].
    destruct (takes_effect st e) eqn:He; cbn [app List.length seqN].
    + rewrite (effect_rev _ _ He) in *. split.
      * f_equal. exact H1.
      * rewrite H2. lia.
    + rewrite (no_effect_unchanged_rev _ _ He) in *. split; [exact H1|exact H2].
Qed.

Lemma seqN_lt start len x : In x (seqN start len) -> (start <= x)%N.
Proof. revert start. induction len as [|k IH]; intros start; simpl; [tauto|]. intros [<-|H]; [lia|]. apply IH in H. lia. Qed.
Lemma seqN_nodup start len : NoDup (seqN start len).
Proof.
  revert start. induction len as [|k IH]; intros start; simpl; constructor; [|apply IH].
  intros H. apply seqN_lt in H. lia.
Qed.

(* two (or more) copies of the same update — the same revision — take effect at most once,
   wherever they sit in the log *)
Corollary same_revision_once l st : NoDup (ceffects l st).
Proof. destruct (log_effects_consecutive l st) as [H _]. rewrite H. apply seqN_nodup. Qed.

(* the second of two adjacent copies never has an effect *)
Theorem duplicate_has_no_effect st d d' r :
  takes_effect st (CEConfig d r) = true -> capply (capply st (CEConfig d r)) (CEConfig d' r) = capply st (CEConfig d r).
Proof.
  intros H. apply fsm_skips_out_of_sequence. rewrite (effect_rev _ _ H).
  apply takes_effect_spec in H. destruct H as (d0 & b & bl & E & _). inversion E; subst. lia.
Qed.

(* at every position of the log the revision stays or goes up by one *)
Theorem log_revision_steps l e st :
  cs_rev (creplay (l ++ [e]) st) = cs_rev (creplay l st) \/
  cs_rev (creplay (l ++ [e]) st) = (cs_rev (creplay l st) + 1)%N.
Proof.
  assert (H : forall l st, creplay (l ++ [e]) st = capply (creplay l st) e).
  { clear. induction l as [|x r IH]; intros st; simpl; [reflexivity|apply IH]. }
  rewrite H. apply entry_revision_step.
Qed.

(* a post answered from ANY state: it has an effect on the applying node only if the header
   names the revision in force THERE and the body parses; otherwise nothing changes *)
Theorem stale_post_harmless view st hdr body :
  cfg_step_from view st hdr body = st \/
  (parse_uint0 hdr = Some (cs_rev st) /\ exists b bl, toml_parse body = Some (b, bl) /\
   cfg_step_from view st hdr body = mkC (cs_rev st + 1)%N b bl (cs_leader st)).
Proof.
  unfold ConfigPost.cfg_step_from. destruct (post_config view hdr body) as [| | | |d r] eqn:E; auto.
  unfold ConfigPost.post_config in E.
  destruct (parse_uint0 hdr) as [rev|]; [|discriminate].
  destruct (toml_parse body) as [[b bl]|] eqn:Hp; [|discriminate].
  destruct (cs_leader view); simpl in E; [|discriminate].
  destruct (N.eqb rev (cs_rev view)); [|discriminate]. inversion E; subst d r.
  unfold ConfigPost.capply. rewrite Hp.
  destruct (N.eqb_spec (rev + 1)%N (cs_rev st + 1)%N) as [Heq|]; [|now left].
  right. assert (rev = cs_rev st) by lia. subst rev. split; [reflexivity|]. exists b, bl. auto.
Qed.
End Config.

(* ---- non-vacuity ----------------------------------------------------------------------------- *)
Definition ex_toml (b : string) : option (string * list (string * string)) :=
  if String.eqb b "good" then Some ("cfgA", []) else if String.eqb b "good2" then Some ("cfgB", [("10.0.0.9", "old")]) else None.
Definition ex_c0 : cstate string := mkC 0%N "default" [] true.
Example ex_history :
  let s1 := cfg_step string ex_toml ex_c0 "0" "good" in
  let s2 := cfg_step string ex_toml s1 "0" "good2" in          (* stale *)
  let s3 := cfg_step string ex_toml s2 "0x1" "bad" in          (* unparsable *)
  let s4 := capply string ex_toml s3 (CEGline "10.0.0.1" "spam") in
  let s5 := cfg_step string ex_toml s4 "1" "good2" in
  (cs_rev s1, cs_base s1) = (1%N, "cfgA") /\ s2 = s1 /\ s3 = s1 /\
  cs_banned s4 = [("10.0.0.1", "spam")] /\ (cs_rev s5, cs_base s5, cs_banned s5) = (2%N, "cfgB", [("10.0.0.9", "old")]).
Proof. vm_compute. repeat split; reflexivity. Qed.
Example ex_accepted : accepted string ex_toml ex_c0 "0" "good".
Proof. unfold accepted. eexists _, _. reflexivity. Qed.

(* a log nobody's handler vetted: valid 1, stale 1 again (duplicate), future 5, unparsable 2, valid 2, stale 1 *)
Example ex_any_log :
  let l := [CEConfig "good" 1%N; CEConfig "good2" 1%N; CEConfig "good2" 5%N; CEConfig "bad" 2%N; CEGline "10.0.0.1" "x";
            CEConfig "good2" 2%N; CEConfig "good" 1%N] in
  ceffects string ex_toml l ex_c0 = [1%N; 2%N] /\
  (cs_rev (creplay string ex_toml l ex_c0), cs_base (creplay string ex_toml l ex_c0)) = (2%N, "cfgB").
Proof. vm_compute. split; reflexivity. Qed.
