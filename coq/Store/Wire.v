(* Store/Wire.v — protobuf wire primitives and fixed-width integers as executable functions on
   byte strings (Coq [string], one [ascii] per byte, as in Base/Text.v).
   What is modelled: protowire's base-128 varint (AppendVarint / ConsumeVarint incl. the
   10-byte overflow rule), fixed64/fixed32 (little endian), tags, length-delimited values,
   the generic field splitter used by protobuf-go's table-driven unmarshaller (a field whose
   wire type does not match the declared one is an unknown field and is skipped), and the
   8-byte big-endian integers used as LevelDB keys / snapshot length prefixes.
   Executable definitions only; proofs are in WireProofs.v. *)
From Coq Require Import List NArith ZArith Bool.
From Coq Require Import Strings.String Strings.Ascii.
Import ListNotations.
Local Open Scope N_scope.

Definition bytes := string.

Definition byte (n : N) : ascii := ascii_of_N n.

(* length as a binary number (no unary nat for long payloads) *)
Fixpoint slen (s : string) : N :=
  match s with EmptyString => 0 | String _ r => N.succ (slen r) end.

(* split_at s n = Some (first n bytes, rest); None if s is shorter.  Structural on s, so a
   huge claimed length costs nothing. *)
Fixpoint split_at (s : string) (n : N) : option (string * string) :=
  if n =? 0 then Some (EmptyString, s)
  else match s with
       | EmptyString => None
       | String c r => match split_at r (N.pred n) with
                       | Some (a, b) => Some (String c a, b)
                       | None => None
                       end
       end.

Fixpoint has_prefix (p s : string) : bool :=
  match p with
  | EmptyString => true
  | String a p' => match s with
                   | EmptyString => false
                   | String b s' => Ascii.eqb a b && has_prefix p' s'
                   end
  end.

(* ---- varint ------------------------------------------------------------------------- *)
(* AppendVarint for a uint64: 7 bits per byte, least significant group first, at most 10
   bytes.  Arithmetic definition (n mod 128, n / 128); fuel 10 covers every n < 2^64. *)
Fixpoint enc_varint_fuel (fuel : nat) (n : N) : string :=
  match fuel with
  | O => EmptyString
  | S f => if n <? 128 then String (byte n) EmptyString
           else String (byte (128 + n mod 128)) (enc_varint_fuel f (n / 128))
  end.
Definition enc_varint (n : N) : string := enc_varint_fuel 10 n.

(* ConsumeVarint: up to 10 bytes; the tenth byte must be 0 or 1 (otherwise overflow);
   non-minimal encodings are accepted, as in protowire. *)
Fixpoint dec_varint_fuel (fuel : nat) (s : string) : option (N * string) :=
  match fuel with
  | O => None
  | S f =>
      match s with
      | EmptyString => None
      | String c r =>
          let b := N_of_ascii c in
          if b <? 128 then
            match f with
            | O => if b <? 2 then Some (b, r) else None
            | S _ => Some (b, r)
            end
          else match dec_varint_fuel f r with
               | Some (v, r') => Some (b - 128 + 128 * v, r')
               | None => None
               end
      end
  end.
Definition dec_varint (s : string) : option (N * string) := dec_varint_fuel 10 s.

(* ---- two's complement views ------------------------------------------------------------ *)
Definition two64 : Z := 18446744073709551616%Z.
Definition two63 : Z := 9223372036854775808%Z.
Definition two32 : Z := 4294967296%Z.
Definition two31 : Z := 2147483648%Z.
Definition two64N : N := 18446744073709551616.

(* uint64(int64 z) *)
Definition u64_of_Z (z : Z) : N := Z.to_N (z mod two64).
(* int64(uint64 n) *)
Definition i64_of_N (n : N) : Z :=
  let z := (Z.of_N n mod two64)%Z in if (z <? two63)%Z then z else (z - two64)%Z.
(* int32(x) for an integer x (Go conversion: keep the low 32 bits, reinterpret) *)
Definition i32_of_Z (z : Z) : Z :=
  let w := (z mod two32)%Z in if (w <? two31)%Z then w else (w - two32)%Z.
(* int64(x) for an integer x *)
Definition i64_of_Z (z : Z) : Z :=
  let w := (z mod two64)%Z in if (w <? two63)%Z then w else (w - two64)%Z.

(* ---- fixed width ----------------------------------------------------------------------- *)
(* k bytes little endian (binary.LittleEndian.PutUint64 for k = 8, protobuf fixed64/fixed32) *)
Fixpoint enc_le (k : nat) (n : N) : string :=
  match k with O => EmptyString | S k' => String (byte (n mod 256)) (enc_le k' (n / 256)) end.
Fixpoint dec_le (k : nat) (s : string) : option (N * string) :=
  match k with
  | O => Some (0, s)
  | S k' => match s with
            | EmptyString => None
            | String c r => match dec_le k' r with
                            | Some (v, r') => Some (N_of_ascii c + 256 * v, r')
                            | None => None
                            end
            end
  end.
Definition enc_fixed64 := enc_le 8.
Definition dec_fixed64 := dec_le 8.

(* k bytes big endian (binary.BigEndian.PutUint64 for k = 8): most significant byte first *)
Fixpoint enc_be (k : nat) (n : N) : string :=
  match k with
  | O => EmptyString
  | S k' => String (byte ((n / 256 ^ N.of_nat k') mod 256)) (enc_be k' n)
  end.
Fixpoint dec_be_acc (k : nat) (s : string) (acc : N) : option (N * string) :=
  match k with
  | O => Some (acc, s)
  | S k' => match s with
            | EmptyString => None
            | String c r => dec_be_acc k' r (256 * acc + N_of_ascii c)
            end
  end.
Definition dec_be (k : nat) (s : string) : option (N * string) := dec_be_acc k s 0.
Definition be8 (n : N) : string := enc_be 8 n.
(* binary.BigEndian.Uint64(b): the first 8 bytes; None = Go panics (slice shorter than 8) *)
Definition be8_decode (s : string) : option N :=
  match dec_be 8 s with Some (v, _) => Some v | None => None end.

(* ---- tags and fields ---------------------------------------------------------------------- *)
Definition WT_VARINT : N := 0.
Definition WT_FIXED64 : N := 1.
Definition WT_BYTES : N := 2.
Definition WT_FIXED32 : N := 5.

Definition enc_tag (num wt : N) : string := enc_varint (num * 8 + wt).

Inductive wval :=
| VVarint (n : N)
| VFixed64 (n : N)
| VBytes (s : string)
| VFixed32 (n : N).

Definition enc_wval (v : wval) : string :=
  match v with
  | VVarint n => enc_varint n
  | VFixed64 n => enc_le 8 n
  | VBytes s => enc_varint (slen s) ++ s
  | VFixed32 n => enc_le 4 n
  end.
Definition wt_of (v : wval) : N :=
  match v with VVarint _ => 0 | VFixed64 _ => 1 | VBytes _ => 2 | VFixed32 _ => 5 end.
Definition enc_field (num : N) (v : wval) : string := enc_tag num (wt_of v) ++ enc_wval v.

(* one field: tag, then the value according to the wire type.  Field number 0 is invalid;
   groups (wire types 3, 4) and the reserved types 6, 7 are a parse error in this model
   (protobuf-go skips well-formed groups; none of the three messages can produce one). *)
Definition dec_field (s : string) : option (N * wval * string) :=
  match dec_varint s with
  | None => None
  | Some (tag, r) =>
      let num := tag / 8 in
      let wt := tag mod 8 in
      if num =? 0 then None
      else if wt =? 0 then
        match dec_varint r with Some (v, r') => Some (num, VVarint v, r') | None => None end
      else if wt =? 1 then
        match dec_le 8 r with Some (v, r') => Some (num, VFixed64 v, r') | None => None end
      else if wt =? 2 then
        match dec_varint r with
        | Some (len, r') => match split_at r' len with
                            | Some (b, r'') => Some (num, VBytes b, r'')
                            | None => None
                            end
        | None => None
        end
      else if wt =? 5 then
        match dec_le 4 r with Some (v, r') => Some (num, VFixed32 v, r') | None => None end
      else None
  end.

(* a whole message body as the list of its fields, in wire order; None = malformed *)
Fixpoint parse_fields (fuel : nat) (s : string) : option (list (N * wval)) :=
  match s with
  | EmptyString => Some []
  | String _ _ =>
      match fuel with
      | O => None
      | S f => match dec_field s with
               | Some (num, v, r) => match parse_fields f r with
                                     | Some l => Some ((num, v) :: l)
                                     | None => None
                                     end
               | None => None
               end
      end
  end.
(* every field consumes at least one byte, so [length s] iterations always suffice *)
Definition parse_message (s : string) : option (list (N * wval)) := parse_fields (String.length s) s.

(* ---- UTF-8 (proto3 string fields are validated by Marshal and Unmarshal) ----------------- *)
(* utf8.Valid: well-formed sequences only, no overlong forms, no surrogates, <= U+10FFFF *)
Definition cont (b : N) : bool := (128 <=? b) && (b <=? 191).
Fixpoint valid_utf8_fuel (fuel : nat) (l : list N) : bool :=
  match fuel with
  | O => match l with [] => true | _ => false end
  | S f =>
      match l with
      | [] => true
      | b0 :: r =>
          if b0 <? 128 then valid_utf8_fuel f r
          else if (194 <=? b0) && (b0 <=? 223) then
            match r with b1 :: r' => cont b1 && valid_utf8_fuel f r' | _ => false end
          else if b0 =? 224 then
            match r with b1 :: b2 :: r' => (160 <=? b1) && (b1 <=? 191) && cont b2 && valid_utf8_fuel f r' | _ => false end
          else if ((225 <=? b0) && (b0 <=? 236)) || (b0 =? 238) || (b0 =? 239) then
            match r with b1 :: b2 :: r' => cont b1 && cont b2 && valid_utf8_fuel f r' | _ => false end
          else if b0 =? 237 then
            match r with b1 :: b2 :: r' => (128 <=? b1) && (b1 <=? 159) && cont b2 && valid_utf8_fuel f r' | _ => false end
          else if b0 =? 240 then
            match r with b1 :: b2 :: b3 :: r' => (144 <=? b1) && (b1 <=? 191) && cont b2 && cont b3 && valid_utf8_fuel f r' | _ => false end
          else if (241 <=? b0) && (b0 <=? 243) then
            match r with b1 :: b2 :: b3 :: r' => cont b1 && cont b2 && cont b3 && valid_utf8_fuel f r' | _ => false end
          else if b0 =? 244 then
            match r with b1 :: b2 :: b3 :: r' => (128 <=? b1) && (b1 <=? 143) && cont b2 && cont b3 && valid_utf8_fuel f r' | _ => false end
          else false
      end
  end.
Fixpoint bytes_of (s : string) : list N :=
  match s with EmptyString => [] | String c r => N_of_ascii c :: bytes_of r end.
Definition valid_utf8 (s : string) : bool := valid_utf8_fuel (String.length s) (bytes_of s).
