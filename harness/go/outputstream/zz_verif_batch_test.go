//go:build verif

package outputstream

// Correspondence driver for property C18 (hand-written output batch codec of
// serialization.go), injected by `go test -overlay`, never part of /repo.  Case lines:
//   codec batch <next> {<id>,<reply>,<datahex>,<rcpts>}*     rcpts = n/n/.. or _
//   codec batchdec <hex>
// Output: the canonical form of coq/Store/StoreDriver.v, then " || " and Go-only data:
// raw=<hex of marshal()> (fed to the model's decoder by the check) and the verdict of the
// Go-side round-trip monitor rt=ok|FAIL.

import (
	"bufio"
	"encoding/hex"
	"fmt"
	"os"
	"sort"
	"strconv"
	"strings"
	"testing"
)

func vbatchU(s string) uint64 {
	n, err := strconv.ParseUint(s, 10, 64)
	if err != nil {
		panic(err)
	}
	return n
}

func vbatchShow(b *messageBatch) string {
	parts := []string{strconv.FormatUint(b.NextID, 10)}
	for _, m := range b.Messages {
		var ks []uint64
		for k, v := range m.InterestingFor {
			if v {
				ks = append(ks, k)
			}
		}
		sort.Slice(ks, func(i, j int) bool { return ks[i] < ks[j] })
		rc := "_"
		if len(ks) > 0 {
			var l []string
			for _, k := range ks {
				l = append(l, strconv.FormatUint(k, 10))
			}
			rc = strings.Join(l, "/")
		}
		data := "-"
		if m.Data != "" {
			data = hex.EncodeToString([]byte(m.Data))
		}
		parts = append(parts, fmt.Sprintf("%d,%d,%s,%s", m.Id.Id, m.Id.Reply, data, rc))
	}
	return "b:" + strings.Join(parts, ";")
}

func vbatchDecode(buf []byte) (res string) {
	defer func() {
		if r := recover(); r != nil {
			res = "panic"
		}
	}()
	return vbatchShow(unmarshalMessageBatch(buf))
}

func vbatchCase(f []string) string {
	b := &messageBatch{NextID: vbatchU(f[2])}
	single := true
	for _, tok := range f[3:] {
		a := strings.Split(tok, ",")
		var m Message
		m.Id.Id, m.Id.Reply = vbatchU(a[0]), vbatchU(a[1])
		if a[2] != "-" {
			d, err := hex.DecodeString(a[2])
			if err != nil {
				panic(err)
			}
			m.Data = string(d)
		}
		m.InterestingFor = make(map[uint64]bool)
		if a[3] != "_" {
			for _, r := range strings.Split(a[3], "/") {
				m.InterestingFor[vbatchU(r)] = true
			}
		}
		if len(m.InterestingFor) > 1 {
			single = false
		}
		b.Messages = append(b.Messages, m)
	}
	raw := b.marshal()
	enc := "multi"
	if single {
		enc = hex.EncodeToString(raw)
	}
	dec := vbatchDecode(raw)
	rt := "ok"
	if dec != vbatchShow(b) {
		rt = "FAIL"
	}
	return fmt.Sprintf("codec batch len=%d enc=%s dec=%s || raw=%s rt=%s", len(raw), enc, dec, hex.EncodeToString(raw), rt)
}

func TestVerifBatch(t *testing.T) {
	in, err := os.Open(os.Getenv("VERIF_IN"))
	if err != nil {
		t.Fatal(err)
	}
	defer in.Close()
	out, err := os.Create(os.Getenv("VERIF_OUT"))
	if err != nil {
		t.Fatal(err)
	}
	defer out.Close()
	w := bufio.NewWriter(out)
	defer w.Flush()
	sc := bufio.NewScanner(in)
	sc.Buffer(make([]byte, 1<<20), 1<<28)
	for sc.Scan() {
		f := strings.Fields(sc.Text())
		line := "codec unknown || -"
		func() {
			defer func() {
				if r := recover(); r != nil {
					line = fmt.Sprintf("codec driver-panic %v || -", r)
				}
			}()
			switch {
			case len(f) >= 3 && f[0] == "codec" && f[1] == "batch":
				line = vbatchCase(f)
			case len(f) >= 3 && f[0] == "codec" && f[1] == "batchdec":
				raw := []byte{}
				if f[2] != "-" {
					raw, err = hex.DecodeString(f[2])
					if err != nil {
						panic(err)
					}
				}
				line = "codec batchdec " + vbatchDecode(raw) + " || -"
			}
		}()
		fmt.Fprintln(w, line)
	}
}
