# C04 — exactly-once, in-order delivery when a client resumes with lastseen.
# proof obligations (Properties/C04.v) + correspondence of M-RESUME with the real api.getMessages
# goroutine running against real OutputStreams + a monitor that states the property directly on what
# the client received (concatenation over all connections == the session's filtered stream).
import glob, json, os, re
import vlib

PKG = "./internal/api/"
CORPUS = os.path.join(vlib.ROOT, "corpus", "C04")


# ------------------------------------------------------------------ scenario -> case line
def show_msgs(msgs):
    return ",".join("%d/%s/%s" % (r, t if t else "-", "+".join(str(x) for x in rc) if rc else "-") for (r, t, rc) in msgs)


def node_stream(sc, node):
    """the batches node <node> adds, in order: the common stream, or (restore scenarios) what the
    node rebuilt from a snapshot really holds, as dumped from the real FSM by stage 1"""
    return sc.get("node_streams", {}).get(str(node), sc["stream"])


def case_line(sc):
    """events: ["a",node] node applies its next batch | ["d",node,id] | ["c",node] | ["x"] | ["r",k]"""
    applied = {}
    toks = ["res", str(sc["sess"]), "%d.%d" % tuple(sc["ls0"])]
    for ev in sc["events"]:
        if ev[0] == "a":
            n = applied.get(ev[1], 0)
            if n >= len(node_stream(sc, ev[1])):
                continue
            i, msgs = node_stream(sc, ev[1])[n]
            applied[ev[1]] = n + 1
            toks.append("a:%d:%d:%s" % (ev[1], i, show_msgs(msgs)))
        elif ev[0] == "d":
            toks.append("d:%d:%d" % (ev[1], ev[2]))
        elif ev[0] == "c":
            toks.append("c:%d" % ev[1])
        elif ev[0] == "r":
            toks.append("r:%d" % ev[1])
        elif ev[0] == "w":
            toks.append("w:%d" % ev[1])
        else:
            toks.append("x")
    return " ".join(toks)


# ------------------------------------------------------------------ reference (the property itself)
def expected_stream(sc):
    """the messages addressed to the session after the first resume point, in id order,
    each with the index of its batch in the stream"""
    out = []
    ls0 = tuple(sc["ls0"])
    for bi, (i, msgs) in enumerate(sc["stream"]):
        for (r, t, rc) in msgs:
            if (i, r) > ls0 and sc["sess"] in rc:
                out.append((bi, i, r, t))
    return out


def reference(sc):
    """per event the result token the property demands (r=...), independent of any model of the code"""
    exp = expected_stream(sc)
    applied, conn, p = {}, None, 0
    want = []
    last = tuple(sc["ls0"])
    base = sc.get("node_base", {})
    for ev in sc["events"]:
        if ev[0] == "a":
            n = applied.get(ev[1], 0)
            if n >= len(node_stream(sc, ev[1])):
                continue
            applied[ev[1]] = n + 1
            want.append(None)
        elif ev[0] == "c":
            conn = ev[1]; want.append(None)
        elif ev[0] == "x":
            conn = None; want.append(None)
        elif ev[0] in ("d", "w"):
            want.append(None)
        elif ev[0] == "r":
            got = []
            if conn is not None:
                # a node rebuilt from a snapshot holds the reference stream from its horizon on
                b0 = base.get(str(conn), 0)
                n = b0 + applied.get(conn, 0)
                while p < len(exp) and b0 <= exp[p][0] < n and (ev[1] == 0 or len(got) < ev[1]):
                    got.append(exp[p]); p += 1
            if got:
                last = (got[-1][1], got[-1][2])
            want.append("r=" + (",".join("%d.%d/%s" % (i, r, t if t else "-") for (_, i, r, t) in got) if got else "-"))
    return want, last


def classify(gtoks, sc):
    """signature of a deviation: what kind of exactly-once failure is it"""
    exp = [(i, r) for (_, i, r, _) in expected_stream(sc)]
    got = []
    for t in gtoks:
        if t.startswith("r=") and not t.startswith("r=-"):
            for m in t[2:].split("!")[0].split(","):
                mm = re.match(r"(\d+)\.(\d+)/", m)
                if mm:
                    got.append((int(mm.group(1)), int(mm.group(2))))
    if any("!panic" in t or t.endswith("=handler-panic") or t.endswith("=deadlock") or (t.endswith("=panic") and t[0] in "cr") for t in gtoks):
        return "resume-handler-goroutine-died"
    if len(set(got)) != len(got) or any(got[k] >= got[k + 1] for k in range(len(got) - 1)):
        return "resume-duplicate-delivery"
    if sc.get("ended") and sc["stream"] and any(g[0] > sc["stream"][-1][0] for g in got):
        return LINK_ONCE if link_served_once(sc, gtoks, got) else "ended-session-still-served"
    if any(g not in exp for g in got):
        return "resume-delivered-not-after-lastseen"
    # got is strictly increasing and within exp: a gap = a message lost
    if got != exp[:len(got)]:
        return "resume-message-lost"
    if any("!timeout" in t for t in gtoks):
        return "resume-handler-stuck"
    return "resume-blocked-although-messages-exist"


ENDED_TAIL = "ended-session-tail-not-served"
LINK_ONCE = "ended-link-served-once"      # open finding of C17, not a C04 matter


def link_served_once(sc, gtoks, got):
    """the open C17 finding `ended-link-served-once`, and nothing else: the reader is a services link,
    its session was ended by an entry that emitted nothing for it, after its end it was handed messages
    of exactly ONE batch, every one of them flagged for the (dead) link's id - i.e. services-directed,
    the id is still in IRCServer.serverSessions - and the handler returned right after that batch."""
    if not sc.get("is_link") or not sc.get("ended") or sc.get("end_event") is not None:
        return False
    if any("!timeout" in t or "panic" in t for t in gtoks):
        return False
    final = sc["stream"][-1][0]
    late = [g for g in got if g[0] > final]
    after = {b[0]: b for b in sc.get("after_end", [])}
    if len({g[0] for g in late}) != 1 or late[0][0] not in after:
        return False
    flagged = [(late[0][0], m[0]) for m in after[late[0][0]][1] if sc["sess"] in m[2]]
    return late == flagged and got[-len(late):] == late


def _received(tok):
    out = []
    if tok.startswith("r=") and not tok.startswith("r=-"):
        for m in tok[2:].split("!")[0].split(","):
            mm = re.match(r"(\d+)\.(\d+)/(.*)$", m)
            if mm:
                out.append((int(mm.group(1)), int(mm.group(2)), "" if mm.group(3) == "-" else mm.group(3)))
    return out


def ended_tail(sc, toks):
    """the open finding `ended-session-tail-not-served`, and nothing else: the client's session was
    ended (handler-level scenario), what the client received is a PREFIX of its filtered stream
    (nothing duplicated, reordered or skipped), everything missing lies at or before the batch of the
    message that ended the session, and the client either (a) was behind by at least one batch
    addressed to it when the session ended and still got the whole batch that was in flight, or
    (b) cut the connection itself after the session had ended and every later request was refused (404).
    A client that was caught up, kept its stream open and kept reading is owed the final batch."""
    end = sc.get("end_event")
    if end is None or len(toks) != len(sc["events"]) + 1:
        return False
    if any("!timeout" in t or "panic" in t or "deadlock" in t for t in toks):
        return False
    exp = [(i, r, t) for (_, i, r, t) in expected_stream(sc)]
    final_id = sc["stream"][sum(1 for e in sc["events"][:end + 1] if e[0] == "a" and e[1] == 0) - 1][0]
    got_all, got_before = [], []
    for k, t in enumerate(toks[:-1]):
        rec = _received(t)
        got_all += rec
        if k < end:
            got_before += rec
    if got_all != exp[:len(got_all)]:
        return False
    missing = exp[len(got_all):]
    if not missing or any(m[0] > final_id for m in missing):
        return False
    owed_before = [m for m in exp if m[0] < final_id]
    after = list(zip(sc["events"][end + 1:], toks[end + 1:-1]))
    cut_off = any(e[0] == "x" for e, _ in after)
    refused = all(t == "c=http404" for e, t in after if e[0] == "c")
    if not refused:
        return False
    if cut_off:
        return True
    if len(got_before) < len(owed_before):
        inflight = exp[len(got_before)][0]
        return all(m in got_all for m in exp if m[0] == inflight)
    return False


def monitor(sc, gline):
    if gline is None or not gline.startswith("res "):
        return ("driver-output-unparsable", "no result line for the scenario")
    toks = gline.split(" ")[1:]
    want, last = reference(sc)
    if sc.get("stream_changed"):
        return ("stream-batch-mutated-by-reader", "after the readers were done, OutputStream.Get(%s) no longer returns the batch that was added: a GetMessages "
                                                  "request changed a batch shared by all requests of the node" % sc["stream_changed"].split(":")[-1])
    if ended_tail(sc, toks):
        exp = expected_stream(sc)
        n = sum(len(_received(t)) for t in toks[:-1])
        return (ENDED_TAIL, "the client's session was ended while %d message(s) addressed to it were still unread; the handler stopped after the batch in flight / "
                            "the resume was refused, and %s were never served" % (len(exp) - n, ",".join("%d.%d" % (m[1], m[2]) for m in exp[n:][:6])))
    if len(toks) != len(want) + 1:
        return (classify(toks, sc), "result line has %d tokens, scenario has %d steps: %s" % (len(toks), len(want) + 1, gline))
    for k, w in enumerate(want):
        if w is not None and toks[k] != w:
            return (classify(toks, sc), "step %d: the client received %s, its session's stream demands %s" % (k, toks[k], w))
    if toks[-1] != "last=%d.%d" % last:
        return ("resume-wrong-lastseen", "client's lastseen is %s, expected last=%d.%d" % (toks[-1], last[0], last[1]))
    return None


# ------------------------------------------------------------------ generator
def gen_scenario(rng, lagfocus):
    sess = 1
    nb = rng.randint(2, 9)
    i = rng.randint(2, 30)
    stream = []
    for _ in range(nb):
        i += rng.choice([1, 1, 1, 2, 3, 7])
        n = rng.choice([1, 1, 2, 2, 3, 4])
        msgs = []
        pint = rng.choice([0.0, 0.5, 0.8, 1.0])
        for r in range(1, n + 1):
            rc = set(rng.sample([2, 3, 4], rng.choice([0, 1, 2])))
            if rng.random() < pint:
                rc.add(sess)
            t = bytes(rng.choice(b"abcdefgh :") for _ in range(rng.randint(0, 4))).hex()
            msgs.append([r, t, sorted(rc)])
        stream.append([i, msgs])
    k = rng.random()
    first = stream[0][0]
    if k < 0.45:
        ls0 = [first - 1, 0]                       # session created right before the stream
    elif k < 0.6:
        ls0 = [rng.randint(0, first - 1), 0]
    elif k < 0.85:
        b = rng.choice(stream)                     # resume inside / at the end of / beyond a batch
        ls0 = [b[0], rng.randint(0, len(b[1]) + 1)]
    else:
        ls0 = [rng.randint(first, stream[-1][0] + 1), rng.randint(0, 3)]
    nnodes = rng.choice([1, 2, 2, 3])
    sc = {"sess": sess, "ls0": ls0, "stream": stream, "events": []}
    ev = sc["events"]
    applied = [0] * nnodes
    conn = None
    exp = expected_stream(sc)
    p = 0
    last = tuple(ls0)

    def do_recv(kk):
        nonlocal p, last
        if conn is None:
            return
        got = 0
        while p < len(exp) and exp[p][0] < applied[conn] and (kk == 0 or got < kk):
            last = (exp[p][1], exp[p][2]); p += 1; got += 1

    for _ in range(rng.randint(6, 30)):
        k = rng.random()
        if k < 0.3:
            n = rng.randrange(nnodes)
            if lagfocus and conn is not None and rng.random() < 0.6:
                n = conn                            # the node the client is connected to catches up
            if applied[n] < nb:
                applied[n] += 1; ev.append(["a", n])
        elif k < 0.45:
            n = rng.randrange(nnodes)
            if lagfocus and rng.random() < 0.7:
                n = min(range(nnodes), key=lambda j: applied[j])   # reconnect to the node that lags most
            conn = n; ev.append(["c", n])
        elif k < 0.75:
            kk = rng.choice([0, 0, 1, 1, 2, 3])
            ev.append(["r", kk]); do_recv(kk)
        elif k < 0.85:
            if conn is not None:
                conn = None; ev.append(["x"])
        else:
            n = rng.randrange(nnodes)
            below = [b[0] for b in stream if b[0] < last[0]]
            j = rng.random()
            if j < 0.6 and below:
                x = rng.choice(below) if rng.random() < 0.4 else below[0]
            elif last[0] > 1:
                x = rng.randint(1, last[0] - 1)
            else:
                continue
            # keep the compaction oldest-first per node is not required by the model; any x below the resume point
            ev.append(["d", n, x])
    # final phase: one node applies everything, the client reads until nothing is left
    n = rng.randrange(nnodes)
    while applied[n] < nb:
        applied[n] += 1; ev.append(["a", n])
        if rng.random() < 0.3:
            ev.append(["r", rng.choice([0, 1, 2])]); do_recv(ev[-1][1])
    if conn != n:
        conn = n; ev.append(["c", n])
    ev.append(["r", 0])
    return sc


def gen_long_scenario(rng):
    """a node that has served more than 1000 batches to other readers (its batch cache has been
    trimmed) before this client reads its stream, with a reconnect in the middle"""
    sess, i, stream = 1, 1, []
    for _ in range(rng.randint(1060, 1200)):
        i += rng.choice([1, 1, 2])
        rc = sorted({rng.choice([2, 3, 4])} | ({sess} if rng.random() < 0.85 else set()))
        stream.append([i, [[1, "%02x" % (65 + i % 26), rc]]])
    ev = [["a", 0]] * len(stream) + [["w", 0], ["c", 0], ["r", rng.randint(100, 600)], ["x"], ["w", 0], ["c", 0], ["r", 0]]
    return {"sess": sess, "ls0": [1, 0], "stream": stream, "events": ev, "note": "long stream, cache trimmed by other readers"}


# ------------------------------------------------------------------ restore scenarios (stage 1: real FSM)
DEFAULT_OFFSET = 4648398125000000000      # default of -robustirc_message_offset in the real binary
T0 = 1700000000 * 10 ** 9
HOUR = 3600 * 10 ** 9
KEEP_NS = (600 + 10) * 10 ** 9           # default session expiration 10 min + expireSessionsInterval 10 s


def gen_fsm_spec(rng):
    """a raft log: 2-3 sessions set up long ago, old traffic (folded into the snapshot state), recent
    traffic (retained by the snapshot and replayed by Restore), a snapshot after k entries, a few
    entries applied live after the restore.  The client is session 1."""
    nicks = ["alice", "bob", "carol"][:rng.choice([2, 3, 3])]
    entries = [["C", T0 + i + 1] for i in range(len(nicks))]
    t = T0 + 10
    for ref, nick in enumerate(nicks, 1):
        for line in ("NICK " + nick, "USER x 0 * :x", "JOIN #c"):
            entries.append(["M", ref, t, line]); t += 1

    def traffic(n, t):
        out = []
        for _ in range(n):
            ref = rng.randint(1, len(nicks))
            k = rng.random()
            if k < 0.5:
                line = "PRIVMSG #c :%s" % rng.choice(["hi", "fnord", "x y z"])
            elif k < 0.7:
                line = "PRIVMSG %s :psst" % rng.choice(nicks)
            elif k < 0.8:
                line = "TOPIC #c :%s" % rng.choice(["t1", "t2"])
            elif k < 0.9:
                line = "WHO #c"
            else:
                line = "PING foo"
            out.append(["M", ref, t, line]); t += 1
        return out, t
    old, t = traffic(rng.randint(0, 3), t)
    entries += old
    recent, t2 = traffic(rng.randint(2, 6), T0 + HOUR)
    entries += recent
    k = len(entries) - rng.choice([0, 0, 1])
    after, _ = traffic(rng.randint(0, 3), t2)
    entries += after
    return {"offset": DEFAULT_OFFSET if rng.random() < 0.7 else 0, "cstart": T0 + HOUR + 300 * 10 ** 9,
            "k": k, "entries": entries}


def fsm_line(spec):
    toks = ["resfsm", str(spec["offset"]), str(spec["cstart"]), str(spec["k"])]
    for e in spec["entries"]:
        if e[0] == "C":
            toks.append("C:%d" % e[1])
        else:
            toks.append("M:%d:%d:%s" % (e[1], e[2], e[3].encode().hex()))
    return " ".join(toks)


def parse_dump(d):
    if d == "-":
        return []
    out = []
    for b in d.split(";"):
        i, ms = b.split("=", 1)
        msgs = []
        for m in ms.split(","):
            r, t, rc = m.split("/")
            msgs.append([int(r), "" if t == "-" else t, [] if rc == "-" else [int(x) for x in rc.split("+")]])
        out.append([int(i), msgs])
    return out


def run_stage1(specs, tag="fsm"):
    """the real FSM (package main): live node A, node B rebuilt from a protobuf snapshot"""
    wd = vlib.workdir()
    inp, outp = os.path.join(wd, tag + ".in"), os.path.join(wd, tag + ".out")
    open(inp, "w").write("\n".join(fsm_line(s) for s in specs) + "\n")
    if os.path.exists(outp):
        os.remove(outp)
    rc, out = vlib.go_test(".", {vlib.REPO + "/zz_verif_resfsm_test.go": vlib.HGO + "/main/zz_verif_resfsm_test.go"},
                           "^TestVerifResFsm$", {"VERIF_IN": inp, "VERIF_OUT": outp}, timeout=900)
    if rc != 0 or not os.path.exists(outp):
        return None, out
    res = []
    for l in open(outp).read().split("\n")[:-1]:
        f = l.split(" ")
        if len(f) == 4 and f[1].startswith("A=") and f[2].startswith("B="):
            res.append({"A": parse_dump(f[1][2:]), "B": parse_dump(f[2][2:]), "snap": f[3][5:]})
        else:
            res.append({"error": l[:300]})
    return res, out


def fsm_scenarios(spec, d):
    """resume on the restored node at every position from just before the replayed window to the end"""
    off = spec["offset"]
    sess = off + 1
    A, B = d["A"], d["B"]
    # first index retained by the snapshot (entries of the first k newer than the compaction end)
    first = spec["k"] + 1
    for idx, e in enumerate(spec["entries"][:spec["k"]], 1):
        ts = e[1] if e[0] == "C" else e[2]
        if ts > spec["cstart"] - KEEP_NS:
            first = idx
            break
    horizon = off + first
    base = sum(1 for b in A if b[0] < horizon)
    proto = {"sess": sess, "ls0": [sess, 0], "stream": A, "node_streams": {"1": B}, "node_base": {"1": base},
             "fsm": spec, "window": [horizon, off + spec["k"]]}
    exp = expected_stream(proto)
    out = []
    setup = [["a", 0]] * len(A) + [["a", 1]] * len(B)
    for k in range(1, len(exp) + 1):
        # the property is limited to resume points not older than the compaction horizon: every
        # message still owed to the client lies in a batch the restored node must hold
        if all(m[1] >= horizon for m in exp[k:]) and exp[k - 1][1] >= horizon - 3:
            sc = dict(proto, events=setup + [["c", 0], ["r", k], ["x"], ["c", 1], ["r", 0]],
                      note="restore: resume on the rebuilt node after %d.%d (window %d..%d)" % (exp[k - 1][1], exp[k - 1][2], horizon, off + spec["k"]))
            out.append(sc)
    return out


def build_restore_cases(specs):
    """returns (scenarios, error text or None, info)"""
    info = {"logs": len(specs), "scenarios": 0, "nonzero_offset_logs": sum(1 for s in specs if s["offset"]),
            "resumes_inside_replayed_window": 0, "unusable_logs": 0}
    if not specs:
        return [], None, info
    dumps, out = run_stage1(specs)
    if dumps is None:
        return [], out, info
    cases = []
    for spec, d in zip(specs, dumps):
        if "error" in d:
            return [], "stage 1 (FSM restore driver) failed on a log: " + d["error"], info
        scs = fsm_scenarios(spec, d)
        if not scs:
            info["unusable_logs"] += 1
        cases += scs
    info["scenarios"] = len(cases)
    for sc in cases:
        m = re.search(r"after (\d+)\.", sc["note"])
        if m and sc["window"][0] <= int(m.group(1)) <= sc["window"][1]:
            info["resumes_inside_replayed_window"] += 1
    return cases, None, info


# ------------------------------------------------------------------ handler-level scenarios (real handleGetMessages)
GM_NICKS = {1: "alice", 2: "bob", 3: "carol"}


def gen_gm(rng):
    """IRC traffic of three sessions applied in FSM order while session 1 reads its stream through
    the real GET handler: reads of k messages, aborts, resumes with lastseen, and an end of the
    client's session (QUIT / ping-timeout DeleteSession / KILL by an operator) while the stream is
    open - the batch of that very message must still be delivered."""
    steps = []

    def m(s, line):
        steps.append(["m", s, line])
    for s in (1, 2, 3):
        m(s, "NICK " + GM_NICKS[s]); m(s, "USER x 0 * :x"); m(s, "JOIN #c")
    avail = 6            # lower bound of messages owed to the client (welcome burst, joins)
    is_open = False
    oper = False
    nickb = "bob"

    def traffic():
        nonlocal avail, nickb
        k = rng.random()
        if k < 0.45:
            m(rng.choice([2, 3]), "PRIVMSG #c :%s" % rng.choice(["hi", "fnord", "x y"])); avail += 1
        elif k < 0.6:
            m(rng.choice([2, 3]), "PRIVMSG alice :psst"); avail += 1
        elif k < 0.7:
            m(1, "PRIVMSG #c :mine")
        elif k < 0.8:
            nickb = "bob%d" % rng.randint(1, 9); m(2, "NICK " + nickb)      # no output if the nick is unchanged:
        elif k < 0.9:
            m(3, "TOPIC #c :%s" % rng.choice(["t1", "t2"]))                  # ... or the topic; not counted in avail
        else:
            m(1, "WHO #c"); avail += 2
    for _ in range(rng.randint(4, 14)):
        k = rng.random()
        if k < 0.5:
            traffic()
        elif k < 0.62:
            steps.append(["o"]); is_open = True
        elif k < 0.8 and is_open:
            if avail >= 1 and rng.random() < 0.6:
                kk = rng.randint(1, min(avail, 4))
                steps.append(["r", kk]); avail -= kk
            else:
                steps.append(["r", 0]); avail = 0
        elif k < 0.9 and is_open:
            steps.append(["x"]); is_open = False
    end = rng.random()
    if end < 0.8:
        j = rng.random()
        if j >= 0.7:
            m(2, "OPER root secret")
        if not is_open:
            steps.append(["o"]); is_open = True
        # the client is caught up when the message that ends its session is applied (a client that
        # lags behind at that moment loses the rest by design: the handler aborts once the session
        # is gone), and the handler is idle: nothing is applied between the sync and the end
        steps.append(["r", 0])
        if j < 0.4:
            m(1, "QUIT :%s" % rng.choice(["bye", "gone"]))
        elif j < 0.7:
            steps.append(["D", 1, "Ping timeout"])
        else:
            m(2, "KILL alice :go away")
        steps.append(["f"])
    else:
        if not is_open:
            steps.append(["o"])
        steps.append(["r", 0])
    return {"nsess": 3, "steps": steps}


def gen_gm_ended(rng, cls):
    """the open finding's scenario classes.  (a) the client is behind when its session is ended:
    it has read k messages of the welcome burst (the handler is blocked inside that batch), or it is
    caught up and two more batches for it arrive which it does not read; then QUIT / DeleteSession /
    KILL; it reads on until the handler ends the request.  (b) the client is caught up, its session
    is ended, it cuts the connection before reading the final batch and resumes with lastseen."""
    steps = []

    def m(s, line):
        steps.append(["m", s, line])
    for s in (1, 2, 3):
        m(s, "NICK " + GM_NICKS[s]); m(s, "USER x 0 * :x"); m(s, "JOIN #c")
    j = rng.random()
    if j >= 0.7:
        m(2, "OPER root secret")

    def end():
        if j < 0.4:
            m(1, "QUIT :bye")
        elif j < 0.7:
            steps.append(["D", 1, "Ping timeout"])
        else:
            m(2, "KILL alice :go away")
    steps.append(["o"])
    if cls == "a" and rng.random() < 0.5:
        steps.append(["r", rng.randint(1, 4)])          # inside the first batch addressed to the client
        if rng.random() < 0.5:
            m(2, "PRIVMSG #c :more")
        end()
        steps.append(["f"])
    elif cls == "a":
        steps.append(["r", 0])
        m(2, "PRIVMSG #c :one"); m(3, "PRIVMSG alice :two")
        end()
        steps.append(["f"])
    else:
        steps.append(["r", 0])
        end()
        steps.append(["x"]); steps.append(["o"]); steps.append(["f"])
    return {"nsess": 3, "steps": steps, "class": "ended-" + cls}


def step_client(st):
    """client steps: ["o"] ["r",k] ["x"] ["f"] belong to client 1; ["o",c] ["r",k,c] ["x",c] ["f",c] to client c"""
    if st[0] == "r":
        return st[2] if len(st) > 2 else 1
    if st[0] in ("o", "x", "f"):
        return st[1] if len(st) > 1 else 1
    return None


def step_node(st):
    """["o", c, node]: the request goes to node <node> (1 = the node that lags)"""
    return st[2] if st[0] == "o" and len(st) > 2 else 0


def gen_gm_multi(rng):
    """several sessions, each reading through its own request on the same node, traffic whose reply
    batches have MIXED recipients (a later message for a session that is not addressed by an earlier
    one: PRIVMSG to an away user, INVITE, KILL, WHOIS), varied read order (sender first / target
    first / third party first / a reader that opens or resumes after the others have read).  Every
    reader must get exactly its own filtered sequence whoever read first, and the stream itself must
    be unchanged afterwards."""
    steps = []
    nick = {1: "alice", 2: "bob", 3: "carol"}

    def m(s, line, ends=None):
        steps.append(["m", s, line] + ([ends] if ends else []))
    for s in (1, 2, 3):
        m(s, "NICK " + nick[s]); m(s, "USER x 0 * :x"); m(s, "JOIN #c")
    m(2, "JOIN #d")
    oper = rng.random() < 0.4
    if oper:
        m(2, "OPER root secret")
    if rng.random() < 0.7:
        m(rng.choice([1, 3]), "AWAY :gone fishing")
    away = True

    def mixed():
        k = rng.random()
        if k < 0.3:
            m(2, "PRIVMSG %s :ping" % rng.choice([nick[1], nick[3]]))        # [PRIVMSG->target, 301->sender] when away
        elif k < 0.45:
            m(rng.choice([1, 3]), "PRIVMSG bob :pong")
        elif k < 0.6:
            m(2, "INVITE %s #d" % rng.choice([nick[1], nick[3]]))            # [341->inviter, INVITE->invitee, NOTICE->channel]
        elif k < 0.7:
            m(rng.choice([1, 2, 3]), "WHOIS %s" % nick[rng.choice([1, 2, 3])])
        elif k < 0.8:
            s = rng.choice([2, 3]); nick[s] = nick[s].rstrip("0123456789") + str(rng.randint(1, 9)); m(s, "NICK " + nick[s])
        elif k < 0.9:
            m(rng.choice([1, 2, 3]), "PRIVMSG #c :hello")
        else:
            m(1, "TOPIC #c :t%d" % rng.randint(1, 9))
    readers = [1, 2, 3] if rng.random() < 0.6 else rng.sample([1, 2, 3], 2)
    pattern = rng.choice(["sequential", "concurrent", "concurrent", "resume"])
    if pattern == "sequential":
        # one reader reads the mixed batches first, the others open their streams afterwards
        order = list(readers); rng.shuffle(order)
        first = order[0]
        steps.append(["o", first]); steps.append(["r", 0, first])
        for _ in range(rng.randint(1, 4)):
            mixed()
        steps.append(["r", 0, first])
        for c in order[1:]:
            steps.append(["o", c]); steps.append(["r", 0, c])
        mixed()
        for c in order:
            steps.append(["r", 0, c])
    else:
        for c in readers:
            steps.append(["o", c])
        resumer = rng.choice(readers) if pattern == "resume" else None
        for c in readers:
            if c == resumer:
                steps.append(["r", rng.randint(1, 4), c]); steps.append(["x", c])     # cut inside its welcome burst
            else:
                steps.append(["r", 0, c])
        for _ in range(rng.randint(1, 3)):
            for _ in range(rng.randint(1, 3)):
                mixed()
            order = [c for c in readers if c != resumer]; rng.shuffle(order)
            for c in order:
                steps.append(["r", 0, c])
        if resumer:
            steps.append(["o", resumer]); steps.append(["r", 0, resumer])
            mixed()
            order = list(readers); rng.shuffle(order)
            for c in order:
                steps.append(["r", 0, c])
    if oper and 3 in readers and rng.random() < 0.6:
        # KILL: [QUIT->channel, KILL->victim, ERROR->victim]; the victim is caught up and idle
        steps.append(["r", 0, 3])
        m(2, "KILL %s :bye" % nick[3], 3)
        others = [c for c in readers if c != 3]; rng.shuffle(others)
        steps.append(["f", 3])
        for c in others:
            steps.append(["r", 0, c])
    return {"nsess": 3, "steps": steps, "class": "multi-" + pattern}


def gen_gm_lag(rng):
    """the client has read up to X on a caught-up node; its next request (lastseen = X) goes to a node
    that LAGS: it holds only a prefix of the log (possibly nothing: freshly restarted) and applies
    the rest while the request is open.  Nothing at or before X may be delivered again, everything
    after X must arrive."""
    steps = []
    nent = 0

    def m(s, line):
        nonlocal nent
        steps.append(["m", s, line]); nent += 1
    for s in (1, 2, 3):
        m(s, "NICK " + GM_NICKS[s]); m(s, "USER x 0 * :x"); m(s, "JOIN #c")

    def traffic(n):
        for _ in range(n):
            k = rng.random()
            if k < 0.5:
                m(rng.choice([2, 3]), "PRIVMSG #c :%s" % rng.choice(["hi", "fnord"]))
            elif k < 0.7:
                m(2, "PRIVMSG alice :psst")
            elif k < 0.85:
                m(1, "WHO #c")
            else:
                m(3, "TOPIC #c :t%d" % rng.randint(1, 9))
    steps.append(["o"])
    if rng.random() < 0.4:
        steps.append(["r", rng.randint(1, 4)])       # X inside the welcome burst
    else:
        traffic(rng.randint(0, 3))
        steps.append(["r", 0]); nent += 1
    traffic(rng.randint(0, 3))
    steps.append(["x"])
    pre = rng.choice([0, 0, rng.randint(1, max(1, nent - 1)), nent])   # what the lagging node holds already
    if pre:
        steps.append(["A", pre])
    steps.append(["o", 1, 1])
    if pre < nent and rng.random() < 0.5:
        steps.append(["A", rng.randint(1, nent - pre)])              # partial catch-up while the request is open
    traffic(rng.randint(0, 2))
    steps.append(["r", 0, 1])
    if rng.random() < 0.5:
        traffic(rng.randint(1, 2))
        steps.append(["r", 0, 1])
    return {"nsess": 3, "steps": steps, "class": "lagging-node"}


def gen_gm_services(rng):
    """a services link (PASS services=.., SERVER, 0-2 pseudo-clients in 0-1 channels) reads its stream;
    its session is ended (DeleteSession / QUIT); afterwards a batch for somebody else and then traffic
    that is sent to services (ircserver keeps flagging the ended link's id - D13) are applied: the
    request must end and deliver NOTHING produced after the end."""
    steps = []

    def m(s, line, ends=None):
        steps.append(["m", s, line] + ([ends] if ends else []))
    for s in (1, 2):
        m(s, "NICK " + GM_NICKS[s]); m(s, "USER x 0 * :x"); m(s, "JOIN #c")
    m(4, "PASS :services=mypass")
    m(4, "SERVER services.robustirc.net 1 :Services for IRC Networks")
    pseudo = rng.sample(["ChanServ", "NickServ"], rng.choice([0, 1, 2]))
    for n in pseudo:
        m(4, "NICK %s 1 1422134861 services localhost.net services.localhost.net 0 :%s" % (n, n))
    if pseudo and rng.random() < 0.5:
        m(4, ":%s JOIN #c" % pseudo[0])
    steps.append(["o", 4]); steps.append(["r", 0, 4])
    for _ in range(rng.randint(0, 2)):
        k = rng.random()
        if k < 0.4:
            m(1, "PRIVMSG NickServ :IDENTIFY hunter2")
        elif k < 0.7:
            m(2, "NICK bob%d" % rng.randint(1, 9))
        else:
            m(1, "PRIVMSG #c :hello")
    steps.append(["r", 0, 4])
    if rng.random() < 0.6:
        steps.append(["D", 4, "killed", 4])
    else:
        m(4, "QUIT :bye", 4)
    m(1, "PING unrelated")                                # a batch for somebody else: the handler notices the end
    for _ in range(rng.randint(1, 3)):
        k = rng.random()
        if k < 0.5:
            m(1, "PRIVMSG NickServ :IDENTIFY hunter2")    # a user logging in after the link is gone
        elif k < 0.8:
            m(2, "NICK robert%d" % rng.randint(1, 9))
        else:
            m(3, "NICK carol")
    steps.append(["f", 4])
    return {"nsess": 4, "steps": steps, "class": "services-link"}


def gm_line(spec):
    toks = ["gm", str(spec["nsess"])]
    for st in spec["steps"]:
        c = step_client(st)
        at = "" if c in (None, 1) else "@%d" % c
        if st[0] in ("m", "D"):
            toks.append("%s:%d:%s" % (st[0], st[1], st[2].encode().hex()))
        elif st[0] == "A":
            toks.append("A:%d" % st[1])
        elif st[0] == "r":
            toks.append("r:%d%s" % (st[1], at))
        elif st[0] == "o" and step_node(st):
            toks.append("o@%d/%d" % (c, step_node(st)))
        else:
            toks.append(st[0] + at)
    return " ".join(toks)


def gm_to_cases(spec, gl):
    """translate the handler-level run into one resume scenario PER READER over the stream the real
    ircserver produced: [(scenario for the Out/Resume model and the reference, result line in `res`
    form)], or (None, error text)"""
    f = gl.split(" ")
    if f[0] != "gm" or not f[-1].startswith("S=") or len(f) != len(spec["steps"]) + 5:
        return None, gl[:300]
    stream_by_id = {b[0]: b for b in parse_dump(f[-1][2:])}
    lasts = dict(x.split(":") for x in f[-3][2:].split(",")) if f[-3] != "L=-" else {}
    changed = f[-2][2:]
    clients = sorted({step_client(st) for st in spec["steps"] if step_client(st) is not None})
    if changed == "diverged":
        return None, "the lagging node produced a different stream from the same log: " + gl[:200]
    res = []
    for c in clients:
        stream, events, toks = [], [], []
        entries = []            # the log: batch id or None per entry, in order
        p1 = 0                  # entries node 1 has applied
        on_node = {}            # client -> node of its current request
        ended = False           # the reader's session has ended: nothing produced later belongs to its stream

        after_end = []

        def add0(i):
            entries.append(i)
            if i is not None and not ended:
                stream.append(stream_by_id[i]); events.append(["a", 0]); toks.append("a=ok")
            elif i is not None:
                after_end.append(stream_by_id[i])

        def node1_applies(n):
            nonlocal p1
            for i in entries[p1:p1 + n]:
                if i is not None and stream_by_id[i] in stream:
                    events.append(["a", 1]); toks.append("a=ok")
            p1 += n
        end_event = None
        for st, t in zip(spec["steps"], f[1:-4]):
            val = t.split("=", 1)[1]
            mine = step_client(st) == c
            if st[0] in ("m", "D"):
                add0(int(val) if val != "-" else None)
                if len(st) > 3:
                    ends = st[3] == c
                else:   # scenarios written before readers other than session 1 existed
                    ends = c == 1 and ((st[0] == "D" and st[1] == 1) or (st[0] == "m" and (
                        (st[1] == 1 and st[2].startswith("QUIT")) or st[2].startswith("KILL alice"))))
                if ends:
                    ended = True
                    if val != "-":
                        end_event = len(events) - 1
            elif st[0] == "A":
                node1_applies(int(val))
            elif st[0] == "r" and st[1] == 0:
                mm = re.match(r"(.*)@(\d+)(!\w+)?$", val)
                add0(int(mm.group(2)))           # the marker batch is part of the stream for every reader
                if on_node.get(step_client(st), 0) == 1:
                    node1_applies(len(entries) - p1)
                if mine:
                    events.append(["r", 0]); toks.append("r=" + mm.group(1) + (mm.group(3) or ""))
            elif st[0] == "o":
                on_node[step_client(st)] = step_node(st)
                if mine:
                    events.append(["c", step_node(st)]); toks.append("c=ok" if val == "ok" else "c=" + val)
            elif not mine:
                continue
            elif st[0] == "x":
                events.append(["x"]); toks.append("x=ok")
            elif st[0] == "r":
                events.append(["r", st[1]]); toks.append("r=" + val)
            elif st[0] == "f":
                events.append(["r", 0]); toks.append("r=" + val)
        sc = {"sess": c, "ls0": [c, 0], "stream": stream, "events": events, "gm": spec, "gm_client": c,
              "note": "handler level: real handleGetMessages over ircserver + outputstream, reader of session %d" % c}
        if end_event is not None:
            sc["end_event"] = end_event
        if ended:
            sc["ended"] = True
            sc["after_end"] = after_end
        if any(st[0] == "m" and st[1] == c and st[2].startswith("SERVER ") for st in spec["steps"]):
            sc["is_link"] = True
        if c == clients[0] and changed != "ok":
            sc["stream_changed"] = changed
        res.append((sc, " ".join(["res"] + toks + ["last=" + lasts.get(str(c), "0.0")])))
    return res, None


C17_CORPUS = os.path.join(CORPUS, "10-c17-ended-link-served-once.json")


def gm_known_c17(ck):
    """called by props/c17.py: runs the deterministic handler-level scenario of the open C17 finding
    `ended-link-served-once` on the tree under test and reports it under C17 (KNOWN-FINDING while the
    line is in known_findings.txt; silent once the tree no longer shows it)"""
    try:
        specs = [c["gm"] for c in json.load(open(C17_CORPUS)).get("cases", [])]
        res, out = run_gm(specs, "gmc17")
    except Exception as ex:          # the C17 check itself must not fail because of this probe
        ck.notes["c17_gm_probe"] = "not run: %s" % ex
        return
    if res is None:
        ck.notes["c17_gm_probe"] = "handler-level driver did not build/run"
        return
    hits = 0
    for sc, g in res:
        why = monitor(sc, g)
        if why and why[0] == LINK_ONCE:
            hits += 1
            ck.violation(LINK_ONCE, {"what": why[1], "cases": [sc], "case_line": gm_line(sc["gm"]), "impl_output": g[:2000],
                                     "how_to_replay": "bin/check C04 --replay <this file> (handler-level gm driver)"}, concrete=True)
        elif why and sc.get("is_link"):
            ck.violation(why[0], {"what": why[1], "cases": [sc], "case_line": gm_line(sc["gm"]), "impl_output": g[:2000]}, concrete=True)
    ck.notes["c17_gm_probe"] = {"scenarios": len(res), "ended_link_served_once": hits}


def run_gm(specs, tag="gm", scale=None):
    wd = vlib.workdir()
    inp, outp = os.path.join(wd, tag + ".in"), os.path.join(wd, tag + ".out")
    open(inp, "w").write("\n".join(gm_line(s) for s in specs) + "\n")
    if os.path.exists(outp):
        os.remove(outp)
    rc, out = vlib.go_test(PKG, {vlib.REPO + "/internal/api/zz_verif_getmsg_test.go": vlib.HGO + "/api/zz_verif_getmsg_test.go"},
                           "^TestVerifGetMsg$", dict({"VERIF_IN": inp, "VERIF_OUT": outp}, **({"VERIF_WAIT_SCALE": str(scale)} if scale else {})), timeout=2400)
    if rc != 0 or not os.path.exists(outp):
        return None, out
    res = []
    for spec, gl in zip(specs, open(outp).read().split("\n")[:-1]):
        scs, err = gm_to_cases(spec, gl)
        if scs is None:
            return None, "handler-level driver: unusable result line: " + err
        res += scs
    return res, out


# ------------------------------------------------------------------ timing-only discrepancies
def timing_only(sc, gline):
    """the discrepancy consists only of the driver's wall-clock bound firing: a !timeout marker (or
    the signature resume-handler-stuck) and, apart from it, what was received is a prefix of what is owed"""
    why = monitor(sc, gline)
    if not why or "!timeout" not in (gline or ""):
        return False
    if why[0] == "resume-handler-stuck":
        return True
    exp = [(i, r, t) for (_, i, r, t) in expected_stream(sc)]
    got = []
    for t in gline.split(" ")[1:-1]:
        got += _received(t)
    return got == exp[:len(got)]


def rerun_one(sc, scale):
    """that single scenario, alone, with enlarged bounds; returns its new result line"""
    if "gm" in sc:
        rr, _ = run_gm([sc["gm"]], "rerun", scale)
        rr = [x for x in (rr or []) if x[0].get("gm_client", 1) == sc.get("gm_client", 1)]
        return (rr[0][0], rr[0][1]) if rr else (sc, None)
    g, _ = run_go([case_line(sc)], "rerun", scale)
    return sc, (g[0] if g else None)


def settle_timing(cases, glines, monfail, info):
    """a timing-only discrepancy becomes a violation only if it reproduces every time when the
    scenario is re-run in isolation, serially, with doubled and quadrupled bounds (a handler that is
    really stuck reproduces, a scheduling hiccup of a loaded machine does not).  At most a few
    scenarios per signature are verified that way; the others of that signature follow their verdict."""
    keep, verified = [], {}
    for i, why in monfail:
        if i < 0 or not timing_only(cases[i], glines[i]):
            keep.append((i, why)); continue
        info["timing_only_discrepancies"] += 1
        v = verified.setdefault(why[0], {"real": 0, "hiccup": 0})
        if v["real"] >= 2:
            keep.append((i, why)); continue               # same signature reproduced twice already
        if v["hiccup"] >= 6 and v["real"] == 0:
            info["dropped_without_rerun"] += 1; continue   # this signature never reproduced so far
        real = True
        for scale in (2, 2, 4):
            info["isolated_reruns"] += 1
            sc2, g2 = rerun_one(cases[i], scale)
            w2 = monitor(sc2, g2) if g2 is not None else ("driver-output-unparsable", "")
            if not w2:
                real = False
                glines[i] = g2                              # the undisturbed result is the scenario's result
                break
            if not timing_only(sc2, g2):
                why = w2                                   # a different, content-level failure showed up
                cases[i], glines[i] = sc2, g2
                break
        if real:
            v["real"] += 1; keep.append((i, why))
        else:
            v["hiccup"] += 1; info["not_reproduced"] += 1
    return keep


# ------------------------------------------------------------------ running both sides
def overlay():
    return {vlib.REPO + "/internal/api/zz_verif_res_test.go": vlib.HGO + "/api/zz_verif_res_test.go"}


def run_go(lines, tag="res", scale=None):
    wd = vlib.workdir()
    inp, outp = os.path.join(wd, tag + ".in"), os.path.join(wd, tag + ".out")
    open(inp, "w").write("\n".join(lines) + "\n")
    if os.path.exists(outp):
        os.remove(outp)
    env = {"VERIF_IN": inp, "VERIF_OUT": outp}
    if scale:
        env["VERIF_WAIT_SCALE"] = str(scale)
    rc, out = vlib.go_test(PKG, overlay(), "^TestVerifRes$", env, timeout=2400)
    if rc != 0 or not os.path.exists(outp):
        return None, out
    return open(outp).read().split("\n")[:-1], out


def shrink(sc, failing, max_rounds=60):
    """delta debugging on the structured scenario, one go test run per round: shortest failing
    event prefix, then single removals of events / stream batches / messages (removals that keep
    the failure individually are also tried together, per category)"""
    def run(cands):
        if not cands:
            return []
        g, _ = run_go([case_line(x) for x in cands], "shrink")
        return g or []

    def variants(s):
        out = []
        for i in range(len(s["events"])):
            out.append(("e", i, dict(s, events=s["events"][:i] + s["events"][i + 1:])))
        for i in range(len(s["stream"])):
            out.append(("b", i, dict(s, stream=s["stream"][:i] + s["stream"][i + 1:])))
        for i, (bid, msgs) in enumerate(s["stream"]):
            if len(msgs) > 1 and not (bid == s["ls0"][0] and len(msgs) - 1 < s["ls0"][1]):
                for j in range(len(msgs)):
                    nm = [[k + 1, m[1], m[2]] for k, m in enumerate(msgs[:j] + msgs[j + 1:])]
                    out.append(("m", (i, j), dict(s, stream=s["stream"][:i] + [[bid, nm]] + s["stream"][i + 1:])))
        return out

    cur = sc
    if "fsm" in sc or "gm" in sc or len(sc["stream"]) > 300:
        return sc           # restore scenarios (streams from the real FSM) and cache-trimming scenarios are kept whole
    pre = [dict(cur, events=cur["events"][:n]) for n in range(1, len(cur["events"]))]
    for x, g in zip(pre, run(pre)):
        if failing(x, g):
            cur = x
            break
    for _ in range(max_rounds):
        vs = variants(cur)
        res = run([v[2] for v in vs])
        good = [v for v, g in zip(vs, res) if failing(v[2], g)]
        if not good:
            break
        ev = set(v[1] for v in good if v[0] == "e")
        if len(ev) > 1:
            both = dict(cur, events=[e for k, e in enumerate(cur["events"]) if k not in ev])
            g = run([both])
            if g and failing(both, g[0]):
                cur = both
                continue
        cur = good[0][2]
    return cur


def load_corpus():
    cases = []
    for p in sorted(glob.glob(os.path.join(CORPUS, "*.json"))):
        try:
            for c in json.load(open(p)).get("cases", []):
                c = dict(c)
                c["note"] = "corpus:" + os.path.basename(p)
                cases.append(c)
        except Exception as ex:
            raise RuntimeError("corpus file %s unreadable: %s" % (p, ex))
    return cases


def source_facts():
    """translator-lite: only what the tie really depends on (names and the presence of the
    mechanism), so that a refactoring of signatures or helpers does not break an obligation"""
    src = open(os.path.join(vlib.REPO, "internal/api/getmessages.go")).read()
    m = re.search(r"func \(api \*HTTP\) getMessages\(.*?\n}\n", src, re.S)
    body = m.group(0) if m else ""
    h = re.search(r"func \(api \*HTTP\) handleGetMessages\(.*?\n}\n", src, re.S)
    hbody = h.group(0) if h else ""
    return {
        "getMessages_found": bool(m),
        "getMessages_sends_batches_on_a_channel": bool(re.search(r"getMessages\([^)]*chan<- \[\]\*robust\.Message", body)),
        "follows_GetNext": bool(re.search(r"\.GetNext\(ctx,", body)),
        "messages_filtered_by_session": bool(re.search(r"InterestingFor\[session\.Id\]", src)),
        "handler_starts_getMessages_with_lastseen": bool(re.search(r"go api\.getMessages\([^)]*lastSeen[^)]*\)", hbody)),
    }


def vm_agrees(sample, chunk=6000):
    """cross-check of the extraction: the same cases evaluated with vm_compute inside coqc
    (in chunks: a very long string literal overflows coqc's parser stack)"""
    ok, cur, size = True, [], 0
    for l in sample + [None]:
        if l is None or size + len(l) > chunk:
            if cur:
                text = "\n".join(cur) + "\n"
                ok = ok and (vlib.run_model_vm(text) == vlib.run_model(text))
            cur, size = [], 0
        if l is not None:
            cur.append(l); size += len(l) + 1
    return ok


def run(ck, replay):
    ck.cov["trusted_base"] += [
        "Go driver harness/go/api/zz_verif_res_test.go: runs the real getMessages goroutine; plays the per-session filter of handleGetMessages (one line, checked by a source scan) and the client; detects 'parked in GetNext' through sync.Cond's notifyList counters",
        "python reference of the session's filtered stream used by the monitor; regex scan of getmessages.go",
        "handler-level driver harness/go/api/zz_verif_getmsg_test.go: the real DispatchPublic/handleGetMessages over a real IRCServer and OutputStream, messages applied in FSM order (ProcessMessage, Add, MaybeDeleteSession), single-node in-memory raft leader; synchronisation by marker batches, no timing assumptions on a correct tree; the oracle is the Out/Resume model run on the stream the ircserver produced",
        "stage-1 driver harness/go/main/zz_verif_resfsm_test.go (real FSM.Apply/Snapshot/Persist/Restore in package main; its output-stream dumps are loaded into the nodes of the resume scenarios); the reference of a restore scenario is the stream of the node that applied the log live",
        "modelled, not verified: OutputStream.GetNext at its linearisation point (justified by C08_getnext_safe), the unbuffered channel hand-over, net/http streaming and JSON encoding of each message, context cancellation",
        "NOT modelled: Go scheduler fairness - 'nothing missing' is proved at quiescence (handler blocked in GetNext with nothing in flight)"]
    ck.assumptions += [
        "every node produces the same output stream from the same raft log (C01) with ids strictly increasing and replies numbered 1..n (ircserver.send)",
        "compaction never passes the client's resume point (the property's 'newer than the compaction horizon')",
        "the client resumes with the id of the last message it received"]
    ok = ck.proof_obligations()
    facts = source_facts()
    ck.notes["source_facts"] = facts
    for k, v in facts.items():
        ck.add_obligation(v, "getmessages.go shape: " + k)

    restore_info = {}
    if replay:
        cases = json.load(open(replay)).get("cases", [])
        ncorpus = 0
        # restore scenarios: the node streams are re-derived from the tree under test
        for c in cases:
            if "fsm" in c:
                scs, err, _ = build_restore_cases([c["fsm"]])
                if err:
                    ck.violation("tie-broken:go-driver", {"what": "stage 1 (FSM restore driver) did not build/run", "output": err[-3000:],
                                                          "obligation": "correspondence apidrv (res, restore)"}, concrete=False)
                    return
                same = [x for x in scs if x["events"] == c["events"]]
                if same:
                    c["stream"], c["node_streams"], c["node_base"] = same[0]["stream"], same[0]["node_streams"], same[0]["node_base"]
    else:
        corpus = load_corpus()
        ncorpus = len(corpus)
        n = 1500 if ck.tier == "quick" else 20000
        cases = list(corpus) + [gen_scenario(ck.rng, lagfocus=(k % 2 == 0)) for k in range(n)]
        cases += [gen_long_scenario(ck.rng) for _ in range(1 if ck.tier == "quick" else 6)]
        specs = [gen_fsm_spec(ck.rng) for _ in range(14 if ck.tier == "quick" else 150)]
        rcases, rerr, restore_info = build_restore_cases(specs)
        if rerr:
            ck.violation("tie-broken:go-driver", {"what": "stage 1 (FSM restore driver, package main) did not build/run against the current tree",
                                                  "output": rerr[-3000:], "obligation": "correspondence apidrv (res, restore)"}, concrete=False)
            return
        cases += rcases
    # handler-level scenarios: the scenario (stream) only exists after the real ircserver has run
    gm_specs = []
    for c in cases:
        if "gm" in c and c["gm"] not in gm_specs:
            gm_specs.append(c["gm"])
    if not replay:
        gm_specs += [gen_gm_multi(ck.rng) for _ in range(80 if ck.tier == "quick" else 1000)]
        gm_specs += [gen_gm_lag(ck.rng) for _ in range(60 if ck.tier == "quick" else 800)]
        gm_specs += [gen_gm_services(ck.rng) for _ in range(40 if ck.tier == "quick" else 500)]
        gm_specs += [gen_gm(ck.rng) for _ in range(120 if ck.tier == "quick" else 1500)]
        gm_specs += [gen_gm_ended(ck.rng, "a" if k % 3 else "b") for k in range(24 if ck.tier == "quick" else 200)]
    cases = [c for c in cases if "gm" not in c]
    gm_res = []
    if gm_specs:
        gm_res, gmout = run_gm(gm_specs)
        if gm_res is None:
            ck.violation("tie-broken:go-driver", {"what": "the handler-level driver (real handleGetMessages) did not build/run against the current tree",
                                                  "output": gmout[-3000:], "obligation": "correspondence apidrv (gm)"}, concrete=False)
            return
    lines = [case_line(c) for c in cases]
    glines, goout = run_go(lines) if lines else ([], "")
    if glines is None:
        ck.violation("tie-broken:go-driver", {"what": "Go correspondence driver did not build/run against the current tree",
                                              "output": goout[-3000:], "obligation": "correspondence apidrv (res)"}, concrete=False)
        return
    herr = [g for g in glines if g.startswith("res harness-error")]
    if herr:
        ck.violation("tie-broken:go-driver", {"what": "the Go driver could not drive getMessages of the current tree", "output": herr[0],
                                              "obligation": "correspondence apidrv (res)"}, concrete=False)
        return
    if not getattr(ck, "model_ok", False):
        ck.violation("tie-broken:model", {"what": "model driver could not be built", "output": ck.model_out[-3000:]}, concrete=False)
        return
    for sc, g in gm_res:
        cases.append(sc); lines.append(case_line(sc)); glines.append(g)
    mlines = vlib.run_model("\n".join(lines) + "\n")
    if ck.tier == "thorough":
        sample = [l for l in lines if len(l) < 500][:100]
        ck.add_obligation(vm_agrees(sample), "extracted model agrees with vm_compute on %d cases" % len(sample))

    ck.cov["evaluations"] = len(cases)
    nontriv, mism, monfail = set(), [], []
    stats = {"reconnects": 0, "midbatch_resumes": 0, "midbatch_resumes_after_foreign_reply": 0, "midbatch_resume_positions": {}, "lagging_connects": 0, "compactions": 0, "messages_received": 0, "nodes": {}}
    for i, c in enumerate(cases):
        g = glines[i] if i < len(glines) else None
        # non-trivial: the client received messages on at least two connections
        rtoks = [t for t in (g or "").split(" ") if t.startswith("r=") and not t.startswith("r=-")]
        ncon = sum(1 for e in c["events"] if e[0] == "c")
        if len(rtoks) >= 2 and ncon >= 2:
            nontriv.add(lines[i])
        stats["reconnects"] += max(0, ncon - 1)
        stats["compactions"] += sum(1 for e in c["events"] if e[0] == "d")
        stats["messages_received"] += sum(len(t[2:].split(",")) for t in rtoks)
        nn = len(set(e[1] for e in c["events"] if e[0] in ("a", "c")))
        stats["nodes"][str(nn)] = stats["nodes"].get(str(nn), 0) + 1
        # lag / mid-batch statistics from the reference run
        applied, p, exp, last = {}, 0, expected_stream(c), tuple(c["ls0"])
        conn = None
        for e in c["events"]:
            if e[0] == "a":
                if applied.get(e[1], 0) < len(c["stream"]):
                    applied[e[1]] = applied.get(e[1], 0) + 1
            elif e[0] == "c":
                conn = e[1]
                have = [b[0] for b in c["stream"][:applied.get(conn, 0)]]
                if last[0] not in have and any(b[0] == last[0] for b in c["stream"]):
                    stats["lagging_connects"] += 1
                b = [b for b in c["stream"] if b[0] == last[0]]
                if b and 0 < last[1] < len(b[0][1]):
                    stats["midbatch_resumes"] += 1
                    key = "%d/%d" % (last[1], len(b[0][1]))
                    stats["midbatch_resume_positions"][key] = stats["midbatch_resume_positions"].get(key, 0) + 1
                    if any(c["sess"] not in m[2] for m in b[0][1][:last[1]]) and any(c["sess"] in m[2] for m in b[0][1][last[1]:]):
                        stats["midbatch_resumes_after_foreign_reply"] += 1
            elif e[0] == "x":
                conn = None
            elif e[0] == "r" and conn is not None:
                got = 0
                while p < len(exp) and exp[p][0] < applied.get(conn, 0) and (e[1] == 0 or got < e[1]):
                    last = (exp[p][1], exp[p][2]); p += 1; got += 1
        if g is None or i >= len(mlines) or g != mlines[i]:
            mism.append(i)
        why = monitor(c, g)
        if why:
            monfail.append((i, why))
    ck.cov["distinct_nontrivial"] = len(nontriv)
    ck.cov["disagreements_checked"] = len(cases)
    ck.cov["traces_validated_against_impl"] = len(cases)
    ck.cov["rule"] = ("corpus cases first; scenarios: output stream of 2-9 batches (1-4 replies, recipient sets with/without the session, whole batches not addressed to it), "
                      "first resume point before / inside / at the end of / beyond a batch or in a gap, 1-3 nodes applying the same stream at their own pace, "
                      "client connects / receives k messages (disconnect points between and inside batches) / disconnects / reconnects to any node incl. the one lagging most, "
                      "compaction below the resume point; restore scenarios: raft logs run through the real FSM with robust.MessageOffset = 0 or the binary's default, "
                      "node A applies them live, node B is rebuilt from a protobuf snapshot (Snapshot+Persist, fresh FSM, Restore) and the client resumes on B after every "
                      "message from just before the replayed window to the end (reference = stream of A); every scenario ends with a node that applies everything and a client that reads until the handler is parked; "
                      "non-trivial = messages were received on at least two connections; distinct by case text")
    gm_ends = {}
    gm_classes = {}
    for sc, g in gm_res:
        cls = sc["gm"].get("class", "single-reader")
        gm_classes[cls] = gm_classes.get(cls, 0) + 1
        if cls != "single-reader":
            continue
        e = [st for st in sc["gm"]["steps"] if st[0] in ("m", "D")][-1]
        kind = "none" if sc["gm"]["steps"][-1][0] != "f" else ("DeleteSession" if e[0] == "D" else e[2].split(" ")[0])
        gm_ends[kind] = gm_ends.get(kind, 0) + 1
    ck.cov["input_distribution"] = dict(stats, corpus_cases=ncorpus, restore=restore_info,
                                        handler_level={"reader_scenarios": len(gm_res), "by_class": gm_classes, "session_ended_by": gm_ends})
    ck.cov["samples"] = [{"case": lines[i][:1500], "impl": glines[i][:1500], "model": mlines[i][:1500]} for i in
                         ([0] if ncorpus else []) + [ncorpus, len(cases) - 1] if i < len(lines)][:3]

    timing = {"timing_only_discrepancies": 0, "isolated_reruns": 0, "not_reproduced": 0, "dropped_without_rerun": 0}
    monfail = settle_timing(cases, glines, monfail, timing)
    ck.notes["timing_reruns"] = timing
    mism = [i for i in range(len(cases)) if i >= len(mlines) or glines[i] != mlines[i]]
    # `ended-link-served-once` is an open finding of C17 (bin/check C17 reports it through gm_known_c17):
    # the link's own stream up to its end is complete, so it is counted here, not reported
    c17 = [x for x in monfail if x[1][0] == LINK_ONCE]
    ck.notes["c17_ended_link_served_once_scenarios"] = len(c17)
    mism = [i for i in mism if i not in {i for i, _ in c17}]
    monfail = [x for x in monfail if x[1][0] != LINK_ONCE]
    # failures explained by an open known finding neither hide other failures nor a broken tie
    known = {k["sig"] for k in vlib.known_findings(ck.prop)}
    explained = {i for i, _ in monfail}
    mism = [i for i in mism if i not in explained]
    reported = set()
    for i, (sig, text) in monfail:
        if sig in reported:
            continue
        reported.add(sig)
        small = cases[i]
        if not replay:
            small = shrink(cases[i], lambda x, g, sig=sig: (monitor(x, g) or ("",))[0] == sig)
        sl = case_line(small)
        if "gm" in small:
            rr, _ = run_gm([small["gm"]], "final")
            rr = [x for x in (rr or []) if x[0].get("gm_client", 1) == small.get("gm_client", 1)]
            sg = [rr[0][1]] if rr else None
        else:
            sg, _ = run_go([sl], "final")
        want, _ = reference(small)
        again = monitor(small, sg[0] if sg else None)
        if again and again[0] == sig:
            text = again[1]
        ck.violation(sig, {"what": text, "cases": [small], "case_line": sl, "impl_output": sg[0] if sg else None,
                           "model_output": (vlib.run_model(sl + "\n") or [None])[0],
                           "expected_by_property": [w for w in want if w], "original_case_line": lines[i],
                           "how_to_replay": "bin/check C04 --replay <this file>"}, concrete=True)
        if len(reported - known) >= 3:
            break
    monfail = [x for x in monfail if x[1][0] not in known]
    if mism and not monfail and not replay:
        # search for a property-violating scenario before reporting the bare disagreement
        extra = [gen_scenario(ck.rng, lagfocus=True) for _ in range(800)]
        eg, _ = run_go([case_line(x) for x in extra], "search")
        for x, g in zip(extra, eg or []):
            why = monitor(x, g)
            if why:
                small = shrink(x, lambda y, gg, sig=why[0]: (monitor(y, gg) or ("",))[0] == sig)
                sl = case_line(small)
                sg, _ = run_go([sl], "final")
                ck.violation(why[0], {"what": why[1], "cases": [small], "case_line": sl, "impl_output": sg[0] if sg else None,
                                      "found_by": "search after a model/implementation disagreement",
                                      "how_to_replay": "bin/check C04 --replay <this file>"}, concrete=True)
                monfail.append((-1, why))
                break
    if mism and not monfail:
        i = mism[0]
        ck.violation("correspondence:res", {"what": "model and implementation disagree; the monitor found no input violating the property",
                                            "obligation": "correspondence apidrv/res (Out/Resume.v vs internal/api/getmessages.go)",
                                            "cases": [cases[i]], "case_line": lines[i], "impl_output": glines[i] if i < len(glines) else None,
                                            "model_output": mlines[i] if i < len(mlines) else None, "mismatches": len(mism)}, concrete=False)
    if not ok:
        ck.violation("proof-broken", {"what": "proof obligations not discharged", "errors": ck.proof_errors,
                                      "obligation": ck.proof_result.get("broken_at", "Properties/C04.v"),
                                      "coq_output": ck.proof_result["output_tail"]}, concrete=False)
    bad = [o for o in ck.cov.get("extra_obligations", []) if not o["ok"]]
    if bad and not monfail:
        ck.violation("obligation:" + bad[0]["name"].replace(" ", "_"), {"what": "source-derived obligation failed", "obligations": bad,
                                                                         "source_facts": facts}, concrete=False)
