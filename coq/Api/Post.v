(* Api/Post.v — the POST /robustirc/v1/<id>/message handler (internal/api/postmessage.go) as a
   function, and the client-message-id marker rule of FSM.applyRobustMessage
   (statemachine.go) on an abstract marker machine.

   The marker machine works on the routing state of Api/Auth.v (session id -> secret, alive,
   last client message id).  What IRC processing does to the set of sessions is NOT modelled:
   which sessions die while an entry is processed, and whether a CreateSession is refused by
   the session limit, are inputs of the step (an oracle; the correspondence harness takes it
   from the implementation's trace), so every theorem holds for every IRC semantics.

   encoding/json is an oracle as well ([json_decode]).  Executable definitions only. *)
From Coq Require Import List Bool NArith Ascii String.
From RV Require Import Base.Text Api.Auth.
Import ListNotations.
Local Open Scope string_scope.

Inductive etype := ECreate | EDelete | EIrc | EMod | EConfig | EOther.
Record entry := mkEntry {
  e_type : etype;
  e_id : N;          (* robust.Message.Id.Id = the raft index (+ offset) *)
  e_session : N;
  e_cmid : N;        (* ClientMessageId *)
  e_data : string;
  e_rev : N }.       (* Revision (Config entries) *)

Record oracle := mkOracle {
  o_deaths : list N;   (* sessions removed from the session map while this entry is processed *)
  o_created : bool }.  (* CreateSession succeeded (false: ErrSessionLimitReached) *)

Definition etype_eqb (a b : etype) : bool :=
  match a, b with
  | ECreate, ECreate | EDelete, EDelete | EIrc, EIrc | EMod, EMod | EConfig, EConfig | EOther, EOther => true
  | _, _ => false
  end.

(* ---- the marker machine --------------------------------------------------------------------- *)
Definition live (st : state) (id : N) : option sess :=
  match lookup id (st_sessions st) with
  | Some s => if s_alive s then Some s else None
  | None => None
  end.

(* IRCServer.LastPostMessage: 0 for a session that is not in the map *)
Definition last_post (st : state) (id : N) : N :=
  match live st id with Some s => s_last s | None => 0%N end.

Definition map_sessions (f : N -> sess -> sess) (st : state) : state :=
  mkState (map (fun ks => (fst ks, f (fst ks) (snd ks))) (st_sessions st))
          (st_lastproc st) (st_password st) (st_leader st).

Fixpoint memN (k : N) (l : list N) : bool :=
  match l with [] => false | x :: r => N.eqb x k || memN k r end.

Definition set_last (st : state) (id c : N) : state :=
  map_sessions (fun k s => if N.eqb k id then mkSess (s_auth s) (s_alive s) c else s) st.
Definition kill (deaths : list N) (st : state) : state :=
  map_sessions (fun k s => if memN k deaths then mkSess (s_auth s) false (s_last s) else s) st.
Definition add_session (st : state) (id : N) (auth : string) : state :=
  mkState ((id, mkSess auth true 0%N) :: st_sessions st) (st_lastproc st) (st_password st) (st_leader st).
Definition set_lastproc (st : state) (n : N) : state :=
  mkState (st_sessions st) n (st_password st) (st_leader st).

Definition is_live (st : state) (id : N) : bool :=
  match live st id with Some _ => true | None => false end.

(* FSM.applyRobustMessage, restricted to what it does to the session map and the markers:
   - IRCFromClient: an entry whose non-zero client message id equals the session's marker is the
     second copy of a retried message and is SKIPPED (commit 92a4e2e: the handler that proposed it
     was looking at a state that lagged behind the log); otherwise
     UpdateLastClientMessageID FIRST (it fails, and nothing else happens, when the session is
     not in the map), then ProcessMessage (may delete sessions), then
     SetLastProcessed(msg.Session.Id) [sic], MaybeDeleteSession;
   - MessageOfDeath: UpdateLastClientMessageID only;
   - DeleteSession: processed as QUIT when the session exists; SetLastProcessed(msg.Id.Id);
   - CreateSession: sessions[id] = new session with marker 0. *)
Definition is_dup (st : state) (e : entry) : bool :=
  negb (N.eqb (e_cmid e) 0) && N.eqb (last_post st (e_session e)) (e_cmid e).

Definition apply (o : oracle) (st : state) (e : entry) : state :=
  match e_type e with
  | ECreate => if o_created o then add_session st (e_id e) (e_data e) else st
  | EDelete =>
      if is_live st (e_session e)
      then set_lastproc (kill (o_deaths o) st) (e_id e) else st
  | EIrc =>
      if is_dup st e then st
      else if is_live st (e_session e)
      then set_lastproc (kill (o_deaths o) (set_last st (e_session e) (e_cmid e))) (e_session e)
      else st
  | EMod =>
      if is_live st (e_session e) then set_last st (e_session e) (e_cmid e) else st
  | EConfig | EOther => st
  end.

(* Does applying [e] in [st] call IRCServer.ProcessMessage?  ProcessMessage is the only source of
   output (sendMessages stores exactly its replies), so an entry that is not processed delivers
   nothing to anybody. *)
Definition processes (st : state) (e : entry) : bool :=
  match e_type e with
  | EIrc => negb (is_dup st e) && is_live st (e_session e)
  | EDelete => is_live st (e_session e)
  | ECreate | EMod | EConfig | EOther => false
  end.

Fixpoint replay (l : list (entry * oracle)) (st : state) : state :=
  match l with
  | [] => st
  | (e, o) :: r => replay r (apply o st e)
  end.

(* the entries that are processed (produce output) while a log is replayed, in order *)
Fixpoint replay_proc (l : list (entry * oracle)) (st : state) : list entry :=
  match l with
  | [] => []
  | (e, o) :: r => (if processes st e then [e] else []) ++ replay_proc r (apply o st e)
  end.

(* ---- the POST handler ----------------------------------------------------------------------- *)
Definition body_limit : nat := 2048.

(* data[:strings.IndexAny(data, "\r\n\x00")] — the repaired handler (D6a) cuts at the first CR, LF or NUL *)
Definition is_line_end (c : ascii) : bool :=
  Ascii.eqb c "010"%char || Ascii.eqb c "013"%char || Ascii.eqb c "000"%char.
Fixpoint cut_line (s : string) : string :=
  match s with
  | EmptyString => EmptyString
  | String c r => if is_line_end c then EmptyString else String c (cut_line r)
  end.

Inductive post_outcome :=
| PBadRequest          (* 400: the body does not decode *)
| PAck                 (* 200, empty body, nothing proposed: "already seen" *)
| PProxy               (* not the leader: forwarded *)
| PPropose (e : entry) (* applyMessageWait *).

(* DELETE /robustirc/v1/<id> (internal/api/deletesession.go, handleDeleteSession): decode the WHOLE
   body into {Quitmessage} (no size limit here, unlike the POST handler) — a decode error answers
   500 "Could not decode request"; not the leader: proxy; then the quit message is cut at the first
   CR, LF or NUL (it ends up in QUIT and ERROR lines) and a DeleteSession entry is proposed.
   [json_quit] is the encoding/json oracle for {Quitmessage}.  PBadRequest stands for the 500. *)
Definition delete_handler (json_quit : string -> option string) (st : state) (sid : N) (body : string) : post_outcome :=
  match json_quit body with
  | None => PBadRequest
  | Some q =>
      if negb (st_leader st) then PProxy
      else PPropose (mkEntry EDelete 0 sid 0 (cut_line q) 0)
  end.

Section Handler.
Variable json_decode : string -> option (string * N).   (* {Data, ClientMessageId} of the first JSON value *)

Definition post_handler (st : state) (sid : N) (body : string) : post_outcome :=
  match json_decode (stake body_limit body) with
  | None => PBadRequest
  | Some (data, cmid) =>
      if N.eqb (last_post st sid) cmid then PAck
      else if negb (st_leader st) then PProxy
      else PPropose (mkEntry EIrc 0 sid cmid (cut_line data) 0)
  end.

(* ---- a node seen from outside: the log it has applied and its state ---------------------- *)
Record sys := mkSys {
  s_log : list (entry * oracle);
  s_node : state;
  s_proc : list entry }.   (* the entries processed so far (those that produced output), in order *)

Definition with_id (e : entry) (i : N) : entry :=
  mkEntry (e_type e) i (e_session e) (e_cmid e) (e_data e) (e_rev e).
Definition next_index (s : sys) : N := (N.of_nat (List.length (s_log s)) + 1)%N.

Variable restore : state -> state.    (* Unmarshal (Marshal st): FSM.Restore's effect on the IRC state *)

Inductive event :=
| EvPost (sidtext : string) (hdr : option string) (body : string) (o : oracle)
    (* POST .../<sidtext>/message handled by this node in its current state; [o] is what
       processing does if it gets applied *)
| EvPostFrom (view : state) (sidtext : string) (hdr : option string) (body : string) (o : oracle)
    (* the same request answered by a handler that sees the state [view] — ANY state, e.g. a
       strict prefix replay of the log on a node that is restarting or was just elected (D14);
       what it proposes is committed and applied here *)
| EvApply (e : entry) (o : oracle)   (* an entry committed by any other means is applied *)
| EvRestore.

Definition commit (s : sys) (e : entry) (o : oracle) : sys :=
  mkSys (s_log s ++ [(e, o)]) (apply o (s_node s) e)
        (s_proc s ++ (if processes (s_node s) e then [e] else [])).

Definition post_from (view : state) (s : sys) (sidtext : string) (hdr : option string) (body : string) (o : oracle) : sys :=
  match session_check view hdr sidtext with
  | inl id =>
      match post_handler view id body with
      | PPropose e => commit s (with_id e (next_index s)) o
      | _ => s
      end
  | inr _ => s
  end.

Definition step (s : sys) (ev : event) : sys :=
  match ev with
  | EvPost sidtext hdr body o => post_from (s_node s) s sidtext hdr body o
  | EvPostFrom view sidtext hdr body o => post_from view s sidtext hdr body o
  | EvApply e o => commit s e o
  | EvRestore => mkSys (s_log s) (restore (s_node s)) (s_proc s)
  end.

Fixpoint run (evs : list event) (s : sys) : sys :=
  match evs with
  | [] => s
  | ev :: r => run r (step s ev)
  end.
End Handler.
