(* Api/PostProofs.v — proofs about Api/Post.v (property C10). *)
From Coq Require Import List Bool NArith Ascii String Lia.
From RV Require Import Base.Text Api.Auth Api.AuthProofs Api.Post.
Import ListNotations.
Local Open Scope string_scope.

(* ---- lookups through the state updates ------------------------------------------------------ *)
Lemma lookup_map f l id :
  lookup id (map (fun ks : N * sess => (fst ks, f (fst ks) (snd ks))) l) = option_map (f id) (lookup id l).
Proof.
  induction l as [|[k s] r IH]; simpl; [reflexivity|].
  destruct (N.eqb_spec k id); [subst; reflexivity|exact IH].
Qed.

Lemma get_session_live st id s : get_session st id = GsOk s <-> live st id = Some s.
Proof.
  unfold get_session, live. destruct (lookup id (st_sessions st)) as [x|]; [destruct (s_alive x)|];
    destruct (N.ltb id (st_lastproc st)); split; intros H; try discriminate; inversion H; reflexivity.
Qed.

Lemma live_map_sessions f st k :
  live (map_sessions f st) k =
    match lookup k (st_sessions st) with
    | Some s => if s_alive (f k s) then Some (f k s) else None
    | None => None
    end.
Proof.
  unfold live, map_sessions. cbn [st_sessions]. rewrite lookup_map.
  destruct (lookup k (st_sessions st)); reflexivity.
Qed.

Lemma live_set_last st id c k :
  live (set_last st id c) k =
    if N.eqb k id then option_map (fun s => mkSess (s_auth s) (s_alive s) c) (live st k) else live st k.
Proof.
  unfold set_last. rewrite live_map_sessions. unfold live.
  destruct (lookup k (st_sessions st)) as [s|]; simpl; [|destruct (N.eqb k id); reflexivity].
  destruct (N.eqb k id); simpl; [|reflexivity]. destruct (s_alive s) eqn:E; simpl; rewrite ?E; reflexivity.
Qed.

Lemma live_kill d st k : live (kill d st) k = if memN k d then None else live st k.
Proof.
  unfold kill. rewrite live_map_sessions. unfold live.
  destruct (lookup k (st_sessions st)) as [s|]; simpl; [|destruct (memN k d); reflexivity].
  destruct (memN k d); simpl; reflexivity.
Qed.

Lemma live_set_lastproc st n k : live (set_lastproc st n) k = live st k.
Proof. reflexivity. Qed.

Lemma live_add st id a k :
  live (add_session st id a) k = if N.eqb id k then Some (mkSess a true 0%N) else live st k.
Proof. unfold live, add_session. cbn [st_sessions lookup]. destruct (N.eqb id k); reflexivity. Qed.

Lemma is_live_spec st k : is_live st k = true <-> exists s, live st k = Some s.
Proof. unfold is_live. destruct (live st k); split; intros H; eauto; try discriminate. destruct H; discriminate. Qed.

Lemma session_check_live st hdr t id :
  session_check st hdr t = inl id -> parse_uint0 t = Some id /\ is_live st id = true.
Proof.
  intros H. apply session_check_sound in H. destruct H as (h & s & _ & _ & Hp & Hg & _).
  split; [assumption|]. apply get_session_live in Hg. unfold is_live. now rewrite Hg.
Qed.

(* ---- C10_marker: the marker is written before processing ------------------------------------- *)
Definition is_client_msg (e : entry) : bool := etype_eqb (e_type e) EIrc || etype_eqb (e_type e) EMod.

(* after an IRCFromClient or MessageOfDeath entry of a session that exists, that session is
   either gone or carries the entry's client message id — whatever processing did (any oracle) *)
Theorem marker_after_apply o st e :
  is_client_msg e = true -> is_live st (e_session e) = true ->
  is_live (apply o st e) (e_session e) = true ->
  last_post (apply o st e) (e_session e) = e_cmid e.
Proof.
  unfold is_client_msg, apply, is_live, last_post. intros Ht Hl.
  destruct (e_type e); simpl in Ht; try discriminate.
  - unfold is_live in *. rewrite Hl. rewrite live_set_lastproc, live_kill, live_set_last, N.eqb_refl.
    destruct (memN (e_session e) (o_deaths o)); [discriminate|].
    destruct (live st (e_session e)) as [s|]; [reflexivity|discriminate].
  - unfold is_live in *. rewrite Hl. rewrite live_set_last, N.eqb_refl.
    destruct (live st (e_session e)) as [s|]; [reflexivity|discriminate].
Qed.

Definition Inv (sid c : N) (st : state) : Prop := is_live st sid = false \/ last_post st sid = c.

(* the same, without assuming the session existed: an entry for a session that is not in the
   map is ignored, and the session is still not in the map *)
Theorem apply_establishes_inv o st e :
  is_client_msg e = true -> Inv (e_session e) (e_cmid e) (apply o st e).
Proof.
  intros Ht. destruct (is_live st (e_session e)) eqn:Hl.
  - destruct (is_live (apply o st e) (e_session e)) eqn:Hl'; [right|now left].
    now apply marker_after_apply.
  - left. unfold is_client_msg in Ht. unfold apply. destruct (e_type e); simpl in Ht; try discriminate; now rewrite Hl.
Qed.

(* a session that has died stays dead unless a CreateSession with its id is applied *)
Lemma apply_other_preserves_inv o st e sid c :
  Inv sid c st ->
  (is_client_msg e = true -> e_session e <> sid) ->
  (e_type e = ECreate -> e_id e <> sid) ->
  Inv sid c (apply o st e).
Proof.
  intros HI Hcm Hcr. unfold apply.
  assert (Hset : forall k v, k <> sid -> Inv sid c (set_last st k v)).
  { intros k v Hk. unfold Inv, is_live, last_post in *. rewrite !live_set_last.
    destruct (N.eqb_spec sid k); [congruence|exact HI]. }
  assert (Hkill : forall d st', Inv sid c st' -> Inv sid c (kill d st')).
  { intros d st' H. unfold Inv, is_live, last_post in *. rewrite !live_kill.
    destruct (memN sid d); [now left|exact H]. }
  destruct (e_type e) eqn:Ht.
  - destruct (o_created o); [|exact HI]. unfold Inv, is_live, last_post in *. rewrite !live_add.
    destruct (N.eqb_spec (e_id e) sid); [exfalso; now apply Hcr|exact HI].
  - destruct (is_live st (e_session e)); [|exact HI]. now apply Hkill.
  - destruct (is_live st (e_session e)); [|exact HI]. apply Hkill. apply Hset. apply Hcm.
    unfold is_client_msg. now rewrite Ht.
  - destruct (is_live st (e_session e)); [|exact HI]. apply Hset. apply Hcm.
    unfold is_client_msg. rewrite Ht. reflexivity.
  - exact HI.
  - exact HI.
Qed.

(* ---- replicas: markers are a function of the log --------------------------------------------- *)
Lemma apply_sessions_indep o st1 st2 e :
  st_sessions st1 = st_sessions st2 -> st_sessions (apply o st1 e) = st_sessions (apply o st2 e).
Proof.
  intros H. unfold apply, is_live, live, add_session, set_lastproc, kill, set_last, map_sessions.
  destruct (e_type e); cbn [st_sessions]; rewrite ?H; try reflexivity.
  - destruct (o_created o); cbn [st_sessions]; now rewrite ?H.
  - destruct (lookup (e_session e) (st_sessions st2)) as [s|]; [destruct (s_alive s)|]; cbn [st_sessions]; now rewrite ?H.
  - destruct (lookup (e_session e) (st_sessions st2)) as [s|]; [destruct (s_alive s)|]; cbn [st_sessions]; now rewrite ?H.
  - destruct (lookup (e_session e) (st_sessions st2)) as [s|]; [destruct (s_alive s)|]; cbn [st_sessions]; now rewrite ?H.
Qed.

Theorem replicas_agree l : forall st1 st2,
  st_sessions st1 = st_sessions st2 ->
  st_sessions (replay l st1) = st_sessions (replay l st2).
Proof.
  induction l as [|[e o] r IH]; intros st1 st2 H; simpl; [exact H|].
  apply IH. now apply apply_sessions_indep.
Qed.

Corollary replicas_markers l st1 st2 id :
  st_sessions st1 = st_sessions st2 ->
  last_post (replay l st1) id = last_post (replay l st2) id /\
  is_live (replay l st1) id = is_live (replay l st2) id.
Proof.
  intros H. pose proof (replicas_agree l _ _ H) as E. unfold last_post, is_live, live. now rewrite E.
Qed.

(* ---- the handler -------------------------------------------------------------------------------- *)
Section Handler.
Variable json_decode : string -> option (string * N).
Variable restore : state -> state.
(* Marshal/Unmarshal keeps which sessions exist and their markers (serialize.go writes
   LastClientMessageId for every session; checked against the implementation on every run). *)
Hypothesis restore_markers : forall st id,
  is_live (restore st) id = is_live st id /\ last_post (restore st) id = last_post st id.

Notation post_handler := (post_handler json_decode).
Notation step := (step json_decode restore).
Notation run := (run json_decode restore).

Theorem handler_ack st sid body d c :
  json_decode (stake body_limit body) = Some (d, c) -> last_post st sid = c ->
  post_handler st sid body = PAck.
Proof. unfold Post.post_handler. intros -> ->. now rewrite N.eqb_refl. Qed.

(* exactly when is something proposed *)
Theorem handler_propose st sid body e :
  post_handler st sid body = PPropose e <->
  exists d c, json_decode (stake body_limit body) = Some (d, c) /\ last_post st sid <> c /\
              st_leader st = true /\ e = mkEntry EIrc 0 sid c (cut_line d) 0.
Proof.
  unfold Post.post_handler. destruct (json_decode (stake body_limit body)) as [[d c]|].
  - destruct (N.eqb_spec (last_post st sid) c).
    + split; [discriminate|]. intros (d' & c' & H & Hne & _). inversion H; subst. congruence.
    + destruct (st_leader st); simpl.
      * split; [intros H; inversion H; eauto 8|]. intros (d' & c' & H & _ & _ & ->). now inversion H.
      * split; [discriminate|]. intros (_ & _ & _ & _ & H & _). discriminate.
  - split; [discriminate|]. intros (d & c & H & _). discriminate.
Qed.

Lemma cut_line_clean d c : is_line_end c = true -> contains_char c (cut_line d) = false.
Proof.
  intros Hc. induction d as [|x r IH]; cbn [cut_line]; [reflexivity|].
  destruct (is_line_end x) eqn:E; cbn [contains_char]; [reflexivity|].
  rewrite IH, orb_false_r. destruct (Ascii.eqb_spec c x); [subst; congruence|reflexivity].
Qed.

(* ---- histories ---------------------------------------------------------------------------------- *)
(* Events that may follow the first copy of message (sid, c) without making it "no longer the
   last message of its session": repeats of that message (any body that decodes to the same
   client message id), anything addressed to other sessions, any entry that is not a client
   message of sid (deletes of sid included), and restores.  CreateSession never re-uses an id
   (ids are raft indexes). *)
Definition allowed (sid c : N) (ev : event) : Prop :=
  match ev with
  | EvPost t _ b _ => parse_uint0 t = Some sid -> exists d, json_decode (stake body_limit b) = Some (d, c)
  | EvApply e _ => (is_client_msg e = true -> e_session e <> sid) /\ (e_type e = ECreate -> e_id e <> sid)
  | EvRestore => True
  end.

Definition own (sid : N) (eo : entry * oracle) : bool := N.eqb (e_session (fst eo)) sid && is_client_msg (fst eo).
Definition own_entries (sid : N) (l : list (entry * oracle)) := filter (own sid) l.

Lemma own_entries_app sid l x : own sid x = false -> own_entries sid (l ++ [x]) = own_entries sid l.
Proof. intros H. unfold own_entries. rewrite filter_app. simpl. rewrite H. apply app_nil_r. Qed.

(* a repeat of the last applied message changes nothing at all on the node that handles it *)
Theorem retry_is_noop s t hdr b o sid c d :
  Inv sid c (s_node s) -> parse_uint0 t = Some sid ->
  json_decode (stake body_limit b) = Some (d, c) ->
  step s (EvPost t hdr b o) = s.
Proof.
  intros HI Hp Hj. unfold Post.step.
  destruct (session_check (s_node s) hdr t) as [id|r] eqn:Hs; [|reflexivity].
  apply session_check_live in Hs. destruct Hs as [Hp' Hl]. rewrite Hp in Hp'. inversion Hp'; subst id.
  destruct HI as [HI|HI]; [congruence|].
  now rewrite (handler_ack _ _ _ _ _ Hj HI).
Qed.

Lemma step_preserves sid c s ev :
  Inv sid c (s_node s) -> allowed sid c ev ->
  Inv sid c (s_node (step s ev)) /\ own_entries sid (s_log (step s ev)) = own_entries sid (s_log s).
Proof.
  intros HI Hal. destruct ev as [t hdr b o|e o|]; simpl in Hal.
  - destruct (session_check (s_node s) hdr t) as [id|r] eqn:Hs.
    + destruct (session_check_live _ _ _ _ Hs) as [Hp Hl].
      destruct (N.eq_dec id sid) as [->|Hne].
      * destruct (Hal Hp) as [d Hj]. rewrite (retry_is_noop s t hdr b o sid c d HI Hp Hj). auto.
      * unfold Post.step. rewrite Hs.
        destruct (Post.post_handler json_decode (s_node s) id b) as [| | |e] eqn:Hh; auto.
        apply handler_propose in Hh. destruct Hh as (d & c' & _ & _ & _ & ->). cbn [s_node s_log].
        split.
        -- apply apply_other_preserves_inv; [assumption| |]; cbn; [congruence|discriminate].
        -- apply own_entries_app. unfold own. cbn. destruct (N.eqb_spec id sid); [congruence|reflexivity].
    + unfold Post.step. rewrite Hs. auto.
  - destruct Hal as [Hcm Hcr]. cbn [Post.step s_node s_log]. split.
    + now apply apply_other_preserves_inv.
    + apply own_entries_app. unfold own. cbn [fst].
      destruct (is_client_msg e) eqn:Hc; [|now rewrite andb_false_r].
      destruct (N.eqb_spec (e_session e) sid); [exfalso; now apply Hcm|reflexivity].
  - cbn [Post.step s_node s_log]. split; [|reflexivity].
    destruct (restore_markers (s_node s) sid) as [Hl Hp]. unfold Inv in *. rewrite Hl, Hp. exact HI.
Qed.

(* C10 over histories: once the first copy of (sid, c) has been applied on the node that
   handles the retries (Inv), no sequence of repeats — interleaved with other sessions'
   traffic, deletes, configuration entries and snapshot restores — adds an entry of that
   session to the log; every single repeat leaves log and state untouched (retry_is_noop). *)
Theorem retries_add_nothing sid c evs : forall s,
  Inv sid c (s_node s) -> Forall (allowed sid c) evs ->
  Inv sid c (s_node (run evs s)) /\ own_entries sid (s_log (run evs s)) = own_entries sid (s_log s).
Proof.
  induction evs as [|ev r IH]; intros s HI Hall; simpl; [auto|].
  inversion Hall as [|? ? Hev Hr]; subst.
  destruct (step_preserves sid c s ev HI Hev) as [HI' Hlog].
  destruct (IH _ HI' Hr) as [HI'' Hlog']. split; [assumption|]. now rewrite Hlog'.
Qed.

(* the first copy establishes the invariant: as an ordinary message ... *)
Theorem first_copy_establishes s t hdr b o sid d c :
  session_check (s_node s) hdr t = inl sid ->
  json_decode (stake body_limit b) = Some (d, c) ->
  st_leader (s_node s) = true ->
  Inv sid c (s_node (step s (EvPost t hdr b o))).
Proof.
  intros Hs Hj Hlead. unfold Post.step. rewrite Hs.
  destruct (Post.post_handler json_decode (s_node s) sid b) as [| | |e] eqn:Hh.
  - unfold Post.post_handler in Hh. rewrite Hj in Hh. destruct (N.eqb _ c); [discriminate|].
    rewrite Hlead in Hh. discriminate.
  - unfold Post.post_handler in Hh. rewrite Hj in Hh. destruct (N.eqb_spec (last_post (s_node s) sid) c); [now right|].
    rewrite Hlead in Hh. discriminate.
  - unfold Post.post_handler in Hh. rewrite Hj, Hlead in Hh. destruct (N.eqb _ c); discriminate.
  - apply handler_propose in Hh. destruct Hh as (d' & c' & Hj' & _ & _ & ->). rewrite Hj in Hj'. inversion Hj'; subst.
    cbn [s_node]. exact (apply_establishes_inv o (s_node s) (with_id (mkEntry EIrc 0 sid c' (cut_line d') 0) (next_index s)) eq_refl).
Qed.

(* ... and as a message of death (the first copy panicked and the log entry was rewritten) *)
Theorem mod_copy_establishes s e o :
  e_type e = EMod -> Inv (e_session e) (e_cmid e) (s_node (step s (EvApply e o))).
Proof. intros Ht. cbn [Post.step s_node]. apply apply_establishes_inv. unfold is_client_msg. rewrite Ht. reflexivity. Qed.
End Handler.

(* ---- non-vacuity -------------------------------------------------------------------------------- *)
Definition ex_json (b : string) : option (string * N) :=
  if String.eqb b "m1" then Some ("PRIVMSG #c :hi" ++ String "010"%char "forged", 41%N)
  else if String.eqb b "m2" then Some ("QUIT", 42%N) else None.
Definition ex_sys : sys := mkSys [] ex_state.
Definition ex_o := mkOracle [] true.

Example ex_first_then_retries :
  let s1 := step ex_json (fun st => st) ex_sys (EvPost "0x7" (Some "aa11") "m1" ex_o) in
  let s2 := run ex_json (fun st => st) [EvPost "7" (Some "aa11") "m1" ex_o; EvRestore; EvPost "0x9" (Some "bb22") "m2" (mkOracle [9%N] true);
                                        EvPost "0x7" (Some "aa11") "m1" ex_o] s1 in
  List.length (s_log s1) = 1 /\ List.length (s_log s2) = 2 /\ last_post (s_node s2) 7%N = 41%N /\
  map (fun eo => e_data (fst eo)) (s_log s1) = ["PRIVMSG #c :hi"] /\ is_live (s_node s2) 9%N = false.
Proof. vm_compute. repeat split; reflexivity. Qed.

Example ex_allowed :
  Forall (allowed ex_json 7%N 41%N)
    [EvPost "7" (Some "aa11") "m1" ex_o; EvRestore; EvPost "0x9" (Some "bb22") "m2" (mkOracle [9%N] true); EvPost "0x7" (Some "aa11") "m1" ex_o].
Proof.
  repeat constructor; simpl; intros H; try discriminate; eexists; reflexivity.
Qed.
