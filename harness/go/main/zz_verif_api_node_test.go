//go:build verif

package main

// Node set-up for the API-level correspondence driver (properties C11, C10, C16; API replays
// for C15).  Injected into package main by `go test -overlay`; never part of /repo.
//
// One single-node raft (in-memory transport, real LevelDB log/stable store, file snapshot
// store), the real FSM of statemachine.go, the real api.HTTP, served the way main() serves
// it: the wiring ("default": handlers registered on http.DefaultServeMux and a server with a
// nil Handler; "private": an own ServeMux handed to the server) is taken from
// $VERIF_API_WIRING, which the route scanner derives from robustirc.go on every run.  The
// blank imports of robustirc.go are linked into this test binary because it *is* package
// main, so whatever they register on the default mux is really there.

import (
	"flag"
	"fmt"
	"io"
	"log"
	"net/http"
	"net/http/httptest"
	"os"
	"path/filepath"
	"reflect"
	"sort"
	"sync"
	"time"

	hclog "github.com/hashicorp/go-hclog"
	"github.com/hashicorp/raft"
	"github.com/robustirc/robustirc/internal/api"
	"github.com/robustirc/robustirc/internal/ircserver"
	"github.com/robustirc/robustirc/internal/outputstream"
	"github.com/robustirc/robustirc/internal/raftstore"
	"github.com/robustirc/robustirc/internal/robust"
)

const verifApiPassword = "verif-network-pw"

// verifApiGate wraps the real FSM for raft: Apply blocks while the gate is closed, so raft appends
// and commits entries to the LOG while the state machine does not advance — a node whose FSM
// lags behind its log (replay after a restart, slow apply, follower catching up).  Snapshot and
// Restore pass through to the embedded *FSM.
type verifApiGate struct {
	*FSM
	mu     sync.Mutex
	cond   *sync.Cond
	closed bool
}

func (g *verifApiGate) Apply(l *raft.Log) interface{} {
	g.mu.Lock()
	for g.closed {
		g.cond.Wait()
	}
	g.mu.Unlock()
	return g.FSM.Apply(l)
}

func (g *verifApiGate) set(closed bool) {
	g.mu.Lock()
	g.closed = closed
	g.mu.Unlock()
	g.cond.Broadcast()
}

func (g *verifApiGate) isClosed() bool {
	g.mu.Lock()
	defer g.mu.Unlock()
	return g.closed
}

type verifApiNode struct {
	dir      string
	gate     *verifApiGate
	fsm      *FSM
	logStore *raftstore.LevelDBStore
	h        *api.HTTP
	srv      *httptest.Server
	client   *http.Client
}

var (
	verifApiCur       *verifApiNode
	verifApiCurMu     sync.Mutex
	verifApiWiredOnce sync.Once
	verifApiSrv       *httptest.Server
	verifApiNodeSeq   int
)

func verifApiCurrent() *api.HTTP {
	verifApiCurMu.Lock()
	defer verifApiCurMu.Unlock()
	return verifApiCur.h
}

// verifApiServe reproduces main()'s three lines.  main() builds the api.HTTP once; this
// driver rebuilds nodes, so the registered functions forward to the current instance.
func verifApiServe() *httptest.Server {
	verifApiWiredOnce.Do(func() {
		public := func(w http.ResponseWriter, r *http.Request) { verifApiCurrent().DispatchPublic(w, r) }
		private := func(w http.ResponseWriter, r *http.Request) { verifApiCurrent().DispatchPrivate(w, r) }
		switch os.Getenv("VERIF_API_WIRING") {
		case "private":
			mux := http.NewServeMux()
			mux.HandleFunc("/robustirc/v1/", public)
			mux.HandleFunc("/", private)
			verifApiSrv = httptest.NewServer(mux)
		default: // "default": what the pinned robustirc.go does
			http.HandleFunc("/robustirc/v1/", public)
			http.HandleFunc("/", private)
			verifApiSrv = httptest.NewServer(nil) // http.Server{Handler: nil} serves http.DefaultServeMux
		}
	})
	return verifApiSrv
}

func verifApiCloseNode() {
	n := verifApiCur
	if n == nil {
		return
	}
	if n.gate != nil {
		n.gate.set(false)
	}
	if node != nil {
		node.Shutdown().Error()
	}
	if outputStream != nil {
		outputStream.Close()
	}
	if ircStore != nil {
		ircStore.Close()
	}
	if n.logStore != nil {
		n.logStore.Close()
	}
	os.RemoveAll(n.dir)
}

func verifApiNewNode() (*verifApiNode, error) {
	verifApiCurMu.Lock()
	defer verifApiCurMu.Unlock()
	verifApiCloseNode()
	verifApiNodeSeq++
	dir, err := os.MkdirTemp("", fmt.Sprintf("verif-api-%d-", verifApiNodeSeq))
	if err != nil {
		return nil, err
	}
	log.SetOutput(io.Discard)
	flag.Set("log_dir", dir)
	flag.Set("stderrthreshold", "FATAL")
	*raftDir = dir
	*network = "verif.net"
	*useProtobuf = true
	robust.MessageOffset = 0

	cfg := raft.DefaultConfig()
	cfg.LocalID = "node0"
	cfg.HeartbeatTimeout = 50 * time.Millisecond
	cfg.ElectionTimeout = 50 * time.Millisecond
	cfg.LeaderLeaseTimeout = 50 * time.Millisecond
	cfg.CommitTimeout = 5 * time.Millisecond
	cfg.ProtocolVersion = 3
	cfg.SnapshotInterval = 24 * time.Hour
	cfg.SnapshotThreshold = 1 << 40
	cfg.Logger = hclog.NewNullLogger()
	_, trans := raft.NewInmemTransport("node0")

	logStore, err := raftstore.NewLevelDBStore(filepath.Join(dir, "raftlog"), true, true)
	if err != nil {
		return nil, err
	}
	ircStore, err = raftstore.NewLevelDBStore(filepath.Join(dir, "irclog"), true, true)
	if err != nil {
		return nil, err
	}
	fss, err := raft.NewFileSnapshotStore(dir, 1, io.Discard)
	if err != nil {
		return nil, err
	}
	ircServer = ircserver.NewIRCServer(*network, time.Now())
	outputStream, err = outputstream.NewOutputStream(dir)
	if err != nil {
		return nil, err
	}
	fsm := &FSM{
		store:             logStore,
		ircstore:          ircStore,
		lastSnapshotState: make(map[uint64][]byte),
		ReplaceState:      func(*ircserver.IRCServer, *raftstore.LevelDBStore, *outputstream.OutputStream) {},
	}
	if err := raft.BootstrapCluster(cfg, logStore, logStore, fss, trans, raft.Configuration{
		Servers: []raft.Server{{ID: cfg.LocalID, Address: "node0"}},
	}); err != nil {
		return nil, err
	}
	gate := &verifApiGate{FSM: fsm}
	gate.cond = sync.NewCond(&gate.mu)
	node, err = raft.NewRaft(cfg, gate, logStore, logStore, fss, trans)
	if err != nil {
		return nil, err
	}
	deadline := time.Now().Add(10 * time.Second)
	for node.State() != raft.Leader {
		if time.Now().After(deadline) {
			return nil, fmt.Errorf("single-node raft did not become leader")
		}
		time.Sleep(5 * time.Millisecond)
	}
	h := api.NewHTTP(ircServer, node, ircStore, outputStream, nil, *network, verifApiPassword, dir, "node0", true, 3)
	fsm.ReplaceState = h.ReplaceState
	n := &verifApiNode{dir: dir, gate: gate, fsm: fsm, logStore: logStore, h: h}
	verifApiCur = n
	n.srv = verifApiServe()
	n.client = &http.Client{
		Transport:     &http.Transport{DisableKeepAlives: false, MaxIdleConnsPerHost: 4},
		CheckRedirect: func(*http.Request, []*http.Request) error { return http.ErrUseLastResponse },
	}
	return n, nil
}

// ---- observations of the node's state (read-only) -----------------------------------------

func verifApiLastProcessed() uint64 {
	defer func() { recover() }()
	v := reflect.ValueOf(ircServer).Elem().FieldByName("lastProcessed")
	if !v.IsValid() {
		return 0
	}
	f := v.FieldByName("Id")
	if !f.IsValid() {
		return 0
	}
	return f.Uint()
}

func verifApiLastIndex() uint64 { return node.LastIndex() }

// verifApiBarrier waits until everything committed so far has been applied to the FSM.
func verifApiBarrier() {
	// not raft's Barrier(): that would itself append a log entry
	if verifApiCur != nil && verifApiCur.gate != nil && verifApiCur.gate.isClosed() {
		return // the state machine is held back on purpose
	}
	deadline := time.Now().Add(10 * time.Second)
	for node.AppliedIndex() < node.LastIndex() && time.Now().Before(deadline) {
		time.Sleep(200 * time.Microsecond)
	}
}

func verifApiLiveIDs() []uint64 {
	var ids []uint64
	for id := range ircServer.GetSessions() {
		ids = append(ids, id.Id)
	}
	sort.Slice(ids, func(a, b int) bool { return ids[a] < ids[b] })
	return ids
}

func verifApiAlive(id uint64) bool {
	_, err := ircServer.GetSession(robust.Id{Id: id})
	return err == nil
}

func verifApiConfigRevision(i *ircserver.IRCServer) uint64 {
	i.ConfigMu.RLock()
	defer i.ConfigMu.RUnlock()
	return i.Config.Revision
}

// verifApiEntry reads one applied entry back from the FSM's own store (irclog).
func verifApiEntry(idx uint64) (robust.Message, bool) {
	var l raft.Log
	if err := ircStore.GetLog(idx, &l); err != nil {
		return robust.Message{}, false
	}
	if l.Type != raft.LogCommand {
		return robust.Message{}, false
	}
	return robust.NewMessageFromBytes(l.Data, robust.IdFromRaftIndex(l.Index)), true
}
