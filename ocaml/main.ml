(* Glue between the extracted model and the shell: stdin -> Coq string -> Model.run ->
   stdout.  Coq's [string] is extracted as an inductive over [ascii] (8 booleans). *)
let ascii_of_char (c : char) : Model.ascii =
  let n = Char.code c in
  let b i = (n lsr i) land 1 = 1 in
  Model.Ascii (b 0, b 1, b 2, b 3, b 4, b 5, b 6, b 7)

let char_of_ascii (a : Model.ascii) : char =
  match a with
  | Model.Ascii (b0, b1, b2, b3, b4, b5, b6, b7) ->
    let v b i = if b then 1 lsl i else 0 in
    Char.chr (v b0 0 + v b1 1 + v b2 2 + v b3 3 + v b4 4 + v b5 5 + v b6 6 + v b7 7)

let coq_of_string (s : string) : Model.string =
  let r = ref Model.EmptyString in
  for i = String.length s - 1 downto 0 do
    r := Model.String (ascii_of_char s.[i], !r)
  done;
  !r

let print_coq (s : Model.string) : unit =
  let buf = Buffer.create 65536 in
  let rec go s = match s with
    | Model.EmptyString -> ()
    | Model.String (a, r) -> Buffer.add_char buf (char_of_ascii a); go r in
  go s;
  print_string (Buffer.contents buf)

let read_all () : string =
  let buf = Buffer.create 65536 in
  (try
     while true do
       Buffer.add_channel buf stdin 1
     done
   with End_of_file -> ());
  Buffer.contents buf

let () = print_coq (Model.run (coq_of_string (read_all ())))
