(* IrcProofs/CleanHandlers.v — the logical relation [cl_ok] over the handler monad, every handler, ProcessMessage,
   log entries and histories: no CR, LF or NUL byte in any output (property C15).  See Clean.v. *)
From stdpp Require Import gmap.
From Coq Require Import Strings.String Strings.Ascii ZArith NArith Lia.
From RV Require Import Base.Text Irc.Str Irc.Parse Irc.State Irc.Monad Irc.Cmds Irc.SCmds Irc.Apply.
From RV Require Import IrcProofs.Top IrcProofs.Clean.
From RV Require IrcProofs.Outputs IrcProofs.Examples.
From RV Require Api.Post.
Local Open Scope string_scope.

(* ---- the pure side conditions: a hint database -------------------------------------------------------- *)
Create HintDb cln discriminated.

Ltac is_lit s :=
  lazymatch s with
  | EmptyString => idtac
  | String _ ?r => is_lit r
  end.

Global Hint Extern 0 (cln ?s) => (is_lit s; reflexivity) : cln.
Global Hint Extern 0 (cln _) => assumption : cln.
Global Hint Extern 0 (cln _) => (simple apply @triv_cln; solve [typeclasses eauto]) : cln.
Global Hint Extern 0 (bad_char _ = false) => reflexivity : cln.
Global Hint Resolve cln_mc_char cln_cap_user : cln.
Global Hint Resolve cln_empty cln_String cln_app cln_srev cln_stake cln_sdrop cln_to_upper cln_trim_space cln_dec_of_N
  cln_dec_of_Z cln_dec_of_nat cln_hex_of_N cln_replace_all cln_nil cln_cons cln_lapp cln_split_on cln_split_space
  cln_sjoin cln_sort_strings cln_dedup_sorted cln_last cln_removelast cln_nth cln_nth_error cln_hd cln_tl cln_lfilter
  cln_Some cln_None cln_pair cln_Ok cln_Panic cln_Gap cln_Prefix cln_p_name cln_p_user cln_p_host
  cln_IMsg cln_m_prefix cln_m_cmd cln_m_params cln_trailing
  cln_s_nick cln_s_user cln_s_real cln_s_away cln_s_svid cln_s_pass cln_s_prefix
  cln_c_name cln_c_topicNick cln_c_topic cln_c_key cln_c_bans cln_SvsHold cln_h_reason cln_Config cln_g_banned
  cln_with_revision cln_sv_sessions cln_sv_channels cln_sv_svsholds cln_sv_netname cln_sv_config cln_server_prefix
  cln_ModeCmd cln_mc_param cln_gempty cln_lookup cln_insert cln_delete cln_fmap cln_mfilter
  cln_ss_nick cln_ss_user_real cln_ss_loggedIn cln_ss_channels cln_ss_activity cln_ss_solved cln_ss_operator cln_ss_away
  cln_ss_invited cln_ss_modes cln_ss_svid cln_ss_pass cln_ss_server cln_ss_prefix cln_ss_deleted cln_ss_remoteAddr
  cln_mk_prefix cln_update_prefix cln_new_session cln_reload_session
  cln_cc_nicks cln_cc_topic cln_cc_modes cln_cc_key cln_cc_bans cln_new_chan cln_ban_both
  cln_set_serverSessions cln_set_nicks cln_set_lastProcessed
  cln_parse_prefix cln_prefix_string cln_parse_message cln_msg_bytes cln_extract_password cln_modestr_of
  cln_normalize_modes cln_irc_params cln_go_string_of_byte cln_zip_keys cln_service_alias cln_collectM cln_member_session : cln.
Global Hint Extern 2 (cln (set_sessions _ _)) => (simple apply cln_set_sessions; [|cbv beta]) : cln.
Global Hint Extern 2 (cln (set_channels _ _)) => (simple apply cln_set_channels; [|cbv beta]) : cln.
Global Hint Extern 2 (cln (set_svsholds _ _)) => (simple apply cln_set_svsholds; [|cbv beta]) : cln.
Global Hint Extern 2 (cln (set_config _ _)) => (simple apply cln_set_config; [|cbv beta]) : cln.
Global Hint Extern 1 (cln (fst _)) => (eapply cln_fst; eassumption) : cln.
Global Hint Extern 1 (cln (snd _)) => (eapply cln_snd; eassumption) : cln.
Global Hint Extern 2 (cln (map fst _)) => (simple apply (cln_map (A:=string*string) (B:=string) fst); [intros ? ?|]) : cln.

Lemma cln_drop_invites (lc : string) (m : gmap (N * N) session) : cln m -> cln (drop_invites lc m).
Proof. intros Hm. unfold drop_invites. apply cln_fmap; [|exact Hm]. intros s Hs. apply cln_ss_invited. exact Hs. Qed.
Lemma cln_services_prefix p : cln p -> cln (services_prefix p).
Proof. intros Hp. apply cln_Prefix; [apply cln_p_name; exact Hp|reflexivity|reflexivity]. Qed.
Global Hint Resolve cln_drop_invites cln_services_prefix : cln.

(* hypotheses [cln (Some x)], [cln (a, b)], [cln (x :: l)], [cln (Ok a)] are taken apart *)
Ltac cl_hyps :=
  repeat match goal with
  | HH : @cln _ (@clean_option _ ?C) (Some ?x) |- _ => change (@cln _ C x) in HH
  | HH : @cln _ (@clean_option _ _) None |- _ => clear HH
  | HH : @cln _ (@clean_res _ ?C) (Ok ?x) |- _ => change (@cln _ C x) in HH
  | HH : @cln _ (@clean_res _ _) (Panic _) |- _ => clear HH
  | HH : @cln _ (@clean_res _ _) (Gap _) |- _ => clear HH
  | HH : @cln _ (@clean_prod _ _ _ _) (_, _) |- _ => destruct HH as [? ?]; cbn [fst snd] in *
  | HH : @cln _ (@clean_list _ _) (_ :: _) |- _ => apply cln_cons_inv in HH; destruct HH as [? ?]
  | HH : @cln _ (@clean_list _ _) [] |- _ => clear HH
  | HH : @cln unit _ _ |- _ => clear HH
  | HH : @cln bool _ _ |- _ => clear HH
  | HH : @cln nat _ _ |- _ => clear HH
  end.

(* matches and ifs inside a pure term: take the head apart, remembering that it is clean *)
Ltac cl_case x :=
  try (let HH := fresh "Hcl" in assert (HH : cln x) by (auto 12 with cln));
  destruct x eqn:?; cl_hyps.
Global Hint Extern 3 (cln (if ?b then _ else _)) => destruct b : cln.
Global Hint Extern 4 (cln (match ?x with _ => _ end)) => cl_case x : cln.
Global Hint Extern 1 (cln (let _ := _ in _)) => cbv zeta : cln.
Global Hint Extern 1 (cln ((fun _ => _) _)) => cbv beta : cln.

Ltac cl_pure := solve [auto 14 with cln].

(* ---- the relation -------------------------------------------------------------------------------------- *)
Definition cl_ok {A} `{Clean A} (m : M A) : Prop :=
  forall sv r, cln sv -> cln (r_out r) ->
    match m sv r with Ok (a, sv', r') => cln a /\ cln sv' /\ cln (r_out r') | _ => True end.

Section Rules.
  Context {A B : Type} `{Clean A} `{Clean B}.
  Lemma cl_ok_ret (a : A) : cln a -> cl_ok (retM a).
  Proof. intros Ha sv r Hsv Hr. cbn. auto. Qed.
  Lemma cl_ok_bind (m : M A) (f : A -> M B) : cl_ok m -> (forall a, cln a -> cl_ok (f a)) -> cl_ok (bindM m f).
  Proof.
    intros Hm Hf sv r Hsv Hr. unfold bindM. specialize (Hm sv r Hsv Hr).
    destruct (m sv r) as [[[a sv'] r']|?|?]; [|exact Logic.I|exact Logic.I]. destruct Hm as (Ha & Hsv' & Hr').
    exact (Hf a Ha sv' r' Hsv' Hr').
  Qed.
  Lemma cl_ok_panic s : cl_ok (@panicM A s). Proof. intros sv r _ _. exact Logic.I. Qed.
  Lemma cl_ok_gap s : cl_ok (@gapM A s). Proof. intros sv r _ _. exact Logic.I. Qed.
  Lemma cl_ok_liftR (x : res A) : cln x -> cl_ok (liftR x).
  Proof. intros Hx sv r Hsv Hr. unfold liftR. destruct x; [cbn; auto|exact Logic.I|exact Logic.I]. Qed.
End Rules.
Lemma cl_ok_forM {A} `{Clean A} (l : list A) (f : A -> M unit) : cln l -> (forall x, cln x -> cl_ok (f x)) -> cl_ok (forM l f).
Proof.
  intros Hl Hf. induction Hl as [|x l Hx Hl IH]; cbn [forM]; [apply cl_ok_ret; exact Logic.I|].
  apply cl_ok_bind; [apply Hf; exact Hx|intros _ _; exact IH].
Qed.

(* a loop over keys (channel or nick keys are not required to be clean: they are looked up, never sent) *)
Lemma cl_ok_forM_any {A} (l : list A) (f : A -> M unit) : (forall x, cl_ok (f x)) -> cl_ok (forM l f).
Proof.
  intros Hf. induction l as [|x l IH]; cbn [forM]; [apply cl_ok_ret; exact Logic.I|].
  apply cl_ok_bind; [apply Hf|intros _ _; exact IH].
Qed.
Lemma cl_ok_getS : cl_ok getS. Proof. intros sv r Hsv Hr. cbn. auto. Qed.
Lemma cl_ok_modS f : (forall sv, cln sv -> cln (f sv)) -> cl_ok (modS f).
Proof. intros Hf sv r Hsv Hr. cbn. split; [exact Logic.I|]. split; [apply Hf; exact Hsv|exact Hr]. Qed.
Lemma cl_ok_replyCount : cl_ok replyCount. Proof. intros sv r Hsv Hr. cbn. split; [exact Logic.I|]. auto. Qed.
Lemma cl_ok_emit rc m : cln m -> cl_ok (emit rc m).
Proof.
  intros Hm sv r Hsv Hr. unfold emit. split; [exact Logic.I|]. split; [exact Hsv|]. cbn [r_out].
  apply cln_cons; [|exact Hr]. apply cln_msg_bytes. exact Hm.
Qed.
Lemma cl_ok_whenM b m : cl_ok m -> cl_ok (whenM b m).
Proof. intros Hm. destruct b; [exact Hm|apply cl_ok_ret; exact Logic.I]. Qed.

(* the accessors *)
Lemma cl_ok_sessM k : cl_ok (sessM k).
Proof.
  unfold sessM. apply cl_ok_bind; [apply cl_ok_getS|]. intros sv Hsv.
  destruct (sv_sessions sv !! k) as [s|] eqn:E; [|apply cl_ok_gap]. apply cl_ok_ret. exact (cln_sv_sessions sv Hsv k s E).
Qed.
Lemma cl_ok_chanM lc : cl_ok (chanM lc).
Proof. unfold chanM. apply cl_ok_bind; [apply cl_ok_getS|]. intros sv Hsv. apply cl_ok_ret. cl_pure. Qed.
Lemma cl_ok_nickM lc : cl_ok (nickM lc).
Proof. unfold nickM. apply cl_ok_bind; [apply cl_ok_getS|]. intros sv Hsv. apply cl_ok_ret. cl_pure. Qed.
Lemma cl_ok_cfgM : cl_ok cfgM.
Proof. unfold cfgM. apply cl_ok_bind; [apply cl_ok_getS|]. intros sv Hsv. apply cl_ok_ret. cl_pure. Qed.
Lemma cl_ok_updSess k f : (forall s, cln s -> cln (f s)) -> cl_ok (updSess k f).
Proof.
  intros Hf. unfold updSess. apply cl_ok_modS. intros sv Hsv. apply cln_set_sessions; [exact Hsv|].
  pose proof (cln_sv_sessions sv Hsv) as Hm. destruct (sv_sessions sv !! k) as [s|] eqn:E; [|exact Hm].
  apply cln_insert; [apply Hf; exact (Hm k s E)|exact Hm].
Qed.
Lemma cl_ok_updChan lc f : (forall c, cln c -> cln (f c)) -> cl_ok (updChan lc f).
Proof.
  intros Hf. unfold updChan. apply cl_ok_modS. intros sv Hsv. apply cln_set_channels; [exact Hsv|].
  pose proof (cln_sv_channels sv Hsv) as Hm. destruct (sv_channels sv !! lc) as [s|] eqn:E; [|exact Hm].
  apply cln_insert; [apply Hf; exact (Hm lc s E)|exact Hm].
Qed.
Lemma cl_ok_param m k : cln m -> cl_ok (param m k).
Proof.
  intros Hm. unfold param. pose proof (cln_nth_error (m_params m) k (cln_m_params m Hm)) as Hp.
  destruct (nth_error _ _); [apply cl_ok_ret; exact Hp|apply cl_ok_panic].
Qed.
Lemma cl_ok_prefix_name m : cln m -> cl_ok (prefix_name m).
Proof.
  intros Hm. unfold prefix_name. pose proof (cln_m_prefix m Hm) as Hp.
  destruct (m_prefix m); [apply cl_ok_ret; apply cln_p_name; exact Hp|apply cl_ok_panic].
Qed.
Lemma cl_ok_msg_prefix m : cln m -> cl_ok (msg_prefix m).
Proof.
  intros Hm. unfold msg_prefix. pose proof (cln_m_prefix m Hm) as Hp.
  destruct (m_prefix m); [apply cl_ok_ret; exact Hp|apply cl_ok_panic].
Qed.
Lemma cl_ok_reply_num k cmd ps : cln cmd -> cln ps -> cl_ok (reply_num k cmd ps).
Proof.
  intros Hc Hps. unfold reply_num. apply cl_ok_bind; [apply cl_ok_getS|]. intros sv Hsv. apply cl_ok_emit. unfold srvmsg. cl_pure.
Qed.
Lemma cl_ok_reply_svc cmd ps : cln cmd -> cln ps -> cl_ok (reply_svc cmd ps).
Proof.
  intros Hc Hps. unfold reply_svc. apply cl_ok_bind; [apply cl_ok_getS|]. intros sv Hsv. apply cl_ok_emit. unfold srvmsg. cl_pure.
Qed.

Create HintDb clh discriminated.
Global Hint Resolve cl_ok_getS cl_ok_replyCount cl_ok_sessM cl_ok_chanM cl_ok_nickM cl_ok_cfgM : clh.

(* the syntactic closure *)
Ltac cl_step :=
  lazymatch goal with
  | |- cl_ok (bindM _ _) => apply cl_ok_bind; [|intros ? ?; cl_hyps]
  | |- cl_ok (retM _) => apply cl_ok_ret; cl_pure
  | |- cl_ok (panicM _) => apply cl_ok_panic
  | |- cl_ok (gapM _) => apply cl_ok_gap
  | |- cl_ok getS => apply cl_ok_getS
  | |- cl_ok (sessM _) => apply cl_ok_sessM
  | |- cl_ok (chanM _) => apply cl_ok_chanM
  | |- cl_ok (nickM _) => apply cl_ok_nickM
  | |- cl_ok cfgM => apply cl_ok_cfgM
  | |- cl_ok replyCount => apply cl_ok_replyCount
  | |- cl_ok (param _ _) => apply cl_ok_param; cl_pure
  | |- cl_ok (prefix_name _) => apply cl_ok_prefix_name; cl_pure
  | |- cl_ok (msg_prefix _) => apply cl_ok_msg_prefix; cl_pure
  | |- cl_ok (reply_num _ _ _) => apply cl_ok_reply_num; cl_pure
  | |- cl_ok (reply_svc _ _) => apply cl_ok_reply_svc; cl_pure
  | |- cl_ok (updSess _ _) => apply cl_ok_updSess; intros ? ?; cl_pure
  | |- cl_ok (updChan _ _) => apply cl_ok_updChan; intros ? ?; cl_pure
  | |- cl_ok (modS _) => apply cl_ok_modS; intros ? ?; cl_pure
  | |- cl_ok (liftR _) => apply cl_ok_liftR; cl_pure
  | |- cl_ok (emit _ _) => apply cl_ok_emit; unfold srvmsg, usrmsg, noprefix; cl_pure
  | |- cl_ok (whenM _ _) => apply cl_ok_whenM
  | |- cl_ok (forM _ _) => first [ apply cl_ok_forM; [cl_pure|intros ? ?; cl_hyps] | apply cl_ok_forM_any; intros ? ]
  | |- cl_ok (if ?b then _ else _) => destruct b
  | |- cl_ok (match ?x with _ => _ end) => cl_case x
  | |- cl_ok (let _ := _ in _) => cbv zeta
  | |- cl_ok _ => solve [auto 6 with clh cln]
  end.
Ltac unf := unfold chanop_of, captcha_url_check, add_member, leave_channel, maybe_delete_channel, rename_in_channels,
                   change_nick, create_session.
Ltac go := repeat (first [ cl_step | progress unf ]).

Lemma cl_cmd_ping k m : cln m -> cl_ok (cmd_ping k m).
Proof. intros Hm. unfold cmd_ping. go. Qed.
Lemma cl_cmd_away k m : cln m -> cl_ok (cmd_away k m).
Proof. intros Hm. unfold cmd_away. go. Qed.
Lemma cl_cmd_topic k m : cln m -> cl_ok (cmd_topic k m).
Proof. intros Hm. unfold cmd_topic. go. Qed.
Lemma cl_cmd_privmsg k m : cln m -> cl_ok (cmd_privmsg k m).
Proof. intros Hm. unfold cmd_privmsg. go. Qed.
Lemma cl_cmd_whois k m : cln m -> cl_ok (cmd_whois k m).
Proof. intros Hm. unfold cmd_whois. go. Qed.

Lemma cl_remove_nick_everywhere lcn : cl_ok (remove_nick_everywhere lcn).
Proof. unfold remove_nick_everywhere. go. Qed.
Global Hint Resolve cl_remove_nick_everywhere : clh.
Lemma cl_delete_session k : cl_ok (delete_session k).
Proof. unfold delete_session. go. Qed.
Global Hint Resolve cl_delete_session : clh.
Lemma cl_verify_captcha e k c : cl_ok (verify_captcha e k c).
Proof. unfold verify_captcha. go. Qed.
Global Hint Resolve cl_verify_captcha : clh.
Lemma cl_cmd_motd k m : cl_ok (cmd_motd k m).
Proof. unfold cmd_motd. go. Qed.
Global Hint Resolve cl_cmd_motd : clh.
Lemma cl_cmd_oper k m : cln m -> cl_ok (cmd_oper k m).
Proof. intros Hm. unfold cmd_oper. go. Qed.
Global Hint Resolve cl_cmd_oper : clh.
Lemma cl_maybe_login e k m : cl_ok (maybe_login e k m).
Proof. unfold maybe_login. go. Qed.
Global Hint Resolve cl_maybe_login : clh.
Lemma cl_cmd_nick e k m : cln m -> cl_ok (cmd_nick e k m).
Proof. intros Hm. unfold cmd_nick. go. Qed.
Lemma cl_cmd_user e k m : cln m -> cl_ok (cmd_user e k m).
Proof. intros Hm. unfold cmd_user. go. Qed.
Lemma cl_cmd_pass e k m : cln m -> cl_ok (cmd_pass e k m).
Proof. intros Hm. unfold cmd_pass. go. Qed.
Lemma cl_mode_step k lc ch op md q : cln ch -> cln md -> cl_ok (cmd_mode_chan_step k lc ch op md q).
Proof. intros Hch Hmd. unfold cmd_mode_chan_step. go. Qed.
Lemma cl_mode_loop k lc ch op mds q : cln ch -> cln mds -> cl_ok (cmd_mode_chan_loop k lc ch op mds q).
Proof.
  intros Hch Hmds. revert q. induction Hmds as [|md mds Hmd Hmds IH]; intros q; cbn [cmd_mode_chan_loop]; [go|].
  apply cl_ok_bind; [apply cl_mode_step; assumption|]. intros st _. destruct (fst st); [go|apply IH].
Qed.
Global Hint Resolve cl_mode_loop : clh.
Lemma cl_cmd_mode k m : cln m -> cl_ok (cmd_mode k m).
Proof. intros Hm. unfold cmd_mode. go. Qed.
Lemma cl_cmd_names k m : cln m -> cl_ok (cmd_names k m).
Proof. intros Hm. unfold cmd_names. go. Qed.
Global Hint Resolve cl_cmd_mode cl_cmd_topic cl_cmd_names : clh.
Lemma cl_join_one e k ch key : cln ch -> cl_ok (join_one e k ch key).
Proof. intros Hch. unfold join_one. go. Qed.
Global Hint Resolve cl_join_one : clh.
Lemma cl_cmd_join e k m : cln m -> cl_ok (cmd_join e k m).
Proof. intros Hm. unfold cmd_join. go. Qed.
Lemma cl_cmd_part k m : cln m -> cl_ok (cmd_part k m).
Proof. intros Hm. unfold cmd_part. go. Qed.
Lemma cl_cmd_kick k m : cln m -> cl_ok (cmd_kick k m).
Proof. intros Hm. unfold cmd_kick. go. Qed.
Lemma cl_cmd_invite k m : cln m -> cl_ok (cmd_invite k m).
Proof. intros Hm. unfold cmd_invite. go. Qed.
Global Hint Resolve cl_cmd_privmsg : clh.
Lemma cl_cmd_service_alias k m : cln m -> cl_ok (cmd_service_alias k m).
Proof. intros Hm. unfold cmd_service_alias. go. Qed.
Lemma cl_cmd_who k m : cln m -> cl_ok (cmd_who k m).
Proof. intros Hm. unfold cmd_who. go. Qed.
Lemma cl_cmd_list k m : cln m -> cl_ok (cmd_list k m).
Proof. intros Hm. unfold cmd_list. go. Qed.
Lemma cl_cmd_ison k m : cln m -> cl_ok (cmd_ison k m).
Proof. intros Hm. unfold cmd_ison. go. Qed.
Lemma cl_cmd_userhost k m : cln m -> cl_ok (cmd_userhost k m).
Proof. intros Hm. unfold cmd_userhost. go. Qed.
Lemma cl_cmd_knock k m : cln m -> cl_ok (cmd_knock k m).
Proof. intros Hm. unfold cmd_knock. go. Qed.
Lemma cl_cmd_quit k m : cln m -> cl_ok (cmd_quit k m).
Proof. intros Hm. unfold cmd_quit. go. Qed.
Lemma cl_cmd_kill k m : cln m -> cl_ok (cmd_kill k m).
Proof. intros Hm. unfold cmd_kill. go. Qed.
Global Hint Resolve cl_cmd_kill : clh.
Lemma cl_cmd_gline k m : cln m -> cl_ok (cmd_gline k m).
Proof. intros Hm. unfold cmd_gline. go. Qed.
(* services *)
Lemma cl_burst_one sv t : cln sv -> cln t -> cl_ok (burst_one sv t).
Proof. intros Hsv Ht. unfold burst_one. go. Qed.
Global Hint Resolve cl_burst_one : clh.
Lemma cl_cmd_server k m : cln m -> cl_ok (cmd_server k m).
Proof. intros Hm. unfold cmd_server. go. Qed.
Lemma cl_cmd_server_nick k m : cln m -> cl_ok (cmd_server_nick k m).
Proof. intros Hm. unfold cmd_server_nick. go. Qed.
Lemma cl_quit_pseudo tk m : cln m -> cl_ok (quit_pseudo tk m).
Proof. intros Hm. unfold quit_pseudo. go. Qed.
Global Hint Resolve cl_quit_pseudo : clh.
Lemma cl_cmd_server_quit k m : cln m -> cl_ok (cmd_server_quit k m).
Proof. intros Hm. unfold cmd_server_quit. go. Qed.
Lemma cl_cmd_server_kill k m : cln m -> cl_ok (cmd_server_kill k m).
Proof. intros Hm. unfold cmd_server_kill. go. Qed.
Lemma cl_cmd_server_join k m : cln m -> cl_ok (cmd_server_join k m).
Proof. intros Hm. unfold cmd_server_join. go. Qed.
Lemma cl_cmd_server_part k m : cln m -> cl_ok (cmd_server_part k m).
Proof. intros Hm. unfold cmd_server_part. go. Qed.
Lemma cl_cmd_server_kick k m : cln m -> cl_ok (cmd_server_kick k m).
Proof. intros Hm. unfold cmd_server_kick. go. Qed.
Lemma cl_cmd_server_svsjoin k m : cln m -> cl_ok (cmd_server_svsjoin k m).
Proof. intros Hm. unfold cmd_server_svsjoin. go. Qed.
Lemma cl_cmd_server_svspart k m : cln m -> cl_ok (cmd_server_svspart k m).
Proof. intros Hm. unfold cmd_server_svspart. go. Qed.
Lemma cl_cmd_server_svsnick k m : cln m -> cl_ok (cmd_server_svsnick k m).
Proof. intros Hm. unfold cmd_server_svsnick. go. Qed.
Lemma cl_cmd_server_mode k m : cln m -> cl_ok (cmd_server_mode k m).
Proof. intros Hm. unfold cmd_server_mode. go. Qed.
Lemma cl_cmd_server_topic k m : cln m -> cl_ok (cmd_server_topic k m).
Proof. intros Hm. unfold cmd_server_topic. go. Qed.
Lemma cl_cmd_server_invite k m : cln m -> cl_ok (cmd_server_invite k m).
Proof. intros Hm. unfold cmd_server_invite. go. Qed.
Lemma cl_cmd_server_privmsg k m : cln m -> cl_ok (cmd_server_privmsg k m).
Proof. intros Hm. unfold cmd_server_privmsg. go. Qed.
Lemma cl_cmd_server_svshold k m : cln m -> cl_ok (cmd_server_svshold k m).
Proof. intros Hm. unfold cmd_server_svshold. go. Qed.
Lemma cl_cmd_server_svsmode k m : cln m -> cl_ok (cmd_server_svsmode k m).
Proof. intros Hm. unfold cmd_server_svsmode. go. Qed.

(* ---- the command table and ProcessMessage ------------------------------------------------------------- *)
Lemma cl_dispatch name minp (f : handler) e k m : In (name, (minp, f)) commands -> cln m -> cl_ok (f e k m).
Proof.
  intros Hin Hm. unfold commands in Hin.
  repeat (destruct Hin as [Hin|Hin]; [injection Hin as <- <- <-|]); try contradiction; unfold noenv;
    first [ apply cl_cmd_service_alias | apply cl_cmd_away | apply cl_cmd_gline | apply cl_cmd_invite | apply cl_cmd_ison
          | apply cl_cmd_join | apply cl_cmd_kick | apply cl_cmd_kill | apply cl_cmd_knock | apply cl_cmd_list | apply cl_cmd_mode
          | apply cl_cmd_motd | apply cl_cmd_names | apply cl_cmd_nick | apply cl_cmd_oper | apply cl_cmd_part | apply cl_cmd_pass
          | apply cl_cmd_ping | apply cl_cmd_privmsg | apply cl_cmd_quit | apply cl_cmd_topic | apply cl_cmd_user
          | apply cl_cmd_userhost | apply cl_cmd_who | apply cl_cmd_whois | apply cl_cmd_server
          | apply cl_cmd_server_invite | apply cl_cmd_server_join | apply cl_cmd_server_kick | apply cl_cmd_server_kill
          | apply cl_cmd_server_mode | apply cl_cmd_server_nick | apply cl_cmd_server_part | apply cl_cmd_server_privmsg
          | apply cl_cmd_server_quit | apply cl_cmd_server_svshold | apply cl_cmd_server_svsjoin | apply cl_cmd_server_svsmode
          | apply cl_cmd_server_svsnick | apply cl_cmd_server_svspart | apply cl_cmd_server_topic ]; exact Hm.
Qed.

Lemma cl_process_message e k ra ircmsg : cln ircmsg -> cl_ok (process_message e k ra ircmsg).
Proof.
  intros Hm. unfold process_message. apply cl_ok_bind; [go|]. intros s Hs.
  destruct ircmsg as [m|]; [|go]. cl_hyps. cbv zeta.
  apply cl_ok_bind; [go|]. intros banned _. destruct banned; [go|].
  apply cl_ok_bind; [go|]. intros s1 Hs1.
  destruct (_ && _ && _); [go|].
  destruct (assoc_str _ commands) as [[minp f]|] eqn:Hc; [|go].
  destruct (Nat.ltb _ _); [go|].
  eapply cl_dispatch; [eapply Outputs.assoc_str_In'; exact Hc|exact Hm].
Qed.

(* ---- log entries ------------------------------------------------------------------------------------------ *)
(* what an entry carries into the state or the outputs: the posted line, the quit message, the ban reasons of a
   new configuration.  Nothing is required of a session's auth or of the remote address: they are never sent. *)
Definition clean_entry (en : entry) : Prop :=
  match en with
  | EMessage _ _ _ _ _ data => clean data
  | EDelete _ _ _ quitmsg => clean quitmsg
  | EConfig _ _ _ parsed => cln parsed
  | ECreate _ _ _ | EDeath _ _ _ _ _ => True
  end.

Lemma cln_maybe_delete_session k sv : cln sv -> cln (maybe_delete_session k sv).
Proof.
  intros Hsv. unfold maybe_delete_session. destruct (sv_sessions sv !! k) as [s|]; [|exact Hsv]. cbv zeta.
  assert (cln (if s_server s || s_operator s
               then set_sessions (base.filter (fun kv : N * N * session => s_deleted (snd kv) = false)) sv else sv)) as H1.
  { destruct (_ || _); [|exact Hsv]. cl_pure. }
  destruct (s_deleted s); [|exact H1]. cl_pure.
Qed.

Lemma cln_update_last_cmid k ts d c sv sv' : cln sv -> update_last_cmid k ts d c sv = Some sv' -> cln sv'.
Proof.
  intros Hsv. unfold update_last_cmid. destruct (sv_sessions sv !! k) as [s|] eqn:E; [|discriminate]. intros [= <-].
  pose proof (cln_sv_sessions sv Hsv k s E) as Hs. cl_pure.
Qed.

Lemma cl_create_session k a ts : cl_ok (create_session k a ts).
Proof. unfold create_session. go. Qed.

Definition clean_outcome (o : outcome) : Prop :=
  match o with
  | OOk sv' out => CleanState sv' /\ Forall (fun o => clean (o_data o)) out
  | OSessionLimit sv' | OSkip sv' => CleanState sv'
  | OPanic _ | OGap _ => True
  end.

Lemma cln_run_handler sv id act fin :
  cln sv -> cl_ok act -> (forall sv', cln sv' -> cln (fin sv')) ->
  clean_outcome (run_handler sv id act fin).
Proof.
  intros Hsv Hact Hfin. unfold run_handler. specialize (Hact sv (RCtx id []) Hsv (cln_nil (A:=omsg))).
  destruct (act sv _) as [[[[] sv1] r1]|?|?]; try exact Logic.I. destruct Hact as (_ & Hsv1 & Hout).
  split; [apply Hfin; exact Hsv1|]. apply Forall_rev. exact Hout.
Qed.

(* one entry: the state stays clean and every output is clean *)
Theorem clean_step e sv en : CleanState sv -> clean_entry en -> clean_outcome (apply_entry e sv en).
Proof.
  unfold CleanState. intros Hsv Hen. destruct en; cbn [apply_entry clean_entry] in *.
  - pose proof (cl_create_session (id, 0%N) auth (timestamp id unixnano) sv (RCtx id []) Hsv (cln_nil (A:=omsg))) as H.
    destruct (create_session _ _ _ sv _) as [[[[] sv1] r1]|?|?]; cbn; try exact Logic.I.
    + split; [apply H|constructor].
    + apply H.
  - destruct (sv_sessions sv !! _); [|split; [exact Hsv|constructor]].
    pose proof (cln_run_handler sv id (process_message e (session, 0%N) "" (parse_message ("QUIT :" ++ quitmsg)))
                  (fun sv' => maybe_delete_session (session, 0%N) (set_lastProcessed (id, 0%N) sv')) Hsv) as H.
    apply H.
    + apply cl_process_message. apply cln_parse_message. apply cln_app; [reflexivity|exact Hen].
    + intros sv' Hsv'. apply cln_maybe_delete_session. cl_pure.
  - destruct (is_retry _ _ sv); [split; [exact Hsv|constructor]|].
    destruct (update_last_cmid _ _ _ _ sv) as [sv1|] eqn:Hu; [|exact Hsv].
    pose proof (cln_update_last_cmid _ _ _ _ _ _ Hsv Hu) as Hsv1.
    pose proof (cln_run_handler sv1 id (process_message e (session, 0%N) remoteAddr (parse_message data))
                  (fun sv' => maybe_delete_session (session, 0%N) (set_lastProcessed (session, 0%N) sv')) Hsv1) as H.
    apply H.
    + apply cl_process_message. apply cln_parse_message. exact Hen.
    + intros sv' Hsv'. apply cln_maybe_delete_session. cl_pure.
  - destruct (update_last_cmid _ _ _ _ sv) as [sv1|] eqn:Hu; [|exact Hsv].
    split; [exact (cln_update_last_cmid _ _ _ _ _ _ Hsv Hu)|constructor].
  - destruct (config_in_force _ _ _) as [g|] eqn:Hcf; (split; [|constructor]); [|exact Hsv]. apply config_in_force_Some in Hcf. rewrite Hcf in Hen. cl_hyps. unfold CleanState. cl_pure.
Qed.

(* ---- histories -------------------------------------------------------------------------------------------- *)
Definition clean_out (o : omsg) : Prop := clean (o_data o).

(* the states reached and the outputs produced entry by entry, up to the first entry that panics (if any) *)
Fixpoint trace (e : env) (sv : server) (es : list entry) : list (server * list omsg) :=
  match es with
  | [] => []
  | en :: r =>
      match apply_entry e sv en with
      | OOk sv' out => (sv', out) :: trace e sv' r
      | OSessionLimit sv' | OSkip sv' => (sv', []) :: trace e sv' r
      | OPanic _ | OGap _ => []
      end
  end.

(* every reachable state is clean and every output of every step is clean; no well-formedness of the history is
   needed (a history that panics simply stops) *)
Theorem clean_trace e sv es :
  CleanState sv -> Forall clean_entry es ->
  Forall (fun p => CleanState (fst p) /\ Forall clean_out (snd p)) (trace e sv es).
Proof.
  intros Hsv Hes. revert sv Hsv. induction Hes as [|en es Hen Hes IH]; intros sv Hsv; cbn [trace]; [constructor|].
  pose proof (clean_step e sv en Hsv Hen) as H. destruct (apply_entry e sv en); cbn [clean_outcome] in H; try constructor.
  - exact H.
  - apply IH. apply H.
  - split; [exact H|constructor].
  - apply IH. exact H.
  - split; [exact H|constructor].
  - apply IH. exact H.
Qed.

Theorem clean_run_state e sv es sv' :
  CleanState sv -> Forall clean_entry es -> run e sv es = Some sv' -> CleanState sv'.
Proof.
  intros Hsv Hes. revert sv Hsv. induction Hes as [|en es Hen Hes IH]; intros sv Hsv; cbn [run]; [intros [= <-]; exact Hsv|].
  pose proof (clean_step e sv en Hsv Hen) as H. destruct (apply_entry e sv en); cbn [clean_outcome entry_result] in *; try discriminate.
  - apply IH. apply H.
  - apply IH. exact H.
  - apply IH. exact H.
Qed.

(* the statement of C15 over histories: whatever clean entries preceded, every output of the next clean entry is clean *)
Theorem clean_run e net es sv en sv' out :
  clean net -> Forall clean_entry es -> clean_entry en ->
  run e (init_server net) es = Some sv -> apply_entry e sv en = OOk sv' out ->
  CleanState sv' /\ Forall clean_out out.
Proof.
  intros Hnet Hes Hen Hrun Happ.
  assert (CleanState sv) as Hsv by (eapply clean_run_state; [apply cln_init_server; exact Hnet|exact Hes|exact Hrun]).
  pose proof (clean_step e sv en Hsv Hen) as H. rewrite Happ in H. exact H.
Qed.

(* along a well-formed history (Top.wf_history: the domain of the no-panic theorem) the run exists, and its end state is clean *)
Corollary clean_wf_run e net es :
  clean net -> Forall clean_entry es -> wf_history e (init_server net) es ->
  exists sv', run e (init_server net) es = Some sv' /\ EInv sv' /\ CleanState sv'.
Proof.
  intros Hnet Hes Hwf. destruct (no_panic e net es Hwf) as (sv' & Hrun & HE). exists sv'. split; [exact Hrun|]. split; [exact HE|].
  eapply clean_run_state; [apply cln_init_server; exact Hnet|exact Hes|exact Hrun].
Qed.

(* ---- snapshot reload and session expiry ----------------------------------------------------------------- *)
Theorem clean_reload sv : CleanState sv -> CleanState (reload sv).
Proof.
  unfold CleanState. intros Hsv. unfold reload. cbv zeta. apply cln_Server; cl_pure.
Qed.

Lemma cln_dur_string d : cln (dur_string d).
Proof. unfold dur_string. cbv zeta. repeat match goal with |- cln (if ?b then _ else _) => destruct b end; cl_pure. Qed.

(* the quit messages ExpireSessions proposes are clean, so the EDelete entries built from them are clean entries *)
Theorem clean_expire_sessions sv now : Forall (fun p => clean (snd p)) (expire_sessions sv now).
Proof.
  unfold expire_sessions. cbv zeta. apply Forall_forall. intros p Hin. apply in_map_iff in Hin. destruct Hin as (kv & <- & _).
  cbn [snd]. change (cln ("Ping timeout (" ++ dur_string (g_expiration (sv_config sv)) ++ ")")).
  pose proof (cln_dur_string (g_expiration (sv_config sv))). cl_pure.
Qed.
Corollary clean_expire_entry sv now id un p : In p (expire_sessions sv now) -> clean_entry (EDelete id un (fst p) (snd p)).
Proof. intros Hin. pose proof (clean_expire_sessions sv now) as H. rewrite Forall_forall in H. exact (H p Hin). Qed.

(* ---- composition with the POST handler ------------------------------------------------------------------- *)
(* whatever a client posts, the entry the POST handler proposes is a clean entry *)
Theorem clean_posted_entry id un session cmid ra d : clean_entry (EMessage id un session cmid ra (RV.Api.Post.cut_line d)).
Proof. cbn [clean_entry]. apply clean_cut_line. Qed.

Theorem post_handler_clean json_decode st sid body pe :
  RV.Api.Post.post_handler json_decode st sid body = RV.Api.Post.PPropose pe -> clean (RV.Api.Post.e_data pe).
Proof.
  unfold RV.Api.Post.post_handler. destruct (json_decode _) as [[d c]|]; [|discriminate].
  destruct (N.eqb _ _); [discriminate|]. destruct (negb _); [discriminate|]. intros [= <-]. apply clean_cut_line.
Qed.

(* ---- the hypotheses are satisfiable, and needed ---------------------------------------------------------- *)
Example ex_history_clean : Forall clean_entry Examples.ex_history.
Proof. repeat constructor. Qed.

(* the example history produces 34 output messages in 10 steps, all of them covered by clean_trace *)
Example ex_trace_nontrivial :
  let t := trace Examples.ex_env (init_server "robustirc.net") Examples.ex_history in
  List.length t = 10 /\ List.length (List.concat (map snd t)) = 34.
Proof. vm_compute. split; reflexivity. Qed.

Example ex_trace_clean :
  Forall (fun p => CleanState (fst p) /\ Forall clean_out (snd p))
         (trace Examples.ex_env (init_server "robustirc.net") Examples.ex_history).
Proof. apply clean_trace; [apply cln_init_server; reflexivity|exact ex_history_clean]. Qed.

(* the hypothesis on the entries cannot be dropped: a line feed inside a posted line (which the POST handler never
   lets through) comes out in the reply *)
Definition lf_line : string := "PING a" ++ String "010"%char "b".
Example unclean_entry_unclean_output :
  exists sv sv' out,
    run Examples.ex_env (init_server "robustirc.net") (firstn 3 Examples.ex_history) = Some sv /\
    apply_entry Examples.ex_env sv (EMessage 4 4000 1 14 "" lf_line) = OOk sv' out /\
    ~ Forall clean_out out.
Proof.
  eexists _, _, _. split; [vm_compute; reflexivity|]. split; [vm_compute; reflexivity|].
  intros H. inversion H as [|o l Ho Hl]; subst. vm_compute in Ho. discriminate.
Qed.

(* ---- what the predicates say, without the class ------------------------------------------------------------- *)
Definition clean_session_fields (s : session) : Prop :=
  clean (s_nick s) /\ clean (s_user s) /\ clean (s_real s) /\ clean (s_away s) /\ clean (s_svid s) /\ clean (s_pass s) /\
  clean (p_name (s_prefix s)) /\ clean (p_user (s_prefix s)) /\ clean (p_host (s_prefix s)).
Definition clean_chan_fields (c : chan) : Prop :=
  clean (c_name c) /\ clean (c_topicNick c) /\ clean (c_topic c) /\ clean (c_key c) /\
  Forall (fun b => clean (fst b)) (c_bans c).

Lemma CleanState_spec sv :
  CleanState sv <->
  (forall k s, sv_sessions sv !! k = Some s -> clean_session_fields s) /\
  (forall lc c, sv_channels sv !! lc = Some c -> clean_chan_fields c) /\
  (forall n h, sv_svsholds sv !! n = Some h -> clean (h_reason h)) /\
  clean (sv_netname sv) /\
  (forall addr reason, g_banned (sv_config sv) !! addr = Some reason -> clean reason).
Proof.
  assert (forall c, cln c <-> clean_chan_fields c) as Hc.
  { intros c. unfold cln, clean_chan, clean_chan_fields. unfold cln at 5, clean_list. rewrite Forall_map. reflexivity. }
  assert (forall s, cln s <-> clean_session_fields s) as Hs.
  { intros s. unfold cln at 1, clean_session, clean_session_fields. unfold cln at 7, clean_prefix. tauto. }
  unfold CleanState. unfold cln at 1, clean_server. split.
  - intros (H1 & H2 & H3 & H4 & H5). split; [|split; [|split; [|split]]]; try assumption;
      intros x y E; first [ apply Hs; exact (H1 x y E) | apply Hc; exact (H2 x y E) ].
  - intros (H1 & H2 & H3 & H4 & H5). split; [|split; [|split; [|split]]]; try assumption;
      intros x y E; first [ apply Hs; exact (H1 x y E) | apply Hc; exact (H2 x y E) ].
Qed.

Lemma clean_entry_config_spec id un rv g :
  clean_entry (EConfig id un rv (Some g)) <-> forall addr reason, g_banned g !! addr = Some reason -> clean reason.
Proof. reflexivity. Qed.

Lemma CleanState_init net : clean net -> CleanState (init_server net).
Proof. apply cln_init_server. Qed.

Print Assumptions clean_step.
Print Assumptions clean_trace.
Print Assumptions clean_run_state.
Print Assumptions clean_run.
Print Assumptions clean_wf_run.
Print Assumptions clean_reload.
Print Assumptions clean_expire_sessions.
Theorem clean_deleted_entry id un session d :
  clean_entry (RV.Irc.Apply.EDelete id un session (RV.Api.Post.cut_line d)).
Proof. cbn [clean_entry]. apply clean_cut_line. Qed.

Theorem delete_handler_clean json_quit st sid body pe :
  RV.Api.Post.delete_handler json_quit st sid body = RV.Api.Post.PPropose pe -> clean (RV.Api.Post.e_data pe).
Proof. intros H. apply clean_forall. intros c Hc.
  exact (RV.Api.PostProofs.delete_handler_no_line_end json_quit st sid body pe H c Hc). Qed.

Print Assumptions clean_posted_entry.
Print Assumptions post_handler_clean.
Print Assumptions clean_deleted_entry.
Print Assumptions delete_handler_clean.
Print Assumptions unclean_entry_unclean_output.
Print Assumptions CleanState_spec.
