(* C13 — privileged effects require the privilege: without it the command changes nothing. *)
From stdpp Require Import gmap.
From Coq Require Import Strings.String List.
From RV Require Import Irc.Str Irc.Parse Irc.State Irc.Monad Irc.Cmds Irc.SCmds Irc.Apply.
From RV Require Import IrcProofs.WP IrcProofs.Inv IrcProofs.Handlers IrcProofs.Privilege.
Local Open Scope string_scope.

Theorem C13_kick : forall k m sv r p0,
  InvM sv -> present sv k -> 2 <= nparams m -> nth_error (m_params m) 0 = Some p0 ->
  ~ is_chanop sv k (chan_to_lower p0) -> wp (cmd_kick k m) (unchanged sv) sv r.
Proof. exact kick_needs_chanop. Qed.
Print Assumptions C13_kick.

Theorem C13_mode : forall k m sv r p0 s,
  InvM sv -> sv_sessions sv !! k = Some s -> s_deleted s = false -> 1 <= nparams m ->
  nth_error (m_params m) 0 = Some p0 -> chan_to_lower p0 ∈ s_channels s ->
  ~ is_chanop sv k (chan_to_lower p0) -> ~ is_oper sv k -> wp (cmd_mode k m) (unchanged sv) sv r.
Proof. exact mode_needs_priv. Qed.
Print Assumptions C13_mode.

Theorem C13_topic_membership : forall k m sv r p0 s,
  sv_sessions sv !! k = Some s -> 1 <= nparams m -> nth_error (m_params m) 0 = Some p0 ->
  chan_to_lower p0 ∉ s_channels s -> wp (cmd_topic k m) (unchanged sv) sv r.
Proof. exact topic_needs_membership. Qed.
Print Assumptions C13_topic_membership.

Theorem C13_topic_chanop : forall k m sv r p0 s c,
  InvM sv -> sv_sessions sv !! k = Some s -> s_deleted s = false -> 2 <= nparams m ->
  nth_error (m_params m) 0 = Some p0 -> sv_channels sv !! chan_to_lower p0 = Some c ->
  has_mode 116 (c_modes c) = true -> ~ is_chanop sv k (chan_to_lower p0) -> wp (cmd_topic k m) (unchanged sv) sv r.
Proof. exact topic_needs_chanop. Qed.
Print Assumptions C13_topic_chanop.

Theorem C13_invite : forall k m sv r nickname channelname s c,
  InvM sv -> sv_sessions sv !! k = Some s -> 2 <= nparams m ->
  nth_error (m_params m) 0 = Some nickname -> nth_error (m_params m) 1 = Some channelname ->
  sv_channels sv !! chan_to_lower channelname = Some c -> has_mode 105 (c_modes c) = true ->
  ~ is_chanop sv k (chan_to_lower channelname) -> wp (cmd_invite k m) (unchanged sv) sv r.
Proof. exact invite_needs_chanop. Qed.
Print Assumptions C13_invite.

Theorem C13_kill : forall k m sv r, present sv k -> ~ is_oper sv k -> wp (cmd_kill k m) (unchanged sv) sv r.
Proof. exact kill_needs_oper. Qed.
Print Assumptions C13_kill.

Theorem C13_gline : forall k m sv r, present sv k -> ~ is_oper sv k -> wp (cmd_gline k m) (unchanged sv) sv r.
Proof. exact gline_needs_oper. Qed.
Print Assumptions C13_gline.

Theorem C13_oper : forall k m sv r p0 p1,
  present sv k -> nth_error (m_params m) 0 = Some p0 -> nth_error (m_params m) 1 = Some p1 ->
  auth_oper (sv_config sv) p0 p1 = false -> wp (cmd_oper k m) (unchanged sv) sv r.
Proof. exact oper_needs_credentials. Qed.
Print Assumptions C13_oper.

Theorem C13_server : forall k m sv r s,
  sv_sessions sv !! k = Some s ->
  existsb (fun pw => String.eqb (s_pass s) ("services=" ++ pw)) (g_services (sv_config sv)) = false ->
  wp (cmd_server k m) (unchanged sv) sv r.
Proof. exact server_needs_password. Qed.
Print Assumptions C13_server.

Theorem C13_join : forall k e channelname key sv r s c,
  sv_sessions sv !! k = Some s -> sv_channels sv !! chan_to_lower channelname = Some c ->
  let invited := in_set (chan_to_lower channelname) (s_invited s) in
  (has_mode 105 (c_modes c) && negb invited = true) \/
  (has_mode 105 (c_modes c) && negb invited = false /\ has_mode 120 (c_modes c) && negb invited = false /\
   (banned (c_bans c) (prefix_string (s_prefix s)) (s_nick s ++ "!" ++ s_user s ++ "@" ++ s_remoteAddr s) = true \/
    (banned (c_bans c) (prefix_string (s_prefix s)) (s_nick s ++ "!" ++ s_user s ++ "@" ++ s_remoteAddr s) = false /\
     has_mode 107 (c_modes c) && negb (String.eqb (c_key c) key) = true))) ->
  wp (join_one e k channelname key) (unchanged sv) sv r.
Proof. exact join_refused. Qed.
Print Assumptions C13_join.
