#!/usr/bin/env python3
# Regenerates testdata/mutations/*.diff and expected.json from the edit list below, against the
# pinned tree (HEAD of /repo) in a scratch worktree.  Never touches /repo's working tree.
# usage: make_mutations.py   (then run_mutations.py)
import json, os, subprocess, sys

HERE = os.path.dirname(os.path.abspath(__file__))
OUT = os.path.join(HERE, "mutations")
WT = "/tmp/wt-lockmut"
IRC = "internal/ircserver/ircserver.go"
OS_ = "internal/outputstream/outputstream.go"
LDB = "internal/raftstore/leveldb.go"
API = "internal/api/api.go"

# name -> (description, [(file, old, new)], expected NEW breaches [(fn, field, kind)])
M = {}

M["m01-writer-lock-downgraded"] = ("UpdateLastClientMessageID takes RLock instead of Lock", [
    (IRC, """func (i *IRCServer) UpdateLastClientMessageID(msg *robust.Message) error {
	i.sessionsMu.Lock()
	defer i.sessionsMu.Unlock()""", """func (i *IRCServer) UpdateLastClientMessageID(msg *robust.Message) error {
	i.sessionsMu.RLock()
	defer i.sessionsMu.RUnlock()""")],
    [(IRC + ":IRCServer.UpdateLastClientMessageID", "Session.LastActivity", "W"),
     (IRC + ":IRCServer.UpdateLastClientMessageID", "Session.LastNonPing", "W"),
     (IRC + ":IRCServer.UpdateLastClientMessageID", "Session.lastClientMessageId", "W")])

M["m02-outputstream-add-rlock"] = ("OutputStream.Add takes messagesMu.RLock", [
    (OS_, """	var key [8]byte

	os.messagesMu.Lock()
	defer os.messagesMu.Unlock()

	os.batch.Reset()""", """	var key [8]byte

	os.messagesMu.RLock()
	defer os.messagesMu.RUnlock()

	os.batch.Reset()""")],
    [(OS_ + ":OutputStream.Add", "OutputStream.batch", "W"), (OS_ + ":OutputStream.Add", "OutputStream.lastseen", "W")])

M["m03-new-unlocked-method"] = ("new exported method reads session state without the lock", [
    (IRC, """// NumSessions returns the current number of sessions.
func (i *IRCServer) NumSessions() int {""", """// IsOperator reports whether |sessionid| is an IRC operator.
func (i *IRCServer) IsOperator(sessionid robust.Id) bool {
	s, ok := i.sessions[sessionid]
	return ok && s.Operator
}

// NumSessions returns the current number of sessions.
func (i *IRCServer) NumSessions() int {""")],
    [(IRC + ":IRCServer.IsOperator", "IRCServer.sessions", "R"), (IRC + ":IRCServer.IsOperator", "Session.Operator", "R")])

M["m04-read-after-unlock"] = ("GetNick reads s.Nick after RUnlock", [
    (IRC, """	i.sessionsMu.RLock()
	defer i.sessionsMu.RUnlock()
	if s, ok := i.sessions[sessionid]; ok {
		return s.Nick
	}
	return \"\"""", """	i.sessionsMu.RLock()
	s, ok := i.sessions[sessionid]
	i.sessionsMu.RUnlock()
	if ok {
		return s.Nick
	}
	return \"\"""")],
    [(IRC + ":IRCServer.GetNick", "Session.Nick", "R")])

M["m05-lock-pair-removed"] = ("SetLastProcessed without Lock/defer Unlock", [
    (IRC, """func (i *IRCServer) SetLastProcessed(id robust.Id) {
	i.lastProcessedMu.Lock()
	defer i.lastProcessedMu.Unlock()
	i.lastProcessed = id""", """func (i *IRCServer) SetLastProcessed(id robust.Id) {
	i.lastProcessed = id""")],
    [(IRC + ":IRCServer.SetLastProcessed", "IRCServer.lastProcessed", "W")])

M["m06-config-read-before-lock"] = ("handleGetConfig reads Config.Revision before taking ConfigMu", [
    ("internal/api/getconfig.go", """	i := api.ircServer()
	i.ConfigMu.RLock()
	defer i.ConfigMu.RUnlock()
	w.Header().Set("X-RobustIRC-Config-Revision", strconv.FormatUint(i.Config.Revision, 10))""",
     """	i := api.ircServer()
	w.Header().Set("X-RobustIRC-Config-Revision", strconv.FormatUint(i.Config.Revision, 10))
	i.ConfigMu.RLock()
	defer i.ConfigMu.RUnlock()""")],
    [("internal/api/getconfig.go:HTTP.handleGetConfig", "IRCServer.Config", "R")])

M["m07-handler-uses-session-pointer"] = ("handlePostMessage reads a field of the *Session returned by GetSession", [
    ("internal/api/postmessage.go", """	remoteAddr := r.RemoteAddr
""", """	remoteAddr := r.RemoteAddr
	if s, err := api.ircServer().GetSession(session); err == nil && s.RemoteAddr != "" {
		remoteAddr = s.RemoteAddr
	}
""")],
    [("internal/api/postmessage.go:HTTP.handlePostMessage", "Session.RemoteAddr", "R")])

M["m08-locked-helper-called-unlocked"] = ("new exported method calls a *Locked helper without the lock", [
    (IRC, """func (i *IRCServer) Banned(remoteAddr string) string {""", """// PruneChannels removes empty channels.
func (i *IRCServer) PruneChannels() {
	for _, c := range i.channels {
		i.maybeDeleteChannelLocked(c)
	}
}

func (i *IRCServer) Banned(remoteAddr string) string {""")],
    [(IRC + ":IRCServer.PruneChannels", "IRCServer.channels", "R"),
     (IRC + ":IRCServer.maybeDeleteChannelLocked", "IRCServer.channels", "W"),
     (IRC + ":IRCServer.maybeDeleteChannelLocked", "IRCServer.sessions", "R"),
     (IRC + ":IRCServer.maybeDeleteChannelLocked", "Session.invitedTo", "W"),
     (IRC + ":IRCServer.maybeDeleteChannelLocked", "channel.nicks", "R")])

M["m09-lastseen-unlocked"] = ("OutputStream.LastSeen without the read lock", [
    (OS_, """func (os *OutputStream) LastSeen() robust.Id {
	os.messagesMu.RLock()
	defer os.messagesMu.RUnlock()
""", """func (os *OutputStream) LastSeen() robust.Id {
""")],
    [(OS_ + ":OutputStream.LastSeen", "OutputStream.lastseen", "R")])

M["m10-getlog-unlocked"] = ("LevelDBStore.GetLog without the read lock", [
    (LDB, """func (s *LevelDBStore) GetLog(index uint64, rlog *raft.Log) error {
	s.mu.RLock()
	defer s.mu.RUnlock()
""", """func (s *LevelDBStore) GetLog(index uint64, rlog *raft.Log) error {
""")],
    [(LDB + ":LevelDBStore.GetLog", "LevelDBStore.db", "R")])

M["m11-http-accessor-unlocked"] = ("api.HTTP.ircServer() without HTTP.mu", [
    (API, """func (h *HTTP) ircServer() *ircserver.IRCServer {
	h.mu.Lock()
	defer h.mu.Unlock()
	return h.ircServerUnlocked""", """func (h *HTTP) ircServer() *ircserver.IRCServer {
	return h.ircServerUnlocked""")],
    [(API + ":HTTP.ircServer", "HTTP.ircServerUnlocked", "R")])

M["m12-fsm-expiration-unlocked"] = ("FSM.sessionExpiration without sessionExpirationMu", [
    ("statemachine.go", """func (fsm *FSM) sessionExpiration() time.Duration {
	fsm.sessionExpirationMu.RLock()
	defer fsm.sessionExpirationMu.RUnlock()
	return""", """func (fsm *FSM) sessionExpiration() time.Duration {
	return""")],
    [("statemachine.go:FSM.sessionExpiration", "FSM.sessionExpirationDur", "R")])

M["m13-wrong-lock"] = ("SetLastProcessed takes sessionsMu instead of lastProcessedMu", [
    (IRC, """func (i *IRCServer) SetLastProcessed(id robust.Id) {
	i.lastProcessedMu.Lock()
	defer i.lastProcessedMu.Unlock()""", """func (i *IRCServer) SetLastProcessed(id robust.Id) {
	i.sessionsMu.Lock()
	defer i.sessionsMu.Unlock()""")],
    [(IRC + ":IRCServer.SetLastProcessed", "IRCServer.lastProcessed", "W")])

M["m14-throttle-counters-unlocked"] = ("DispatchPrivate updates the wrong-password counters without throttleMu", [
    (API, """		api.throttleMu.Lock()
		defer api.throttleMu.Unlock()
""", "")],
    [(API + ":HTTP.DispatchPrivate", "HTTP.lastWrongPassword", "R"), (API + ":HTTP.DispatchPrivate", "HTTP.lastWrongPassword", "W"),
     (API + ":HTTP.DispatchPrivate", "HTTP.throttlingExponent", "R"), (API + ":HTTP.DispatchPrivate", "HTTP.throttlingExponent", "W")])

M["m15-config-apply-rlock"] = ("applyRobustMessage replaces the config under ConfigMu.RLock", [
    ("statemachine.go", """			i.ConfigMu.Lock()
			defer i.ConfigMu.Unlock()""", """			i.ConfigMu.RLock()
			defer i.ConfigMu.RUnlock()""")],
    [("statemachine.go:FSM.applyRobustMessage", "IRCServer.Config", "W")])

M["m16-goroutine-reads-state"] = ("CreateSession starts a goroutine that reads the session map", [
    (IRC, """	i.sessionsMu.Lock()
	defer i.sessionsMu.Unlock()
	return i.createSessionLocked(id, auth, timestamp)""", """	i.sessionsMu.Lock()
	defer i.sessionsMu.Unlock()
	go func() {
		log.Printf("now %d sessions", len(i.sessions))
	}()
	return i.createSessionLocked(id, auth, timestamp)""")],
    [(IRC + ":IRCServer.CreateSession$1", "IRCServer.sessions", "R")])

M["m17-getnext-early-unlock"] = ("GetNext's wait loop drops messagesMu and reads lastseen before re-locking", [
    (OS_, """		select {
		case <-ctx.Done():
			os.messagesMu.Unlock()
			return []Message{}
		default:
		}
		os.newMessage.Wait()""", """		select {
		case <-ctx.Done():
			os.messagesMu.Unlock()
			return []Message{}
		default:
		}
		os.messagesMu.Unlock()
		_ = os.lastseen.NextID
		os.messagesMu.Lock()
		os.newMessage.Wait()""")],
    [(OS_ + ":OutputStream.GetNext", "OutputStream.lastseen", "R")])

M["m18-new-field-unclassified"] = ("a new field is added to IRCServer (guard map does not know it)", [
    (IRC, """	svsholds map[lcNick]svshold
""", """	svsholds map[lcNick]svshold

	motdCache string
""")],
    [("<declared>", "IRCServer.motdCache", "unclassified")])

M["a01-helper-returns-shallow-config-copy"] = ("handleGetConfig encodes a copy of Config returned by a helper that copied it under ConfigMu.RLock", [
    ("internal/api/getconfig.go", """func (api *HTTP) handleGetConfig(w http.ResponseWriter, r *http.Request) {
	w.Header().Set("Content-Type", "text/plain")

	i := api.ircServer()
	i.ConfigMu.RLock()
	defer i.ConfigMu.RUnlock()
	w.Header().Set("X-RobustIRC-Config-Revision", strconv.FormatUint(i.Config.Revision, 10))
	if err := toml.NewEncoder(w).Encode(&i.Config); err != nil {""", """func (api *HTTP) currentNetworkConfig() config.Network {
	i := api.ircServer()
	i.ConfigMu.RLock()
	defer i.ConfigMu.RUnlock()
	return i.Config
}

func (api *HTTP) handleGetConfig(w http.ResponseWriter, r *http.Request) {
	w.Header().Set("Content-Type", "text/plain")

	cfg := api.currentNetworkConfig()
	w.Header().Set("X-RobustIRC-Config-Revision", strconv.FormatUint(cfg.Revision, 10))
	if err := toml.NewEncoder(w).Encode(&cfg); err != nil {"""),
    ("internal/api/getconfig.go", """	"github.com/BurntSushi/toml"
""", """	"github.com/BurntSushi/toml"
	"github.com/robustirc/robustirc/internal/config"
""")],
    [("internal/api/getconfig.go:HTTP.currentNetworkConfig", "IRCServer.Config", "R")])

M["a02-copy-used-after-explicit-unlock"] = ("handleGetConfig copies Config under RLock, unlocks explicitly, then encodes the copy", [
    ("internal/api/getconfig.go", """	i.ConfigMu.RLock()
	defer i.ConfigMu.RUnlock()
	w.Header().Set("X-RobustIRC-Config-Revision", strconv.FormatUint(i.Config.Revision, 10))
	if err := toml.NewEncoder(w).Encode(&i.Config); err != nil {""", """	i.ConfigMu.RLock()
	cfg := i.Config
	i.ConfigMu.RUnlock()
	w.Header().Set("X-RobustIRC-Config-Revision", strconv.FormatUint(cfg.Revision, 10))
	if err := toml.NewEncoder(w).Encode(&cfg); err != nil {""")],
    [("internal/api/getconfig.go:HTTP.handleGetConfig", "IRCServer.Config", "R")])

M["a03-getsessions-shallow-again"] = ("GetSessions returns shallow copies of the sessions (maps shared) again", [
    (IRC, """		s := *session
		s.Channels = make(map[lcChan]bool, len(session.Channels))
		for channel, joined := range session.Channels {
			s.Channels[channel] = joined
		}
		s.invitedTo = make(map[lcChan]bool, len(session.invitedTo))
		for channel, invited := range session.invitedTo {
			s.invitedTo[channel] = invited
		}
		result[id] = s""", """		result[id] = *session""")],
    [(IRC + ":IRCServer.GetSessions", "Session.Channels", "R"), (IRC + ":IRCServer.GetSessions", "Session.invitedTo", "R")])

M["a05-getsessions-copies-only-one-map-on-a-branch"] = ("GetSessions deep-copies invitedTo only when the session is logged in", [
    (IRC, """		s.invitedTo = make(map[lcChan]bool, len(session.invitedTo))
		for channel, invited := range session.invitedTo {
			s.invitedTo[channel] = invited
		}
		result[id] = s""", """		if session.loggedIn {
			s.invitedTo = make(map[lcChan]bool, len(session.invitedTo))
			for channel, invited := range session.invitedTo {
				s.invitedTo[channel] = invited
			}
		}
		result[id] = s""")],
    [(IRC + ":IRCServer.GetSessions", "Session.invitedTo", "R")])

M["a04-banned-map-handed-out"] = ("a new exported getter returns the live Banned map read under ConfigMu.RLock", [
    (IRC, """func (i *IRCServer) Banned(remoteAddr string) string {""", """// BannedAddresses returns the GLINEd addresses.
func (i *IRCServer) BannedAddresses() map[string]string {
	i.ConfigMu.RLock()
	defer i.ConfigMu.RUnlock()
	return i.Config.Banned
}

func (i *IRCServer) Banned(remoteAddr string) string {""")],
    [(IRC + ":IRCServer.BannedAddresses", "IRCServer.Config", "R")])

M["g01-fromstring-starts-from-defaults"] = ("config.FromString starts from a by-value copy of DefaultConfig (every configured instance then shares DefaultConfig.Banned)", [
    ("internal/config/config.go", """	var cfg Network
	_, err := toml.Decode(input, &cfg)""", """	cfg := DefaultConfig
	_, err := toml.Decode(input, &cfg)""")],
    [("internal/config/config.go:FromString", "config.DefaultConfig", "global-alias")])

M["g02-new-package-level-template-struct"] = ("a new package-level template Session (with maps) is copied into every new session", [
    (IRC, """func (i *IRCServer) createSessionLocked(id robust.Id, auth string, timestamp time.Time) error {""", """var sessionTemplate = Session{Channels: make(map[lcChan]bool), invitedTo: make(map[lcChan]bool), svid: "0"}

func newSessionFromTemplate() *Session {
	s := sessionTemplate
	return &s
}

func (i *IRCServer) createSessionLocked(id robust.Id, auth string, timestamp time.Time) error {""")],
    [(IRC + ":newSessionFromTemplate", "ircserver.sessionTemplate", "global-alias")])

M["i01-status-page-reevaluates-the-instance"] = ("handleStatus calls api.ircServer() again for the lock, the unlock and the Config it reads (D24)", [
    ("internal/api/status.go", """	i := api.ircServer()
	sessions := i.GetSessions()
	i.ConfigMu.RLock()
	defer i.ConfigMu.RUnlock()""", """	sessions := api.ircServer().GetSessions()
	api.ircServer().ConfigMu.RLock()
	defer api.ircServer().ConfigMu.RUnlock()"""),
    ("internal/api/status.go", """		NetConfig:          i.Config,""", """		NetConfig:          api.ircServer().Config,""")],
    [("internal/api/status.go:HTTP.handleStatus", "RLock of IRCServer.ConfigMu on the result of a call to api.ircServer()", "instance-mismatch"),
     ("internal/api/status.go:HTTP.handleStatus", "RUnlock of IRCServer.ConfigMu on the result of a call to api.ircServer()", "instance-mismatch"),
     ("internal/api/status.go:HTTP.handleStatus", "access to IRCServer.ConfigMu under a locally held lock through the result of a call to api.ircServer()", "instance-mismatch"),
     ("internal/api/status.go:HTTP.handleStatus", "access to IRCServer.Config under a locally held lock through the result of a call to api.ircServer()", "instance-mismatch")])

M["i02-locked-instance-but-access-through-accessor"] = ("configRevision locks the instance it fetched but reads the revision through a second api.ircServer()", [
    ("internal/api/postconfig.go", """	defer i.ConfigMu.RUnlock()
	return i.Config.Revision""", """	defer i.ConfigMu.RUnlock()
	return api.ircServer().Config.Revision""")],
    [("internal/api/postconfig.go:HTTP.configRevision", "access to IRCServer.Config under a locally held lock through the result of a call to api.ircServer()", "instance-mismatch")])

M["i03-metrics-closure-locks-the-global"] = ("the expiry loop of main() locks ConfigMu of the package-level ircServer directly", [
    ("robustirc.go", """			for _, msg := range currentIRCServer().ExpireSessions() {""", """			ircServer.ConfigMu.RLock()
			ircServer.ConfigMu.RUnlock()
			for _, msg := range currentIRCServer().ExpireSessions() {""")],
    [("robustirc.go:main", "RLock of IRCServer.ConfigMu on the package-level variable main.ircServer", "instance-mismatch"),
     ("robustirc.go:main", "RUnlock of IRCServer.ConfigMu on the package-level variable main.ircServer", "instance-mismatch"),
     ("robustirc.go:main", "access to IRCServer.ConfigMu under a locally held lock through the package-level variable main.ircServer", "instance-mismatch"),
     ("robustirc.go:main", "main.ircServer", "R")])

# ---- negative controls: behaviour-preserving refactorings must not be flagged
M["n01-explicit-unlock"] = ("NumSessions with explicit RUnlock instead of defer", [
    (IRC, """	i.sessionsMu.RLock()
	defer i.sessionsMu.RUnlock()
	return len(i.sessions)""", """	i.sessionsMu.RLock()
	n := len(i.sessions)
	i.sessionsMu.RUnlock()
	return n""")], [])

M["n02-extract-locked-helper"] = ("LastPostMessage split into a locked wrapper and an unexported helper", [
    (IRC, """	i.sessionsMu.RLock()
	defer i.sessionsMu.RUnlock()

	if s, ok := i.sessions[sessionid]; ok {
		return s.lastClientMessageId
	}
	return 0
}""", """	i.sessionsMu.RLock()
	defer i.sessionsMu.RUnlock()
	return i.lastPostMessageLocked(sessionid)
}

func (i *IRCServer) lastPostMessageLocked(sessionid robust.Id) uint64 {
	if s, ok := i.sessions[sessionid]; ok {
		return s.lastClientMessageId
	}
	return 0
}""")], [])

M["n03-reader-takes-write-lock"] = ("GetNick takes the write lock (stronger than needed)", [
    (IRC, """func (i *IRCServer) GetNick(sessionid robust.Id) string {
	i.sessionsMu.RLock()
	defer i.sessionsMu.RUnlock()""", """func (i *IRCServer) GetNick(sessionid robust.Id) string {
	i.sessionsMu.Lock()
	defer i.sessionsMu.Unlock()""")], [])

M["n04-unlocked-read-of-immutable-after-init"] = ("a handler reads the immutable session secret after GetSession (like GetAuth does)", [
    ("internal/api/postmessage.go", """	remoteAddr := r.RemoteAddr
""", """	remoteAddr := r.RemoteAddr
	if s, err := api.ircServer().GetSession(session); err == nil && s.Id.Id == 0 {
		return
	}
""")], [])


M["n05-copy-stays-inside-critical-section"] = ("configRevision copies Config under the (deferred) read lock and returns only the revision", [
    ("internal/api/postconfig.go", """	defer i.ConfigMu.RUnlock()
	return i.Config.Revision""", """	defer i.ConfigMu.RUnlock()
	cfg := i.Config
	_ = len(cfg.Banned)
	return cfg.Revision""")], [])


def sh(*a, **k):
    return subprocess.run(a, check=True, capture_output=True, text=True, **k).stdout


def main():
    os.makedirs(OUT, exist_ok=True)
    subprocess.run(["git", "-C", "/repo", "worktree", "remove", "--force", WT], capture_output=True)
    sh("git", "-C", "/repo", "worktree", "add", "--detach", WT, "HEAD")
    expected = {}
    try:
        for name, (desc, edits, exp) in M.items():
            for f, old, new in edits:
                p = os.path.join(WT, f)
                s = open(p).read()
                if s.count(old) != 1:
                    sys.exit("%s: pattern occurs %d times in %s" % (name, s.count(old), f))
                open(p, "w").write(s.replace(old, new))
            diff = sh("git", "-C", WT, "diff")
            open(os.path.join(OUT, name + ".diff"), "w").write(diff)
            env = dict(os.environ, GOFLAGS="-mod=mod", GOPROXY="off", GOSUMDB="off", GOTOOLCHAIN="local")
            b = subprocess.run(["go", "build", "./..."], cwd=WT, env=env, capture_output=True, text=True)
            if b.returncode != 0:
                sys.exit("%s does not build:\n%s" % (name, b.stderr))
            sh("git", "-C", WT, "checkout", "--", ".")
            expected[name] = {"description": desc, "new_breaches": [list(x) for x in exp]}
    finally:
        subprocess.run(["git", "-C", "/repo", "worktree", "remove", "--force", WT], capture_output=True)
    json.dump(expected, open(os.path.join(OUT, "expected.json"), "w"), indent=1, sort_keys=True)
    print("wrote %d mutations to %s" % (len(expected), OUT))


if __name__ == "__main__":
    main()
