# C17 — see DESIGN.md §4; shared IRC check logic in irc_common.py
#   + the lookup-during-restore driver: in the model `reload` (Marshal/Unmarshal) is one atomic step; FSM.Restore hands
#     the fresh IRCServer to the HTTP handlers before Unmarshal runs, so lookups race with the load.  A session that is in
#     the snapshot must be answered "not yet seen" or found, never "no such session" (C17: "a lagging follower never tells
#     a client its live session is gone").
import os
import vlib
from props import irc_common


def restore_lookup(ck):
    wd = vlib.workdir()
    outp = os.path.join(wd, "lookup.out")
    if os.path.exists(outp):
        os.remove(outp)
    rounds = 20 if ck.tier == "quick" else 300
    ov = {os.path.join(vlib.REPO, "internal/ircserver/zz_verif_lookup_test.go"): os.path.join(vlib.HGO, "ircserver/zz_verif_lookup_test.go")}
    rc, out = vlib.go_test("./internal/ircserver/", ov, "^TestVerifRestoreLookup$",
                           {"VERIF_OUT": outp, "VERIF_ROUNDS": str(rounds), "VERIF_SESSIONS": "3000"}, timeout=900)
    if rc != 0 or not os.path.exists(outp):
        ck.add_obligation(False, "lookup-during-restore driver ran")
        ck.violation("tie-broken:go-driver-lookup", {"what": "the lookup-during-restore driver did not build/run against the current tree",
                                                     "output": out[-3000:], "obligation": "correspondence (atomicity of reload)"}, concrete=False)
        return
    f = dict(x.split("=", 1) for x in open(outp).read().split()[1:])
    ck.add_obligation(True, "lookup-during-restore driver ran")
    ck.cov["restore_lookup"] = {k: f[k] for k in ("rounds", "sessions", "ok", "notyet", "nosuch")}
    ck.cov["evaluations"] = ck.cov.get("evaluations", 0) + int(f["rounds"])
    if int(f["nosuch"]) > 0:
        ck.violation("c17:nosuch-during-restore", {
            "what": "while a snapshot with %s sessions was being loaded, %s lookups of sessions contained in it answered 'No such session' (first: round:id %s); "
                    "a client told so gives its session up" % (f["sessions"], f["nosuch"], f["first"]),
            "how_to_replay": "bin/check C17 (the driver harness/go/ircserver/zz_verif_lookup_test.go is a schedule search: %s rounds of Unmarshal against 3 polling goroutines)" % f["rounds"],
            "expected": "only 'Session not yet seen' before and found after"}, concrete=True)


def run(ck, replay):
    irc_common.run_irc_check(ck, "C17", "c17", replay)
    if not replay:
        restore_lookup(ck)
