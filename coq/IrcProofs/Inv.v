(* IrcProofs/Inv.v — the consistency invariant of the IRC state (C14) and its preservation by
   the structural primitives the handlers are built from. *)
From stdpp Require Import gmap.
From Coq Require Import Strings.String Strings.Ascii ZArith NArith.
From RV Require Import Base.Text Irc.Str Irc.Parse Irc.State Irc.Monad Irc.Cmds.
From RV Require Import IrcProofs.WP.
Local Open Scope string_scope.

Global Arguments nick_to_lower : simpl never.
Global Arguments chan_to_lower : simpl never.
Global Arguments valid_nick : simpl never.
Global Arguments valid_chan : simpl never.

(* The invariant that holds between any two primitive steps of a handler ("mid" invariant):
   sessions marked deleted are still in the table but own nothing. *)
Record InvM (sv : server) : Prop := {
  i_key : forall k s, sv_sessions sv !! k = Some s -> s_key s = k;
  i_idx_sound : forall n k, sv_nicks sv !! n = Some k ->
      n <> "" /\ exists s, sv_sessions sv !! k = Some s /\ s_deleted s = false /\ nick_to_lower (s_nick s) = n;
  i_idx_complete : forall k s, sv_sessions sv !! k = Some s -> s_deleted s = false -> s_nick s <> "" ->
      sv_nicks sv !! nick_to_lower (s_nick s) = Some k;
  i_memb_c : forall lc c n p, sv_channels sv !! lc = Some c -> c_nicks c !! n = Some p ->
      exists k s, sv_nicks sv !! n = Some k /\ sv_sessions sv !! k = Some s /\ lc ∈ s_channels s;
  i_memb_s : forall k s lc, sv_sessions sv !! k = Some s -> s_deleted s = false -> lc ∈ s_channels s ->
      exists c, sv_channels sv !! lc = Some c /\ is_Some (c_nicks c !! nick_to_lower (s_nick s));
  i_chan : forall lc c, sv_channels sv !! lc = Some c -> c_nicks c <> ∅ /\ chan_to_lower (c_name c) = lc;
}.

(* between two log entries no deleted session remains *)
Definition Inv (sv : server) : Prop :=
  InvM sv /\ forall k s, sv_sessions sv !! k = Some s -> s_deleted s = false.

Definition live (sv : server) (k : skey) : Prop :=
  exists s, sv_sessions sv !! k = Some s /\ s_deleted s = false.
Definition present (sv : server) (k : skey) : Prop := is_Some (sv_sessions sv !! k).

Lemma live_present sv k : live sv k -> present sv k.
Proof. intros [s [H _]]. now exists s. Qed.

Lemma InvM_init net : InvM (init_server net).
Proof.
  split; cbn; intros *; try (rewrite lookup_empty; discriminate).
  all: intros H; rewrite lookup_empty in H; discriminate.
Qed.

Lemma Inv_init net : Inv (init_server net).
Proof. split; [apply InvM_init|]. cbn. intros k s H. rewrite lookup_empty in H. discriminate. Qed.

(* ---- consequences used to discharge the Panic branches ------------------------------------ *)
Lemma inv_member_indexed sv lc c n p :
  InvM sv -> sv_channels sv !! lc = Some c -> c_nicks c !! n = Some p -> is_Some (sv_nicks sv !! n).
Proof. intros I Hc Hn. destruct (i_memb_c sv I _ _ _ _ Hc Hn) as (k & s & Hk & _). now exists k. Qed.

Lemma inv_index_session sv n k :
  InvM sv -> sv_nicks sv !! n = Some k -> exists s, sv_sessions sv !! k = Some s.
Proof. intros I Hk. destruct (i_idx_sound sv I _ _ Hk) as (_ & s & Hs & _). now exists s. Qed.

Lemma ids_of_members_ok sv l :
  (forall n, In n l -> is_Some (sv_nicks sv !! n)) -> exists ids, ids_of_members sv l = Ok ids.
Proof.
  induction l as [|n l IH]; intros H; cbn [ids_of_members].
  - now eexists.
  - destruct (H n (or_introl eq_refl)) as [k Hk]. rewrite Hk.
    destruct IH as [ids ->]; [intros m Hm; apply H; now right|]. now eexists.
Qed.

Lemma members_spec (c : chan) n : In n (members c) <-> is_Some (c_nicks c !! n).
Proof.
  unfold members. rewrite <- elem_of_list_In. rewrite elem_of_list_fmap. split.
  - intros [[n' p] [-> Hin]]. apply elem_of_map_to_list in Hin. now exists p.
  - intros [p Hp]. exists (n, p). split; [reflexivity|]. now apply elem_of_map_to_list.
Qed.

Lemma rc_channel_ok sv lc c :
  InvM sv -> sv_channels sv !! lc = Some c -> exists ids, rc_channel sv c = Ok ids.
Proof.
  intros I Hc. apply ids_of_members_ok. intros n Hn. apply members_spec in Hn. destruct Hn as [p Hp].
  eapply inv_member_indexed; eauto.
Qed.

Lemma ids_of_members_but_ok sv but l :
  (forall n, In n l -> is_Some (sv_nicks sv !! n)) -> exists ids, ids_of_members_but sv but l = Ok ids.
Proof.
  induction l as [|n l IH]; intros H; cbn [ids_of_members_but].
  - now eexists.
  - destruct (H n (or_introl eq_refl)) as [k Hk]. rewrite Hk.
    destruct IH as [ids ->]; [intros m Hm; apply H; now right|]. now eexists.
Qed.

Lemma rc_channel_but_ok sv lc c but :
  InvM sv -> sv_channels sv !! lc = Some c -> exists ids, rc_channel_but sv c but = Ok ids.
Proof.
  intros I Hc. unfold rc_channel_but.
  assert (Hall : forall n, In n (members c) -> is_Some (sv_nicks sv !! n)).
  { intros n Hn. apply members_spec in Hn. destruct Hn as [p Hp]. eapply inv_member_indexed; eauto. }
  destruct (ids_of_members_ok sv _ Hall) as [ids ->]. now apply ids_of_members_but_ok.
Qed.

Lemma rc_common_aux_ok sv chs :
  InvM sv -> exists ids, rc_common_aux sv chs = Ok ids.
Proof.
  intros I. induction chs as [|ch chs [ids IH]]; cbn [rc_common_aux].
  - now eexists.
  - destruct (sv_channels sv !! ch) as [c|] eqn:Hc.
    + destruct (rc_channel_ok sv ch c I Hc) as [a ->]. rewrite IH. now eexists.
    + rewrite IH. now eexists.
Qed.

Lemma rc_common_ok sv s : InvM sv -> exists ids, rc_common sv s = Ok ids.
Proof. intros I. apply rc_common_aux_ok, I. Qed.

(* ---- updates the invariant does not look at -------------------------------------------------- *)
Definition sess_same (f : session -> session) : Prop :=
  forall s, s_key (f s) = s_key s /\ s_nick (f s) = s_nick s /\ s_channels (f s) = s_channels s /\
            s_deleted (f s) = s_deleted s.

Lemma lookup_upd_sess (m : gmap (N * N) session) k f k' :
  (match m !! k with Some s => <[k := f s]> m | None => m end) !! k' =
  if bool_decide (k = k') then f <$> (m !! k') else m !! k'.
Proof.
  destruct (m !! k) as [s|] eqn:Hk; case_bool_decide as Heq; subst.
  - now rewrite lookup_insert, Hk.
  - now rewrite lookup_insert_ne.
  - now rewrite Hk.
  - reflexivity.
Qed.

Lemma InvM_updSess_same sv k f :
  sess_same f -> InvM sv ->
  InvM (set_sessions (fun m => match m !! k with Some s => <[k := f s]> m | None => m end) sv).
Proof.
  intros Hf I. split; cbn [sv_sessions sv_nicks sv_channels set_sessions].
  - intros k' s'. rewrite lookup_upd_sess. case_bool_decide; subst.
    + destruct (sv_sessions sv !! k') as [s|] eqn:Hs; [|discriminate]. cbn. intros [= <-].
      destruct (Hf s) as (-> & _). eapply i_key; eauto.
    + apply (i_key sv I).
  - intros n k' Hn. destruct (i_idx_sound sv I _ _ Hn) as (Hne & s & Hs & Hd & Hl). split; [exact Hne|].
    rewrite lookup_upd_sess. case_bool_decide; subst.
    + exists (f s). rewrite Hs. cbn. destruct (Hf s) as (_ & -> & _ & ->). auto.
    + exists s. auto.
  - intros k' s'. rewrite lookup_upd_sess. case_bool_decide; subst.
    + destruct (sv_sessions sv !! k') as [s|] eqn:Hs; [|discriminate]. cbn. intros [= <-].
      destruct (Hf s) as (_ & -> & _ & ->). eapply i_idx_complete; eauto.
    + apply (i_idx_complete sv I).
  - intros lc c n p Hc Hn. destruct (i_memb_c sv I _ _ _ _ Hc Hn) as (k' & s & Hk' & Hs & Hin).
    exists k'. rewrite lookup_upd_sess. case_bool_decide; subst.
    + exists (f s). rewrite Hs. cbn. destruct (Hf s) as (_ & _ & -> & _). auto.
    + exists s. auto.
  - intros k' s' lc. rewrite lookup_upd_sess. case_bool_decide; subst.
    + destruct (sv_sessions sv !! k') as [s|] eqn:Hs; [|discriminate]. cbn. intros [= <-].
      destruct (Hf s) as (_ & -> & -> & ->). eapply i_memb_s; eauto.
    + apply (i_memb_s sv I).
  - apply (i_chan sv I).
Qed.

Lemma live_updSess_same sv k f k' :
  sess_same f -> live sv k' ->
  live (set_sessions (fun m => match m !! k with Some s => <[k := f s]> m | None => m end) sv) k'.
Proof.
  intros Hf (s & Hs & Hd). unfold live. cbn [sv_sessions set_sessions]. rewrite lookup_upd_sess.
  case_bool_decide; subst.
  - exists (f s). rewrite Hs. cbn. destruct (Hf s) as (_ & _ & _ & ->). auto.
  - exists s. auto.
Qed.

Definition chan_same (f : chan -> chan) : Prop :=
  forall c, c_name (f c) = c_name c /\ dom (c_nicks (f c)) = dom (c_nicks c).

Lemma lookup_upd_chan (m : gmap string chan) lc f lc' :
  (match m !! lc with Some c => <[lc := f c]> m | None => m end) !! lc' =
  if bool_decide (lc = lc') then f <$> (m !! lc') else m !! lc'.
Proof.
  destruct (m !! lc) as [c|] eqn:Hk; case_bool_decide as Heq; subst.
  - now rewrite lookup_insert, Hk.
  - now rewrite lookup_insert_ne.
  - now rewrite Hk.
  - reflexivity.
Qed.

Lemma dom_eq_lookup {A} (m1 m2 : gmap string A) n :
  dom m1 = dom m2 -> is_Some (m1 !! n) <-> is_Some (m2 !! n).
Proof. intros H. rewrite <- !elem_of_dom, H. reflexivity. Qed.

Lemma dom_eq_empty {A} (m1 m2 : gmap string A) : dom m1 = dom m2 -> m1 = ∅ <-> m2 = ∅.
Proof. intros H. rewrite <- !dom_empty_iff_L, H. reflexivity. Qed.

Lemma InvM_updChan_at sv lc f :
  (forall c, sv_channels sv !! lc = Some c -> c_name (f c) = c_name c /\ dom (c_nicks (f c)) = dom (c_nicks c)) ->
  InvM sv ->
  InvM (set_channels (fun m => match m !! lc with Some c => <[lc := f c]> m | None => m end) sv).
Proof.
  intros Hf I. split; cbn [sv_sessions sv_nicks sv_channels set_channels].
  - apply (i_key sv I).
  - apply (i_idx_sound sv I).
  - apply (i_idx_complete sv I).
  - intros lc' c' n p. rewrite lookup_upd_chan. case_bool_decide as Heq; [destruct Heq|].
    + destruct (sv_channels sv !! lc) as [c|] eqn:Hc; [|discriminate]. cbn. intros [= <-] Hn.
      destruct (Hf c eq_refl) as (_ & Hd).
      destruct (proj1 (dom_eq_lookup _ _ n Hd) (ex_intro _ p Hn)) as [p' Hp'].
      eapply i_memb_c; eauto.
    + apply (i_memb_c sv I).
  - intros k s lc' Hs Hd Hin. destruct (i_memb_s sv I _ _ _ Hs Hd Hin) as (c & Hc & Hm).
    rewrite lookup_upd_chan. case_bool_decide as Heq; [destruct Heq|].
    + exists (f c). rewrite Hc. split; [reflexivity|]. destruct (Hf c Hc) as (_ & Hdm).
      apply (proj2 (dom_eq_lookup _ _ _ Hdm)). exact Hm.
    + exists c. auto.
  - intros lc' c'. rewrite lookup_upd_chan. case_bool_decide as Heq; [destruct Heq|].
    + destruct (sv_channels sv !! lc) as [c|] eqn:Hc; [|discriminate]. cbn. intros [= <-].
      destruct (Hf c eq_refl) as (-> & Hdm). destruct (i_chan sv I _ _ Hc) as (Hne & Hlc). split; [|exact Hlc].
      intros He. apply Hne. apply (proj1 (dom_eq_empty _ _ Hdm)). exact He.
    + apply (i_chan sv I).
Qed.

Lemma InvM_updChan_same sv lc f :
  chan_same f -> InvM sv ->
  InvM (set_channels (fun m => match m !! lc with Some c => <[lc := f c]> m | None => m end) sv).
Proof. intros Hf. apply InvM_updChan_at. intros c _. apply Hf. Qed.

(* the remaining fields of the server *)
Lemma InvM_other sv sv' :
  sv_sessions sv' = sv_sessions sv -> sv_nicks sv' = sv_nicks sv -> sv_channels sv' = sv_channels sv ->
  InvM sv -> InvM sv'.
Proof.
  intros Hs Hn Hc I. split; rewrite ?Hs, ?Hn, ?Hc; apply I.
Qed.
