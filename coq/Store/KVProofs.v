(* Store/KVProofs.v — lemmas about the ordered key/value list of Store/KV.v: lookups after
   put / filter / batches, the two key classes, sortedness, FirstIndex/LastIndex, DeleteRange. *)
From Coq Require Import List NArith ZArith Bool Lia ZifyN ZifyNat ZifyBool Sorting.Sorted.
From Coq Require Import Strings.String Strings.Ascii.
From RV Require Import Store.Wire Store.WireProofs Store.Proto Store.ProtoProofs Store.KV.
Import ListNotations.
Local Open Scope string_scope.
Local Open Scope N_scope.

Ltac Zify.zify_post_hook ::= Z.div_mod_to_equations.

(* ---- lookups --------------------------------------------------------------------------------- *)
Lemma eqb_false_of_compare a b : String.compare a b <> Eq -> String.eqb a b = false.
Proof. intros H. rewrite eqb_compare. destruct (String.compare a b); congruence. Qed.

Lemma kv_get_put_same k v l : kv_get k (kv_put k v l) = Some v.
Proof.
  induction l as [|[k' v'] l IH]; simpl.
  - now rewrite String.eqb_refl.
  - destruct (String.compare k k') eqn:E; simpl.
    + now rewrite String.eqb_refl.
    + now rewrite String.eqb_refl.
    + rewrite eqb_false_of_compare by congruence. exact IH.
Qed.

Lemma kv_get_put_other k k2 v l : k2 <> k -> kv_get k2 (kv_put k v l) = kv_get k2 l.
Proof.
  intros N. assert (F : String.eqb k2 k = false) by (now apply String.eqb_neq).
  induction l as [|[k' v'] l IH]; simpl.
  - now rewrite F.
  - destruct (String.compare k k') eqn:E; simpl.
    + apply compare_eq_s in E. subst k'. now rewrite F.
    + now rewrite F.
    + destruct (String.eqb k2 k'); [reflexivity|exact IH].
Qed.

Lemma kv_get_put k k2 v l : kv_get k2 (kv_put k v l) = if String.eqb k2 k then Some v else kv_get k2 l.
Proof.
  destruct (String.eqb_spec k2 k) as [->|N]; [apply kv_get_put_same|now apply kv_get_put_other].
Qed.

Lemma kv_get_filter (P : string -> bool) k l :
  kv_get k (filter (fun kv => P (fst kv)) l) = if P k then kv_get k l else None.
Proof.
  induction l as [|[k' v'] l IH]; simpl; [now destruct (P k)|].
  destruct (P k') eqn:Pk'; simpl.
  - destruct (String.eqb_spec k k') as [->|N]; [now rewrite Pk'|exact IH].
  - destruct (String.eqb_spec k k') as [->|N]; [now rewrite Pk' in *|exact IH].
Qed.

Lemma kv_get_in k l : kv_get k l <> None <-> In k (map fst l).
Proof.
  induction l as [|[k' v'] l IH]; simpl; [tauto|].
  destruct (String.eqb_spec k k') as [->|N]; [intuition congruence|].
  rewrite IH. intuition congruence.
Qed.

Lemma kv_get_in_pair k v l : kv_get k l = Some v -> In (k, v) l.
Proof.
  induction l as [|[k' v'] l IH]; simpl; [discriminate|].
  destruct (String.eqb_spec k k') as [->|N]; [intros H; inversion H; now left|intros H; right; auto].
Qed.

Fixpoint last_put (k : string) (puts : list (string * string)) : option string :=
  match puts with
  | [] => None
  | (k', v) :: r => match last_put k r with
                    | Some v' => Some v'
                    | None => if String.eqb k k' then Some v else None
                    end
  end.

Lemma kv_get_apply_puts k puts : forall db,
  kv_get k (apply_puts puts db) = match last_put k puts with Some v => Some v | None => kv_get k db end.
Proof.
  induction puts as [|[k' v] r IH]; intros db; simpl; [reflexivity|].
  rewrite IH. destruct (last_put k r); [reflexivity|]. rewrite kv_get_put. now destruct (String.eqb k k').
Qed.

Lemma keys_put k v l x : In x (map fst (kv_put k v l)) <-> x = k \/ In x (map fst l).
Proof.
  rewrite <- !kv_get_in, kv_get_put. destruct (String.eqb_spec x k); intuition congruence.
Qed.

Lemma keys_apply_puts puts : forall db x,
  In x (map fst (apply_puts puts db)) <-> In x (map fst puts) \/ In x (map fst db).
Proof.
  induction puts as [|[k v] r IH]; intros db x; simpl; [tauto|].
  rewrite IH, keys_put. intuition congruence.
Qed.

(* ---- the two key classes ---------------------------------------------------------------------- *)
Lemma be8_length i : String.length (be8 i) = 8%nat.
Proof. apply enc_be_length. Qed.

Lemma log_key_not_stable i : is_stable (log_key i) = false.
Proof.
  destruct (is_stable (log_key i)) eqn:E; [|reflexivity].
  apply has_prefix_length in E. unfold log_key in E. rewrite be8_length in E. simpl in E. lia.
Qed.

Lemma stable_key_stable k : is_stable (stable_key k) = true.
Proof. apply has_prefix_app. Qed.

(* disjointness of the two classes *)
Lemma stable_key_not_log_key k i : stable_key k <> log_key i.
Proof.
  intros E. pose proof (stable_key_stable k) as H. rewrite E, log_key_not_stable in H. discriminate.
Qed.

Lemma app_inv_head_s p a b : (p ++ a = p ++ b)%string -> a = b.
Proof. induction p as [|c p IH]; simpl; [auto|]. intros H. inversion H. auto. Qed.

Lemma stable_key_inj a b : stable_key a = stable_key b -> a = b.
Proof. apply app_inv_head_s. Qed.

Lemma log_key_inj a b : a < U64 -> b < U64 -> log_key a = log_key b -> a = b.
Proof. apply be8_inj. Qed.

Lemma log_key_eqb a b : a < U64 -> b < U64 -> String.eqb (log_key a) (log_key b) = (a =? b).
Proof.
  intros Ha Hb. destruct (N.eqb_spec a b) as [->|N]; [apply String.eqb_refl|].
  apply String.eqb_neq. intros E. apply N. now apply log_key_inj.
Qed.

(* the stable keys sit between the index keys "stablest" and "stablesu" *)
Lemma stable_key_split k : stable_key k = (be8 S_index ++ ("ore-" ++ k))%string.
Proof. reflexivity. Qed.

Lemma compare_log_stable a k :
  a < U64 ->
  String.compare (log_key a) (stable_key k) = match N.compare a S_index with Eq => Lt | c => c end.
Proof.
  intros Ha. rewrite stable_key_split. unfold log_key.
  rewrite compare_app_r by (now rewrite !be8_length).
  rewrite compare_be8 by (assumption || (unfold U64, S_index; lia)).
  destruct (a ?= S_index); reflexivity.
Qed.

Lemma leb_log_stable a k : a < U64 -> String.leb (log_key a) (stable_key k) = (a <=? S_index).
Proof.
  intros Ha. unfold String.leb. rewrite compare_log_stable by assumption.
  destruct (N.compare_spec a S_index); destruct (N.leb_spec a S_index); try reflexivity; lia.
Qed.

Lemma ltb_stable_log a k : a < U64 -> String.ltb (stable_key k) (log_key a) = (S_index <? a).
Proof.
  intros Ha. unfold String.ltb. rewrite String.compare_antisym, compare_log_stable by assumption.
  destruct (N.compare_spec a S_index); destruct (N.ltb_spec S_index a); try reflexivity; lia.
Qed.

(* ---- well-formed key sets and sortedness -------------------------------------------------------- *)
Definition key_ok (k : string) : Prop :=
  (exists u, k = stable_key u) \/ (exists i, i < U64 /\ k = log_key i).
Definition keys_ok (l : kvs) : Prop := Forall (fun kv => key_ok (fst kv)) l.

Definition lt_key (a b : string * string) : Prop := String.compare (fst a) (fst b) = Lt.
Definition sorted (l : kvs) : Prop := StronglySorted lt_key l.

Lemma Forall_put (P : string * string -> Prop) k v l : P (k, v) -> Forall P l -> Forall P (kv_put k v l).
Proof.
  intros Hk H. induction H as [|[k' v'] l Hx Hl IH]; simpl; [now constructor|].
  destruct (String.compare k k'); repeat constructor; assumption.
Qed.

Lemma sorted_put k v l : sorted l -> sorted (kv_put k v l).
Proof.
  intros H. induction H as [|[k' v'] l Hs IH Hall]; simpl.
  - constructor; constructor.
  - destruct (String.compare k k') eqn:E.
    + apply compare_eq_s in E. subst k'. constructor; assumption.
    + constructor; [constructor; assumption|]. constructor; [exact E|].
      eapply Forall_impl; [|exact Hall]. intros [k2 v2] H2. unfold lt_key in *. simpl in *.
      eapply compare_lt_trans; eassumption.
    + constructor; [exact IH|]. apply Forall_put; [|exact Hall].
      unfold lt_key. simpl. now apply compare_gt_lt.
Qed.

Lemma sorted_filter (P : string * string -> bool) l : sorted l -> sorted (filter P l).
Proof.
  intros H. induction H as [|x l Hs IH Hall]; simpl; [constructor|].
  destruct (P x); [|exact IH]. constructor; [exact IH|].
  apply Forall_forall. intros y Hy. apply filter_In in Hy. destruct Hy as [Hy _].
  rewrite Forall_forall in Hall. now apply Hall.
Qed.

Lemma sorted_apply_puts puts : forall db, sorted db -> sorted (apply_puts puts db).
Proof. induction puts as [|[k v] r IH]; intros db H; simpl; [exact H|]. apply IH. now apply sorted_put. Qed.

Lemma keys_ok_put k v l : key_ok k -> keys_ok l -> keys_ok (kv_put k v l).
Proof. intros. now apply Forall_put. Qed.

Lemma keys_ok_filter (P : string * string -> bool) l : keys_ok l -> keys_ok (filter P l).
Proof.
  intros H. apply Forall_forall. intros y Hy. apply filter_In in Hy. destruct Hy as [Hy _].
  unfold keys_ok in H. rewrite Forall_forall in H. now apply H.
Qed.

Lemma key_ok_stable_or_log k : key_ok k -> is_stable k = true \/ (exists i, i < U64 /\ k = log_key i).
Proof. intros [[u ->]|H]; [left; apply stable_key_stable|now right]. Qed.

Lemma key_ok_nonstable k : key_ok k -> is_stable k = false -> exists i, i < U64 /\ k = log_key i.
Proof.
  intros [[u ->]|H] E; [|exact H]. rewrite stable_key_stable in E. discriminate.
Qed.

(* ---- the iterator walks ---------------------------------------------------------------------- *)
Section Walk.
Variable R : string -> string -> Prop.

Lemma first_nonstable_spec l :
  StronglySorted (fun a b => R (fst a) (fst b)) l ->
  match first_nonstable l with
  | None => forall k, In k (map fst l) -> is_stable k = true
  | Some k => In k (map fst l) /\ is_stable k = false /\
              forall k2, In k2 (map fst l) -> is_stable k2 = false -> k2 = k \/ R k k2
  end.
Proof.
  intros H. induction H as [|[k0 v0] l Hs IH Hall]; simpl.
  - intros k [].
  - destruct (is_stable k0) eqn:E.
    + destruct (first_nonstable l) as [k|].
      * destruct IH as (I1 & I2 & I3). repeat split; [now right|exact I2|].
        intros k2 [<-|H2] N2; [congruence|now apply I3].
      * intros k [<-|H2]; [exact E|now apply IH].
    + repeat split; [now left|exact E|]. intros k2 [<-|H2] N2; [now left|right].
      rewrite Forall_forall in Hall. apply in_map_iff in H2. destruct H2 as [[k3 v3] [<- H3]].
      now apply (Hall _ H3).
Qed.
End Walk.

Lemma sorted_snoc (R : string * string -> string * string -> Prop) l a :
  StronglySorted R l -> Forall (fun x => R x a) l -> StronglySorted R (l ++ [a]).
Proof.
  intros H. induction H as [|x l Hs IH Hall]; intros Ha; simpl.
  - constructor; constructor.
  - inversion Ha; subst. constructor; [now apply IH|].
    apply Forall_app. split; [exact Hall|]. constructor; [assumption|constructor].
Qed.

Lemma sorted_rev l : sorted l -> StronglySorted (fun a b => lt_key b a) (rev l).
Proof.
  intros H. induction H as [|x l Hs IH Hall]; simpl; [constructor|].
  apply sorted_snoc; [exact IH|]. apply Forall_forall. intros y Hy. apply in_rev in Hy.
  rewrite Forall_forall in Hall. now apply Hall.
Qed.

(* FirstIndex / LastIndex against lookups: 0 for a log without entries, otherwise the least /
   greatest index that GetLog would find *)
Theorem first_index_spec l :
  sorted l -> keys_ok l ->
  exists n, first_index l = ROk n /\
    ((n = 0 /\ forall i, i < U64 -> kv_get (log_key i) l = None) \/
     (n < U64 /\ kv_get (log_key n) l <> None /\
      forall i, i < U64 -> kv_get (log_key i) l <> None -> n <= i)).
Proof.
  intros Hs Hk. unfold first_index.
  pose proof (first_nonstable_spec (fun a b => String.compare a b = Lt) l Hs) as F.
  destruct (first_nonstable l) as [k|].
  - destruct F as (I1 & I2 & I3).
    assert (Hok : key_ok k).
    { unfold keys_ok in Hk. rewrite Forall_forall in Hk. apply in_map_iff in I1.
      destruct I1 as [[k' v'] [<- Hin]]. now apply (Hk _ Hin). }
    destruct (key_ok_nonstable _ Hok I2) as [n [Hn ->]].
    exists n. unfold index_of_key, log_key. rewrite be8_decode_be8 by exact Hn. split; [reflexivity|].
    right. repeat split; [exact Hn|now apply kv_get_in|].
    intros i Hi Hg. apply kv_get_in in Hg.
    destruct (I3 _ Hg (log_key_not_stable i)) as [E|L].
    + apply log_key_inj in E; [lia|assumption|assumption].
    + unfold log_key in L. rewrite compare_be8 in L by assumption. apply N.compare_lt_iff in L. unfold N.lt in *. fold (N.lt n i) in L || fold (N.lt i n) in L. lia.
  - exists 0. split; [reflexivity|]. left. split; [reflexivity|]. intros i Hi.
    destruct (kv_get (log_key i) l) eqn:E; [|reflexivity].
    assert (In (log_key i) (map fst l)) as Hin by (apply kv_get_in; congruence).
    apply F in Hin. rewrite log_key_not_stable in Hin. discriminate.
Qed.

Theorem last_index_spec l :
  sorted l -> keys_ok l ->
  exists n, last_index l = ROk n /\
    ((n = 0 /\ forall i, i < U64 -> kv_get (log_key i) l = None) \/
     (n < U64 /\ kv_get (log_key n) l <> None /\
      forall i, i < U64 -> kv_get (log_key i) l <> None -> i <= n)).
Proof.
  intros Hs Hk. unfold last_index.
  pose proof (first_nonstable_spec (fun a b => String.compare b a = Lt) (rev l) (sorted_rev l Hs)) as F.
  assert (Hin_rev : forall k, In k (map fst (rev l)) <-> In k (map fst l)).
  { intros k. rewrite map_rev. symmetry. apply in_rev. }
  destruct (first_nonstable (rev l)) as [k|].
  - destruct F as (I1 & I2 & I3). apply Hin_rev in I1.
    assert (Hok : key_ok k).
    { unfold keys_ok in Hk. rewrite Forall_forall in Hk. apply in_map_iff in I1.
      destruct I1 as [[k' v'] [<- Hin]]. now apply (Hk _ Hin). }
    destruct (key_ok_nonstable _ Hok I2) as [n [Hn ->]].
    exists n. unfold index_of_key, log_key. rewrite be8_decode_be8 by exact Hn. split; [reflexivity|].
    right. repeat split; [exact Hn|now apply kv_get_in|].
    intros i Hi Hg. apply kv_get_in in Hg. apply Hin_rev in Hg.
    destruct (I3 _ Hg (log_key_not_stable i)) as [E|L].
    + apply log_key_inj in E; [lia|assumption|assumption].
    + unfold log_key in L. rewrite compare_be8 in L by assumption. apply N.compare_lt_iff in L. unfold N.lt in *. fold (N.lt n i) in L || fold (N.lt i n) in L. lia.
  - exists 0. split; [reflexivity|]. left. split; [reflexivity|]. intros i Hi.
    destruct (kv_get (log_key i) l) eqn:E; [|reflexivity].
    assert (In (log_key i) (map fst l)) as Hin by (apply kv_get_in; congruence).
    apply Hin_rev in Hin. apply F in Hin. rewrite log_key_not_stable in Hin. discriminate.
Qed.

(* ---- DeleteRange ---------------------------------------------------------------------------------- *)
Lemma delete_range_filter var min max l :
  delete_range var min max l = filter (fun kv => (fun k => negb (deleted_by var min max k)) (fst kv)) l.
Proof. reflexivity. Qed.

Lemma deleted_by_log var min max i :
  i < U64 -> min < U64 -> max < U64 - 1 ->
  deleted_by var min max (log_key i) = (min <=? i) && (i <=? max).
Proof.
  intros Hi Hmin Hmax. unfold deleted_by, in_range, two64N, U64 in *.
  rewrite log_key_not_stable.
  assert ((max + 1) mod 18446744073709551616 = max + 1) as -> by lia.
  unfold log_key. rewrite leb_be8, ltb_be8 by (unfold U64; lia).
  destruct var; cbn [negb]; rewrite andb_true_r;
    destruct (N.leb_spec min i), (N.ltb_spec i (max + 1)), (N.leb_spec i max); try reflexivity; lia.
Qed.

Lemma deleted_by_stable_repaired min max k : deleted_by Repaired min max (stable_key k) = false.
Proof. unfold deleted_by. rewrite stable_key_stable. cbn [negb]. apply andb_false_r. Qed.

(* the pinned DeleteRange hits the stable keys exactly when the range contains "stablest" *)
Lemma deleted_by_stable_pinned min max k :
  min < U64 -> max < U64 - 1 ->
  deleted_by Pinned min max (stable_key k) = (min <=? S_index) && (S_index <=? max).
Proof.
  intros Hmin Hmax. unfold deleted_by, in_range, two64N, U64 in *.
  assert ((max + 1) mod 18446744073709551616 = max + 1) as -> by lia.
  rewrite leb_log_stable, ltb_stable_log by (unfold U64; lia). rewrite andb_true_r.
  destruct (N.ltb_spec S_index (max + 1)), (N.leb_spec S_index max); try reflexivity; lia.
Qed.

Theorem get_after_delete_range_log var min max i l :
  i < U64 -> min < U64 -> max < U64 - 1 ->
  kv_get (log_key i) (delete_range var min max l) =
  if (min <=? i) && (i <=? max) then None else kv_get (log_key i) l.
Proof.
  intros Hi Hmin Hmax. unfold delete_range. rewrite (kv_get_filter (fun k => negb (deleted_by var min max k))).
  rewrite deleted_by_log by assumption. now destruct ((min <=? i) && (i <=? max)).
Qed.

Theorem get_after_delete_range_stable_repaired min max k l :
  kv_get (stable_key k) (delete_range Repaired min max l) = kv_get (stable_key k) l.
Proof. unfold delete_range. rewrite (kv_get_filter (fun k => negb (deleted_by Repaired min max k))). now rewrite deleted_by_stable_repaired. Qed.

Theorem get_after_delete_range_stable_pinned min max k l :
  min < U64 -> max < U64 - 1 ->
  kv_get (stable_key k) (delete_range Pinned min max l) =
  if (min <=? S_index) && (S_index <=? max) then None else kv_get (stable_key k) l.
Proof.
  intros Hmin Hmax. unfold delete_range. rewrite (kv_get_filter (fun k => negb (deleted_by Pinned min max k))).
  rewrite deleted_by_stable_pinned by assumption. now destruct ((min <=? S_index) && (S_index <=? max)).
Qed.
