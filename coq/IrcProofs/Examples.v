(* IrcProofs/Examples.v — the hypotheses of the history theorems are satisfiable: a concrete
   history (two clients registering, joining a channel, talking, one quitting) is well-formed. *)
From stdpp Require Import gmap.
From Coq Require Import Strings.String Strings.Ascii ZArith NArith Lia.
From RV Require Import Base.Text Irc.Str Irc.Parse Irc.State Irc.Monad Irc.Cmds Irc.SCmds Irc.Apply.
From RV Require Import IrcProofs.WP IrcProofs.Inv IrcProofs.InvPrims IrcProofs.Handlers IrcProofs.Top.
Local Open Scope string_scope.

Definition ex_env : env := Env [].
Definition ex_history : list entry :=
  [ ECreate 1 1000 "0123456789abcdef";
    EMessage 2 2000 1 11 "10.0.0.1" "NICK Foo";
    EMessage 3 3000 1 12 "" "USER foo 0 * :Foo Bar";
    ECreate 4 4000 "fedcba9876543210";
    EMessage 5 5000 4 21 "" "NICK bar";
    EMessage 6 6000 4 22 "" "USER bar 0 * :Bar";
    EMessage 7 7000 1 13 "" "JOIN #Chan";
    EMessage 8 8000 4 23 "" "JOIN #chan";
    EMessage 9 9000 4 24 "" "PRIVMSG #chan :hello";
    EDelete 10 10000 1 "bye" ].

(* no session of this history is a services link, so every line is trivially conforming *)
Definition no_links (sv : server) : bool :=
  forallb (fun kv : N * N * session => negb (s_server kv.2)) (map_to_list (sv_sessions sv)).

Lemma no_links_line_ok sv k ircmsg : no_links sv = true -> line_ok sv k ircmsg.
Proof.
  intros H s m Hs Hsrv _. exfalso. unfold no_links in H. rewrite forallb_forall in H.
  assert (Hin : In (k, s) (map_to_list (sv_sessions sv))) by (apply elem_of_list_In, elem_of_map_to_list; exact Hs).
  specialize (H (k, s) Hin). cbn [snd] in H. rewrite Hsrv in H. discriminate.
Qed.

Fixpoint wf_history_b (e : env) (sv : server) (es : list entry) : bool :=
  match es with
  | [] => true
  | en :: r =>
      no_links sv &&
      match en with
      | ECreate id _ auth => Nat.leb 8 (slen auth) && bool_decide (sv_sessions sv !! (id, 0%N) = None)
      | _ => true
      end &&
      match entry_result (apply_entry e sv en) with
      | Some sv' => wf_history_b e sv' r
      | None => true
      end
  end.

Lemma wf_history_b_sound e sv es : wf_history_b e sv es = true -> wf_history e sv es.
Proof.
  revert sv. induction es as [|en es IH]; intros sv H; cbn [wf_history wf_history_b] in *; [exact Logic.I|].
  apply andb_true_iff in H. destruct H as [H Hr]. apply andb_true_iff in H. destruct H as [Hl He]. split.
  - destruct en; cbn [wf_entry]; try exact Logic.I.
    + apply andb_true_iff in He. destruct He as [H1 H2]. apply Nat.leb_le in H1. apply bool_decide_eq_true in H2. auto.
    + now apply no_links_line_ok.
  - intros sv' Hs. rewrite Hs in Hr. now apply IH.
Qed.

Example ex_history_wf : wf_history ex_env (init_server "robustirc.net") ex_history.
Proof. apply wf_history_b_sound. vm_compute. reflexivity. Qed.

Example ex_history_runs :
  exists sv, run ex_env (init_server "robustirc.net") ex_history = Some sv /\ size (sv_sessions sv) = 1 /\
             size (sv_channels sv) = 1.
Proof. eexists. split; [vm_compute; reflexivity|]. split; vm_compute; reflexivity. Qed.
