//go:build verif

package timesafeguard

// C19, collection step: SynchronizedWithNetwork / collectTime against fake peers (httptest TLS servers
// answering /status-like JSON with a controlled clock offset, or failing).  The decision must be
// "refuse" exactly when some ANSWERING peer's clock is far off, whatever the other peers do
// (a peer that does not answer is ignored, it must not make the node ignore the others).
// Case line ($VERIF_IN):   tsgnet <id> <peer> <peer> ...     peer = self | dead | ok[@<raft state>] | off:<seconds>[@<raft state>]
// (the raft state a peer reports — Leader, Follower, Candidate, Shutdown — must not matter: a peer that answers is compared)
// Output ($VERIF_OUT):     tsgnet <id> accept|refuse
// Injected by `go test -overlay`; never part of /repo.

import (
	"bufio"
	"bytes"
	"encoding/json"
	"encoding/pem"
	"flag"
	"fmt"
	"log"
	"net/http"
	"net/http/httptest"
	"os"
	"path/filepath"
	"strconv"
	"strings"
	"testing"
	"time"

	"github.com/robustirc/internal/health"
)

func verifPeer(offset time.Duration, fail bool, state string) *httptest.Server {
	return httptest.NewTLSServer(http.HandlerFunc(func(w http.ResponseWriter, r *http.Request) {
		if fail {
			http.Error(w, "starting up", http.StatusServiceUnavailable)
			return
		}
		w.Header().Set("Content-Type", "application/json")
		json.NewEncoder(w).Encode(health.ServerStatus{State: state, CurrentTime: time.Now().Add(offset)})
	}))
}

func TestVerifTsgNet(t *testing.T) {
	in, err := os.Open(os.Getenv("VERIF_IN"))
	if err != nil {
		t.Fatal(err)
	}
	defer in.Close()
	out, err := os.Create(os.Getenv("VERIF_OUT"))
	if err != nil {
		t.Fatal(err)
	}
	defer out.Close()
	w := bufio.NewWriter(out)
	defer w.Flush()
	*DisableTimesafeguard = false
	trusted := false
	sc := bufio.NewScanner(in)
	for sc.Scan() {
		f := strings.Fields(sc.Text())
		if len(f) < 2 || f[0] != "tsgnet" {
			continue
		}
		var peers []string
		var servers []*httptest.Server
		for _, p := range f[2:] {
			state := "Follower"
			if k := strings.IndexByte(p, '@'); k >= 0 {
				state, p = p[k+1:], p[:k]
			}
			switch {
			case p == "self":
				peers = append(peers, "me:443")
			case p == "dead" || p == "ok" || strings.HasPrefix(p, "off:"):
				var off time.Duration
				if strings.HasPrefix(p, "off:") {
					s, _ := strconv.ParseFloat(p[4:], 64)
					off = time.Duration(s * float64(time.Second))
				}
				srv := verifPeer(off, p == "dead", state)
				servers = append(servers, srv)
				if !trusted {
					cafile := filepath.Join(t.TempDir(), "ca.pem")
					b := pem.EncodeToMemory(&pem.Block{Type: "CERTIFICATE", Bytes: srv.Certificate().Raw})
					if err := os.WriteFile(cafile, b, 0600); err != nil {
						t.Fatal(err)
					}
					if err := flag.Set("tls_ca_file", cafile); err != nil {
						t.Fatal(err)
					}
					trusted = true
				}
				peers = append(peers, strings.TrimPrefix(srv.URL, "https://"))
			}
		}
		var logbuf bytes.Buffer
		log.SetOutput(&logbuf)
		rerr := SynchronizedWithNetwork("me:443", peers, "pw")
		log.SetOutput(os.Stderr)
		for _, s := range servers {
			s.Close()
		}
		d := "accept"
		if rerr != nil {
			d = "refuse"
		}
		fmt.Fprintf(w, "tsgnet %s %s\n", f[1], d)
	}
}
