# irclib.py — implementation-side library for the IRC state machine properties
# (C01 C03 C06 C10 C12 C13 C14 C15 C16 C17).  python3 stdlib only.
#
#   Gen                 history generator (driven only by the random.Random passed in)
#   case_line / parse_case_line, run_go, parse_output, Trace
#   mon_c01 mon_c03 mon_c06 mon_c10 mon_c12 mon_c13 mon_c14 mon_c15 mon_c16 mon_c17
#   shrink(case, still_fails)
#
# I/O format: /verif/harness/IRCFORMAT.md.  Go side: harness/go/main/zz_verif_irc_test.go (package main,
# calls the real (*FSM).applyRobustMessage) + harness/go/ircserver/zz_verif_export.go (dump, invariant walk).
#
# A *case* is a dict {"net": bytes, "opts": str, "entries": [entry...], "oracles": [str...]};
# an *entry* is a dict with key "k" in C D M X F S E G P (see entry_tokens()).
# Every monitor returns a list of findings (signature, message, step index); it states the PROPERTY
# TEXT (properties.jsonl), not the current code.
import base64, hashlib, hmac, os, re, sys, time

sys.path.insert(0, os.path.dirname(os.path.abspath(__file__)))
import vlib

GEN_VERSION = "irclib-1"


# ------------------------------------------------------------------ encoding
def hx(b):
    if isinstance(b, str):
        b = b.encode("utf-8")
    return b.hex() if b else "-"


def unhx(s):
    return b"" if s == "-" else bytes.fromhex(s)


def entry_tokens(e):
    k = e["k"]
    if k == "C":
        return ["C", str(e["id"]), str(e["ts"]), hx(e["auth"])]
    if k == "D":
        return ["D", str(e["id"]), str(e["ts"]), str(e["sid"]), hx(e["data"])]
    if k == "M":
        return ["M", str(e["id"]), str(e["ts"]), str(e["sid"]), str(e["cmid"]), hx(e.get("ra", b"")), hx(e["data"])]
    if k == "X":
        return ["X", str(e["id"]), str(e["ts"]), str(e["sid"]), str(e["cmid"]), hx(e["data"])]
    if k == "F":
        return ["F", str(e["id"]), str(e["ts"]), str(e["rev"]), hx(e["toml"]), e["cfg"]]
    if k == "S":
        return ["S"]
    if k == "E":
        return ["E", str(e["now"])]
    if k == "G":
        return ["G", str(e["sid"])]
    if k == "P":
        return ["P", str(e["sid"])]
    raise ValueError("unknown entry kind %r" % k)


def case_line(case, opts=None):
    parts = ["irc %s %s" % (hx(case["net"]), opts if opts is not None else case.get("opts", "-"))]
    parts += [" ".join(entry_tokens(e)) for e in case["entries"]]
    parts += list(case.get("oracles", []))
    return " | ".join(parts)


def parse_case_line(line):
    parts = line.rstrip("\n").split(" | ")
    head = parts[0].split(" ")
    case = {"net": unhx(head[1]), "opts": head[2], "entries": [], "oracles": []}
    for p in parts[1:]:
        f = p.split(" ")
        k = f[0]
        if k == "O":
            case["oracles"].append(p)
        elif k == "C":
            case["entries"].append({"k": "C", "id": int(f[1]), "ts": int(f[2]), "auth": unhx(f[3])})
        elif k == "D":
            case["entries"].append({"k": "D", "id": int(f[1]), "ts": int(f[2]), "sid": int(f[3]), "data": unhx(f[4])})
        elif k == "M":
            case["entries"].append({"k": "M", "id": int(f[1]), "ts": int(f[2]), "sid": int(f[3]), "cmid": int(f[4]),
                                    "ra": unhx(f[5]), "data": unhx(f[6])})
        elif k == "X":
            case["entries"].append({"k": "X", "id": int(f[1]), "ts": int(f[2]), "sid": int(f[3]), "cmid": int(f[4]),
                                    "data": unhx(f[5])})
        elif k == "F":
            case["entries"].append({"k": "F", "id": int(f[1]), "ts": int(f[2]), "rev": int(f[3]), "toml": unhx(f[4]),
                                    "cfg": f[5]})
        elif k == "S":
            case["entries"].append({"k": "S"})
        elif k == "E":
            case["entries"].append({"k": "E", "now": int(f[1])})
        elif k in ("G", "P"):
            case["entries"].append({"k": k, "sid": int(f[1])})
        else:
            raise ValueError("bad entry " + p)
    return case


def rebase_wallclock(case, now_ns=None):
    """ExpireSessions reads the wall clock (time.Since): a stored case with E steps was generated relative to the moment
    it was written.  Shift all its timestamps so that its newest E step means "now" again.  Returns None for a case that
    cannot be shifted (captcha tokens carry absolute timestamps inside their signed purpose)."""
    es = [e["now"] for e in case["entries"] if e["k"] == "E"]
    if not es:
        return case
    if any(o.startswith("O captcha") for o in case["oracles"]):
        return None
    delta = (now_ns if now_ns is not None else time.time_ns()) - max(es)
    for e in case["entries"]:
        if "ts" in e:
            e["ts"] += delta
        if e["k"] == "E":
            e["now"] += delta
    return case


# ------------------------------------------------------------------ IRC case mapping / syntax (Go semantics)
def go_tolower(b):
    """strings.ToLower on a byte string, for the modelled domain: ASCII, Latin-1 (as UTF-8) and the runes
    that lower into it; invalid UTF-8 bytes become U+FFFD as strings.Map does."""
    if all(c < 0x80 for c in b):
        return b.lower()
    s = b.decode("utf-8", "replace")
    out = []
    for ch in s:
        o = ord(ch)
        if o == 0x130:
            out.append("i")
        elif o == 0x212A:
            out.append("k")
        elif o == 0x212B:
            out.append("å")
        elif o == 0x1E9E:
            out.append("ß")
        else:
            l = ch.lower()
            out.append(l if len(l) == 1 else ch)
    return "".join(out).encode("utf-8")


_NICK_TR = bytes.maketrans(b"[]\\", b"{}|")


def nick_to_lower(b):
    return go_tolower(b).translate(_NICK_TR)


def chan_to_lower(b):
    return go_tolower(b)


_VALID_NICK = re.compile(rb"^[A-Za-z\x5B-\x60\x7B-\x7D][A-Za-z0-9\x5B-\x60\x7B-\x7D-]{0,30}\Z")
_VALID_CHAN = re.compile(r"^#[\x01-\x06\x08-\x09\x0B-\x0C\x0E-\x1F\x21-\x2B\x2D-\x39\x3B-\xFF]{0,32}\Z")


def is_valid_nick(b):
    return bool(_VALID_NICK.match(b))


def is_valid_chan(b):
    try:
        s = b.decode("utf-8")
    except UnicodeDecodeError:
        return False  # Go's regexp sees U+FFFD for an invalid byte, which is outside the class
    return bool(_VALID_CHAN.match(s))


def parse_irc_line(data):
    """RFC 1459 line -> (prefix bytes|None, command bytes (upper), [params]).  This is how a client reads it."""
    rest = data
    prefix = None
    if rest[:1] == b":":
        sp = rest.find(b" ")
        if sp < 0:
            return rest[1:], b"", []
        prefix = rest[1:sp]
        rest = rest[sp + 1:]
    k = rest.find(b" :")
    trailing = None
    if k >= 0:
        trailing = rest[k + 2:]
        rest = rest[:k]
    toks = rest.split(b" ")
    cmd = toks[0].upper() if toks else b""
    params = toks[1:]
    if trailing is not None:
        params.append(trailing)
    return prefix, cmd, params


def go_parse_message(raw):
    """irc.ParseMessage of the vendored sorcix/irc.v2 (how the SERVER reads a line)."""
    raw = raw.strip(b"\r\n")
    if len(raw) < 2:
        return None
    i = 0
    prefix = None
    if raw[:1] == b":":
        i = raw.find(b" ")
        if i < 2:
            return None
        prefix = raw[1:i]
        i += 1
    j = raw.find(b" ", i)
    if j > i:
        cmd = raw[i:j].upper()
    else:
        return prefix, raw[i:].upper(), []
    k = raw.find(b" :", j)
    j += 1
    if k < 0:
        return prefix, cmd, raw[j:].split(b" ")
    params = raw[j:k].split(b" ") if k > j else []
    params.append(raw[k + 2:])
    return prefix, cmd, params


# ------------------------------------------------------------------ output parsing
class Msg(object):
    __slots__ = ("reply", "data", "rcpt", "_p")

    def __init__(self, reply, data, rcpt):
        self.reply, self.data, self.rcpt, self._p = reply, data, rcpt, None

    def _parse(self):
        if self._p is None:
            self._p = parse_irc_line(self.data)
        return self._p

    prefix = property(lambda self: self._parse()[0])
    command = property(lambda self: self._parse()[1])
    params = property(lambda self: self._parse()[2])

    def __repr__(self):
        return "Msg(%d, %r, %r)" % (self.reply, self.data, sorted(self.rcpt))


_REC_CACHE = {}


def _kv(fields):
    d = {}
    for f in fields:
        k, _, v = f.partition("=")
        d[k] = v
    return d


def _hexlist(s):
    return [] if s in ("-", "?") else [unhx(x) for x in s.split(",")]


def _tm(s):
    return None if s in ("zero", "?") else int(s)


def _parse_record(rec):
    r = _REC_CACHE.get(rec)
    if r is not None:
        return r
    f = rec.split("/")
    t = f[0]
    if t == "S":
        if len(f) == 4 and f[3] == "nil":
            r = ("S", (int(f[1]), int(f[2])), None)
        else:
            d = _kv(f[3:])
            r = ("S", (int(f[1]), int(f[2])), {
                "id": int(f[1]), "reply": int(f[2]),
                "nick": unhx(d["nick"]) if d["nick"] != "?" else None, "user": unhx(d["user"]) if d["user"] != "?" else None,
                "real": unhx(d["real"]) if d["real"] != "?" else None,
                "li": d["li"] == "1", "op": d["op"] == "1", "srv": d["srv"] == "1", "del": d["del"] == "1",
                "away": unhx(d["away"]) if d["away"] != "?" else None, "pass": unhx(d["pass"]) if d["pass"] != "?" else None,
                "modes": "" if d["modes"] == "-" else d["modes"], "svid": unhx(d["svid"]) if d["svid"] != "?" else None,
                "la": _tm(d["la"]), "lnp": _tm(d["lnp"]), "lsc": _tm(d["lsc"]),
                "cr": int(d["cr"]) if d["cr"] != "?" else None, "cmid": int(d["cmid"]) if d["cmid"] != "?" else None,
                "ra": unhx(d["ra"]) if d["ra"] != "?" else None, "auth": unhx(d["auth"]) if d["auth"] != "?" else None,
                "thr": d["thr"], "ch": frozenset(_hexlist(d["ch"])), "inv": frozenset(_hexlist(d["inv"])),
                "pfx": unhx(d["pfx"]) if d["pfx"] != "?" else None, "raw": d,
            })
    elif t == "N":
        r = ("N", unhx(f[1]), None if f[2] == "nil" else (int(f[2]), int(f[3])))
    elif t == "C":
        if len(f) == 3 and f[2] == "nil":
            r = ("C", unhx(f[1]), None)
        else:
            d = _kv(f[2:])
            members = {}
            if d["m"] != "-":
                for m in d["m"].split(","):
                    k, _, v = m.partition(":")
                    members[unhx(k)] = None if v == "nil" else (v[0] == "1", v[1] == "1")
            r = ("C", unhx(f[1]), {
                "name": unhx(d["name"]) if d["name"] != "?" else None, "topic": unhx(d["topic"]) if d["topic"] != "?" else None,
                "tnick": unhx(d["tnick"]) if d["tnick"] != "?" else None, "ttime": _tm(d["ttime"]),
                "modes": "" if d["modes"] == "-" else d["modes"], "key": unhx(d["key"]) if d["key"] != "?" else None,
                "bans": _hexlist(d["bans"]), "m": members, "raw": d,
            })
    elif t == "H":
        if len(f) < 5:
            r = ("H", b"?", None)
        else:
            d = _kv(f[2:])
            r = ("H", unhx(f[1]), {"added": _tm(d["added"]), "dur": d["dur"], "reason": d["reason"], "raw": d})
    elif t == "V":
        r = ("V", None, [] if f[1] in ("-", "?") else [int(x) for x in f[1].split(",")])
    elif t == "L":
        r = ("L", None, (int(f[1]), int(f[2])) if f[1] != "?" else None)
    elif t == "G":
        d = _kv(f[1:])
        def pairs(s):
            out = {}
            if s != "-":
                for p in s.split(","):
                    a, _, b = p.partition(":")
                    out[unhx(a)] = unhx(b)
            return out
        r = ("G", None, {
            "rev": int(d["rev"]), "exp": int(d["exp"]), "cool": int(d["cool"]), "maxs": int(d["maxs"]), "maxc": int(d["maxc"]),
            "capurl": unhx(d["capurl"]), "caphmac": unhx(d["caphmac"]), "caplogin": d["caplogin"] == "1",
            "ops": [tuple(unhx(x) for x in p.split(":")) for p in d["ops"].split(",")] if d["ops"] != "-" else [],
            "svc": _hexlist(d["svc"]), "banned": pairs(d["banned"]), "tb": pairs(d["tb"]), "wo": _hexlist(d["wo"]),
            "raw": d, "body": rec.split("/", 2)[2],
        })
    else:
        r = (t, None, rec)
    if len(_REC_CACHE) > 200000:
        _REC_CACHE.clear()
    _REC_CACHE[rec] = r
    return r


class State(object):
    """decoded state dump"""
    __slots__ = ("text", "sessions", "nicks", "channels", "holds", "V", "L", "G", "recs")

    def __init__(self, text):
        self.text = text
        self.sessions, self.nicks, self.channels, self.holds = {}, {}, {}, {}
        self.V, self.L, self.G = [], None, None
        self.recs = text.split(";")
        for rec in self.recs:
            t, k, v = _parse_record(rec)
            if t == "S":
                self.sessions[k] = v
            elif t == "N":
                self.nicks[k] = v
            elif t == "C":
                self.channels[k] = v
            elif t == "H":
                self.holds[k] = v
            elif t == "V":
                self.V = v
            elif t == "L":
                self.L = v
            elif t == "G":
                self.G = v

    def alive(self, sid, reply=0):
        s = self.sessions.get((sid, reply))
        return s is not None and not s["del"]

    def member_session(self, lcnick):
        """session key a member key resolves to through the nick index (or None)"""
        return self.nicks.get(lcnick)

    def members(self, lcchan):
        """{session key: (op, voice)} of a channel, resolved through the nick index"""
        c = self.channels.get(lcchan)
        out = {}
        if c:
            for k, fl in c["m"].items():
                sk = self.nicks.get(k)
                if sk is not None:
                    out[sk] = fl
        return out


class Step(object):
    __slots__ = ("outcome", "inv", "msgs", "st_text", "_st", "raw", "dup")

    def __init__(self, raw):
        self.raw = raw
        self._st = None
        self.dup = False
        self.st_text = None
        self.inv, self.msgs = [], []
        if raw == "notrun" or " " not in raw:
            self.outcome = raw
            return
        k = raw.find(" st=")
        body = raw
        if k >= 0:
            self.st_text = raw[k + 4:]
            body = raw[:k]
        f = body.split(" ")
        self.outcome = f[0]
        if self.outcome == "dup":
            # second copy of a session's last client message, skipped when the log is applied (fix 92a4e2e): for every
            # monitor this is an entry without effect, like `skip`; mon_c10 checks that it really had none
            self.dup = True
            self.outcome = "skip"
        if len(f) > 1 and f[1].startswith("inv=") and f[1] != "inv=-":
            self.inv = f[1][4:].split(",")
        for m in f[3:]:
            a, b, c = m.split(":")
            self.msgs.append(Msg(int(a), unhx(b), frozenset() if c == "-" else frozenset(int(x) for x in c.split(","))))

    @property
    def st(self):
        if self._st is None and self.st_text is not None:
            self._st = State(self.st_text)
        return self._st

    @property
    def ran(self):
        return self.outcome != "notrun" and not self.outcome.startswith("panic=")


def parse_output(line):
    """one output line -> list of Step (None if the line is not a case result)"""
    line = line.rstrip("\n")
    if not line.startswith("irc"):
        return None
    parts = line.split(" | ")
    return [Step(p) for p in parts[1:]]


class Trace(object):
    """input entries + implementation output of one run of one case"""

    def __init__(self, case, steps, panics=None, wall=None, line=None):
        self.case, self.steps, self.panics, self.wall, self.line = case, steps, panics or {}, wall, line
        self.entries = case["entries"]
        self.ok = steps is not None and len(steps) == len(self.entries)

    def pre(self, i):
        """state before step i (dump after the closest earlier step that has one); None if unknown"""
        if i == 0:
            return None
        s = self.steps[i - 1]
        return s.st if s.ran else None


# ------------------------------------------------------------------ running the Go driver
OVERLAY = {
    "zz_verif_irc_test.go": "main/zz_verif_irc_test.go",
    "internal/ircserver/zz_verif_export.go": "ircserver/zz_verif_export.go",
}
_run_counter = [0]


def run_go(lines, timeout=1800, tag=None, want_stats=False, env_extra=None):
    """build + run the driver on case lines.  Returns (output lines | None, panics {case idx: {step idx: (func, where)}},
    info dict with 'log', 'wall'=(t0,t1) ns around the run, 'stats')."""
    wd = vlib.workdir()
    _run_counter[0] += 1
    tag = tag or ("irc%d" % _run_counter[0])
    inp, outp = os.path.join(wd, tag + ".in"), os.path.join(wd, tag + ".out")
    with open(inp, "w") as f:
        f.write("\n".join(lines) + "\n")
    for p in (outp, outp + ".panics", outp + ".stats"):
        if os.path.exists(p):
            os.remove(p)
    ov = {os.path.join(vlib.REPO, k): os.path.join(vlib.HGO, v) for k, v in OVERLAY.items()}
    t0 = time.time_ns()
    rc, out = vlib.go_test(".", ov, "^TestVerifIrc$", dict({"VERIF_IN": inp, "VERIF_OUT": outp, "VERIF_STATS": outp + ".stats"}, **(env_extra or {})),
                           timeout=timeout)
    t1 = time.time_ns()
    info = {"log": out, "wall": (t0, t1), "rc": rc, "stats": None}
    if os.path.exists(outp + ".stats"):
        info["stats"] = open(outp + ".stats").read().strip()
    if rc != 0 or not os.path.exists(outp):
        return None, {}, info
    with open(outp) as f:
        res = f.read().split("\n")[:-1]
    panics = {}
    if os.path.exists(outp + ".panics"):
        for l in open(outp + ".panics"):
            f = l.split()
            if len(f) >= 4:
                panics.setdefault(int(f[0]), {})[int(f[1])] = (f[2], f[3])
    for p in (inp, outp, outp + ".panics", outp + ".stats"):
        try:
            os.remove(p)
        except OSError:
            pass
    return res, panics, info


def run_cases(cases, opts="dump=each,inv", **kw):
    """run cases, return list of Trace (steps None when the driver failed) and the info dict"""
    lines = [case_line(c, opts) for c in cases]
    res, panics, info = run_go(lines, **kw)
    traces = []
    for i, c in enumerate(cases):
        steps = parse_output(res[i]) if res is not None and i < len(res) else None
        traces.append(Trace(c, steps, panics.get(i), info["wall"], res[i] if res is not None and i < len(res) else None))
    return traces, info


# ------------------------------------------------------------------ captcha tokens (verifyCaptchaNonEmpty)
def captcha_token(secret, purpose, challenge=b"aaaaaaaa", mac=None):
    """<b64 purpose>.<b64 challenge>.<b64 hmac-sha256(secret, purpose+challenge)>"""
    if mac is None:
        mac = hmac.new(secret, purpose + challenge, hashlib.sha256).digest()
    return b".".join(base64.b64encode(x) for x in (purpose, challenge, mac))


def captcha_oracle(secret, token):
    """what verifyCaptchaNonEmpty decides minus the freshness test: None (invalid) or the ns inside the purpose"""
    parts = token.split(b".")
    if len(parts) != 3:
        return None
    dec = []
    for p in parts:
        try:
            if len(p) % 4 or not re.match(rb"^[A-Za-z0-9+/]*={0,2}\Z", p):
                return None
            dec.append(base64.b64decode(p, validate=True))
        except Exception:
            return None
    purpose, challenge, mac = dec
    if not purpose.startswith(b"okay:"):
        return None
    if not hmac.compare_digest(mac, hmac.new(secret or b"", purpose + challenge, hashlib.sha256).digest()):
        return None
    pp = purpose.split(b":")
    if len(pp) != 4:
        return None
    if not re.match(rb"^[+-]?[0-9]+\Z", pp[2]):
        return None
    n = int(pp[2])
    if not (-2 ** 63 <= n < 2 ** 63):
        return None
    return n


# ------------------------------------------------------------------ config rendering
def _toml_str(b):
    s = b.decode("utf-8")
    out = ['"']
    for ch in s:
        o = ord(ch)
        if ch == '"':
            out.append('\\"')
        elif ch == "\\":
            out.append("\\\\")
        elif o < 0x20 or o == 0x7f:
            out.append("\\u%04x" % o)
        else:
            out.append(ch)
    out.append('"')
    return "".join(out)


def _dur_text(ns, rng=None):
    """a time.ParseDuration text for ns"""
    if ns == 0:
        return "0s"
    forms = []
    if ns % (60 * 10 ** 9) == 0:
        m = ns // (60 * 10 ** 9)
        forms.append("%dm" % m)
        if m >= 60:
            forms.append("%dh%dm" % (m // 60, m % 60))
    if ns % 10 ** 9 == 0:
        forms.append("%ds" % (ns // 10 ** 9))
    if ns % 10 ** 6 == 0:
        forms.append("%dms" % (ns // 10 ** 6))
    forms.append("%dns" % ns)
    return rng.choice(forms) if rng else forms[0]


def config_render(cfg, rng=None):
    """structured config dict -> (toml bytes, <cfg> token).  cfg keys: exp cool (ns or None=omitted) maxs maxc capurl
    caphmac (bytes or None) caplogin ops [(name,pw)] svc [pw] banned {addr:reason} tb {hdr:name} wo [origin]"""
    L = []
    if cfg.get("exp") is not None:
        L.append('SessionExpiration = "%s"' % _dur_text(cfg["exp"], rng))
    if cfg.get("cool") is not None:
        L.append('PostMessageCooloff = "%s"' % _dur_text(cfg["cool"], rng))
    if cfg.get("capurl"):
        L.append("CaptchaURL = " + _toml_str(cfg["capurl"]))
    if cfg.get("caphmac"):
        L.append('CaptchaHMACSecret = "%s"' % cfg["caphmac"].hex())
    if cfg.get("caplogin"):
        L.append("CaptchaRequiredForLogin = true")
    if cfg.get("maxs"):
        L.append("MaxSessions = %d" % cfg["maxs"])
    if cfg.get("maxc"):
        L.append("MaxChannels = %d" % cfg["maxc"])
    if rng and rng.random() < 0.1:
        L.append('UnknownKey = "ignored"')
    if cfg.get("ops") or cfg.get("svc"):
        L.append("[IRC]")
        for n, p in cfg.get("ops", []):
            L += ["[[IRC.Operators]]", "Name = " + _toml_str(n), "Password = " + _toml_str(p)]
        for p in cfg.get("svc", []):
            L += ["[[IRC.Services]]", "Password = " + _toml_str(p)]
    if cfg.get("tb"):
        L.append("[TrustedBridges]")
        for k in sorted(cfg["tb"]):
            L.append("%s = %s" % (_toml_str(k), _toml_str(cfg["tb"][k])))
    if cfg.get("banned"):
        L.append("[Banned]")
        for k in sorted(cfg["banned"]):
            L.append("%s = %s" % (_toml_str(k), _toml_str(cfg["banned"][k])))
    if cfg.get("wo"):
        L.append("[WhitelistedOrigins]")
        for k in sorted(cfg["wo"]):
            L.append("%s = true" % _toml_str(k))
    if cfg.get("wo_off"):  # origins switched off by "= false": present in the table, not whitelisted
        if not cfg.get("wo"):
            L.append("[WhitelistedOrigins]")
        for k in sorted(cfg["wo_off"]):
            L.append("%s = false" % _toml_str(k))
    toml = ("\n".join(L) + "\n").encode("utf-8")
    return toml, config_token(cfg)


def config_token(cfg):
    def pairs(m):
        return ",".join("%s:%s" % (hx(k), hx(m[k])) for k in sorted(m)) if m else "-"
    return "exp=%d/cool=%d/maxs=%d/maxc=%d/capurl=%s/caphmac=%s/caplogin=%d/ops=%s/svc=%s/banned=%s/tb=%s/wo=%s" % (
        cfg.get("exp") or 0, cfg.get("cool") or 0, cfg.get("maxs") or 0, cfg.get("maxc") or 0,
        hx(cfg.get("capurl") or b""), hx(cfg.get("caphmac") or b""), 1 if cfg.get("caplogin") else 0,
        ",".join("%s:%s" % (hx(n), hx(p)) for n, p in cfg.get("ops", [])) or "-",
        ",".join(hx(p) for p in cfg.get("svc", [])) or "-",
        pairs(cfg.get("banned")), pairs(cfg.get("tb")), ",".join(hx(k) for k in sorted(cfg.get("wo", []))) or "-")


INVALID_TOMLS = [
    b"MaxSessions = = 3\n", b'CaptchaURL = "unterminated\n', b'MaxSessions = "many"\n', b'SessionExpiration = "10 minutes"\n',
    b'CaptchaHMACSecret = "zz"\n', b"[IRC\n", b"MaxChannels = 1\nMaxChannels = 2\n", b"\xff\xfe = 1\n",
    b'[[IRC.Operators]]\nName = 5\n', b"= 1\n", b'PostMessageCooloff = 5\n',
]

# ------------------------------------------------------------------ generator
SEC = 10 ** 9
NICK_POOL = [b"Foo[1]", b"foo{1}", b"alice", b"Alice", b"bob", b"BOB", b"carol", b"dave\\", b"dave|", b"Eve`", b"eve`",
             b"x-y", b"_u", b"Zed^", b"zED^", b"q", b"W1", b"mallory", b"Trent", b"peggy{}", b"PEGGY[]"]
BAD_NICKS = [b"9lives", b"b@d", b"waytoolongnickname_aaaaaaaaaaaaaaaaaaaaaaaa", b"M\xc3\xbcller", b"NickServ", b"xserv",
             b"-dash", b"a!b", b"a b", b":colon", b"tab\there", b"\xc3\x9cber",
             # characters that fold onto ASCII letters under Unicode case folding (a case-insensitive regexp would accept them)
             b"\xc5\xbfecure", b"ma\xc5\xbf\xc5\xbf", b"\xe2\x84\xaaelvin", b"bo\xc4\xb1", b"\xc4\xb0rc"]
CHAN_POOL = [b"#Chan", b"#chan", b"#\xc3\x9c", b"#\xc3\xbc", b"#test", b"#a", b"#secret", b"#Foo[1]", b"#foo{1}", b"#x-y"]
BAD_CHANS = [b"chan", b"#" + b"x" * 40, b"#bell\x07", b"&local", b"#", b"#a:b", b"", b"#\xc4\xb0x", b"0"]
PSEUDO_POOL = [b"NickServ", b"ChanServ", b"OperServ", b"BotServ", b"Enforcer", b"Global"]
TEXTS = [b"hello", b"hi there", b"how are you?", b"caf\xc3\xa9 au lait", b"\xc3\x9cbergr\xc3\xb6\xc3\x9fe", b":leading colon",
         b"", b" ", b"x", b"\x01ACTION waves\x01", b"tab\there", b"\xe2\x82\xac 5", b"\xf0\x9f\x98\x80", b"\xef\xbf\xbd",
         b"a  b", b"trailing ", b"1234567890" * 3, b"please go to http://x", b"This server was created yesterday",
         b"PING", b"#chan", b"\x1b[31mred", b"P\xc4\xb0NG"]
BAN_MASKS = [b"*!*@*", b"alice!*@*", b"*!*@10.0.0.*", b"foo*", b"*[1]*", b"a.b*", b"(", b"x", b"*!a@*", b"bob*!*@*",
             b"*!*@2001:db8::*", b"*", b"**", b"\\",
             # masks that differ in case only (a case-insensitive sort of the ban list leaves their order to chance) and
             # upper-case masks (a case-insensitive sort moves them)
             b"Alice!*@*", b"ALICE!*@*", b"*!*@Example.COM", b"*!*@example.com", b"Zed*", b"X", b"BOB*!*@*", b"Foo*"]
MAX_USER_LEN = 32


def cap_user(u):
    """cmd_user.go: strings.ToValidUTF8(u[:maxUserLen], "") when u is longer than maxUserLen bytes"""
    if len(u) <= MAX_USER_LEN:
        return u
    return u[:MAX_USER_LEN].decode("utf-8", "ignore").encode("utf-8")
CLIENT_COMMANDS = ["NICK", "USER", "PASS", "QUIT", "SERVER", "JOIN", "PART", "KICK", "MODE", "TOPIC", "INVITE", "PRIVMSG",
                   "NOTICE", "WHO", "WHOIS", "NAMES", "LIST", "ISON", "USERHOST", "AWAY", "PING", "MOTD", "OPER", "KILL",
                   "GLINE", "KNOCK", "NICKSERV", "CHANSERV", "OPERSERV", "MEMOSERV", "HOSTSERV", "BOTSERV", "NS", "CS",
                   "OS", "MS", "HS", "BS"]
SERVER_COMMANDS = ["NICK", "QUIT", "KILL", "JOIN", "PART", "KICK", "MODE", "TOPIC", "PRIVMSG", "NOTICE", "INVITE", "SVSJOIN",
                   "SVSPART", "SVSNICK", "SVSMODE", "SVSHOLD", "PING"]
OTHER_COMMANDS = ["PANIC", "CAP", "PONG", "WALLOPS", "svsnick", "Join", "privmsg", "001", "ERROR", "SJOIN", "SVSKILL"]


class _GS(object):
    """the generator's (approximate) idea of a session; only used to bias choices"""

    def __init__(self, sid, kind, auth, ra):
        self.sid, self.kind, self.auth, self.ra = sid, kind, auth, ra
        self.nick, self.user, self.reg, self.oper, self.alive = b"", b"", False, False, True
        self.chans, self.cmid, self.la, self.is_link, self.created = set(), 0, 0, False, 0
        self.passw = b""


class Gen(object):
    """History generator.  Every choice comes from `rng` (a random.Random); the only other input is the wall clock
    reading `now_ns` used for `E` histories (IRCFORMAT.md).
      sanitize      'lf'      Data cut at the first LF, quit messages not cut       (pinned HTTP handlers)
                    'crlfnul' both cut at the first CR, LF or NUL                   (handlers with the D6 repair)
      ctl           probability that a generated text gets a CR/LF/NUL inserted (before sanitising)
      nonconforming services lines outside conforming_server_line (DESIGN A.4) — exploration only
      raw_bytes     trailing texts may contain invalid UTF-8 (exploration only: JSON decoding never yields it, and
                    IRCServer.Marshal fails on it)
      bad_captcha_url  allow an unparsable CaptchaURL in configs (exploration only)"""

    def __init__(self, rng, sanitize="lf", ctl=0.02, nonconforming=False, raw_bytes=False, bad_captcha_url=False,
                 now_ns=None, latin1_commands=False):
        self.latin1_commands = latin1_commands  # Latin-1 letters in the command token of garbage lines (exploration)
        self.rng, self.sanitize, self.ctl = rng, sanitize, ctl
        self.nonconforming, self.raw_bytes, self.bad_captcha_url = nonconforming, raw_bytes, bad_captcha_url
        self.now_ns = now_ns if now_ns is not None else time.time_ns()

    # ---- case skeleton
    def _reset(self):
        r = self.rng
        self.entries, self.oracles = [], []
        self.force_exp = None
        self.id = r.randint(0, 4)
        self.ts = 1600000000 * SEC + r.randint(0, 10 ** 15)
        self.sess, self.dead = [], []
        self.link = None
        self.pseudo = []
        self.cfg = None
        self.rev = 0
        self.secret = bytes(r.getrandbits(8) for _ in range(32))
        self.tokens = {}
        self._captcha_n = 0
        self.guest = 0
        self.net = r.choice([b"robustirc.net", b"irc.example.org", b"n"])
        self.chans = r.sample(CHAN_POOL, r.randint(2, 5))
        if r.random() < 0.7:  # make sure a colliding pair is present
            pair = r.choice([(b"#Chan", b"#chan"), (b"#\xc3\x9c", b"#\xc3\xbc"), (b"#Foo[1]", b"#foo{1}")])
            self.chans = list(dict.fromkeys(list(pair) + self.chans))[:5]
        self.nicks = r.sample(NICK_POOL, 10)
        if r.random() < 0.7:
            self.nicks = list(dict.fromkeys([b"Foo[1]", b"foo{1}"] + self.nicks))
        self.keys = {}
        self.opers = []
        self.svcpw = []

    def _case(self):
        return {"net": self.net, "opts": "dump=each,inv", "entries": self.entries, "oracles": self.oracles,
                "gen": GEN_VERSION, "sanitize": self.sanitize}

    def _tick(self, big=False):
        r = self.rng
        k = r.random()
        if big:
            step = r.randint(601, 3600) * SEC
        elif k < 0.5:
            step = r.randint(1, 999) * 10 ** 6
        elif k < 0.85:
            step = r.randint(1, 59) * SEC + r.randint(0, SEC - 1)
        elif k < 0.985:
            step = r.randint(1, 9) * 60 * SEC
        else:
            step = r.randint(601, 1800) * SEC
        self.ts += step
        self.id += 1 if r.random() < 0.8 else r.randint(2, 4)

    # ---- text
    def _ctl(self, b):
        r = self.rng
        if self.ctl and r.random() < self.ctl:
            try:
                u = b.decode("utf-8")  # insert at a character boundary: posted JSON text is always valid UTF-8
            except UnicodeDecodeError:
                return b
            k = r.randint(0, len(u))
            b = u[:k].encode("utf-8") + r.choice([b"\r", b"\x00", b"\n", b"\r\n", b"\r:x!y@z PRIVMSG #chan :forged"]) + u[k:].encode("utf-8")
        return b

    def _text(self):
        r = self.rng
        k = r.random()
        if k < 0.7:
            t = r.choice(TEXTS)
        elif k < 0.8:
            t = b" ".join(r.choice(TEXTS) for _ in range(r.randint(2, 4)))
        elif k < 0.88:
            t = (r.choice([b"long ", b"\xc3\xa9", b"ab ", b"\xe2\x82\xac", b"\xf0\x9f\x98\x80", b"x\xf0\x9f\x98\x80"]) * 400)[:r.randint(380, 700)]
            t = t.decode("utf-8", "ignore").encode("utf-8")
        elif k < 0.95:
            t = "".join(chr(r.choice([r.randint(0x20, 0x7e), r.randint(0xa0, 0xff), r.randint(0x100, 0x24f),
                                      r.randint(0x1, 0x1f), 0x20ac, 0x1f600])) for _ in range(r.randint(1, 30)))
            t = t.replace("\r", "").replace("\n", "").encode("utf-8")
        else:
            t = bytes(r.randint(0x20, 0x7e) for _ in range(r.randint(1, 60)))
        if self.raw_bytes and r.random() < 0.3:
            t = bytes(r.choice([x for x in range(1, 256) if x not in (10, 13)]) for _ in range(r.randint(1, 40)))
        return self._ctl(t)

    def _cut_post(self, data):
        seps = b"\n" if self.sanitize == "lf" else b"\r\n\x00"
        for i, c in enumerate(data):
            if c in seps:
                return data[:i]
        return data

    def _cut_quit(self, data):
        if self.sanitize == "lf":
            return data
        for i, c in enumerate(data):
            if c in b"\r\n\x00":
                return data[:i]
        return data

    # ---- entries
    def _C(self, kind="client"):
        r = self.rng
        self._tick()
        auth = ("%064x" % r.getrandbits(256)).encode()
        if r.random() < 0.1:
            auth = auth * 4  # the real thing: 256 hex characters
        ra = r.choice([b"10.0.0.%d" % r.randint(1, 9), b"2001:db8::%x" % r.randint(1, 9), b"192.168.1.%d" % r.randint(1, 3)])
        s = _GS(self.id, kind, auth, ra)
        s.la = s.created = self.ts
        self.entries.append({"k": "C", "id": self.id, "ts": self.ts, "auth": auth})
        lim = (self.cfg or {}).get("maxs") or 0
        if lim and len([x for x in self.sess if x.alive]) + len(self.pseudo) >= lim:
            s.alive = False  # most likely refused; keep it around as a "never existed" id
            self.dead.append(s)
            return None
        self.sess.append(s)
        return s

    def _M(self, s, line, big=False, kind="M"):
        r = self.rng
        self._tick(big)
        if kind == "M":
            if r.random() < 0.9:
                s.cmid += r.randint(1, 1000)
            elif r.random() < 0.5:
                s.cmid = r.getrandbits(63) + 1
            ra = s.ra
            k = r.random()
            if k < 0.04:
                ra = b""
            elif k < 0.07:
                s.ra = ra = r.choice([b"10.0.0.%d" % r.randint(1, 9), b"2001:db8::%x" % r.randint(1, 9)])
            self.entries.append({"k": "M", "id": self.id, "ts": self.ts, "sid": s.sid, "cmid": s.cmid, "ra": ra,
                                 "data": self._cut_post(line)})
        else:
            s.cmid += r.randint(1, 1000)
            self.entries.append({"k": "X", "id": self.id, "ts": self.ts, "sid": s.sid, "cmid": s.cmid,
                                 "data": self._cut_post(line)})
        s.la = self.ts

    def _D(self, s):
        self._tick()
        self.entries.append({"k": "D", "id": self.id, "ts": self.ts, "sid": s.sid, "data": self._cut_quit(self._text())})
        self._end(s)

    def _end(self, s):
        if s.alive:
            s.alive = False
            self.dead.append(s)
            if s in self.sess:
                self.sess.remove(s)
            if s is self.link:
                self.link = None
                self.pseudo = []

    def _F(self, cfg=None, invalid=False):
        r = self.rng
        self._tick()
        # self.rev = the revision in force.  A Config entry takes effect only if it parses and carries self.rev + 1
        # (applyRobustMessage, fix b3bad2c); the others (the same revision again, a stale or a future one) are skipped.
        k = r.random()
        if k < 0.85 or (cfg is not None and not invalid):
            rev = self.rev + 1          # a configuration a scenario depends on must take effect
        elif k < 0.93:
            rev = self.rev
        else:
            rev = r.choice([0, max(0, self.rev - 1), self.rev + 2, r.randint(0, 100)])
        if invalid:
            self.entries.append({"k": "F", "id": self.id, "ts": self.ts, "rev": rev, "toml": r.choice(INVALID_TOMLS),
                                 "cfg": "invalid"})
            return
        cfg = cfg or self._config()
        toml, tok = config_render(cfg, r)
        self.entries.append({"k": "F", "id": self.id, "ts": self.ts, "rev": rev, "toml": toml, "cfg": tok})
        if rev != self.rev + 1:
            return
        self.rev = rev
        self.cfg = cfg
        self.opers = list(cfg.get("ops", []))
        self.svcpw = list(cfg.get("svc", []))

    def _config(self, expire=None):
        r = self.rng
        if expire is None and getattr(self, "force_exp", None):
            expire = self.force_exp     # wall-clock sensitive histories keep their expiration through config changes
        cfg = {}
        cfg["exp"] = expire if expire is not None else r.choice([600 * SEC, 600 * SEC, 1800 * SEC, 3600 * SEC, 90 * SEC, None])
        cfg["cool"] = r.choice([0, 500 * 10 ** 6, None, 2 * SEC])
        cfg["ops"] = [(r.choice([b"root", b"admin", b"\xc3\xb6per"]), r.choice([b"hunter2", b"pw", b"p w"]))
                      for _ in range(r.choice([0, 1, 1, 2]))]
        cfg["svc"] = [r.choice([b"svcpass", b"s3cret", b"mypass"]) for _ in range(r.choice([0, 1, 1, 2]))]
        k = r.random()
        if k < 0.12:
            cfg["maxs"] = r.randint(3, 14)
        if r.random() < 0.15:
            cfg["maxc"] = r.randint(1, 4)
        k = r.random()
        if k < 0.35 or (self.cfg and self.cfg.get("caphmac")):
            cfg["caphmac"] = self.secret  # one secret per case (tokens are judged against it)
            if r.random() < 0.9:
                cfg["capurl"] = r.choice([b"http://captcha.example", b"https://c.example/solve?x=1", b"//host/path"])
                if self.bad_captcha_url and r.random() < 0.3:
                    cfg["capurl"] = b"http://[::1"
            if r.random() < 0.25:
                cfg["caplogin"] = True
        elif k < 0.42:
            cfg["capurl"] = b"http://captcha.example"  # URL without secret: captcha not configured
        if r.random() < 0.15:
            cfg["tb"] = {b"bridgesecret": b"bridge1"}
        if r.random() < 0.15:
            cfg["banned"] = {r.choice([b"10.0.0.1", b"10.0.0.7", b"2001:db8::3"]): r.choice([b"spam", b"go away"])}
        if r.random() < 0.08:
            cfg["wo"] = [b"https://webchat.example.com"]
        if r.random() < 0.12:
            cfg["wo_off"] = [r.choice([b"https://old.example.com", b"http://localhost:8080"])]
        return cfg

    def _probe(self):
        r = self.rng
        pool = [s.sid for s in self.sess] + [s.sid for s in self.dead] + [0, self.id, self.id + 1, self.id + 7, max(self.id - 1, 0)]
        self.entries.append({"k": r.choice(["G", "G", "P"]), "sid": r.choice(pool)})

    # ---- captcha
    def _token(self, kind=None, cmd=b"join", arg=b"", shape=None):
        r = self.rng
        kind = kind or r.choice(["ok", "ok", "ok", "mutated", "replayed", "expired", "garbage", "future", "shape"])
        ns = self.ts - r.randint(0, 200) * SEC
        if kind == "expired":
            ns = self.ts - r.randint(400, 4000) * SEC
        elif kind == "future":
            ns = self.ts + r.randint(1, 1000) * SEC
        purpose = b"okay:%s:%d:%s" % (cmd, ns, arg)
        if kind == "replayed":
            purpose = b"%s:%d:%s" % (cmd, ns, arg)  # the challenge purpose as handed out, never solved
        tok = captcha_token(self.secret, purpose, b"%08x" % r.getrandbits(32))
        if kind == "mutated":
            k = r.random()
            if k < 0.4:
                tok = captcha_token(bytes(32), purpose)  # wrong key
            elif k < 0.7:
                p = tok.split(b".")
                p[0] = base64.b64encode(b"okay:%s:%d:%s" % (cmd, ns + 1, arg))
                tok = b".".join(p)
            else:
                tok = tok[:-6] + b"AAAAA="
        elif kind == "garbage":
            tok = r.choice([b"abc", b"a.b.c", b"....", b"YQ==.YQ==", b"YQ==.YQ==.YQ==", b"!.!.!"])
        elif kind == "shape":
            # purposes that start with "okay:" but do not have the four fields okay:<command>:<lastactivity>:<argument>,
            # correctly signed, signed with another key, or not signed at all
            purposes = [b"okay:", b"okay:join", b"okay:join:", b"okay::", b"okay:join:%d" % ns, b"okay:join:%d:#a:b" % ns,
                        b"okay:join:soon:" + arg, b"okay:join:99999999999999999999:" + arg, b"okay:join: %d:%s" % (ns, arg),
                        b"okay:join:-1:" + arg, b"okay:join:+%d:%s" % (ns, arg), b"okay:join:0x10:" + arg]
            purpose = purposes[shape % len(purposes)] if shape is not None else r.choice(purposes)
            k = r.random()
            if k < 0.5:
                tok = captcha_token(self.secret, purpose, b"%08x" % r.getrandbits(32))
            elif k < 0.75:
                tok = captcha_token(bytes(32), purpose)
            else:
                tok = base64.b64encode(purpose) + b"." + base64.b64encode(b"x") + b"." + r.choice([b"", base64.b64encode(b"y")])
        self.oracles.append("O captcha %s %s" % (hx(tok), "invalid" if captcha_oracle(self.secret, tok) is None
                                                  else str(captcha_oracle(self.secret, tok))))
        return tok

    # ---- choices
    def _alive(self, reg=None):
        return [s for s in self.sess if s.alive and not s.is_link and (reg is None or s.reg == reg)]

    def _scramble(self, name):
        """another spelling of the same name under the IRC case mapping (letters; []\\ vs {}|)"""
        r = self.rng
        tr = {0x5b: 0x7b, 0x5d: 0x7d, 0x5c: 0x7c, 0x7b: 0x5b, 0x7d: 0x5d, 0x7c: 0x5c}
        out = bytearray()
        for ch in name:
            if r.random() < 0.5:
                if 0x41 <= ch <= 0x5a or 0x61 <= ch <= 0x7a:
                    ch ^= 0x20
                elif ch in tr:
                    ch = tr[ch]
            out.append(ch)
        return bytes(out)

    def _anynick(self):
        r = self.rng
        k = r.random()
        live = [s.nick for s in self.sess if s.nick]
        if k < 0.6 and live:
            n = r.choice(live)
            if r.random() < 0.3:
                n = r.choice([n.upper(), n.lower(), n.swapcase(), self._scramble(n), self._scramble(n)])
            return n
        if k < 0.75 and self.pseudo:
            return r.choice(self.pseudo)
        if k < 0.92:
            return r.choice(self.nicks)
        return r.choice(BAD_NICKS + [b"nobody"])

    def _anychan(self, s=None):
        r = self.rng
        k = r.random()
        if s is not None and s.chans and k < 0.5:
            c = r.choice(sorted(s.chans))
            return self._scramble(c) if r.random() < 0.3 else c
        if k < 0.9:
            c = r.choice(self.chans)
            if r.random() < 0.25:
                c = r.choice([c.upper(), c.lower(), self._scramble(c), self._scramble(c)])
            return c
        return r.choice(BAD_CHANS + CHAN_POOL)

    # ---- client lines
    def client_line(self, s, cmd=None):
        r = self.rng
        W = [("PRIVMSG", 14), ("NOTICE", 4), ("JOIN", 14), ("PART", 6), ("MODE", 14), ("TOPIC", 7), ("KICK", 5), ("INVITE", 5),
             ("NICK", 7), ("WHOIS", 3), ("WHO", 2), ("NAMES", 2), ("LIST", 2), ("ISON", 1), ("USERHOST", 1), ("AWAY", 2),
             ("PING", 4), ("MOTD", 1), ("OPER", 2), ("KILL", 2), ("GLINE", 1), ("KNOCK", 2), ("USER", 1), ("PASS", 1),
             ("QUIT", 1), ("SERVER", 1), ("ALIAS", 2), ("OTHER", 1)]
        if cmd is None:
            cmd = r.choices([w[0] for w in W], [w[1] for w in W])[0]
        t = self._text
        if cmd == "NICK":
            k = r.random()
            if k < 0.55:
                n = r.choice(self.nicks)
            elif k < 0.7 and s.nick:
                n = r.choice([s.nick, s.nick.upper(), s.nick.lower(), s.nick.swapcase(),
                              s.nick.replace(b"[", b"{").replace(b"]", b"}").replace(b"\\", b"|")])
            elif k < 0.85:
                n = self._anynick()
            else:
                n = r.choice(BAD_NICKS + [b"", b":"])
            line = b"NICK " + n if r.random() < 0.9 else b"NICK :" + n
            if is_valid_nick(n) and not go_tolower(n).endswith(b"serv") and \
                    nick_to_lower(n) not in [nick_to_lower(x.nick) for x in self.sess if x is not s and x.nick] + \
                    [nick_to_lower(p) for p in self.pseudo]:
                s.nick = n
                if s.user:
                    s.reg = True
            return line
        if cmd == "USER":
            u = r.choice([b"u", b"alice", b"~bob", b"\xc3\xbcser", b"a!b", b"x@y", b"root"])
            if r.random() < 0.25:
                # around and beyond the maxUserLen cut, with multi-byte characters across it
                u = r.choice([b"a" * r.randint(30, 34), b"a" * r.randint(29, 32) + b"\xc3\xa9" * 3, b"\xe2\x82\xac" * r.randint(10, 12),
                              b"a" * 31 + b"\xf0\x9f\x98\x80x", b"u" * r.choice([33, 64, 200, 480])])
            s.user = s.user or u
            if s.nick:
                s.reg = True
            return b"USER %s %s * :%s" % (u, r.choice([b"0", b"8", b"x"]), r.choice([b"Real Name", b"", b"R\xc3\xa9al", t()]))
        if cmd == "PASS":
            k = r.random()
            if k < 0.2:
                p = r.choice([b"secret", b"nickserv=secret", b"a:b"])
            elif k < 0.45 and self.opers:
                n, pw = r.choice(self.opers)
                p = b"oper=%s %s" % (n, pw) if r.random() < 0.8 else b"oper=%s wrong" % n
                if r.random() < 0.3:
                    p = b"nickserv=foo:" + p
            elif k < 0.6:
                p = b"services=" + (r.choice(self.svcpw) if self.svcpw and r.random() < 0.7 else b"guess")
            elif k < 0.9:
                p = b"captcha=" + self._token(cmd=b"login")
                if r.random() < 0.3:
                    p = b"nickserv=x:" + p
            else:
                p = r.choice([b"", b":", b"network=x", b"session=y", b"oper=", b"captcha="])
            s.passw = p
            return b"PASS " + p if r.random() < 0.7 else b"PASS :" + p
        if cmd == "QUIT":
            return r.choice([b"QUIT", b"QUIT :" + t(), b"QUIT bye"])
        if cmd == "SERVER":
            if any(s.passw == b"services=" + pw for pw in self.svcpw):
                return b"SERVER x"  # would succeed: the session would become a link that then sends client lines
            return r.choice([b"SERVER services.example 1 :Services", b"SERVER x", b"SERVER a b c"])
        if cmd == "JOIN":
            n = r.choices([1, 2, 3], [8, 2, 1])[0]
            cs = [self._anychan() for _ in range(n)]
            ks = []
            if r.random() < 0.45:
                for c in cs:
                    k = r.random()
                    lc = chan_to_lower(c)
                    if k < 0.45 and lc in self.keys:
                        ks.append(self.keys[lc])
                    elif k < 0.6:
                        ks.append(r.choice([b"wrong", b"k", b"x"]))
                    else:
                        ks.append(self._token(cmd=b"join", arg=c))
            for c in cs:
                if is_valid_chan(c):
                    s.chans.add(chan_to_lower(c))
            line = b"JOIN " + b",".join(cs)
            if ks:
                line += b" " + b",".join(ks)
            return line
        if cmd == "PART":
            cs = [self._anychan(s) for _ in range(r.choices([1, 2], [5, 1])[0])]
            for c in cs:
                s.chans.discard(chan_to_lower(c))
            return b"PART " + b",".join(cs) + (b" :" + t() if r.random() < 0.3 else b"")
        if cmd == "KICK":
            return b"KICK %s %s" % (self._anychan(s), self._anynick()) + (b" :" + t() if r.random() < 0.6 else b"")
        if cmd == "MODE":
            k = r.random()
            if k < 0.12:
                return b"MODE " + r.choice([self._anychan(s), self._anynick(), s.nick or b"x"])
            if k < 0.22:
                tgt = s.nick if r.random() < 0.7 and s.nick else self._anynick()
                return b"MODE %s %s" % (tgt, r.choice([b"+i", b"-i", b"+G", b"-G", b"+iG", b"+o", b"+r", b"i",
                                                      # non-ASCII user modes, also many of them (the echo is long)
                                                      b"+\xc3\xbc", b"+i\xe2\x82\xacG", b"-\xf0\x9f\x98\x80", b"+" + b"\xc3\xa9" * r.randint(2, 240),
                                                      b"+i" + b"\xe2\x82\xac" * r.randint(40, 100)]))
            c = self._anychan(s)
            if r.random() < 0.15:
                # compound mode strings: several changes in one command, a parameterless list query first / in the middle
                n = r.randint(2, 5)
                ms, params, sign = b"", [], b""
                for _ in range(n):
                    sg = r.choice([b"+", b"-", b""])
                    if sg and sg != sign:
                        ms += sg; sign = sg
                    ch = r.choice(b"itnsxkobbz")
                    ms += bytes([ch])
                    if ch in b"ko" and r.random() < 0.8:
                        params.append(self._anynick() if ch == ord("o") else b"sesame")
                    elif ch == ord("b") and r.random() < 0.4:
                        params.append(r.choice(BAN_MASKS))
                if r.random() < 0.5:
                    ms = r.choice([b"+b", b"b", b"+b-"]) + ms.lstrip(b"+") if not ms.startswith(b"-") else b"+b" + ms
                return b"MODE %s %s" % (c, b" ".join([ms] + params))
            k = r.random()
            if k < 0.25:
                m = r.choice([b"+t", b"-t", b"+s", b"-s", b"+i", b"-i", b"+n", b"-n", b"+x", b"-x", b"+tn", b"-t+s", b"+z", b"+1",
                              # non-ASCII mode characters: Go walks the mode string by runes and answers string(byte)
                              b"+\xc3\xbc", b"+t\xc3\xbci", b"-\xe2\x82\xac", b"+\xf0\x9f\x98\x80s", b"\xc3\xa9", b"+b\xc3\xbc"])
                return b"MODE %s %s" % (c, m)
            if k < 0.4:
                if r.random() < 0.7:
                    key = r.choice([b"sesame", b"k", b"\xc3\xa4key"])
                    self.keys[chan_to_lower(c)] = key
                    return b"MODE %s +k %s" % (c, key)
                return b"MODE %s %s" % (c, r.choice([b"-k", b"-k x", b"+k"]))
            if k < 0.65:
                return b"MODE %s %s %s" % (c, r.choice([b"+o", b"-o", b"+o", b"+v"]), self._anynick())
            if k < 0.93:
                mask = r.choice(BAN_MASKS)
                if r.random() < 0.25:
                    tgt = r.choice(self.sess)
                    mask = r.choice([b"*!*@robust/0x%x" % tgt.sid, (tgt.nick or b"x") + b"!*@*", b"*!*@" + tgt.ra] + self._ref_masks(tgt))
                return b"MODE %s %s" % (c, r.choice([b"+b ", b"+b ", b"-b "]) + mask) if r.random() < 0.9 else b"MODE %s +b" % c
            return b"MODE %s %s %s %s" % (c, r.choice([b"+ob", b"+kb", b"-o+o", b"+bb"]), self._anynick(), r.choice(BAN_MASKS))
        if cmd == "TOPIC":
            c = self._anychan(s)
            k = r.random()
            if k < 0.25:
                return b"TOPIC " + c
            if k < 0.45:
                return b"TOPIC %s :" % c
            return b"TOPIC %s :%s" % (c, t()) if r.random() < 0.85 else b"TOPIC %s %s" % (c, r.choice([b"word", b"a b"]))
        if cmd == "INVITE":
            return b"INVITE %s %s" % (self._anynick(), self._anychan(s))
        if cmd in ("PRIVMSG", "NOTICE"):
            k = r.random()
            c = cmd.encode() if r.random() < 0.95 else cmd.lower().encode()
            if k < 0.55:
                tgt = self._anychan(s)
            elif k < 0.9:
                tgt = self._anynick()
            elif k < 0.95:
                tgt = r.choice([b"$*", b"$all"])
            else:
                return r.choice([c, c + b" " + self._anynick(), c + b" :" + t()])
            return b"%s %s :%s" % (c, tgt, t()) if r.random() < 0.9 else b"%s %s %s" % (c, tgt, r.choice([b"word", b"two words"]))
        if cmd == "WHOIS":
            return b"WHOIS " + (self._anynick() if r.random() < 0.9 else r.choice([b":", b"", b"a b"]))
        if cmd == "WHO":
            return r.choice([b"WHO", b"WHO " + self._anychan(s), b"WHO " + self._anynick()])
        if cmd == "NAMES":
            return r.choice([b"NAMES", b"NAMES " + self._anychan(s)])
        if cmd == "LIST":
            return r.choice([b"LIST", b"LIST " + self._anychan(s), b"LIST %s,%s" % (self._anychan(), self._anychan()), b"LIST :"])
        if cmd == "ISON":
            return b"ISON " + b" ".join(self._anynick() for _ in range(r.randint(1, 4)))
        if cmd == "USERHOST":
            return b"USERHOST " + b" ".join(self._anynick() for _ in range(r.randint(1, 3)))
        if cmd == "AWAY":
            return r.choice([b"AWAY", b"AWAY :", b"AWAY :" + t(), b"AWAY :  "])
        if cmd == "PING":
            return r.choice([b"PING", b"PING x", b"PING :" + t(), b"ping lower", b"PING " + self.net])
        if cmd == "MOTD":
            return b"MOTD"
        if cmd == "OPER":
            if self.opers and r.random() < 0.6:
                n, p = r.choice(self.opers)
                if b" " not in p:
                    s.oper = s.reg
                return b"OPER %s %s" % (n, p) if b" " not in p else b"OPER %s :%s" % (n, p)
            n0 = self.opers[0][0] if self.opers else b"root"
            return r.choice([b"OPER root wrong", b"OPER x", b"OPER", b"OPER a b c",
                             # empty / missing passwords and names, configured and unconfigured names
                             b"OPER nobody :", b"OPER nobody ", b"OPER  ", b"OPER :", b"OPER : :", b"OPER %s :" % n0, b"OPER %s" % n0,
                             b"OPER %s  " % n0, b"OPER :%s" % n0, b"oper %s :" % n0.upper()])
        if cmd in ("KILL", "GLINE"):
            return b"%s %s :%s" % (cmd.encode(), self._anynick(), t()) if r.random() < 0.9 else b"%s %s" % (cmd.encode(), self._anynick())
        if cmd == "KNOCK":
            return r.choice([b"KNOCK " + self._anychan(), b"KNOCK %s :%s" % (self._anychan(), t()), b"KNOCK %s let me in" % self._anychan()])
        if cmd == "ALIAS":
            a = r.choice([b"NS", b"CS", b"NICKSERV", b"CHANSERV", b"OPERSERV", b"MEMOSERV", b"HOSTSERV", b"BOTSERV", b"OS", b"MS",
                          b"HS", b"BS", b"ns"])
            return r.choice([a + b" IDENTIFY pw", a, a + b" :" + t(), a + b" REGISTER #chan x"])
        if r.random() < 0.5:  # services commands from a client (must have no effect)
            n = self._anynick()
            return r.choice([b"SVSNICK %s Guest99999" % n, b"SVSJOIN %s %s" % (n, self._anychan()), b"SVSHOLD %s 60 :held" % n,
                             b"SVSMODE %s +r" % n, b"SVSPART %s %s" % (n, self._anychan(s)), b"SVSHOLD " + n,
                             b":%s KILL %s :x" % (n, n), b"NICK Fake 1 1 u h s 0 :x" if not s.reg else b"SVSMODE %s +d 5" % n])
        return r.choice([x.encode() for x in OTHER_COMMANDS]) + r.choice([b"", b" x", b" :y"])

    # ---- services lines (inside conforming_server_line unless self.nonconforming)
    def server_line(self):
        r = self.rng
        t = self._text
        pfx = lambda: b":" + (r.choice(self.pseudo) if self.pseudo and r.random() < 0.9 else
                              r.choice([b"services.example", b"Ghost", self._anynick() or b"Ghost"])) + b" "
        cmd = r.choices(["JOIN", "PART", "KICK", "MODE", "TOPIC", "PRIVMSG", "NOTICE", "INVITE", "SVSJOIN", "SVSPART", "SVSNICK",
                         "SVSMODE", "SVSHOLD", "PING", "KILL", "NICK", "QUIT1", "QUITALL"],
                        [10, 5, 4, 7, 5, 8, 3, 3, 7, 4, 4, 4, 3, 2, 3, 4, 2, 0.5])[0]
        if self.nonconforming and r.random() < 0.4:
            c = r.choice(SERVER_COMMANDS).encode()
            ps = [r.choice([self._anynick(), self._anychan(), b"", b"1", t()]) for _ in range(r.randint(0, 4))]
            return (pfx() if r.random() < 0.5 else b"") + b" ".join([c] + ps)
        if cmd == "JOIN":
            return pfx() + b"JOIN " + b",".join(self._anychan() for _ in range(r.choices([1, 2], [6, 1])[0]))
        if cmd == "PART":
            return pfx() + b"PART " + self._anychan()
        if cmd == "KICK":
            return pfx() + b"KICK %s %s :%s" % (self._anychan(), self._anynick(), t())
        if cmd == "MODE":
            c = self._anychan()
            return pfx() + r.choice([b"MODE %s +o %s" % (c, self._anynick()), b"MODE %s -o %s" % (c, self._anynick()),
                                     b"MODE %s %s" % (c, r.choice([b"+t", b"-t", b"+r", b"+s", b"-s", b"+i", b"-i", b"+z"])),
                                     b"MODE " + c])
        if cmd == "TOPIC":
            return pfx() + b"TOPIC %s %s %d :%s" % (self._anychan(), self._anynick() or b"x",
                                                     r.choice([0, 1422134861, r.randint(0, 2 * 10 ** 9)]), t()) \
                if not self.nonconforming or r.random() < 0.92 else pfx() + b"TOPIC %s x notanumber :%s" % (self._anychan(), t())
        if cmd in ("PRIVMSG", "NOTICE"):
            k = r.random()
            if k < 0.05:
                return pfx() + cmd.encode()
            return pfx() + b"%s %s :%s" % (cmd.encode(), self._anychan() if k < 0.5 else self._anynick(), t())
        if cmd == "INVITE":
            return pfx() + b"INVITE %s %s" % (self._anynick(), self._anychan())
        if cmd == "SVSJOIN":
            return pfx() + b"SVSJOIN %s %s" % (self._anynick(), self._anychan())
        if cmd == "SVSPART":
            return pfx() + b"SVSPART %s %s" % (self._anynick(), self._anychan())
        if cmd == "SVSNICK":
            self.guest += 1
            new = b"Guest%d" % (10000 + self.guest)
            if r.random() < 0.1:
                new = r.choice(BAD_NICKS[:4])  # answered with 432
            tgts = [s for s in self.sess if s.nick and not s.is_link]
            if tgts and r.random() < 0.85:
                tg = r.choice(tgts)
                old = tg.nick
                if is_valid_nick(new):
                    tg.nick = new
            else:
                old = r.choice([b"nobody", b"Nobody2"])
            return b"SVSNICK %s %s :%d" % (old, new, self.ts // SEC)
        if cmd == "SVSMODE":
            return b"SVSMODE %s %s" % (self._anynick(), r.choice([b"+r", b"-r", b"+d 12345", b"+d 0", b"+rd 7", b"r", b"+x"]))
        if cmd == "SVSHOLD":
            # durations are plain decimal seconds (what anope sends); anything else only when nonconforming
            return r.choice([b"SVSHOLD %s %d :%s" % (r.choice(self.nicks), r.choice([30, 60, 3600, 0]), t()),
                             b"SVSHOLD " + r.choice(self.nicks),
                             b"SVSHOLD %s %s :bad" % (r.choice(self.nicks), b"abc" if self.nonconforming else b"120")])
        if cmd == "PING":
            return r.choice([b"PING services.example", b"PING"])
        if cmd == "KILL":
            return pfx() + b"KILL %s :%s" % (self._anynick(), t()) if r.random() < 0.9 else b"KILL " + self._anynick()
        if cmd == "NICK":
            if r.random() < 0.15:
                return b"NICK " + self._anynick()
            n = r.choice(PSEUDO_POOL + [b"Bot1", b"Foo[1]"])
            if n not in self.pseudo and nick_to_lower(n) not in [nick_to_lower(x.nick) for x in self.sess if x.nick]:
                lim = (self.cfg or {}).get("maxs") or 0
                if lim and not self.nonconforming:
                    return b"PING limit"  # D8 territory: services NICK at the session limit is kept for the D8 corpus case
                self.pseudo.append(n)
            return b"NICK %s 1 %d %s services.example services.example 0 :%s" % (n, self.ts // SEC, r.choice([b"services", b"svc"]), t())
        if cmd == "QUIT1" and self.pseudo:
            p = r.choice(self.pseudo)
            self.pseudo.remove(p)
            return b":%s QUIT :%s" % (p, t())
        if cmd == "QUITALL":
            self._end(self.link)
            return b"QUIT :%s" % t()
        return b"PING x"

    # ---- building blocks
    def _register(self, s, with_pass=None):
        """returns the list of lines that register s"""
        r = self.rng
        lines = []
        if with_pass is not None:
            lines.append(b"PASS " + with_pass)
        elif r.random() < 0.15:
            lines.append(self.client_line(s, "PASS"))
        avail = [n for n in self.nicks if nick_to_lower(n) not in [nick_to_lower(x.nick) for x in self.sess if x.nick]]
        n = r.choice(avail) if avail else b"N%d" % s.sid
        a = [b"NICK " + n, b"USER %s 0 * :%s" % (r.choice([b"u%d" % s.sid, b"user", b"\xc3\xbc"]), r.choice([b"Real", b"R N", b""]))]
        if r.random() < 0.3:
            a.reverse()
        s.nick, s.user, s.reg = n, b"u", True
        return lines + a

    def _setup(self, nclients, want_link, want_oper, cfgprob=0.85, expire=None):
        r = self.rng
        if r.random() < cfgprob or want_link or want_oper or expire is not None:
            cfg = self._config(expire)
            if want_oper and not cfg["ops"]:
                cfg["ops"] = [(b"root", b"hunter2")]
            if want_link and not cfg["svc"]:
                cfg["svc"] = [b"svcpass"]
            if cfg.get("maxs") and cfg["maxs"] < nclients + 6:
                cfg["maxs"] = nclients + r.randint(1, 7)
            if cfg.get("caplogin") and r.random() < 0.7:
                cfg["caplogin"] = False  # keep most cases able to log in
            self._F(cfg)
        queues = []
        for _ in range(nclients):
            s = self._C()
            if s is None:
                continue
            k = r.random()
            if k < 0.08:
                q = [b"NICK " + r.choice(self.nicks)]  # stays unregistered
                s.nick = b""
            elif k < 0.12:
                q = []
            else:
                wp = None
                if self.cfg and self.cfg.get("caplogin"):
                    wp = b"captcha=" + self._token("ok", b"login")
                q = self._register(s, wp)
            queues.append((s, q))
        if want_link:
            s = self._C("link")
            if s is not None:
                s.is_link = True
                self.link = s
                q = [b"PASS services=" + r.choice(self.svcpw), b"SERVER services.example 1 :Services"]
                for n in r.sample(PSEUDO_POOL, r.randint(2, 4)):
                    q.append(b"NICK %s 1 %d services services.example services.example 0 :%s" % (n, self.ts // SEC, n))
                    self.pseudo.append(n)
                queues.append((s, q))
        # interleave, preserving per-session order
        while any(q for _, q in queues):
            s, q = r.choice([x for x in queues if x[1]])
            self._M(s, q.pop(0))
        regs = self._alive(True)
        if want_oper and regs and self.opers:
            o = r.choice(regs)
            n, p = self.opers[0]
            self._M(o, b"OPER %s %s" % (n, p) if b" " not in p else b"OPER %s :%s" % (n, p))
            o.oper = True
        # joins: >= 3 members in the busiest channel
        busy = self.chans[0]
        for k, s in enumerate(regs):
            if k < 3 or r.random() < 0.5:
                self._M(s, b"JOIN " + busy)
                s.chans.add(chan_to_lower(busy))
            for c in r.sample(self.chans[1:], r.randint(0, min(2, len(self.chans) - 1))):
                self._M(s, b"JOIN " + c)
                s.chans.add(chan_to_lower(c))
        if self.link:
            for p in self.pseudo:
                if r.random() < 0.6:
                    self._M(self.link, b":%s JOIN %s" % (p, r.choice(self.chans)))

    # ---- directed scenes: short scripted-but-randomised exchanges that reach the gates the properties are about
    def _cast(self):
        """(channel, its creator/op, another member, an outsider) according to the generator's world; None if impossible"""
        r = self.rng
        regs = self._alive(True)
        if len(regs) < 3:
            return None
        c = r.choice(self.chans)
        lc = chan_to_lower(c)
        ins = [s for s in regs if lc in s.chans]
        outs = [s for s in regs if lc not in s.chans]
        if not ins:
            o = r.choice(regs)
            self._M(o, b"JOIN " + c)
            o.chans.add(lc)
            ins, outs = [o], [s for s in regs if s is not o]
        o = ins[0]
        if len(ins) < 2 and len(outs) >= 2:
            m = outs.pop(0)
            self._M(m, b"JOIN " + c)
            m.chans.add(lc)
            ins.append(m)
        m = ins[1] if len(ins) > 1 else o
        if not outs:
            return None
        x = r.choice(outs)
        return c, o, m, x

    SCENES = ["topic", "captcha", "gates", "privs", "oper", "services", "limits", "holds", "quitlink", "latelink", "reincarnate",
              "away", "invisible", "manychans", "banlist", "prereg", "prefixed", "banrefs", "roamban", "shortlines", "svclists"]

    def _ref_masks(self, tgt):
        """ban masks around the session reference robust/0x<id> (resolveSessionToRemoteAddr): behind text whose case mappings
        have other lengths, with trailing text, unparsable / unknown / out-of-range ids, underscores (ParseInt base 0),
        upper-case hex"""
        r = self.rng
        return [b"\xc8\xba" * r.randint(5, 12) + b"!*@robust/0x%x" % tgt.sid, b"\xc4\xb0\xc4\xb0*!*@robust/0x%x" % tgt.sid,
                b"*!*@robust/0x%x*" % tgt.sid, b"*!*@robust/0xzz", b"*!*@robust/0x", b"*!*@robust/0x%x" % (tgt.sid + 977),
                b"*!*@robust/0x8000000000000000", b"*!*@robust/0xffffffffffffffff", b"*!*@robust/0x%X" % tgt.sid,
                b"*!*@robust/0x_%x" % tgt.sid, b"*!*@ROBUST/0x%x" % tgt.sid, b"robust/0x%x" % tgt.sid,
                b"*!*@robust/0x%x" % tgt.sid, b"\xe1\xba\x9e!*@robust/0x%x" % tgt.sid]

    def scene(self, name=None):
        r = self.rng
        if name is None:
            # every kind of scene gets its turn (detection must not depend on which scenes a run happens to draw)
            if not getattr(self, "_scene_queue", None):
                self._scene_queue = list(self.SCENES)
                r.shuffle(self._scene_queue)
            name = self._scene_queue.pop()
        cast = self._cast()
        if cast is None:
            return
        c, o, m, x = cast
        lc = chan_to_lower(c)
        M = self._M
        t = self._text
        if name == "roamban":
            # a ban on a session reference is resolved to the address the session has AT THAT MOMENT; the session roams, the
            # ban is lifted and set again (anything that remembers the resolved pattern per mask goes stale); sessions
            # from the old and from the new address try to join in between
            mask = b"*!*@robust/0x%x" % x.sid
            old_ra = x.ra
            M(o, b"MODE %s +b %s" % (c, mask))
            y = self._C()
            if y is not None:
                y.ra = old_ra
                for l in self._register(y):
                    M(y, l)
                M(y, b"JOIN " + c)
            M(o, b"MODE %s -b %s" % (c, mask))
            x.ra = r.choice([b"10.0.9.%d" % r.randint(1, 9), b"2001:db8:9::%x" % r.randint(1, 9)])
            M(x, b"PING :roamed")
            M(o, b"MODE %s +b %s" % (c, mask))
            M(o, b"MODE %s +b" % c)
            if y is not None:
                M(y, b"JOIN " + c)
                M(y, b"PART " + c)
            z = self._C()
            if z is not None:
                z.ra = x.ra
                for l in self._register(z):
                    M(z, l)
                M(z, b"JOIN " + c)
            M(x, b"JOIN " + c)
        elif name == "shortlines":
            # truncated commands: every prefix of 1-3 bytes of a command word, in both cases, alone and with a parameter
            words = CLIENT_COMMANDS + SERVER_COMMANDS + ["PONG", "CAP"]
            for _ in range(r.randint(10, 25)):
                w = r.choice(words).encode()
                w = w[:r.randint(1, 3)]
                if r.random() < 0.5:
                    w = w.lower()
                who = r.choice([x, o, m])
                M(who, w + r.choice([b"", b"", b" ", b" x", b" :"]))
            ns = self._C()
            if ns is not None:
                for w in r.sample([b"P", b"p", b"PI", b"pi", b"PIN", b"PA", b"PAS", b"N", b"NI", b"U", b"US", b"Q", b"QU", b"J"], 5):
                    M(ns, w)
        elif name == "svclists" and self.link and self.link.alive and self.pseudo:
            # server-to-server JOIN / PART with channel LISTS (consecutive entries the subject is in, entries it is not in,
            # duplicates, channels that do not exist yet) — with members that share only one of the channels
            L = self.link
            p1 = r.choice(self.pseudo)
            c2 = r.choice([ch for ch in self.chans if chan_to_lower(ch) != lc] or [b"#second"])
            c3 = b"#svc%d" % r.randint(1, 3)
            M(x, b"JOIN " + c2)
            if r.random() < 0.5:
                cfg = dict(self.cfg or self._config())
                cfg["maxc"] = len(set(chan_to_lower(ch) for s_ in self.sess for ch in s_.chans)) + r.randint(0, 2)
                self._F(cfg)
            M(L, b":%s JOIN %s,%s" % (p1, c, c2))
            M(L, b":%s JOIN %s,#svcnew%d,#svcnew%d" % (p1, c3, r.randint(1, 2), r.randint(3, 4)))
            M(L, b":%s PRIVMSG %s :hello" % (p1, c2))
            M(L, b":%s PART %s" % (p1, b",".join(r.sample([c, c2, c3, b"#nowhere", c2], r.randint(2, 4)))))
            M(m, b"NAMES " + c)
            M(x, b"NAMES " + c2)
            M(L, b":%s PART %s,%s" % (p1, c, c2))
            M(L, b":%s JOIN %s,%s" % (p1, c2, c))
            M(L, b":%s PART %s,%s :bye" % (p1, c2, c))
            if r.random() < 0.6:
                # the channel limit around the number of channels that exist (the generator only knows it approximately, so
                # it walks the limit upwards): a list of new channels crosses the limit INSIDE one services command
                est = len(set(chan_to_lower(ch) for s_ in self.sess for ch in s_.chans))
                for k in range(max(1, est - 1), est + 4):
                    cfg = dict(self.cfg or self._config())
                    cfg["maxc"] = k
                    self._F(cfg)
                    M(L, b":%s JOIN #lim%da,#lim%db,#lim%dc" % (p1, k, k, k))
                    M(L, b":%s PART #lim%da,#lim%db,#lim%dc" % (p1, k, k, k))
        elif name == "banrefs":
            if r.random() < 0.35:
                # the address a session reference resolves to is spliced into the ban's regular expression as it is: an
                # address that is not a valid expression (X-Forwarded-For of a trusted bridge) must be answered, not crash
                x.ra = r.choice([b"[fe80::1%br-lan]", b"10.0.0.1(", b"a[b", b"*", b"x+?", b"\\", b"(?i)x", b"a{2,1}", b"[z-a]", b"(?P<n"])
                M(x, b"PING :elsewhere")
            masks = self._ref_masks(x)
            r.shuffle(masks)
            for mask in masks[:r.randint(5, len(masks))]:
                M(o, b"MODE %s +b %s" % (c, mask))
                if r.random() < 0.4:
                    M(x, b"JOIN " + c)
                    M(x, b"PART " + c)
                if r.random() < 0.6:
                    M(o, b"MODE %s -b %s" % (c, mask))
            M(o, b"MODE %s +b" % c)
            M(x, b"JOIN " + c)
        elif name == "banlist":
            # several bans, among them masks that differ only in case, then the list is asked for (more than once: with
            # an order that is left to chance the answers of the replicas differ)
            for mask in r.sample(BAN_MASKS, r.randint(3, 7)) + r.sample([b"Alice!*@*", b"ALICE!*@*", b"alice!*@*"], 2):
                M(o, b"MODE %s +b %s" % (c, mask))
            M(o, b"MODE %s +b" % c)
            M(m, r.choice([b"MODE %s +b" % c, b"MODE %s b" % c]))
            if r.random() < 0.5:
                M(o, b"MODE %s -b %s" % (c, r.choice(BAN_MASKS)))
                M(x, b"MODE %s +b" % c)
        elif name == "prereg":
            # sessions that end before their registration is complete: with a nickname but no USER, with USER only,
            # with neither; by QUIT and by DeleteSession (expiry, DELETE, /kill take that path); the nickname must be free
            # again and nothing may be addressed to the ended session afterwards
            ns = self._C()
            if ns is not None:
                nick = r.choice([n for n in self.nicks if not any(z.alive and z.nick and nick_to_lower(z.nick) == nick_to_lower(n) for z in self.sess)] or [b"Fresh1"])
                how = r.choice(["nick", "nick", "user", "none", "pass", "nick2", "nick2"])
                if how == "nick2":
                    # the same nickname in two spellings (case, []\\ vs {}|) before the registration completes, then USER: the
                    # session must own exactly one index entry, and nobody else may get a third spelling
                    sp = self._scramble(nick)
                    M(ns, b"NICK " + nick)
                    M(ns, b"NICK " + (sp if sp != nick else nick.swapcase()))
                    if r.random() < 0.6:
                        M(ns, b"USER u 0 * :r")
                    M(o, b"WHOIS " + nick)
                    M(x, b"NICK " + self._scramble(nick))
                    M(o, b"PRIVMSG %s :which one" % nick)
                elif how == "nick":
                    M(ns, b"NICK " + nick)
                elif how == "user":
                    M(ns, b"USER u 0 * :r")
                elif how == "pass":
                    M(ns, b"PASS x"); M(ns, b"NICK " + nick)
                if r.random() < 0.5:
                    M(ns, r.choice([b"QUIT", b"QUIT :gone", b"QUIT :"]))
                else:
                    self._D(ns)
                M(x, b"NICK " + nick)
                M(o, b"PRIVMSG %s :are you there" % nick)
                if x.oper or r.random() < 0.3:
                    M(o, b"NOTICE $* :to all")
                M(x, b"NICK " + (x.nick or b"x2"))
        elif name == "prefixed":
            # client lines that carry a prefix (the prefix of a client line is ignored; only services links are believed)
            pfx = r.choice([b"NickServ", b"NickServ!services@services", m.nick or b"m", (m.nick or b"m") + b"!u@h", b"robustirc.net", b"x!y@z"])
            M(x, b":%s PRIVMSG %s :%s" % (pfx, r.choice([c, o.nick or b"o", m.nick or b"m"]), t()))
            M(o, b":%s PRIVMSG %s :%s" % (pfx, c, t()))
            M(o, b":%s NOTICE %s :%s" % (pfx, m.nick or b"m", t()))
            M(m, b":%s TOPIC %s :%s" % (pfx, c, t()))
            M(x, b":%s JOIN %s" % (pfx, c))
            M(x, b":%s NICK %s" % (pfx, r.choice(self.nicks)))
            M(o, b":%s KICK %s %s" % (pfx, c, m.nick or b"m"))
        elif name == "topic":
            if r.random() < 0.6:
                M(o, b"MODE %s -t" % c)
            M(o, b"TOPIC %s :%s" % (c, t()))
            M(x, r.choice([b"TOPIC %s :" % c, b"TOPIC %s :%s" % (c, t()), b"TOPIC " + c]))
            M(m, r.choice([b"TOPIC %s :" % c, b"TOPIC %s :%s" % (c, t())]))
            M(x, b"TOPIC %s :" % c)
        elif name == "captcha":
            if not (self.cfg and self.cfg.get("caphmac") and self.cfg.get("capurl")):
                cfg = dict(self.cfg or self._config())
                cfg["caphmac"], cfg["capurl"] = self.secret, b"http://captcha.example"
                self._F(cfg)
            M(o, b"MODE %s +x" % c)
            self._captcha_n = getattr(self, "_captcha_n", 0) + 1
            both = self._captcha_n % 2 == 0          # alternate: +x alone first, then +i and +x
            if both:
                # both gates: a solved captcha does not replace the invitation
                M(o, b"MODE %s +i" % c)
                M(x, b"JOIN %s %s" % (c, self._token("ok", cmd=b"join", arg=c)))
                M(x, b"PART " + c)
            if not both:
                # a walk through ALL malformed purposes (the captcha test is only reached when nothing else refuses the JOIN)
                order = list(range(12))
                r.shuffle(order)
                for i_ in order:
                    M(x, b"JOIN %s %s" % (c, self._token("shape", cmd=b"join", arg=c, shape=i_)))
            if not both and r.random() < 0.4:
                M(o, b"MODE %s +b %s" % (c, r.choice([(x.nick or b"x") + b"!*@*", b"*!*@" + x.ra, b"*!*@robust/0x%x" % x.sid, b"*!*@*"])))
            if not both and r.random() < 0.3:
                self.keys[lc] = b"sesame"
                M(o, b"MODE %s +k sesame" % c)
            M(x, b"JOIN " + c)
            kinds = r.sample(["replayed", "expired", "mutated", "garbage", "shape", "shape"], r.randint(1, 4)) + [r.choice(["ok", "future", "ok"])]
            if r.random() < 0.3:
                r.shuffle(kinds)
            for kd in kinds:
                M(x, b"JOIN %s %s" % (c, self._token(kd, cmd=b"join", arg=c)), big=r.random() < 0.15)
                if r.random() < 0.3:
                    M(x, b"PART " + c)
            if r.random() < 0.4:
                M(o, b"INVITE %s %s" % (x.nick or b"x", c))
                M(x, b"JOIN " + c)
            x.chans.add(lc)
        elif name == "gates":
            gate = r.choice(["i", "k", "b", "ik", "ib", "kb"])
            if "i" in gate:
                M(o, b"MODE %s +i" % c)
            if "k" in gate:
                self.keys[lc] = b"sesame"
                M(o, b"MODE %s +k sesame" % c)
            if "b" in gate:
                M(o, b"MODE %s +b %s" % (c, r.choice([(x.nick or b"x") + b"!*@*", b"*!*@" + x.ra, b"*!*@robust/0x%x" % x.sid,
                                                         go_tolower(x.nick or b"x") + b"*"])))
            M(x, b"JOIN " + c)
            M(x, b"JOIN %s %s" % (c, r.choice([b"sesame", b"Sesame", b"wrong"])))
            if r.random() < 0.7:
                M(r.choice([o, m]), b"INVITE %s %s" % (x.nick or b"x", c))
                M(x, b"JOIN %s %s" % (c, r.choice([b"sesame", b"", b"wrong"])))
                M(x, b"PART " + c)
                M(x, b"JOIN %s sesame" % c)
            if "b" in gate and r.random() < 0.5:
                M(o, b"MODE %s +b" % c)
            x.chans.add(lc)
        elif name == "privs":
            M(m, r.choice([b"MODE %s +o %s" % (c, m.nick or b"m"), b"KICK %s %s :out" % (c, o.nick or b"o"), b"MODE %s +b *!*@*" % c,
                           b"MODE %s -t" % c, b"MODE %s +k stolen" % c, b"MODE %s +b-i" % c, b"MODE %s +b-t+s" % c, b"MODE %s b+o %s" % (c, m.nick or b"m"),
                           b"MODE %s +bk stolen" % c]))
            M(x, r.choice([b"MODE %s +o %s" % (c, x.nick or b"x"), b"KICK %s %s" % (c, m.nick or b"m"), b"MODE %s +i" % c,
                           b"INVITE %s %s" % (x.nick or b"x", c)]))
            M(o, b"MODE %s +o %s" % (c, m.nick or b"m"))
            if r.random() < 0.5:
                new = r.choice(self.nicks)
                M(m, b"NICK " + new)
            M(m, r.choice([b"KICK %s %s :bye" % (c, o.nick or b"o"), b"MODE %s +s" % c, b"MODE %s -o %s" % (c, o.nick or b"o")]))
            M(o, b"MODE %s -o %s" % (c, m.nick or b"m"))
            M(m, b"PART " + c)
            M(m, b"JOIN " + c)
            M(m, b"MODE %s +o %s" % (c, m.nick or b"m"))
        elif name == "oper":
            if r.random() < 0.6:
                # two operators with different passwords: only the configured PAIRS are credentials (not a configured name with
                # another operator's password, nor prefixes, case variants, swapped order)
                cfg = dict(self.cfg or self._config())
                cfg["ops"] = [(b"root", b"hunter2"), (b"admin", b"pw")]
                self._F(cfg)
                for line in r.sample([b"OPER root pw", b"OPER admin hunter2", b"OPER hunter2 root", b"OPER pw admin", b"OPER Root hunter2",
                                      b"OPER root Hunter2", b"OPER roo hunter2", b"OPER root hunter", b"OPER root hunter22", b"OPER admin :pw ",
                                      b"OPER rootadmin hunter2pw", b"OPER root :hunter2 pw", b"OPER root,admin hunter2"], 6):
                    M(x, line)
                    M(x, r.choice([b"KILL %s :crossed" % (m.nick or b"m"), b"NOTICE $* :crossed", b"GLINE %s :crossed" % (m.nick or b"m")]))
                M(m, r.choice([b"OPER admin pw", b"OPER root hunter2"]))
                m.oper = m.reg
            M(x, r.choice([b"KILL %s :no" % (m.nick or b"m"), b"GLINE %s :no" % (m.nick or b"m"), b"NOTICE $* :hello all"]))
            ops = [s for s in self._alive(True) if s.oper]
            if ops:
                op = ops[0]
                M(op, r.choice([b"GLINE %s :spam" % (x.nick or b"x"), b"KILL %s :bye" % (x.nick or b"x"), b"NOTICE $* :maintenance",
                                b"MODE %s +i" % (m.nick or b"m"), b"MODE %s +t" % c]))
                M(x, b"PRIVMSG %s :still here?" % c)
                ns = self._C()
                if ns is not None:
                    ns.ra = x.ra
                    for l in self._register(ns):
                        M(ns, l)
        elif name == "services" and self.link and self.link.alive and self.pseudo:
            L = self.link
            p1 = r.choice(self.pseudo)
            c2 = r.choice(self.chans)
            M(L, b":%s JOIN %s" % (p1, c))
            M(L, b":%s JOIN %s" % (p1, c2))
            M(L, b":%s MODE %s +o %s" % (p1, c, m.nick or b"m"))
            M(L, b":%s SVSJOIN %s %s" % (p1, x.nick or b"x", c))
            if r.random() < 0.5:
                M(o, b"MODE %s -t" % c)
            M(L, b":%s KICK %s %s :akick" % (p1, self._scramble(c) if r.random() < 0.6 else c, m.nick or b"m"))
            M(m, b"TOPIC %s :set by somebody who was just kicked" % c)     # no longer on the channel
            M(m, b"NICK %s" % r.choice(self.nicks))                          # must not be announced to the channel
            M(L, b":%s PART %s" % (p1, c2))
            M(L, b":%s SVSPART %s %s" % (p1, x.nick or b"x", c))
            M(L, b":%s PRIVMSG %s :%s" % (p1, r.choice([c, x.nick or b"x"]), t()))
            M(x, b"PRIVMSG %s :identify pw" % p1)
            M(L, b"SVSMODE %s +r" % (x.nick or b"x"))
            M(L, b":%s TOPIC %s :" % (p1, c))                       # unset the topic (two parameters)
            M(L, b":%s TOPIC %s %s 1422134861 :%s" % (p1, c, p1, t()))
            M(L, r.choice([b":%s KILL %s" % (p1, x.nick or b"x"), b"SVSHOLD %s" % (m.nick or b"m"), b":%s INVITE %s %s" % (p1, x.nick or b"x", c)]))
        elif name == "limits":
            cfg = dict(self.cfg or self._config())
            k = r.random()
            if k < 0.5:
                cfg["maxc"] = r.randint(1, 3)
            else:
                cfg["maxs"] = len([s for s in self.sess if s.alive]) + len(self.pseudo) + r.randint(0, 1)
            self._F(cfg)
            M(x, b"JOIN #brandnew%d" % r.randint(1, 3))
            # one JOIN naming several channels that do not exist yet: the limit is crossed INSIDE the message
            M(m, b"JOIN " + b",".join(b"#multi%d%s" % (r.randint(1, 9), bytes([97 + n_])) for n_ in range(r.randint(2, 5))))
            if self.link and self.link.alive and self.pseudo:
                M(self.link, b":%s SVSJOIN %s #other%d" % (self.pseudo[0], x.nick or b"x", r.randint(1, 3)))
                M(self.link, b":%s JOIN #third" % self.pseudo[0])
                M(self.link, b":%s JOIN #fourth,#fifth,#sixth" % self.pseudo[0])
            self._C()
            self._C()
        elif name == "holds" and self.link and self.link.alive:
            n = r.choice(self.nicks)
            n2 = r.choice([q for q in self.nicks if q != n] or [b"Held2"])
            M(self.link, b"SVSHOLD %s %d :%s" % (n2, r.choice([30, 3600]), r.choice([b"", b" "]) if r.random() < 0.8 else b"x"))
            M(x, b"NICK " + n2)
            M(self.link, b"SVSHOLD %s %d :%s" % (n, r.choice([30, 3600]), r.choice([b"held", b"", b"held by services", b" "])))
            M(x, b"NICK " + n)
            M(x, b"PING :later", big=r.random() < 0.5)
            M(x, b"NICK " + n)
            M(self.link, b"SVSHOLD " + n)
        elif name == "latelink" and getattr(self, "svcpw", None):
            # a services link that authenticates late: the burst describes users that are in 0, 1, 2, 3 channels
            users = [u for u in self._alive(True) if not getattr(u, "is_link", False)][:4]
            for n_, u in enumerate(users):
                want = [2, 2, 3, 1][n_ % 4]
                for cn in r.sample(CHAN_POOL, min(len(CHAN_POOL), 4)):
                    if len(u.chans) >= want:
                        break
                    if chan_to_lower(cn) not in u.chans:
                        M(u, b"JOIN " + cn)
                        u.chans.add(chan_to_lower(cn))
            L2 = self._C("link")
            if L2 is not None:
                L2.is_link = True
                M(L2, b"PASS services=" + r.choice(self.svcpw))
                M(L2, b"SERVER services%d.example 1 :Late services" % r.randint(2, 9))
                if self.link is None or not self.link.alive:
                    self.link = L2
        elif name == "manychans":
            # a channel list longer than one IRC line (WHOIS 319, services burst): what is cut off must not depend on
            # the order in which the map is traversed
            if not (self.cfg and self.cfg.get("maxc")):
                tag = bytes([r.choice(b"abcdefgh")]) * 26
                for n_ in range(r.choice([18, 24, 30])):
                    cn = b"#" + tag + b"%02d" % n_
                    M(m, b"JOIN " + cn)
                    m.chans.add(chan_to_lower(cn))
                M(x, b"WHOIS %s" % (m.nick or b"m"))
                M(o, b"WHOIS %s" % (m.nick or b"m"))
                M(m, b"LIST")
        elif name == "away":
            # RPL_AWAY wherever somebody addresses an away user
            M(x, b"AWAY :%s" % (t() or b"gone"))
            M(o, b"PRIVMSG %s :are you there?" % (x.nick or b"x"))
            M(o, b"NOTICE %s :no away reply for notices" % (x.nick or b"x"))
            M(m, b"WHOIS %s" % (x.nick or b"x"))
            M(o, b"INVITE %s %s" % (x.nick or b"x", c))
            M(m, b"USERHOST %s %s" % (x.nick or b"x", o.nick or b"o"))
            M(x, r.choice([b"AWAY", b"AWAY :"]))
            M(o, b"PRIVMSG %s :back?" % (x.nick or b"x"))
        elif name == "invisible":
            # +i users are hidden from NAMES / WHO of people outside the channel
            M(m, b"MODE %s +i" % (m.nick or b"m"))
            M(x, b"NAMES " + c)
            M(x, b"WHO " + c)
            M(o, b"NAMES " + c)
            M(o, b"WHO " + c)
            M(x, b"WHOIS %s" % (m.nick or b"m"))
            M(m, b"MODE %s -i" % (m.nick or b"m"))
            M(x, b"NAMES " + c)
        elif name == "reincarnate":
            # an invitation, then the channel dies and is re-created by somebody else as +i / +x: the old invitation
            # must not open the new channel
            M(o, b"INVITE %s %s" % (x.nick or b"x", c))
            if r.random() < 0.6:
                self.entries.append({"k": "S"})      # save + load between the invitation and the death of the channel
            for u in self._alive(True):
                if lc in u.chans:
                    M(u, b"PART " + c)
                    u.chans.discard(lc)
            M(m, b"JOIN " + c)
            m.chans.add(lc)
            M(m, b"MODE %s %s" % (c, r.choice([b"+i", b"+i", b"+x"])))
            M(x, b"JOIN " + c)
        elif name == "quitlink" and self.link and self.link.alive and len(self.pseudo) >= 2:
            for p_ in self.pseudo:
                M(self.link, b":%s JOIN %s" % (p_, c))
            if r.random() < 0.5:
                self._D(self.link)
            else:
                M(self.link, b"QUIT :services restarting")
                self._end(self.link)

    # ---- public
    def history(self, kind=None, length=None):
        r = self.rng
        if kind is None:
            kind = r.choices(["normal", "malformed", "expire"], [70, 20, 10])[0]
        if kind == "malformed":
            return self.malformed(length)
        if kind == "expire":
            return self.expire_history()
        self._reset()
        want_link = r.random() < 0.6
        want_oper = r.random() < 0.55
        self._setup(r.randint(3, 8), want_link, want_oper)
        n = length if length is not None else r.randint(25, 140)
        scenes = r.choices([0, 1, 2, 3, 4], [2, 4, 3, 2, 1])[0]
        at = sorted(r.randint(0, n) for _ in range(scenes))
        for k in range(n):
            while at and at[0] <= k:
                at.pop(0)
                self.scene()
            self._action()
        if r.random() < 0.3:
            self.entries.append({"k": "S"})
            for _ in range(r.randint(3, 15)):
                self._action()
        return self._case()

    def scene_history(self, name):
        """a short history built around one kind of scene (every kind is exercised in every run, see run_irc_check)"""
        r = self.rng
        self._reset()
        self._setup(r.randint(5, 8), r.random() < 0.7, r.random() < 0.7)
        for _ in range(r.randint(2, 4)):
            for _ in range(r.randint(3, 10)):
                self._action()
            # a scene needs a channel with two members and a registered outsider: top the population up when sessions have
            # quit or never registered
            tries = 0
            while len(self._alive(True)) < 4 and tries < 6:
                tries += 1
                ns = self._C()
                if ns is not None:
                    for l in self._register(ns):
                        self._M(ns, l)
            self.scene(name)
        for _ in range(r.randint(3, 10)):
            self._action()
        return self._case()

    def _action(self, malformed=False):
        r = self.rng
        k = r.random()
        live = [s for s in self.sess if s.alive and not s.is_link]
        if k < 0.70 and live:
            s = r.choice(live)
            if not s.reg and r.random() < 0.6:
                cmd = r.choice(["NICK", "USER", "PASS", "PRIVMSG", "JOIN"])
                line = self.client_line(s, cmd)
            else:
                line = self.client_line(s) if not malformed else self.malformed_line()
            self._M(s, line)
            if line[:4].upper() == b"QUIT":
                self._end(s)
        elif k < 0.82:
            if self.link and self.link.alive:
                self._M(self.link, self.server_line())
            elif live:
                self._M(r.choice(live), self.client_line(r.choice(live)))
        elif k < 0.87:
            self._probe()
        elif k < 0.89:
            self.entries.append({"k": "S"})
        elif k < 0.92:
            s = self._C()
            if s is not None and r.random() < 0.8:
                for l in self._register(s):
                    self._M(s, l)
        elif k < 0.94:
            pool = live + ([self.link] if self.link and r.random() < 0.2 else [])
            if pool and r.random() < 0.8:
                self._D(r.choice(pool))
            elif self.dead:
                d = r.choice(self.dead)  # delete of a dead/unknown session
                self._tick()
                self.entries.append({"k": "D", "id": self.id, "ts": self.ts, "sid": d.sid, "data": b"again"})
        elif k < 0.96:
            self._F(invalid=r.random() < 0.25)
        elif k < 0.97:
            pool = live + self.dead
            if pool:
                self._M(r.choice(pool), self.client_line(live[0]) if live else b"PING x", kind="X")
        elif k < 0.98:
            if live:
                self._M(r.choice(live), b"PING :tick", big=True)
        elif k < 0.99:
            self.entries.append({"k": "E", "now": self.now_ns})
        else:
            if self.dead:  # line for a session that is gone (skip)
                self._M(r.choice(self.dead), b"PRIVMSG #chan :ghost")

    # ---- malformed stream
    def malformed_line(self):
        r = self.rng
        k = r.random()
        if k < 0.08:
            return r.choice([b"", b" ", b"  ", b":", b": x", b":prefixonly", b"\r", b"a", b"::", b" : : ", b"\t", b":a b",
                             b":a  b", b"x" * r.randint(600, 1900),
                             self._garbage()])
        cmd = r.choice(CLIENT_COMMANDS + SERVER_COMMANDS + OTHER_COMMANDS).encode()
        if r.random() < 0.1:
            cmd = cmd.lower()
        n = r.randint(0, 5)
        ps = []
        for i in range(n):
            shape = r.choice(["nick", "chan", "text", "empty", "colon", "long", "latin1", "ctl", "num", "modes", "comma", "word"])
            if shape == "nick":
                p = self._anynick()
            elif shape == "chan":
                p = self._anychan()
            elif shape == "text":
                p = self._text().replace(b" ", b"_")
                if i < n - 1 or r.random() < 0.5:  # not the trailing parameter: keep to the Latin-1 domain of the case mappings
                    try:
                        p = "".join(ch if ord(ch) <= 0xff else "?" for ch in p.decode("utf-8")).encode("utf-8")
                    except UnicodeDecodeError:
                        p = b"text"
            elif shape == "empty":
                p = b""
            elif shape == "colon":
                p = b":" + r.choice([b"", b"x", self._anychan(), b":"])
            elif shape == "long":
                p = r.choice([b"x", b"#", b"\xc3\xa9", b"ab,"]) * r.randint(200, 600)
            elif shape == "latin1":
                p = "".join(chr(r.randint(0xa0, 0xff)) for _ in range(r.randint(1, 8))).encode("utf-8")
            elif shape == "ctl":
                p = bytes(r.choice([1, 2, 7, 8, 9, 0x1b, 0x7f, 0x0b, 0x0c]) for _ in range(r.randint(1, 3))) + \
                    (r.choice([b"\r", b"\x00", b"\n"]) if self.ctl and r.random() < 0.3 else b"")
            elif shape == "num":
                p = r.choice([b"0", b"1", b"-1", b"99999999999999999999", b"1.5", b"0x10"])
            elif shape == "modes":
                p = r.choice([b"+", b"-", b"+o", b"+b", b"+k", b"-k", b"+ooo", b"+bbbb", b"+tnsi", b"o", b"+\xc3\xa9", b"+d"])
            elif shape == "comma":
                p = b",".join(r.choice([self._anychan(), b"", self._anynick()]) for _ in range(r.randint(2, 4)))
            else:
                p = r.choice([b"word", b"*", b"$*", b"#", b"0", b"@", b"!"])
            ps.append(p)
        if ps and r.random() < 0.4:
            ps[-1] = b":" + ps[-1] + (b" tail words" if r.random() < 0.3 else b"")
        sep = b" " if r.random() < 0.95 else b"  "
        return sep.join([cmd] + ps)

    def _garbage(self):
        """a garbage line.  Its first token lands in the COMMAND position, where irc.ParseMessage applies strings.ToUpper
        and ERR_UNKNOWNCOMMAND echoes the result: ASCII only there unless latin1_commands is set (Go maps Latin-1 letters
        too, incl. U+00FF -> U+0178 and U+00B5 -> U+039C, which leave Latin-1); later tokens may use all of Latin-1."""
        r = self.rng
        first = "".join(chr(r.randint(0x21, 0x7e)) for _ in range(r.randint(1, 12)))
        if self.latin1_commands:
            first += "".join(chr(r.randint(0xa0, 0xff)) for _ in range(r.randint(1, 6)))
        rest = "".join(chr(r.choice([r.randint(1, 0x7e), r.randint(0xa0, 0xff)])) for _ in range(r.randint(0, 20)))
        return (first + (" " + rest if rest else "")).replace("\n", "").replace("\r", "").encode("utf-8")

    def malformed(self, length=None):
        r = self.rng
        self._reset()
        self._setup(r.randint(3, 6), r.random() < 0.5, r.random() < 0.7, cfgprob=0.9)
        # put state in place that the handlers index into: +t / -t / +i / +k / bans / topics / invitations
        regs = self._alive(True)
        for s in regs[:2]:
            for _ in range(r.randint(1, 4)):
                self._M(s, self.client_line(s, r.choice(["MODE", "TOPIC", "INVITE", "JOIN"])))
        n = length if length is not None else r.randint(40, 160)
        for _ in range(n):
            k = r.random()
            live = [s for s in self.sess if s.alive and not s.is_link]
            if not live:
                s = self._C()
                continue
            if k < 0.8:
                s = r.choice(live)
                line = self.malformed_line()
                self._M(s, line)
                if line[:4].upper() == b"QUIT":
                    self._end(s)
            elif k < 0.86:
                self._action()
            elif k < 0.9:
                s = self._C()  # unregistered actor
            elif k < 0.94 and self.link and self.link.alive:
                self._M(self.link, self.server_line())
            elif k < 0.96:
                self._probe()
            elif k < 0.97:
                self.entries.append({"k": "S"})
            else:
                s = r.choice(live)
                self._M(s, self.client_line(s))
        return self._case()

    # ---- histories with a meaningful expiry sweep (timestamps relative to the wall clock)
    def expire_history(self):
        r = self.rng
        self._reset()
        # ExpireSessions reads the wall clock: the three executions of a case and its generation can be many minutes
        # apart in the thorough tier, so "fresh" sessions stay 3 h clear of the threshold (expirations of 4-12 h)
        exp = r.choice([4 * 3600, 6 * 3600, 12 * 3600]) * SEC
        now = self.now_ns
        # phase 1: everything older than the threshold by >= 10 s
        span1 = r.randint(60, 3600) * SEC
        self.ts = now - exp - 10 * SEC - span1
        self.force_exp = exp
        start_idx = 0
        self._setup(r.randint(3, 7), r.random() < 0.5, False, expire=exp)
        for _ in range(r.randint(5, 30)):
            self._action()
        # rescale phase 1 timestamps into [now-exp-10s-span1, now-exp-10s]
        self._rescale(start_idx, len(self.entries), now - exp - 10 * SEC - span1, now - exp - 10 * SEC)
        if r.random() < 0.4:
            self.entries.append({"k": "E", "now": now})
        # phase 2: fresh activity, newer than the threshold by >= 3 h (leaves room for the runs to start late)
        p2 = len(self.entries)
        fresh_lo = now - exp + 3 * 3600 * SEC
        fresh_hi = now - 1 * SEC
        self.ts = fresh_lo
        live = [s for s in self.sess if s.alive]
        touched = [s for s in live if r.random() < 0.5]
        for s in touched:
            if s.is_link:
                self._M(s, b"PING services.example")
            else:
                self._M(s, self.client_line(s, r.choice(["PING", "PRIVMSG", "WHOIS", "AWAY"])))
        if r.random() < 0.5:
            ns = self._C()
            if ns is not None and r.random() < 0.5:
                for l in self._register(ns):
                    self._M(ns, l)
        self._rescale(p2, len(self.entries), fresh_lo, fresh_hi)
        self.entries.append({"k": "E", "now": now})
        if r.random() < 0.3:
            self.entries.append({"k": "S"})
            self.entries.append({"k": "E", "now": now})
        return self._case()

    def _rescale(self, a, b, lo, hi):
        """map the timestamps of entries[a:b] monotonically into [lo, hi] (strictly increasing)"""
        idx = [i for i in range(a, b) if "ts" in self.entries[i]]
        if not idx:
            return
        t0, t1 = self.entries[idx[0]]["ts"], self.entries[idx[-1]]["ts"]
        prev = lo - 1
        for i in idx:
            t = self.entries[i]["ts"]
            nt = lo if t1 == t0 else lo + (t - t0) * (hi - lo) // (t1 - t0)
            if nt <= prev:
                nt = prev + 1
            self.entries[i]["ts"] = nt
            prev = nt
        self.ts = prev


# ------------------------------------------------------------------ pretty printing (reports, debugging)
def entry_text(e):
    k = e["k"]
    if k == "C":
        return "C id=%d" % e["id"]
    if k == "D":
        return "D id=%d sid=%d quit=%r" % (e["id"], e["sid"], e["data"])
    if k in ("M", "X"):
        return "%s id=%d sid=%d cmid=%d %s%r" % (k, e["id"], e["sid"], e["cmid"],
                                                 ("ra=%s " % e["ra"].decode("latin-1")) if e.get("ra") else "", e["data"])
    if k == "F":
        return "F id=%d rev=%d %s" % (e["id"], e["rev"], "invalid" if e["cfg"] == "invalid" else repr(e["toml"]))
    if k == "E":
        return "E"
    if k in ("G", "P"):
        return "%s %d" % (k, e["sid"])
    return k


def trace_text(tr, upto=None, msgs=True):
    out = []
    for i, e in enumerate(tr.entries):
        if upto is not None and i > upto:
            break
        st = tr.steps[i] if tr.steps and i < len(tr.steps) else None
        out.append("%3d %s  -> %s%s" % (i, entry_text(e), st.outcome if st else "?",
                                        (" inv=" + ",".join(st.inv)) if st and st.inv else ""))
        if st and msgs:
            for m in st.msgs:
                out.append("        %r -> %s" % (m.data, ",".join(str(x) for x in sorted(m.rcpt)) or "-"))
    return "\n".join(out)


# ====================================================================== monitors
# A finding is (signature, message, step index).  Signatures are stable names of the KIND of failure.
def _entry_cmd(e):
    """(prefix, COMMAND, params) of the line an M/D entry makes the server process (None if unparsable)"""
    if e["k"] == "D":
        return go_parse_message(b"QUIT :" + e["data"])
    if e["k"] in ("M", "X"):
        return go_parse_message(e["data"])
    return None


def _cmdname(e, is_link=False):
    if e["k"] in ("M", "D"):
        p = _entry_cmd(e)
        c = p[1].decode("latin-1").lower() if p else "unparsable"
        c = re.sub(r"[^a-z0-9]", "_", c)[:16] or "empty"
        return ("server-" if is_link else "") + c
    return {"C": "create", "X": "mod", "F": "config", "S": "restore", "E": "expire", "G": "get", "P": "lpm"}.get(e["k"], e["k"])


def _is_link(st, sid):
    s = st.sessions.get((sid, 0)) if st else None
    return bool(s and s["srv"])


# ---------------------------------------------------------------------- C06
def mon_c06(tr):
    """C06: processing any client line / conforming services line never panics."""
    F = []
    for i, st in enumerate(tr.steps):
        if st.outcome.startswith("panic="):
            site = tr.panics.get(i, ("unknown", "?"))
            F.append(("c06:panic:" + site[0], "panic %r at %s while applying %s" % (
                unhx(st.outcome[6:]), site[1], entry_text(tr.entries[i])), i))
    return F


# ---------------------------------------------------------------------- C15
_CMD_RE = re.compile(rb"^([A-Za-z]+|[0-9]{3})\Z")


def go_json_delivered(data):
    """what a client holds after GET /messages: encoding/json writes U+FFFD for every byte that is not part of a well-formed
    UTF-8 sequence (utf8.DecodeRune returns RuneError with width 1), the client's decoder keeps it"""
    out = bytearray()
    i, n = 0, len(data)
    while i < n:
        c = data[i]
        if c < 0x80:
            out.append(c); i += 1; continue
        if 0xC2 <= c <= 0xDF: k, lo, hi = 1, 0x80, 0xBF
        elif c == 0xE0: k, lo, hi = 2, 0xA0, 0xBF
        elif 0xE1 <= c <= 0xEC or 0xEE <= c <= 0xEF: k, lo, hi = 2, 0x80, 0xBF
        elif c == 0xED: k, lo, hi = 2, 0x80, 0x9F
        elif c == 0xF0: k, lo, hi = 3, 0x90, 0xBF
        elif 0xF1 <= c <= 0xF3: k, lo, hi = 3, 0x80, 0xBF
        elif c == 0xF4: k, lo, hi = 3, 0x80, 0x8F
        else: k = -1
        ok = (k > 0 and i + k <= n - 1 and lo <= data[i + 1] <= hi
              and all(0x80 <= data[i + j] <= 0xBF for j in range(2, k + 1)))
        if ok:
            out += data[i:i + k + 1]; i += k + 1
        else:
            out += b"\xef\xbf\xbd"; i += 1
    return bytes(out)


def mon_c15(tr):
    """C15: every delivered message is one IRC line: <= 510 bytes, no CR/LF/NUL, starts with a prefix and a command
    (RFC 1459: the prefix is optional; the code omits it only on ERROR lines and on lines that go to services links only)."""
    F = []
    links = set()
    def _u8(b):
        try:
            b.decode("utf-8")
            return True
        except UnicodeDecodeError:
            return False
    # C15_outputs_utf8: a history whose entries carry well-formed text only produces well-formed lines (the API decodes JSON,
    # so real entries always are; the generator's raw-byte histories are exempt)
    clean_in = all(_u8(e.get("data", b"")) and _u8(e.get("auth", b"")) and _u8(e.get("toml", b"")) for e in tr.entries) and _u8(tr.case["net"])
    for i, st in enumerate(tr.steps):
        if st.ran and st.st:
            links |= {k[0] for k, s in st.st.sessions.items() if s and s["srv"]}
        origin = {"M": "post", "D": "delete"}.get(tr.entries[i]["k"], tr.entries[i]["k"])
        for m in st.msgs:
            d = m.data
            if clean_in and not _u8(d):
                F.append(("c15:ill-formed-output", "a history of well-formed entries produced a line that is not well-formed UTF-8 (each such byte "
                          "reaches the client as U+FFFD, 3 bytes): %r" % d[:200], i))
            if len(d) > 510:
                F.append(("c15:len", "output line of %d bytes" % len(d), i))
            else:
                dd = go_json_delivered(d)
                if len(dd) > 510:
                    F.append(("c15:len-delivered", "output line of %d bytes is delivered (JSON encoding of GET /messages replaces each byte of "
                              "an incomplete UTF-8 sequence by U+FFFD) as %d bytes: ...%r" % (len(d), len(dd), dd[-16:]), i))
            for ch, nm in ((b"\r", "cr"), (b"\n", "lf"), (b"\x00", "nul")):
                if ch in d:
                    F.append(("c15:ctl:%s:%s" % (nm, origin), "output line contains %s: %r" % (nm.upper(), d[:200]), i))
            to_clients = bool(m.rcpt - links)
            if d[:1] == b":":
                sp = d.find(b" ")
                pfx = d[1:sp] if sp > 0 else d[1:]
                rest = d[sp + 1:] if sp > 0 else b""
                cmd = rest.split(b" ", 1)[0]
                if not pfx:
                    F.append(("c15:emptyprefix", "line with empty prefix: %r" % d[:200], i))
                if not _CMD_RE.match(cmd):
                    F.append(("c15:nocommand", "no command after the prefix: %r" % d[:200], i))
            else:
                cmd = d.split(b" ", 1)[0]
                if not _CMD_RE.match(cmd):
                    F.append(("c15:nocommand", "line does not start with a command: %r" % d[:200], i))
                elif to_clients and cmd != b"ERROR":
                    F.append(("c15:noprefix:" + cmd.decode("latin-1"), "line without prefix delivered to a client: %r" % d[:200], i))
    return F


# ---------------------------------------------------------------------- C14
def inv_from_dump(Q, P=None):
    """the invariant walk recomputed from a decoded dump (same codes as the Go walk)"""
    codes = set()
    live_by_lc = {}
    for key, s in Q.sessions.items():
        if s is None:
            codes.add("sess-miskeyed")
            continue
        if s["del"]:
            codes.add("deleted-survives")
        nick = s["nick"]
        if nick:
            lc = nick_to_lower(nick)
            if not s["del"]:
                if lc in live_by_lc:
                    codes.add("nick-dup")
                live_by_lc[lc] = key
                if Q.nicks.get(lc) != key:
                    codes.add("nick-unindexed")
            if not is_valid_nick(nick):
                codes.add("nick-invalid")
        for ch in s["ch"]:
            c = Q.channels.get(ch)
            if c is None or nick_to_lower(nick or b"") not in c["m"]:
                codes.add("memb-asym-s")
        for ch in s["inv"]:
            if ch not in Q.channels:
                codes.add("invited-ghost")
    for lc, key in Q.nicks.items():
        s = Q.sessions.get(key) if key else None
        if s is None or s["del"] or nick_to_lower(s["nick"] or b"") != lc:
            codes.add("nickidx-dangling")
    for lc, c in Q.channels.items():
        if c is None:
            codes.add("chan-empty")
            continue
        if not is_valid_chan(c["name"] or b""):
            codes.add("chan-invalid")
        if chan_to_lower(c["name"] or b"") != lc:
            codes.add("chan-miskeyed")
        if not c["m"]:
            codes.add("chan-empty")
        for mk, fl in c["m"].items():
            if fl is None:
                codes.add("memb-nil")
            key = Q.nicks.get(mk)
            s = Q.sessions.get(key) if key else None
            if s is None or s["del"] or nick_to_lower(s["nick"] or b"") != mk:
                codes.add("memb-dangling")
                continue
            if lc not in s["ch"]:
                codes.add("memb-asym-c")
    if Q.G:
        ps = len(P.sessions) if P else 0
        pc = len(P.channels) if P else 0
        if Q.G["maxs"] > 0 and len(Q.sessions) > Q.G["maxs"] and len(Q.sessions) > ps:
            codes.add("limit-sessions")
        if Q.G["maxc"] > 0 and len(Q.channels) > Q.G["maxc"] and len(Q.channels) > pc:
            codes.add("limit-channels")
    return codes


def mon_c14(tr):
    """C14: after every applied entry the three indexes are consistent, names valid, limits kept.
    Reports the in-package walk's codes and the same checks recomputed from the dump."""
    F = []
    prev = None
    prev_codes = set()
    for i, st in enumerate(tr.steps):
        if not st.ran:
            break
        codes = set(c for c in st.inv)
        Q = st.st
        if Q is not None:
            codes |= inv_from_dump(Q, prev)
            if "nickidx-dangling" in codes:
                others = [lc for lc, key in Q.nicks.items() if lc != b"" and (
                    key is None or Q.sessions.get(key) is None or Q.sessions[key]["del"] or nick_to_lower(Q.sessions[key]["nick"] or b"") != lc)]
                if b"" in Q.nicks and not others:
                    codes.discard("nickidx-dangling")
                    codes.add("nickidx-dangling-emptykey")
            if Q.L is not None:
                newest = max([e["id"] for e in tr.entries[:i + 1] if "id" in e] or [0])
                if Q.L[0] > newest:
                    codes.add("lastprocessed-future")
            prev = Q
        e = tr.entries[i]
        pre = tr.pre(i)
        link = _is_link(pre, e.get("sid", -1)) if e["k"] in ("M", "D") else False
        for c in sorted(c for c in codes if c not in prev_codes or c.startswith("limit-")):  # a broken invariant usually stays broken: report where it starts
            F.append(("c14:%s:%s" % (c, _cmdname(e, link)), "invariant %s violated after %s" % (c, entry_text(e)), i))
        prev_codes = codes
    return F


# ---------------------------------------------------------------------- C01
def _proj_msgs(st):
    return [(m.reply, m.data, tuple(sorted(m.rcpt))) for m in st.msgs]


def mon_c01(traces):
    """C01: two executions of the same history give the same replies (ids, bytes, order, recipients) for every entry and
    the same final state.  traces: >= 2 runs of the SAME case (fresh instances, at least one in another process)."""
    F = []
    base = traces[0]
    for other in traces[1:]:
        if base.steps is None or other.steps is None:
            F.append(("harness:driver-failed", "a run produced no output", 0))
            continue
        for i in range(min(len(base.steps), len(other.steps))):
            a, b = base.steps[i], other.steps[i]
            e = base.entries[i]
            pre = base.pre(i)
            link = _is_link(pre, e.get("sid", -1)) if e["k"] in ("M", "D") else False
            if a.outcome != b.outcome:
                F.append(("c01:outcome:" + _cmdname(e, link), "outcome %s vs %s for %s" % (a.outcome, b.outcome, entry_text(e)), i))
                break
            pa, pb = _proj_msgs(a), _proj_msgs(b)
            if pa != pb:
                if sorted((d, r) for _, d, r in pa) == sorted((d, r) for _, d, r in pb):
                    F.append(("c01:order:" + _cmdname(e, link), "same messages in different order for %s: %r vs %r" % (
                        entry_text(e), [d for _, d, _ in pa][:6], [d for _, d, _ in pb][:6]), i))
                else:
                    F.append(("c01:diff:" + _cmdname(e, link), "different messages for %s" % entry_text(e), i))
                break
            if a.st_text != b.st_text:
                d = _state_diff(a.st, b.st)
                F.append(("c01:state:%s:%s" % (d[0][0] if d else "?", _cmdname(e, link)), "state differs after %s: %s" % (
                    entry_text(e), "; ".join(x[1] for x in d[:3])), i))
                break
    return F


# ---------------------------------------------------------------------- C10
def mon_c10(tr):
    """C10 (state-machine half): after an M or X entry for an existing session the session's duplicate marker is the
    entry's client message id (also across save+load); LastPostMessage reports it."""
    F = []
    last = {}
    alive = set()
    for i, (e, st) in enumerate(zip(tr.entries, tr.steps)):
        if not st.ran:
            break
        k = e["k"]
        Q = st.st
        if k == "M" and i > 0 and tr.steps[i - 1].st_text is not None:
            is_retry = e["cmid"] != 0 and e["sid"] in alive and last.get(e["sid"], 0) == e["cmid"]
            if is_retry and not st.dup:
                F.append(("c10:retry-applied-twice", "%s repeats the last client message id of its session and was processed again (outcome %s, %d messages)" % (
                    entry_text(e), st.outcome, len(st.msgs)), i))
            if st.dup and not is_retry:
                F.append(("c10:message-swallowed", "%s was skipped as a retry although it does not repeat the last client message id of its session" % entry_text(e), i))
            if st.dup and i > 0 and st.st_text is not None and tr.steps[i - 1].st_text is not None and st.st_text != tr.steps[i - 1].st_text:
                F.append(("c10:retry-changed-state", "the skipped retry %s changed the state" % entry_text(e), i))
            if st.dup and st.msgs:
                F.append(("c10:retry-produced-output", "the skipped retry %s produced output" % entry_text(e), i))
        if k in ("M", "X") and st.outcome != "skip":
            last[e["sid"]] = e["cmid"]
            if Q is not None and Q.alive(e["sid"]):
                got = Q.sessions[(e["sid"], 0)]["cmid"]
                if got != e["cmid"]:
                    F.append(("c10:marker:" + ("mod" if k == "X" else "post"),
                              "after %s the marker of session %d is %r, want %d" % (entry_text(e), e["sid"], got, e["cmid"]), i))
        if Q is not None:
            alive = {sid for (sid, rp), s in Q.sessions.items() if rp == 0 and s}
            for sid in alive:
                s = Q.sessions[(sid, 0)]
                want = last.get(sid, 0)
                if s["cmid"] is not None and s["cmid"] != want:
                    F.append(("c10:marker-drift", "marker of session %d is %d, last applied message id was %d (after %s)" % (
                        sid, s["cmid"], want, entry_text(e)), i))
        if k == "P":
            want = last.get(e["sid"], 0) if e["sid"] in alive else 0
            if st.outcome != "lpm=%d" % want:
                F.append(("c10:lpm", "LastPostMessage(%d) = %s, want %d" % (e["sid"], st.outcome, want), i))
    return F


# ---------------------------------------------------------------------- C16
def mon_c16(tr):
    """C16 (state-machine half): a Config entry that parses replaces configuration and revision; one that does not parse
    changes nothing; nothing but Config entries and an operator's GLINE changes the configuration; GLINE adds
    address -> reason to the replicated ban list."""
    F = []
    P = None
    for i, (e, st) in enumerate(zip(tr.entries, tr.steps)):
        if not st.ran:
            break
        Q = st.st
        if st.outcome == "cfgmismatch":
            F.append(("harness:cfgmismatch", "the <cfg> token does not describe what config.FromString parsed: %r" % e.get("toml"), i))
        if Q is None or Q.G is None:
            P = Q
            continue
        k = e["k"]
        if k == "F":
            if e["cfg"] == "invalid":
                if P is not None and Q.text != P.text:
                    F.append(("c16:invalid-config-changed-state", "an unparsable Config entry changed the state", i))
                elif P is None and (Q.G["rev"] != 0):
                    F.append(("c16:invalid-config-changed-state", "an unparsable Config entry changed the revision", i))
            else:
                prev = P.G["rev"] if (P is not None and P.G is not None) else 0
                if e["rev"] == prev + 1:
                    if Q.G["body"] != e["cfg"] and st.outcome != "cfgmismatch":
                        F.append(("c16:config-not-installed", "config after a valid Config entry is %s, want %s" % (Q.G["body"], e["cfg"]), i))
                    if Q.G["rev"] != e["rev"]:
                        F.append(("c16:revision", "revision after Config entry is %d, want %d" % (Q.G["rev"], e["rev"]), i))
                else:
                    # not the revision in force + 1: skipped at apply time, whatever the proposing handler saw
                    if st.outcome not in ("cfgrev", "cfgmismatch"):
                        F.append(("c16:stale-revision-applied", "Config entry with revision %d was not refused although revision %d is in force (outcome %s)" % (
                            e["rev"], prev, st.outcome), i))
                    if (P is not None and Q.text != P.text) or (P is None and Q.G["rev"] != 0):
                        F.append(("c16:stale-revision-changed-state", "Config entry with revision %d changed the state although revision %d is in force" % (e["rev"], prev), i))
                if P is not None and [r for r in Q.recs if not r.startswith("G/")] != [r for r in P.recs if not r.startswith("G/")]:
                    F.append(("c16:config-changed-other-state", "a Config entry changed non-configuration state", i))
        elif P is not None and P.G is not None:
            pg, qg = P.G, Q.G
            want = None
            p = _entry_cmd(e) if (k == "M" and st.outcome == "ok") else None
            if p and p[1] == b"GLINE" and len(p[2]) >= 2:
                a = P.sessions.get((e["sid"], 0))
                tk = P.nicks.get(nick_to_lower(p[2][0]))
                tg = P.sessions.get(tk) if tk else None
                newra = e.get("ra") or (a["ra"] if a else b"")
                closed = a is not None and bool(e.get("ra")) and e["ra"] != a["ra"] and e["ra"] in pg["banned"]
                if a and a["op"] and not a["srv"] and a["li"] and tg is not None and not closed:
                    ra = newra if tk == (e["sid"], 0) else tg["ra"]
                    if ra:
                        want = dict(pg["banned"])
                        want[ra] = p[2][-1]
            if k == "S":
                pass  # C03's business
            elif want is not None:
                rest_same = all(pg[f] == qg[f] for f in pg if f not in ("banned", "raw", "body"))
                if qg["banned"] != want or not rest_same:
                    F.append(("c16:gline-ban", "after GLINE by an operator banned is %r, want %r" % (qg["banned"], want), i))
            elif pg["body"] != qg["body"] or pg["rev"] != qg["rev"]:
                F.append(("c16:config-changed-by:" + _cmdname(e), "configuration changed by %s" % entry_text(e), i))
        P = Q
    return F


# ---------------------------------------------------------------------- C17
def mon_c17(tr):
    """C17: GetSession says 'no such session' only for ids not newer than what was applied and not alive, 'not yet seen'
    for ids newer than anything applied, ok exactly for live sessions; the expiry sweep names exactly the live sessions
    with reply id 0 whose last activity is older than the configured expiration; after a session ends its nickname is
    free, it is in no channel, and (client sessions) no later message lists it as recipient."""
    F = []
    newest = 0
    P = None
    ended_clients = {}
    ref_la = {}        # session id -> last activity according to the ENTRIES (what the expiry sweep must be based on)
    wall = tr.wall
    for i, (e, st) in enumerate(zip(tr.entries, tr.steps)):
        if not st.ran:
            break
        k = e["k"]
        Q = st.st
        if "id" in e:
            newest = max(newest, e["id"])
        if k == "C" and st.outcome == "ok":
            ref_la[e["id"]] = e["ts"] if e["ts"] != 0 else e["id"]
        elif k in ("M", "X") and st.outcome != "skip":
            ref_la[e["sid"]] = e["ts"] if e["ts"] != 0 else e["id"]
        if Q is not None:
            for (sid, rp), s_ in Q.sessions.items():
                if rp == 0 and s_ and s_["la"] is not None and sid in ref_la and s_["la"] != ref_la[sid]:
                    F.append(("c17:lastactivity-drift" + (":restore" if k == "S" else ""),
                              "last activity of session %d is %r after %s, its last applied entry has %r — the expiry sweep works on the wrong time" % (
                                  sid, s_["la"], entry_text(e), ref_la[sid]), i))
                    ref_la[sid] = s_["la"]     # report once
        for m in st.msgs:
            bad = [x for x in m.rcpt if x in ended_clients and ended_clients[x] < i]
            if bad:
                F.append(("c17:rcpt-after-end", "message %r lists ended session(s) %r" % (m.data[:80], bad), i))
        cur = Q if Q is not None else P
        if k == "G" and cur is not None:
            sid = e["sid"]
            alive = cur.alive(sid)
            res = st.outcome[4:]
            if alive and res != "ok":
                F.append(("c17:get:live-not-ok", "GetSession(%d) = %s for a live session" % (sid, res), i))
            if res == "ok" and not alive:
                F.append(("c17:get:ok-for-dead", "GetSession(%d) = ok but no such live session" % sid, i))
            if res == "nosuch" and (sid > newest or alive):
                F.append(("c17:get:nosuch-unsound", "GetSession(%d) = nosuch, newest applied id %d" % (sid, newest), i))
            if sid > newest and res != "notyet":
                F.append(("c17:get:future-not-notyet", "GetSession(%d) = %s, newest applied id %d" % (sid, res, newest), i))
        if k in ("M", "X") and st.outcome != "skip" and Q is not None and Q.alive(e["sid"]):
            if Q.sessions[(e["sid"], 0)]["la"] != (e["ts"] if e["ts"] != 0 else e["id"]):
                F.append(("c17:lastactivity-not-updated", "last activity of session %d is %r after %s" % (
                    e["sid"], Q.sessions[(e["sid"], 0)]["la"], entry_text(e)), i))
        if k == "E" and cur is not None and cur.G is not None:
            got = {}
            if st.outcome != "expire=-":
                for x in st.outcome[7:].split(","):
                    a, _, b = x.partition(":")
                    if int(a) in got:
                        F.append(("c17:expire:pseudo-client", "expiry names session id %s twice (a pseudo-client of a services link)" % a, i))
                    got[int(a)] = unhx(b)
            exp = cur.G["exp"]
            t0, t1 = wall if wall else (e["now"] - 5 * SEC, e["now"] + 5 * SEC)
            for (sid, rp), s in cur.sessions.items():
                if s is None or s["la"] is None:
                    continue
                if rp != 0:
                    if sid in got and not cur.alive(sid):
                        F.append(("c17:expire:pseudo-client", "expiry names %d which only exists as pseudo-client" % sid, i))
                    continue
                if s["la"] < t0 - exp and sid not in got:
                    F.append(("c17:expire:missed", "session %d idle since %d not expired (expiration %d ns)" % (sid, s["la"], exp), i))
                if s["la"] > t1 - exp and sid in got:
                    F.append(("c17:expire:too-early", "session %d (last activity %d) expired although within %d ns" % (sid, s["la"], exp), i))
            for sid in got:
                if (sid, 0) not in cur.sessions:
                    F.append(("c17:expire:unknown", "expiry names unknown session %d" % sid, i))
        if Q is not None and P is not None and k != "S":
            for key, s in P.sessions.items():
                if s is None or key in Q.sessions:
                    continue
                if key[1] == 0 and not s["srv"]:
                    ended_clients.setdefault(key[0], i)
                nick = s["nick"]
                if nick:
                    lc = nick_to_lower(nick)
                    if Q.nicks.get(lc, "free") == key:
                        F.append(("c17:end:nick-held", "ended session %r still owns nick %r" % (key, nick), i))
                    for cl, c in Q.channels.items():
                        if c and lc in c["m"] and Q.nicks.get(lc) in (None, key):
                            F.append(("c17:end:still-member", "ended session %r still listed in channel %r" % (key, cl), i))
                # nickname free: a new session may take it (checked by the generator's later NICKs reaching 001/NICK)
        if Q is not None:
            P = Q
    return F


# ---------------------------------------------------------------------- C03
_C03_KNOWN_FIELDS = {}


def _state_diff(P, Q):
    """field-level differences between two decoded dumps: list of (label, detail)"""
    out = []
    for key in sorted(set(P.sessions) | set(Q.sessions)):
        a, b = P.sessions.get(key), Q.sessions.get(key)
        if a is None or b is None:
            out.append(("S.presence", "session %r %s" % (key, "lost" if b is None else "appeared")))
            continue
        for f in a["raw"]:
            if a["raw"][f] != b["raw"].get(f):
                out.append(("S." + f, "session %r %s: %s -> %s" % (key, f, a["raw"][f], b["raw"].get(f))))
    for lc in sorted(set(P.nicks) | set(Q.nicks)):
        if P.nicks.get(lc, "absent") != Q.nicks.get(lc, "absent"):
            out.append(("N.empty" if lc == b"" else "N", "nick index %r: %r -> %r" % (lc, P.nicks.get(lc, "absent"), Q.nicks.get(lc, "absent"))))
    for lc in sorted(set(P.channels) | set(Q.channels)):
        a, b = P.channels.get(lc), Q.channels.get(lc)
        if a is None or b is None:
            out.append(("C.presence", "channel %r %s" % (lc, "lost" if b is None else "appeared")))
            continue
        for f in a["raw"]:
            if a["raw"][f] != b["raw"].get(f):
                out.append(("C." + f, "channel %r %s: %s -> %s" % (lc, f, a["raw"][f], b["raw"].get(f))))
    for lc in sorted(set(P.holds) | set(Q.holds)):
        a, b = P.holds.get(lc), Q.holds.get(lc)
        if (a or {}).get("raw") != (b or {}).get("raw"):
            out.append(("H", "svshold %r: %r -> %r" % (lc, a, b)))
    if P.V != Q.V:
        out.append(("V", "serverSessions %r -> %r" % (P.V, Q.V)))
    if P.L != Q.L:
        out.append(("L", "lastProcessed %r -> %r" % (P.L, Q.L)))
    if P.G and Q.G:
        for f in P.G["raw"]:
            if P.G["raw"][f] != Q.G["raw"].get(f):
                out.append(("G." + f, "config %s: %s -> %s" % (f, P.G["raw"][f], Q.G["raw"].get(f))))
    return out


def mon_c03(tr, twin=None):
    """C03: save + load gives an instance holding the same sessions, nick ownership, channels, member status, modes,
    keys, bans, invitations, holds, configuration and duplicate markers (dump before S == dump after S, field by field),
    and from then on produces the same output.  twin: a run of the same case WITHOUT its S entries (c03_twin());
    outputs of the remaining entries are compared step by step (as multisets: order is C01's concern) together with the
    final state."""
    F = []
    P = None
    empty_nick = False
    for i, (e, st) in enumerate(zip(tr.entries, tr.steps)):
        if not st.ran:
            break
        Q = st.st
        if e["k"] == "S":
            if st.outcome != "ok":
                F.append(("c03:marshal-failed", "Marshal/Unmarshal returned an error", i))
            elif P is not None and Q is not None:
                for label, detail in _state_diff(P, Q):
                    F.append(("c03:field:" + label, "save+load changed " + detail, i))
                    if label == "N.empty":
                        empty_nick = True
        if Q is not None:
            P = Q
    if twin is not None and tr.steps is not None and twin.steps is not None:
        j = 0
        last_a = last_b = None
        for i, (e, st) in enumerate(zip(tr.entries, tr.steps)):
            if e["k"] == "S":
                continue
            if j >= len(twin.steps):
                break
            tw = twin.steps[j]
            j += 1
            if not st.ran or not tw.ran:
                if st.outcome.split("=")[0] != tw.outcome.split("=")[0]:
                    F.append(("c03:cont-diff:" + _cmdname(e), "after save+load %s gives %s, without it %s" % (
                        entry_text(e), st.outcome[:40], tw.outcome[:40]), i))
                break
            seen_S = any(x["k"] == "S" for x in tr.entries[:i])
            if not seen_S:
                continue
            alive = set(k[0] for k in st.st.sessions if k[1] == 0) if st.st else None  # live sessions {id,0} (D13)
            def proj(s):
                return sorted((m.data, tuple(sorted(x for x in m.rcpt if alive is None or x in alive))) for m in s.msgs)
            if st.outcome != tw.outcome or proj(st) != proj(tw):
                F.append(("c03:cont-diff%s:%s" % ("-after-N.empty" if empty_nick else "", _cmdname(e)), "after save+load %s answers %r, without it %r" % (
                    entry_text(e), [m.data[:60] for m in st.msgs][:5], [m.data[:60] for m in tw.msgs][:5]), i))
                break
            last_a, last_b = st, tw
    return F


def c03_twin(case):
    """the same case without its S entries"""
    c = dict(case)
    c["entries"] = [e for e in case["entries"] if e["k"] != "S"]
    return c


# ---------------------------------------------------------------------- C12
class _Ref(object):
    """Independent reference model for C12: who exists, who owns which nickname, who is on which channel.
    Driven by the INPUT entries (session creation/deletion, accepted NICK/USER lines, services NICK introductions) and
    by the events the server ANNOUNCES (JOIN PART KICK QUIT NICK KILL, closing ERROR).  Never reads the state dump."""

    def __init__(self):
        self.sess = {}      # sid -> {"nick","user","link","chans"}
        self.pseudo = {}    # lcnick -> {"link","nick","user","chans"}
        self.nickidx = {}   # lcnick -> sid | ("p", lcnick)
        self.members = {}   # lcchan -> set of sid | ("p", lcnick)
        self.links = set()  # every id that ever became a services link
        self.noext = set()  # lcchan with mode +n as far as announced

    def owner(self, nick):
        return self.nickidx.get(nick_to_lower(nick))

    def clients(self, lcchan):
        return {m for m in self.members.get(lcchan, ()) if not isinstance(m, tuple)}

    def chans_of(self, who):
        return {c for c, ms in self.members.items() if who in ms}

    def join(self, who, lcchan):
        self.members.setdefault(lcchan, set()).add(who)

    def part(self, who, lcchan):
        ms = self.members.get(lcchan)
        if ms is not None:
            ms.discard(who)
            if not ms:
                del self.members[lcchan]
                self.noext.discard(lcchan)

    def end(self, who):
        for c in list(self.members):
            self.part(who, c)
        if isinstance(who, tuple):
            self.pseudo.pop(who[1], None)
            if self.nickidx.get(who[1]) == who:
                del self.nickidx[who[1]]
        else:
            s = self.sess.pop(who, None)
            if s and s["nick"] and self.nickidx.get(nick_to_lower(s["nick"])) == who:
                del self.nickidx[nick_to_lower(s["nick"])]
            if s and s["link"]:
                for lc in [k for k, p in self.pseudo.items() if p["link"] == who]:
                    self.end(("p", lc))

    def rename(self, who, new):
        if isinstance(who, tuple):
            return
        s = self.sess.get(who)
        if s is None:
            return
        old = nick_to_lower(s["nick"]) if s["nick"] else None
        if old is not None and self.nickidx.get(old) == who:
            del self.nickidx[old]
        s["nick"] = new
        self.nickidx[nick_to_lower(new)] = who

    def identity(self, who):
        """expected prefix bytes of a relayed line"""
        if isinstance(who, tuple):
            p = self.pseudo.get(who[1])
            if p is None:
                return None
            return p["nick"] + (b"!" + p["user"] if p["user"] else b"") + b"@robust/0x%x" % p["link"]
        s = self.sess.get(who)
        if s is None:
            return None
        return s["nick"] + (b"!" + s["user"] if s["user"] else b"") + b"@robust/0x%x" % who


def _split_prefix(p):
    """nick, user, host of a prefix as irc.ParsePrefix does"""
    u = p.find(b"!")
    h = p.find(b"@")
    if u > 0 and h > u:
        return p[:u], p[u + 1:h], p[h + 1:]
    if u > 0:
        return p[:u], p[u + 1:], b""
    if h > 0:
        return p[:h], b"", p[h + 1:]
    return p, b"", b""


def mon_c12(tr):
    """C12: channel PRIVMSG/NOTICE go to every other member and nobody else (apart from services links); private ones
    only to the owner of the target nick; numerics only to the session that caused them (or to the link for services
    commands); the closing ERROR only to the session being closed; JOIN/PART/KICK/TOPIC/MODE/NICK/QUIT notifications
    only to sessions sharing the affected channel(s) and to the subject; every relayed line carries the sender's
    current nick, user name and session-derived host."""
    F = []
    ref = _Ref()

    def bad(sig, msg, i):
        F.append((sig, msg, i))

    for i, (e, st) in enumerate(zip(tr.entries, tr.steps)):
        if not st.ran:
            break
        k = e["k"]
        if k == "C":
            if st.outcome == "ok":
                ref.sess[e["id"]] = {"nick": b"", "user": b"", "link": False}
            continue
        if k not in ("M", "D"):
            if st.msgs:
                bad("c12:unexpected-output", "%s produced output" % entry_text(e), i)
            continue
        actor = e["sid"]
        if st.outcome == "skip" or actor not in ref.sess:
            if st.msgs and actor not in ref.sess:
                bad("c12:output-for-unknown-session", "output for a session that does not exist: %s" % entry_text(e), i)
            continue
        a = ref.sess[actor]
        alink = a["link"]
        parsed = _entry_cmd(e)
        cmd = parsed[1] if parsed else b""
        ps = parsed[2] if parsed else []
        if cmd == b"MODE" and len(ps) >= 2 and ps[0].startswith(b"#") and b"n" in ps[1]:
            # cmd_mode.go announces a mode change to the channel only when the command produced no direct reply: a
            # ban-list query, +k/-k (echoed to the user), an unknown mode character, ... in the same command make the
            # other changes silent.  What is announced therefore does not always tell whether the channel is +n:
            # forget it here; an announcement in this step's output (processed below) re-establishes it.
            ref.noext.discard(chan_to_lower(ps[0]))
        closing = [m for m in st.msgs if m.prefix is None and m.command == b"ERROR" and m.params and m.params[-1].startswith(b"Closing Link")]
        nick_rejected = any(m.command in (b"431", b"432", b"433", b"451", b"461") for m in st.msgs)
        ended = set()
        joined_in_step = set()
        links = ref.links
        degraded = False
        banned_close = any(m.params[-1].startswith(b"Closing Link: You are banned") for m in closing)
        unreg_block = any(m.command == b"451" for m in st.msgs)
        pre_applied = False
        if not banned_close and parsed is not None and not alink and not unreg_block:
            # what the line itself changes before any reply is rendered (cmdUser / cmdNick of a session that is not
            # yet registered: no NICK event is announced for it)
            if cmd == b"USER" and len(ps) >= 3:
                a["user"] = cap_user(ps[0])   # cmd_user.go keeps at most maxUserLen bytes, whole characters only
                pre_applied = True
            elif cmd == b"NICK" and ps and ps[0] and not any(m.command in (b"431", b"432", b"433") for m in st.msgs) \
                    and not any(m.command == b"NICK" and m.prefix is not None for m in st.msgs):
                ref.rename(actor, ps[0])
                pre_applied = True

        def rc_of(m):
            return set(m.rcpt) - links

        kill_victims = set()
        for m in st.msgs:
            if m.command == b"KILL" and m.prefix is not None and m.params:
                o = ref.owner(m.params[0])
                if o is not None:
                    kill_victims.add(o)

        def closed_by_error(m):
            """whom a closing ERROR line closes: its single recipient, or the killed pseudo-client behind that link"""
            out = set()
            for r_ in m.rcpt:
                pv = [v for v in kill_victims if isinstance(v, tuple) and ref.pseudo.get(v[1], {}).get("link") == r_]
                out |= set(pv) if pv else {r_}
            return out

        for m in st.msgs:
            p, c, mp = m.prefix, m.command, m.params
            if len(m.data) >= 510:
                # truncated by the encoder: only the last parameter can be cut.  Classify only when the parameters this
                # monitor reads (at most the first two) are complete; otherwise skip the line (C15 looks at it).
                need = {b"KICK": 3, b"NICK": 99, b"JOIN": 2, b"PART": 2, b"QUIT": 1}.get(c, 2)
                if p is None or len(mp) < need:
                    degraded = True  # an event may have been missed: the reference is no longer trustworthy
                    break
            rc = rc_of(m)
            label = c.decode("latin-1")
            if p is None:
                if c == b"ERROR":
                    if len(m.rcpt) != 1:
                        bad("c12:error-rcpt", "ERROR line to %r" % sorted(m.rcpt), i)
                    elif mp and mp[-1].startswith(b"Closing Link"):
                        ended |= closed_by_error(m)
                elif c == b"SERVER" and not alink:
                    ref.links.add(actor)
                    a["link"] = True
                    alink = True
                    if set(m.rcpt) - ref.links:
                        bad("c12:svc-line-leak", "services line %r delivered to %r" % (m.data[:60], sorted(rc)), i)
                elif rc:
                    bad("c12:svc-line-leak", "services line %r delivered to client(s) %r" % (m.data[:60], sorted(rc)), i)
                continue
            serverform = b"!" not in p and b"@" not in p
            nick = re.split(rb"[!@]", p, 1)[0]
            host = p[p.rfind(b"@") + 1:] if b"@" in p else b""
            svcform = p == nick + b"!services@services"
            sender = None
            if not serverform:
                if svcform:
                    if not alink:
                        bad("c12:prefix:services-forged", "client step relays %r" % m.data[:80], i)
                    sender = ref.owner(nick)
                elif host.startswith(b"robust/0x"):
                    try:
                        hid = int(host[9:], 16)
                    except ValueError:
                        hid = None
                    cand = ref.owner(nick)
                    if cand is not None and ((isinstance(cand, tuple) and ref.pseudo[cand[1]]["link"] == hid) or cand == hid):
                        sender = cand
                    elif hid in ref.sess and not ref.sess[hid]["link"]:
                        sender = hid
                    if sender is None or ref.identity(sender) != p:
                        bad("c12:prefix:identity", "line %r: prefix is not the current identity %r of its session" % (
                            m.data[:80], ref.identity(sender) if sender is not None else None), i)
                    if not alink and sender is not None and sender != actor and c not in (b"QUIT",):
                        bad("c12:prefix:not-actor", "client %d caused a line with another session's prefix: %r" % (actor, m.data[:80]), i)
                else:
                    bad("c12:prefix:form", "unexpected prefix form in %r" % m.data[:80], i)
            # ---- recipients by kind
            if re.match(rb"^[0-9]{3}\Z", c):
                allowed = {actor} if not alink else set(joined_in_step)
                if not rc <= allowed or (not alink and rc != {actor}):
                    bad("c12:numeric-rcpt", "numeric %s delivered to %r, caused by %d" % (label, sorted(rc), actor), i)
                continue
            if c in (b"PRIVMSG", b"NOTICE") and mp:
                tgt = mp[0]
                if tgt.startswith(b"#"):
                    want = ref.clients(chan_to_lower(tgt))
                    if sender is not None and not isinstance(sender, tuple) and not svcform:
                        want = want - {sender}
                    if rc != want:
                        bad("c12:chantext-rcpt:" + ("extra" if rc - want else "missing"),
                            "%s to %r delivered to %r, members are %r" % (label, tgt, sorted(rc), sorted(want)), i)
                    lcx = chan_to_lower(tgt)
                    if not svcform and not alink and sender == actor and lcx in ref.noext and actor not in ref.members.get(lcx, ()):
                        bad("c12:external-message", "%d is not on +n channel %r but its %s was relayed" % (actor, tgt, label), i)
                elif tgt.startswith(b"$") and not serverform:
                    pass
                else:
                    o = ref.owner(tgt)
                    want = {o} if o is not None and not isinstance(o, tuple) else set()
                    if rc != want:
                        bad("c12:private-rcpt" + (":empty-nick" if tgt == b"" else ""),
                            "%s to %r delivered to %r, owner is %r" % (label, tgt, sorted(rc), o), i)
                    if isinstance(o, tuple) and ref.pseudo[o[1]]["link"] not in m.rcpt:
                        bad("c12:private-rcpt", "%s to pseudo-client %r not delivered to its link" % (label, tgt), i)
                continue
            if c == b"JOIN" and mp:
                lc = chan_to_lower(mp[0])
                if sender is not None:
                    ref.join(sender, lc)
                    if not isinstance(sender, tuple):
                        joined_in_step.add(sender)
                want = ref.clients(lc)
                subj = {sender} if sender is not None and not isinstance(sender, tuple) else set()
                if rc - want - subj:
                    bad("c12:rcpt-extra:JOIN", "JOIN %r announced to %r, members are %r" % (mp[0], sorted(rc), sorted(want)), i)
                if want - rc:
                    bad("c12:rcpt-missing:JOIN", "JOIN %r not announced to members %r" % (mp[0], sorted(want - rc)), i)
                continue
            if c == b"PART" and mp:
                lc = chan_to_lower(mp[0])
                want = ref.clients(lc)
                if rc - want:
                    bad("c12:rcpt-extra:PART", "PART %r announced to %r, members are %r" % (mp[0], sorted(rc), sorted(want)), i)
                if want - rc:
                    bad("c12:rcpt-missing:PART", "PART %r not announced to members %r" % (mp[0], sorted(want - rc)), i)
                if sender is not None:
                    ref.part(sender, lc)
                continue
            if c == b"KICK" and len(mp) >= 2:
                lc = chan_to_lower(mp[0])
                want = ref.clients(lc)
                if rc != want:
                    bad("c12:rcpt:KICK", "KICK in %r announced to %r, members are %r" % (mp[0], sorted(rc), sorted(want)), i)
                v = ref.owner(mp[1])
                if v is not None:
                    ref.part(v, lc)
                continue
            if c == b"TOPIC" and mp:
                if serverform:
                    if rc:
                        bad("c12:svc-line-leak", "services TOPIC copy delivered to %r" % sorted(rc), i)
                else:
                    want = ref.clients(chan_to_lower(mp[0]))
                    if rc != want:
                        bad("c12:rcpt:TOPIC", "TOPIC of %r announced to %r, members are %r" % (mp[0], sorted(rc), sorted(want)), i)
                continue
            if c == b"MODE" and mp:
                if mp[0].startswith(b"#"):
                    if len(mp) > 1 and (len(m.rcpt) > 0 or serverform):
                        add = True
                        for ch_ in mp[1]:
                            if ch_ in b"+-":
                                add = ch_ == 43
                            elif ch_ == 110:  # 'n'
                                (ref.noext.add if add else ref.noext.discard)(chan_to_lower(mp[0]))
                    want = ref.clients(chan_to_lower(mp[0]))
                    if serverform:
                        if not rc <= want:
                            bad("c12:rcpt:MODE", "MODE %r delivered to %r, members are %r" % (mp[0], sorted(rc), sorted(want)), i)
                    elif rc != want:
                        bad("c12:rcpt:MODE", "MODE %r announced to %r, members are %r" % (mp[0], sorted(rc), sorted(want)), i)
                else:
                    o = ref.owner(mp[0])
                    allowed = {x for x in (o, sender, actor if not alink else None) if x is not None and not isinstance(x, tuple)}
                    if not rc <= allowed:
                        bad("c12:rcpt:UMODE", "user MODE %r delivered to %r" % (mp[0], sorted(rc)), i)
                continue
            if c == b"NICK" and mp and not serverform:
                want = set()
                if sender is not None:
                    for ch in ref.chans_of(sender):
                        want |= ref.clients(ch)
                    if not isinstance(sender, tuple):
                        want.add(sender)
                if rc != want:
                    bad("c12:rcpt:NICK", "NICK change %r announced to %r, want %r" % (m.data[:60], sorted(rc), sorted(want)), i)
                if sender is not None:
                    ref.rename(sender, mp[0])
                continue
            if c == b"QUIT" and not serverform:
                want = set()
                if sender is not None:
                    for ch in ref.chans_of(sender):
                        want |= ref.clients(ch)
                    sub = {sender} if not isinstance(sender, tuple) else set()
                    if rc - sub != want - sub:
                        bad("c12:rcpt:QUIT", "QUIT %r announced to %r, want %r" % (m.data[:60], sorted(rc), sorted(want)), i)
                    ended.add(sender)
                    for ch in list(ref.chans_of(sender)):
                        ref.part(sender, ch)
                continue
            if c in (b"KILL", b"INVITE") and mp:
                o = ref.owner(mp[0])
                want = {o} if o is not None and not isinstance(o, tuple) else set()
                if rc != want:
                    bad("c12:rcpt:" + label, "%s %r delivered to %r, owner %r" % (label, mp[0], sorted(rc), o), i)
                if c == b"KILL" and o is not None:
                    ended.add(o)
                continue
            if c == b"SJOIN":
                if rc:
                    bad("c12:svc-line-leak", "SJOIN delivered to %r" % sorted(rc), i)
                continue
            if c == b"PONG":
                if rc - {actor}:
                    bad("c12:rcpt:PONG", "PONG delivered to %r" % sorted(rc), i)
                continue
            if rc - {actor}:
                bad("c12:rcpt:other", "%r delivered to %r" % (m.data[:60], sorted(rc)), i)
        if degraded:
            break
        # ---- input-driven updates
        if not banned_close and actor in ref.sess and parsed is not None:
            if not alink:
                if cmd == b"QUIT" and not unreg_block:
                    ended.add(actor)
            else:
                if cmd == b"NICK" and len(ps) >= 4 and not any(m.command == b"433" for m in st.msgs):
                    lc = nick_to_lower(ps[0])
                    ref.pseudo[lc] = {"link": actor, "nick": ps[0], "user": ps[3]}
                    ref.nickidx[lc] = ("p", lc)
                elif cmd == b"QUIT":
                    if parsed[0] is None:
                        ended.add(actor)
                    else:
                        pn, _, _ = _split_prefix(parsed[0])
                        o = ref.owner(pn)
                        if isinstance(o, tuple) and ref.pseudo[o[1]]["link"] == actor:
                            ended.add(o)
        for who in ended:
            ref.end(who)
    return F


# ---------------------------------------------------------------------- C13
def _ban_matches(mask, *subjects):
    """QuoteMeta + `*` -> `.*`, unanchored, as cmdMode builds the ban regexp (the address-resolved variant of a
    robust/0x.. mask is not visible in the dump; missing it only loses detection power)"""
    try:
        rx = re.compile(b".*".join(re.escape(x) for x in mask.split(b"*")), re.S)
    except re.error:
        return False
    return any(rx.search(s) is not None for s in subjects)


def mon_c13(tr, secret=None):
    """C13: channel modes/keys/bans/op flags/topic change, kicks, kills, GLINE bans, operator status, joins to existing
    channels and services effects happen only when the acting session is entitled (see properties.jsonl C13).
    Judged on the state delta between consecutive dumps plus who acted.  secret: the captcha HMAC key of the case
    (tokens are judged with captcha_oracle); None = read it from the configuration in force."""
    F = []
    # reference bookkeeping of invitations, independent of what the dump says is still recorded: an invitation is for
    # the channel as it exists; it ends when it is used or when that channel is deleted (a later channel of the same
    # name is another channel).  ref_before[i] = {session key: set(lcchan)} valid before step i, None = unknown.
    ref_before, ref, P0 = {}, {}, None
    for i, st in enumerate(tr.steps):
        ref_before[i] = None if ref is None else {kk: set(v) for kk, v in ref.items()}
        if not st.ran:
            break
        Q0 = st.st
        if Q0 is None:
            ref = None
            continue
        if ref is not None and P0 is not None:
            for key, b in Q0.sessions.items():
                a = P0.sessions.get(key)
                if b is None:
                    continue
                old = a["inv"] if a else set()
                for lc in b["inv"] - old:
                    ref.setdefault(key, set()).add(lc)
                for lc in old - b["inv"]:
                    ref.get(key, set()).discard(lc)
            for lc in set(P0.channels) - set(Q0.channels):
                for v in ref.values():
                    v.discard(lc)
            for key in list(ref):
                if key not in Q0.sessions:
                    del ref[key]
        elif ref is not None and P0 is None:
            for key, b in Q0.sessions.items():
                if b and b["inv"]:
                    ref[key] = set(b["inv"])
        P0 = Q0
    P = None
    for i, (e, st) in enumerate(zip(tr.entries, tr.steps)):
        if not st.ran:
            break
        Q = st.st
        if Q is None:
            continue
        k = e["k"]
        if P is not None and k == "S":
            # save + load must not grant or lift anything: modes, key, bans, operator/voice flags, invitations
            for lc_, c_ in P.channels.items():
                d_ = Q.channels.get(lc_)
                if d_ is None:
                    F.append(("c13:restore:channel-lost", "save+load lost channel %r" % lc_, i))
                    continue
                for f_ in ("modes", "key", "bans", "m"):
                    if c_["raw"].get(f_) != d_["raw"].get(f_):
                        F.append(("c13:restore:" + f_, "save+load changed %s of %r: %s -> %s" % (f_, lc_, c_["raw"].get(f_), d_["raw"].get(f_)), i))
            for key_, a_ in P.sessions.items():
                b_ = Q.sessions.get(key_)
                if a_ and b_ and (a_["inv"] != b_["inv"] or a_["op"] != b_["op"] or a_["srv"] != b_["srv"]):
                    F.append(("c13:restore:session-privileges", "save+load changed invitations/operator/services status of %r" % (key_,), i))
        if P is None or k in ("S", "E", "G", "P"):
            P = Q
            continue

        def bad(sig, msg):
            F.append((sig, msg, i))

        actor = (e["sid"], 0) if k in ("M", "D", "X") else None
        ap = P.sessions.get(actor) if actor else None
        if k in ("M", "D") and (st.outcome == "skip" or ap is None):
            if [r for r in Q.recs if not r.startswith("L/")] != [r for r in P.recs if not r.startswith("L/")] and k == "M":
                bad("c13:effect-without-session", "a line for a session that does not exist changed the state")
            P = Q
            continue
        is_link = bool(ap and ap["srv"])
        is_oper = bool(ap and ap["op"])
        parsed = _entry_cmd(e) if k in ("M", "D") else None
        cmd = parsed[1] if parsed else b""
        ps = parsed[2] if parsed else []
        cn = _cmdname(e, is_link)

        if k in ("C", "F", "X"):
            # frame: C adds one session, F touches only configuration (C16), X only the marker/activity of its session
            for key in set(P.sessions) | set(Q.sessions):
                a, b = P.sessions.get(key), Q.sessions.get(key)
                if a is None and b is not None and not (k == "C" and key == (e["id"], 0)):
                    bad("c13:frame:" + cn, "%s created session %r" % (entry_text(e), key))
                elif a is not None and b is None:
                    bad("c13:frame:" + cn, "%s removed session %r" % (entry_text(e), key))
                elif a is not None and b is not None and a["raw"] != b["raw"]:
                    diff = [f for f in a["raw"] if a["raw"][f] != b["raw"].get(f)]
                    if not (k == "X" and key == actor and set(diff) <= {"la", "lnp", "cmid"}):
                        bad("c13:frame:" + cn, "%s changed %r of session %r" % (entry_text(e), diff, key))
            if [r for r in P.recs if r[:2] in ("C/", "H/", "N/")] != [r for r in Q.recs if r[:2] in ("C/", "H/", "N/")]:
                bad("c13:frame:" + cn, "%s changed channels/holds/nick index" % entry_text(e))
            P = Q
            continue

        # ---- k in (M, D): a line processed for session `actor`
        # services link status
        for key in Q.sessions:
            a, b = P.sessions.get(key), Q.sessions[key]
            if b and b["srv"] and not (a and a["srv"]):
                okpw = a is not None and key == actor and cmd == b"SERVER" and any((a["pass"] or b"") == b"services=" + pw for pw in P.G["svc"])
                if not okpw:
                    bad("c13:server-without-password", "session %r became a services link without a configured password" % (key,))
            if b and b["op"] and not (a and a["op"]):
                text = ((a["pass"] if a else b"") or b"") + b" " + e["data"]
                okop = key == actor and any(n in text and p in text for n, p in P.G["ops"])
                if okop and cmd == b"OPER":
                    okop = len(ps) >= 2 and (ps[0], ps[1]) in P.G["ops"]
                if not okop:
                    bad("c13:oper-without-credentials", "session %r became IRC operator without presenting a configured name/password" % (key,))
            if a and b and a["op"] and not b["op"]:
                bad("c13:oper-lost", "session %r lost operator status" % (key,))
        if is_link:
            P = Q
            continue

        # ---- client step: everything below requires a privilege of `actor` in P
        def chanop(lc):
            c = P.channels.get(lc)
            if not c or not ap["nick"]:
                return False
            fl = c["m"].get(nick_to_lower(ap["nick"]))
            return bool(fl and fl[0]) and P.nicks.get(nick_to_lower(ap["nick"])) == actor

        def member(lc):
            c = P.channels.get(lc)
            return bool(c and ap["nick"] and nick_to_lower(ap["nick"]) in c["m"] and P.nicks.get(nick_to_lower(ap["nick"])) == actor)

        # sessions: who disappeared / appeared / changed
        for key in set(P.sessions) | set(Q.sessions):
            a, b = P.sessions.get(key), Q.sessions.get(key)
            if key == actor:
                continue
            if a is None and b is not None:
                bad("c13:svc-effect:session-created", "client line created session %r" % (key,))
            elif a is not None and b is None:
                if not is_oper:
                    bad("c13:kill-without-oper:" + cn, "session %r removed by %r who is not an IRC operator" % (key, actor))
            elif a is not None and b is not None:
                for f in ("nick", "user", "real", "svid", "pass", "li", "srv", "away", "la", "lnp", "lsc", "cmid", "ra", "auth", "cr", "pfx"):
                    if a[f] != b[f]:
                        bad("c13:foreign-session-change:" + f, "client line by %r changed %s of session %r" % (actor, f, key))
                if a["modes"] != b["modes"]:
                    ch = set(a["modes"]) ^ set(b["modes"])
                    if not (is_oper and ch <= set("iG")):
                        bad("c13:foreign-session-change:modes", "client line by %r changed user modes of %r" % (actor, key))
                for lc in b["inv"] - a["inv"]:
                    c = P.channels.get(lc)
                    if c is None or not member(lc):
                        bad("c13:invite-without-membership", "%r invited %r to %r without being on it" % (actor, key, lc))
                    elif "i" in c["modes"] and not chanop(lc):
                        bad("c13:invite-without-chanop", "%r invited %r to +i channel %r without channel operator status" % (actor, key, lc))
                for lc in b["ch"] - a["ch"]:
                    bad("c13:svc-effect:forced-join", "client line by %r made %r join %r" % (actor, key, lc))
        hold_ok = set(Q.holds) <= set(P.holds) and all((P.holds[h] or {}).get("raw") == (Q.holds[h] or {}).get("raw") for h in Q.holds)
        for h in set(P.holds) - set(Q.holds):
            hd = P.holds[h] or {}
            expired = hd.get("added") is not None and e["ts"] > hd["added"] + int(hd.get("dur") or 0)
            if not (cmd == b"NICK" and ps and nick_to_lower(ps[0]) == h and expired):
                hold_ok = False
        if not hold_ok:
            bad("c13:svc-effect:svshold", "client line changed the nickname holds")
        if P.G["banned"] != Q.G["banned"] and not is_oper:
            bad("c13:gline-without-oper", "ban list changed by %r who is not an IRC operator" % (actor,))

        # channels
        psess_of = lambda st_, lc, mk: st_.nicks.get(mk)
        for lc in set(P.channels) | set(Q.channels):
            c0, c1 = P.channels.get(lc), Q.channels.get(lc)
            if c0 is None:
                continue  # created by this step: the creator may set it up (cmdJoin) — not an existing channel
            m0 = {P.nicks.get(mk): fl for mk, fl in c0["m"].items()}
            m1 = {Q.nicks.get(mk): fl for mk, fl in c1["m"].items()} if c1 else {}
            priv = chanop(lc) or is_oper
            if c1 is not None:
                if c0["modes"] != c1["modes"] or c0["key"] != c1["key"] or c0["bans"] != c1["bans"]:
                    if not priv:
                        bad("c13:chanmode-without-priv:" + cn, "modes/key/bans of %r changed by %r (neither channel operator nor IRC operator)" % (lc, actor))
                for sk in set(m0) & set(m1):
                    if sk is not None and m0[sk] != m1[sk] and not priv:
                        bad("c13:opflag-without-priv:" + cn, "member status of %r in %r changed by %r" % (sk, lc, actor))
                if (c0["topic"], c0["tnick"], c0["ttime"]) != (c1["topic"], c1["tnick"], c1["ttime"]):
                    if not member(lc):
                        bad("c13:topic-nonmember", "topic of %r changed by %r who is not on the channel" % (lc, actor))
                    elif "t" in c0["modes"] and not chanop(lc):
                        bad("c13:topic-without-chanop", "topic of +t channel %r changed by %r" % (lc, actor))
            for sk in set(m0) - set(m1):
                if sk is None or sk == actor:
                    continue
                if sk in Q.sessions and not chanop(lc):
                    bad("c13:kick-without-chanop", "%r removed from %r by %r who is not channel operator" % (sk, lc, actor))
            if c1 is not None:
                for sk in set(m1) - set(m0):
                    if sk != actor:
                        continue
                    # actor joined an existing channel
                    inv = lc in ap["inv"]
                    ra = e.get("ra") or ap["ra"] or b""
                    uh = (ap["nick"] or b"") + b"!" + (ap["user"] or b"") + b"@robust/0x%x" % actor[0]
                    if not ap["user"]:
                        uh = (ap["nick"] or b"") + b"@robust/0x%x" % actor[0]
                    uha = (ap["nick"] or b"") + b"!" + (ap["user"] or b"") + b"@" + ra
                    key_given = None
                    if cmd == b"JOIN" and ps:
                        names = ps[0].split(b",")
                        keys = ps[1].split(b",") if len(ps) > 1 else []
                        cands = [keys[n] if n < len(keys) else b"" for n, nm in enumerate(names) if chan_to_lower(nm) == lc]
                        key_given = cands
                    else:
                        bad("c13:join-by-other-command", "%r became member of %r through %s" % (actor, lc, cn))
                        continue
                    is_x, is_i, is_k = "x" in c0["modes"], "i" in c0["modes"], "k" in c0["modes"]
                    qual = ":invited" if inv and (is_x or is_i) else (":x-captcha" if is_x else "")
                    if any(_ban_matches(b, uh, uha) for b in c0["bans"]):
                        bad("c13:join-banned" + qual, "%r joined %r although a ban matches (%r)" % (actor, lc, c0["bans"]))
                    if is_k and not is_x and c0["key"] not in key_given:
                        bad("c13:join-badkey" + qual, "%r joined +k channel %r with key %r (key is %r)" % (actor, lc, key_given, c0["key"]))
                    if is_i and not inv:
                        bad("c13:join-uninvited", "%r joined +i channel %r without invitation" % (actor, lc))
                    if inv and (is_i or is_x) and ref_before.get(i) is not None and lc not in ref_before[i].get(actor, ()):
                        bad("c13:join-stale-invitation", "%r joined %s channel %r on an invitation that was issued for an earlier channel of that name "
                            "(deleted since)" % (actor, "+i" if is_i else "+x", lc))
                    if inv and (is_i or is_x):
                        aq = Q.sessions.get(actor)
                        if aq is not None and lc in aq["inv"]:
                            bad("c13:invite-not-consumed", "%r joined %r on an invitation that is still recorded afterwards" % (actor, lc))
                    if is_x and not inv:
                        la = e["ts"]
                        grace = ap["lsc"] is not None and la - ap["lsc"] < 60 * SEC
                        sec = secret if secret is not None else P.G["caphmac"]
                        okc = False
                        for kg in key_given:
                            ns = captcha_oracle(sec, kg)
                            if ns is not None and la - ns <= 300 * SEC:
                                okc = True
                        if not (grace or okc):
                            bad("c13:join-nocaptcha", "%r joined +x channel %r without invitation or valid captcha" % (actor, lc))
        P = Q
    return F


# ---------------------------------------------------------------------- running all monitors
SINGLE_MONITORS = [("c06", mon_c06), ("c15", mon_c15), ("c14", mon_c14), ("c10", mon_c10), ("c16", mon_c16),
                   ("c17", mon_c17), ("c12", mon_c12), ("c13", mon_c13)]


def run_monitors(tr, twin=None, reruns=()):
    """all monitors on one trace (+ optional twin without S for C03, + further runs of the same case for C01)"""
    F = []
    if not tr.ok:
        return [("harness:driver-failed", "no/short driver output: %r" % (tr.line[:200] if tr.line else None), 0)]
    for name, mon in SINGLE_MONITORS:
        try:
            F += mon(tr)
        except Exception as ex:  # a monitor crash is a harness error, never silently a pass
            import traceback
            F.append(("harness:monitor-crash:" + name, traceback.format_exc()[-600:], 0))
    try:
        F += mon_c03(tr, twin)
    except Exception:
        import traceback
        F.append(("harness:monitor-crash:c03", traceback.format_exc()[-600:], 0))
    if reruns:
        F += mon_c01([tr] + list(reruns))
    return F


# ---------------------------------------------------------------------- shrinking
def shrink(case, still_fails, still_fails_many=None, max_rounds=80):
    """delta debugging over entries, then over parameters.  still_fails(case) -> bool re-runs the check;
    still_fails_many(cases) -> [bool] may evaluate a whole round of candidates in one driver run.
    Returns the smallest failing case found (the input case if nothing smaller fails)."""
    many = still_fails_many or (lambda cs: [still_fails(c) for c in cs])
    rounds = [0]

    def first_failing(cands):
        if not cands or rounds[0] >= max_rounds:
            return None
        rounds[0] += 1
        cs = []
        for ents in cands:
            c = dict(case)
            c["entries"] = ents
            cs.append(c)
        res = many(cs)
        for ents, ok in zip(cands, res):
            if ok:
                return ents
        return None

    ents = list(case["entries"])
    n = 2
    while len(ents) >= 2 and rounds[0] < max_rounds:
        chunk = max(1, (len(ents) + n - 1) // n)
        cands = [ents[:a] + ents[a + chunk:] for a in range(0, len(ents), chunk)]
        cands = [c for c in cands if c]
        got = first_failing(cands)
        if got is not None:
            ents = got
            n = max(n - 1, 2)
        elif chunk == 1:
            break
        else:
            n = min(n * 2, len(ents))
    # parameters: fewer/shorter params, no remote address, empty config
    for i in range(len(ents)):
        while rounds[0] < max_rounds:
            e = ents[i]
            cands = []
            if e["k"] in ("M", "X"):
                p = go_parse_message(e["data"])
                if p and (p[0] is not None or p[1].startswith(b"SVS") or p[1] in (b"SERVER", b"PASS") or (p[1] == b"NICK" and len(p[2]) >= 4)):
                    p = None  # services lines, PASS and SERVER are kept as they are (conforming_server_line)
                if p and p[2]:
                    pre = (b":" + p[0] + b" ") if p[0] else b""
                    def render(params):
                        if not params:
                            return pre + p[1]
                        last = params[-1]
                        if last == b"" or b" " in last or last[:1] == b":":
                            last = b":" + last
                        return pre + p[1] + b" " + b" ".join(params[:-1] + [last])
                    for drop in range(len(p[2])):
                        cands.append(render(p[2][:drop] + p[2][drop + 1:]))
                    for j, par in enumerate(p[2]):
                        if len(par) > 4:
                            q = list(p[2])
                            q[j] = b"x"
                            cands.append(render(q))
            elif e["k"] == "D" and len(e["data"]) > 3:
                cands.append(b"bye")
            new = []
            for cd in cands:
                if cd != e["data"]:
                    ne = dict(e)
                    ne["data"] = cd
                    new.append(ne)
            if e.get("ra"):
                ne = dict(e)
                ne["ra"] = b""
                new.append(ne)
            if e["k"] == "F" and e["cfg"] != "invalid" and e["toml"] != b"\n":
                ne = dict(e)
                ne["toml"], ne["cfg"] = config_render({})
                new.append(ne)
            got = first_failing([ents[:i] + [ne] + ents[i + 1:] for ne in new])
            if got is None:
                break
            ents = got
    out = dict(case)
    out["entries"] = ents
    blob = b" ".join(e.get("data", b"") for e in ents)
    out["oracles"] = [o for o in case.get("oracles", []) if len(o.split(" ")) > 2 and unhx(o.split(" ")[2]) in blob]
    return out


# ------------------------------------------------------------------ hand-written cases
class Script(object):
    """tiny DSL for hand-written histories (corpus cases, examples)"""

    def __init__(self, net=b"robustirc.net", t0=1700000000 * SEC, opts="dump=each,inv"):
        self.net, self.ts, self.id, self.opts = net, t0, 0, opts
        self.entries, self.oracles, self.cmid, self.rev = [], [], {}, 0

    def _next(self, dt):
        self.id += 1
        self.ts += dt
        return self.id, self.ts

    def F(self, cfg=None, toml=None, rev=None, dt=SEC):
        i, t = self._next(dt)
        self.rev = rev if rev is not None else self.rev + 1
        if toml is not None:
            self.entries.append({"k": "F", "id": i, "ts": t, "rev": self.rev, "toml": toml, "cfg": cfg if isinstance(cfg, str) else "invalid"})
        else:
            tm, tok = config_render(cfg or {})
            self.entries.append({"k": "F", "id": i, "ts": t, "rev": self.rev, "toml": tm, "cfg": tok})
        return i

    def C(self, auth=None, dt=SEC):
        i, t = self._next(dt)
        self.entries.append({"k": "C", "id": i, "ts": t, "auth": auth or (b"%064x" % i)})
        return i

    def M(self, sid, line, ra=None, dt=SEC, cmid=None):
        i, t = self._next(dt)
        self.cmid[sid] = cmid if cmid is not None else self.cmid.get(sid, 0) + 1
        self.entries.append({"k": "M", "id": i, "ts": t, "sid": sid, "cmid": self.cmid[sid],
                             "ra": (b"10.0.0.%d" % (sid % 250)) if ra is None else ra, "data": line})
        return i

    def X(self, sid, line, dt=SEC):
        i, t = self._next(dt)
        self.cmid[sid] = self.cmid.get(sid, 0) + 1
        self.entries.append({"k": "X", "id": i, "ts": t, "sid": sid, "cmid": self.cmid[sid], "data": line})
        return i

    def D(self, sid, msg=b"bye", dt=SEC):
        i, t = self._next(dt)
        self.entries.append({"k": "D", "id": i, "ts": t, "sid": sid, "data": msg})
        return i

    def S(self):
        self.entries.append({"k": "S"})

    def G(self, sid):
        self.entries.append({"k": "G", "sid": sid})

    def P(self, sid):
        self.entries.append({"k": "P", "sid": sid})

    def E(self, now=None):
        self.entries.append({"k": "E", "now": now if now is not None else time.time_ns()})

    def user(self, nick, user=b"u", ra=None):
        """create + register a client; returns its session id"""
        sid = self.C()
        self.M(sid, b"NICK " + nick, ra)
        self.M(sid, b"USER %s 0 * :%s" % (user, nick), ra)
        return sid

    def link(self, pw=b"svcpass", pseudo=(b"NickServ", b"ChanServ")):
        sid = self.C()
        self.M(sid, b"PASS services=" + pw)
        self.M(sid, b"SERVER services.example 1 :Services")
        for n in pseudo:
            self.M(sid, b"NICK %s 1 1422134861 services services.example services.example 0 :%s" % (n, n))
        return sid

    def case(self):
        return {"net": self.net, "opts": self.opts, "entries": self.entries, "oracles": self.oracles}


def apply_sanitizer(case, mode):
    """what the two HTTP handlers do to posted text before it becomes a log entry: mode 'lf' = pinned tree (Data cut at
    the first LF, quit messages untouched), 'crlfnul' = handlers with the D6 repair (both cut at the first CR/LF/NUL)"""
    def cut(b, seps):
        for i, c in enumerate(b):
            if c in seps:
                return b[:i]
        return b
    out = dict(case)
    out["entries"] = []
    for e in case["entries"]:
        e = dict(e)
        if e["k"] in ("M", "X"):
            e["data"] = cut(e["data"], b"\n" if mode == "lf" else b"\r\n\x00")
        elif e["k"] == "D" and mode != "lf":
            e["data"] = cut(e["data"], b"\r\n\x00")
        out["entries"].append(e)
    return out
