//go:build verif

package main

// API-level correspondence driver (C11 session secret / network password, C10 retried POST,
// C16 configuration updates, API replays for C15).  Reads one case per line from $VERIF_IN:
//
//   <kind> <case-id> <op> <op> ...
//
// and writes one line per case to $VERIF_OUT:  <kind> <case-id> <obs> <obs> ...  (one
// observation token per op, fields separated by '|', byte strings hex-encoded, "-" = empty,
// "!" = absent).  Ops (args separated by ':'):
//
//   N                         fresh node (raft + stores + FSM + api.HTTP), no config posted
//   F:<revhdr>:<body>:<cred>  POST /config   (revhdr hex or "!" = no header; cred ok|none|bad)
//   G                         GET /config
//   H:<rev>:<body>            propose a raw Config entry with revision <rev> (decimal) directly to raft (a stale / future /
//                             duplicate update that a lagging handler let through, DESIGN D20)
//   C:<k>                     POST /robustirc/v1/session -> slot k
//   I:<k>:<line>              POST one IRC line as slot k with a fresh client message id
//   P:<k>:<body>              POST a raw body to slot k's message route (correct secret)
//   T:<k>                     repeat slot k's last POST byte for byte (the bridge's retry)
//   D:<k>:<body>              DELETE slot k with a raw body (correct secret)
//   X:<k>:<cmid>:<data>       propose a message-of-death entry for slot k directly to raft
//                             (the log a node sees after the first copy was rewritten as MoD)
//   Q:<k>:<cmid>:<data>       propose a raw IRCFromClient entry for slot k directly to raft (a second copy that a
//                             lagging handler proposed, DESIGN D14; or any entry with a chosen client message id)
//   K                         a real snapshot through raft (FSM.Snapshot folding everything applied so far +
//                             Persist) restored with FSM.Restore, as a restart / InstallSnapshot does
//   A:close | A:open          the apply gate: hold the state machine back while raft appends and commits (FSM lags the log)
//   E:<k>                     propose a CreateSession entry for slot k without waiting for the state machine
//   M:<k>:<line>              propose an IRCFromClient entry of slot k without waiting for the state machine
//   L:<k>                     keep a long poll of slot k open; every later R reports stream=ok|dead
//   S                         swap the state for Unmarshal(Marshal(state)) as FSM.Restore does
//   R:<meth>:<pathtmpl>:<hdrspec>:<basicspec>:<body>   one recorded request of the C11 matrix
//   W:<path>                  probe a path without any credentials through main()'s wiring
//   Y                         the output messages (id:data:recipients) stored for the newest log entry
//   J:<pw>                    GET / as JSON (the status the time safeguard of a joining node reads): CurrentTime vs. request window
//   U:<s>                     strconv.ParseUint(s, 0, 64) (the id / revision parser of the handlers)
//   Z                         end-of-case comparisons: a second replica fed the same log,
//                             and a copy restored from Marshal/Unmarshal

import (
	"bufio"
	"bytes"
	"context"
	"crypto/rand"
	"crypto/sha256"
	"encoding/hex"
	"encoding/json"
	"fmt"
	"io"
	"net/http"
	"os"
	"reflect"
	"sort"
	"strconv"
	"strings"
	"sync"
	"testing"
	"time"

	"github.com/BurntSushi/toml"
	"github.com/golang/protobuf/proto"
	"github.com/robustirc/robustirc/internal/config"
	"github.com/robustirc/robustirc/internal/ircserver"
	"github.com/robustirc/robustirc/internal/outputstream"
	"github.com/robustirc/robustirc/internal/robust"
)

type verifApiSlot struct {
	id       uint64
	auth     string
	ended    bool // the driver saw this session end: its DELETE was answered 200, or a QUIT it posted was committed
	lastBody []byte
	addr     string
}

type verifApiRun struct {
	n       *verifApiNode
	slots   map[int]*verifApiSlot
	cmid    uint64
	created time.Time

	// after a real snapshot + restore (op K) the folded entries are gone from irclog: the second
	// replica of op Z then starts from the restored state instead of the empty server
	base      []byte
	baseIndex uint64

	// the owner's long poll that is kept open while the C11 matrix runs (op L)
	lastProposed uint64 // raft index of the newest entry proposed with propose()

	watch     *verifApiStream
	watchSlot *verifApiSlot
	probeSeq  int
}

// verifApiStream: one open GET .../messages request, read by a goroutine
type verifApiStream struct {
	cancel context.CancelFunc
	mu     sync.Mutex
	data   bytes.Buffer
	status int
	hdr    chan struct{} // closed once the response header arrived (or the request failed)
	done   chan struct{} // closed when the body ended
}

func (st *verifApiStream) ended() bool {
	select {
	case <-st.done:
		return true
	default:
		return false
	}
}

func (st *verifApiStream) contains(needle string) bool {
	st.mu.Lock()
	defer st.mu.Unlock()
	return bytes.Contains(st.data.Bytes(), []byte(needle))
}

func (r *verifApiRun) openStream(s *verifApiSlot) *verifApiStream {
	ctx, cancel := context.WithCancel(context.Background())
	st := &verifApiStream{cancel: cancel, hdr: make(chan struct{}), done: make(chan struct{})}
	go func() {
		defer close(st.done)
		req, err := http.NewRequestWithContext(ctx, "GET", fmt.Sprintf("%s/robustirc/v1/0x%x/messages", r.n.srv.URL, s.id), nil)
		if err != nil {
			close(st.hdr)
			return
		}
		req.Header.Set("X-Session-Auth", s.auth)
		res, err := r.n.client.Do(req)
		if err != nil {
			close(st.hdr)
			return
		}
		defer res.Body.Close()
		st.status = res.StatusCode
		close(st.hdr)
		buf := make([]byte, 4096)
		for {
			n, err := res.Body.Read(buf)
			if n > 0 {
				st.mu.Lock()
				st.data.Write(buf[:n])
				st.mu.Unlock()
			}
			if err != nil {
				return
			}
		}
	}()
	select {
	case <-st.hdr:
	case <-time.After(5 * time.Second):
	}
	return st
}

// propose hands one entry to raft and returns its index as soon as it is in the log; it does not
// wait for the state machine (which may be held back by the apply gate).
func (r *verifApiRun) propose(msg *robust.Message) (uint64, error) {
	b, err := proto.Marshal(msg.ProtoMessage())
	if err != nil {
		return 0, err
	}
	before := node.LastIndex()
	f := node.Apply(append([]byte{'p'}, b...), 10*time.Second)
	deadline := time.Now().Add(10 * time.Second)
	for node.LastIndex() <= before {
		if time.Now().After(deadline) {
			return 0, fmt.Errorf("entry did not reach the log")
		}
		time.Sleep(200 * time.Microsecond)
	}
	if !r.n.gate.isClosed() {
		if err := f.Error(); err != nil {
			return 0, err
		}
	}
	r.lastProposed = before + 1
	return before + 1, nil
}

func (r *verifApiRun) closeWatch() {
	if r.watch != nil {
		r.watch.cancel()
		select {
		case <-r.watch.done:
		case <-time.After(2 * time.Second):
		}
	}
	r.watch, r.watchSlot = nil, nil
}

// streamProbe: is the owner's long poll still open AND still delivering?  The owner posts a
// PING with a fresh token; its PONG must show up on the stream.  Returns ok | dead | -.
// A dead stream is re-opened so that the next request is judged on its own.
func (r *verifApiRun) streamProbe() string {
	if r.watch == nil {
		return "-"
	}
	s := r.watchSlot
	if !verifApiAlive(s.id) {
		r.closeWatch()
		return "-"
	}
	alive := !r.watch.ended() && r.watch.status == 200
	if alive {
		r.probeSeq++
		r.cmid++
		token := fmt.Sprintf("verifprobe%d", r.probeSeq)
		body, _ := json.Marshal(struct {
			Data            string
			ClientMessageId uint64
		}{"PING " + token, r.cmid})
		r.do("POST", fmt.Sprintf("/robustirc/v1/0x%x/message", s.id), r.sessHdr(s), nil, body, 20*time.Second)
		deadline := time.Now().Add(5 * time.Second)
		for !r.watch.contains(token) {
			if r.watch.ended() || time.Now().After(deadline) {
				alive = false
				break
			}
			time.Sleep(500 * time.Microsecond)
		}
	}
	if alive {
		return "ok"
	}
	r.watch.cancel()
	r.watch = r.openStream(s)
	return "dead"
}

func verifApiHex(s string) string {
	if s == "" {
		return "-"
	}
	return hex.EncodeToString([]byte(s))
}

func verifApiUnhex(s string) string {
	if s == "-" || s == "" {
		return ""
	}
	b, err := hex.DecodeString(s)
	if err != nil {
		panic("bad hex field " + s)
	}
	return string(b)
}

type verifApiResp struct {
	status int
	body   []byte
	hdr    http.Header
	err    error
}

func (r *verifApiRun) do(method, path string, hdr map[string]string, basic *[2]string, body []byte, timeout time.Duration) verifApiResp {
	ctx, cancel := context.WithTimeout(context.Background(), timeout)
	defer cancel()
	req, err := http.NewRequestWithContext(ctx, method, r.n.srv.URL+"/", bytes.NewReader(body))
	if err != nil {
		return verifApiResp{err: err}
	}
	req.URL.Path = path
	req.URL.RawPath = ""
	if i := strings.IndexByte(path, '?'); i >= 0 { // "<path>?<raw query>"
		req.URL.Path, req.URL.RawQuery = path[:i], path[i+1:]
	}
	for k, v := range hdr {
		req.Header[k] = []string{v}
	}
	if basic != nil {
		req.SetBasicAuth(basic[0], basic[1])
	}
	res, err := r.n.client.Do(req)
	if err != nil {
		return verifApiResp{err: err}
	}
	defer res.Body.Close()
	b, _ := io.ReadAll(res.Body) // a cancelled long poll yields what was streamed so far
	return verifApiResp{status: res.StatusCode, body: b, hdr: res.Header}
}

func verifApiClass(status int, body []byte) string {
	b := string(body)
	switch {
	case status == 401 && b == "Unauthorized\n":
		return "unauthorized"
	case status == 404 && b == "Not found\n":
		return "notfound"
	case status == 404 && strings.HasPrefix(b, "invalid session: "):
		return "invalid-session"
	case status == 404 && b == "no X-Session-Auth header set\n":
		return "no-header"
	case (status == 404 || status == 500) && b == ircserver.ErrNoSuchSession.Error()+"\n":
		return "nosuch"
	case (status == 404 || status == 500) && b == ircserver.ErrSessionNotYetSeen.Error()+"\n":
		return "notyet"
	case status == 404 && b == "invalid X-Session-Auth header\n":
		return "bad-auth"
	}
	return "handled"
}

// oracles for the two JSON decoders (encoding/json is not modelled)
func verifApiJSONPost(body []byte) string {
	b := body
	if len(b) > 2048 {
		b = b[:2048]
	}
	var req struct {
		Data            string
		ClientMessageId uint64
	}
	if err := json.NewDecoder(bytes.NewReader(b)).Decode(&req); err != nil {
		return "!"
	}
	return verifApiHex(req.Data) + "." + strconv.FormatUint(req.ClientMessageId, 10)
}

func verifApiJSONDelete(body []byte) string {
	var req struct{ Quitmessage string }
	if err := json.NewDecoder(bytes.NewReader(body)).Decode(&req); err != nil {
		return "!"
	}
	return verifApiHex(req.Quitmessage)
}

// ---- digests ---------------------------------------------------------------------------

func verifApiConfigDigest(i *ircserver.IRCServer) (rev uint64, base string, banned string) {
	i.ConfigMu.RLock()
	defer i.ConfigMu.RUnlock()
	cfg := i.Config
	rev = cfg.Revision
	var keys []string
	for k := range cfg.Banned {
		keys = append(keys, k)
	}
	sort.Strings(keys)
	var bl []string
	for _, k := range keys {
		bl = append(bl, verifApiHex(k)+"="+verifApiHex(cfg.Banned[k]))
	}
	banned = strings.Join(bl, ",")
	if banned == "" {
		banned = "-"
	}
	base = verifApiBaseDigest(cfg)
	return
}

// verifApiBaseDigest: every configuration field except Revision and Banned, via reflection
// over the struct (so a field added later is included), maps in sorted order.
func verifApiBaseDigest(cfg config.Network) string {
	cfg.Revision = 0
	cfg.Banned = nil
	// an origin mapped to false means the same as an absent one (OriginWhitelisted reads the value), and the
	// snapshot encoding legitimately drops such entries: compare the origins that are switched on
	if cfg.WhitelistedOrigins != nil {
		on := map[string]bool{}
		for o, yes := range cfg.WhitelistedOrigins {
			if yes {
				on[o] = true
			}
		}
		cfg.WhitelistedOrigins = on
	}
	h := sha256.New()
	verifApiDump(h, reflect.ValueOf(cfg))
	return hex.EncodeToString(h.Sum(nil))[:16]
}

func verifApiDump(w io.Writer, v reflect.Value) {
	switch v.Kind() {
	case reflect.Struct:
		for i := 0; i < v.NumField(); i++ {
			fmt.Fprintf(w, "%s{", v.Type().Field(i).Name)
			verifApiDump(w, v.Field(i))
			fmt.Fprint(w, "}")
		}
	case reflect.Map:
		keys := v.MapKeys()
		sort.Slice(keys, func(a, b int) bool { return fmt.Sprint(keys[a]) < fmt.Sprint(keys[b]) })
		for _, k := range keys {
			fmt.Fprintf(w, "%q=>", fmt.Sprint(k))
			verifApiDump(w, v.MapIndex(k))
			fmt.Fprint(w, ";")
		}
	case reflect.Slice, reflect.Array:
		fmt.Fprintf(w, "[%d:", v.Len())
		for i := 0; i < v.Len(); i++ {
			verifApiDump(w, v.Index(i))
			fmt.Fprint(w, ",")
		}
		fmt.Fprint(w, "]")
	case reflect.String:
		fmt.Fprintf(w, "%q", v.String())
	case reflect.Bool:
		fmt.Fprintf(w, "%v", v.Bool())
	case reflect.Int, reflect.Int8, reflect.Int16, reflect.Int32, reflect.Int64:
		fmt.Fprintf(w, "%d", v.Int())
	case reflect.Uint, reflect.Uint8, reflect.Uint16, reflect.Uint32, reflect.Uint64:
		fmt.Fprintf(w, "%d", v.Uint())
	default:
		fmt.Fprintf(w, "?%s", v.Kind())
	}
}

func (r *verifApiRun) slotIDs() []int {
	var ks []int
	for k := range r.slots {
		ks = append(ks, k)
	}
	sort.Ints(ks)
	return ks
}

// sessions as the routing code sees them: id.auth.alive.lastClientMessageId
func (r *verifApiRun) sessions() string {
	var l []string
	for _, k := range r.slotIDs() {
		s := r.slots[k]
		alive := 0
		if verifApiAlive(s.id) {
			alive = 1
		}
		ended := 0
		if s.ended {
			ended = 1
		}
		l = append(l, fmt.Sprintf("%d.%s.%d.%d.%d", s.id, verifApiHex(s.auth), alive, ircServer.LastPostMessage(robust.Id{Id: s.id}), ended))
	}
	if len(l) == 0 {
		return "-"
	}
	return strings.Join(l, ",")
}

func (r *verifApiRun) markers() string {
	var l []string
	for _, k := range r.slotIDs() {
		s := r.slots[k]
		alive := 0
		if verifApiAlive(s.id) {
			alive = 1
		}
		l = append(l, fmt.Sprintf("%d.%d.%d", s.id, alive, ircServer.LastPostMessage(robust.Id{Id: s.id})))
	}
	if len(l) == 0 {
		return "-"
	}
	return strings.Join(l, ",")
}

func (r *verifApiRun) outputs(o *outputstream.OutputStream, idx uint64) string {
	msgs, ok := o.Get(robust.Id{Id: idx})
	if !ok {
		return ""
	}
	var l []string
	for _, m := range msgs {
		var ids []string
		for id, yes := range m.InterestingFor {
			// recipients are projected to sessions that are known slots (dead services links
			// keep stale ids, see DESIGN D13; not this property's business)
			if yes {
				ids = append(ids, strconv.FormatUint(id, 10))
			}
		}
		sort.Strings(ids)
		l = append(l, fmt.Sprintf("%d.%d:%s:%s", m.Id.Id, m.Id.Reply, verifApiHex(m.Data), strings.Join(ids, "+")))
	}
	return strings.Join(l, ";")
}

func (r *verifApiRun) digest() string {
	rev, base, banned := verifApiConfigDigest(ircServer)
	h := sha256.New()
	fmt.Fprintf(h, "idx=%d live=%v markers=%s rev=%d base=%s banned=%s lp=%d out=%v",
		verifApiLastIndex(), verifApiLiveIDs(), r.markers(), rev, base, banned, verifApiLastProcessed(), outputStream.LastSeen())
	var l []string
	for id, s := range ircServer.GetSessions() {
		l = append(l, fmt.Sprintf("%d:%s:%s:%v:%v", id.Id, s.Nick, s.Username, s.Operator, len(s.Channels)))
	}
	sort.Strings(l)
	fmt.Fprint(h, l)
	return hex.EncodeToString(h.Sum(nil))[:16]
}

// stateDigest: the IRC state without the raft position: sessions with their activity stamps
// (UpdateLastClientMessageID moves LastActivity, so a processed entry always shows), channels,
// markers, configuration, lastProcessed and the newest output batch.
func (r *verifApiRun) stateDigest() string {
	rev, base, banned := verifApiConfigDigest(ircServer)
	h := sha256.New()
	fmt.Fprintf(h, "live=%v markers=%s rev=%d base=%s banned=%s lp=%d out=%v chans=%d",
		verifApiLiveIDs(), r.markers(), rev, base, banned, verifApiLastProcessed(), outputStream.LastSeen(), ircServer.NumChannels())
	var l []string
	for id, s := range ircServer.GetSessions() {
		l = append(l, fmt.Sprintf("%d:%s:%s:%s:%v:%d:%d:%d:%s:%s:%d", id.Id, s.Nick, s.Username, s.Realname, s.Operator, len(s.Channels),
			s.LastActivity.UnixNano(), s.LastNonPing.UnixNano(), s.AwayMsg, s.RemoteAddr, ircServer.LastPostMessage(id)))
	}
	sort.Strings(l)
	fmt.Fprint(h, l)
	return hex.EncodeToString(h.Sum(nil))[:16]
}

// leak: does the response contain a session secret or the text of any stored output message?
func (r *verifApiRun) leak(body []byte) int {
	if len(body) == 0 {
		return 0
	}
	for _, s := range r.slots {
		if s.auth != "" && bytes.Contains(body, []byte(s.auth)) {
			return 1
		}
	}
	last := verifApiLastIndex()
	for idx := uint64(1); idx <= last; idx++ {
		msgs, ok := outputStream.Get(robust.Id{Id: idx})
		if !ok {
			continue
		}
		for _, m := range msgs {
			if len(m.Data) < 8 {
				continue
			}
			if bytes.Contains(body, []byte(m.Data)) {
				return 1
			}
			if j, err := json.Marshal(m.Data); err == nil && bytes.Contains(body, j[1:len(j)-1]) {
				return 1
			}
		}
	}
	return 0
}

type verifApiDelta struct {
	before    uint64
	liveBefore map[uint64]bool
}

func (r *verifApiRun) begin() verifApiDelta {
	verifApiBarrier()
	d := verifApiDelta{before: verifApiLastIndex(), liveBefore: map[uint64]bool{}}
	for _, id := range verifApiLiveIDs() {
		d.liveBefore[id] = true
	}
	return d
}

// end: "grew=<n>|ent=<type.session.cmid.rev.data.batch>;...|deaths=<id,...>"
func (r *verifApiRun) end(d verifApiDelta) string {
	verifApiBarrier()
	after := verifApiLastIndex()
	var ents []string
	for idx := d.before + 1; idx <= after; idx++ {
		m, ok := verifApiEntry(idx)
		if !ok {
			ents = append(ents, fmt.Sprintf("%d.noncommand", idx))
			continue
		}
		nb := 0
		if msgs, ok := outputStream.Get(robust.Id{Id: idx}); ok {
			nb = len(msgs)
		}
		ents = append(ents, fmt.Sprintf("%d.%s.%d.%d.%d.%s.%s.%d", idx, m.Type.String(), m.Session.Id, m.ClientMessageId, m.Revision,
			verifApiHex(m.Data), verifApiHex(m.RemoteAddr), nb))
	}
	var deaths []string
	live := map[uint64]bool{}
	for _, id := range verifApiLiveIDs() {
		live[id] = true
	}
	var ids []uint64
	for id := range d.liveBefore {
		if !live[id] {
			ids = append(ids, id)
		}
	}
	sort.Slice(ids, func(a, b int) bool { return ids[a] < ids[b] })
	for _, id := range ids {
		deaths = append(deaths, strconv.FormatUint(id, 10))
	}
	e, dd := strings.Join(ents, ";"), strings.Join(deaths, ",")
	if e == "" {
		e = "-"
	}
	if dd == "" {
		dd = "-"
	}
	rev, base, banned := verifApiConfigDigest(ircServer)
	return fmt.Sprintf("grew=%d|ent=%s|deaths=%s|crev=%d|cbase=%s|cbanned=%s", after-d.before, e, dd, rev, base, banned)
}

func (r *verifApiRun) slot(k string) *verifApiSlot {
	n, err := strconv.Atoi(k)
	if err != nil {
		panic("bad slot " + k)
	}
	s, ok := r.slots[n]
	if !ok {
		panic("unknown slot " + k)
	}
	return s
}

func (r *verifApiRun) sessHdr(s *verifApiSlot) map[string]string {
	return map[string]string{"X-Session-Auth": s.auth, "X-Bridge-Auth": "verifbridge", "X-Forwarded-For": s.addr, "Content-Type": "application/json"}
}

func (r *verifApiRun) postBody(s *verifApiSlot, body []byte) string {
	d := r.begin()
	jp := verifApiJSONPost(body)
	res := r.do("POST", fmt.Sprintf("/robustirc/v1/0x%x/message", s.id), r.sessHdr(s), nil, body, 20*time.Second)
	tail := r.end(d)
	if res.status == 200 && strings.Contains(tail, ".irc_from_client.") && jp != "!" {
		// a committed QUIT ends the session that posted it
		if data := strings.ToUpper(strings.TrimLeft(verifApiUnhex(strings.SplitN(jp, ".", 2)[0]), " ")); data == "QUIT" || strings.HasPrefix(data, "QUIT ") {
			s.ended = true
		}
	}
	return fmt.Sprintf("sid=%d|b=%s|jp=%s|status=%d|class=%s|%s|lpm=%d|alive=%v", s.id, verifApiHex(string(body)), jp, res.status,
		verifApiClass(res.status, res.body), tail, ircServer.LastPostMessage(robust.Id{Id: s.id}), verifApiAlive(s.id))
}

func (r *verifApiRun) expandPath(tmpl string) string {
	var out strings.Builder
	for {
		i := strings.IndexByte(tmpl, '{')
		if i < 0 {
			out.WriteString(tmpl)
			break
		}
		j := strings.IndexByte(tmpl[i:], '}')
		if j < 0 {
			out.WriteString(tmpl)
			break
		}
		out.WriteString(tmpl[:i])
		tok := tmpl[i+1 : i+j]
		tmpl = tmpl[i+j+1:]
		parts := strings.SplitN(tok, ":", 2)
		var id uint64
		if parts[0] == "g" {
			id = verifApiLastIndex() + 100000 // never created: "not yet seen"
		} else {
			id = r.slot(parts[0]).id
		}
		f := "x"
		if len(parts) == 2 {
			f = parts[1]
		}
		switch f {
		case "x":
			fmt.Fprintf(&out, "0x%x", id)
		case "X":
			fmt.Fprintf(&out, "0X%X", id)
		case "d":
			fmt.Fprintf(&out, "%d", id)
		case "o":
			fmt.Fprintf(&out, "0%o", id)
		case "O":
			fmt.Fprintf(&out, "0o%o", id)
		case "b":
			fmt.Fprintf(&out, "0b%b", id)
		case "z":
			fmt.Fprintf(&out, "0x000%x", id)
		case "u":
			fmt.Fprintf(&out, "0x_%x", id)
		case "U":
			fmt.Fprintf(&out, "%d_", id)
		case "p":
			fmt.Fprintf(&out, "+%d", id)
		case "m":
			fmt.Fprintf(&out, "-%d", id)
		case "h":
			fmt.Fprintf(&out, "%x", id) // hex without prefix
		case "w":
			fmt.Fprintf(&out, "%d ", id)
		default:
			fmt.Fprintf(&out, "0x%x", id)
		}
	}
	return out.String()
}

func (r *verifApiRun) op(tok string) (obs string) {
	defer func() {
		if e := recover(); e != nil {
			obs = tok[:1] + "|panic=" + verifApiHex(fmt.Sprint(e))
		}
	}()
	a := strings.Split(tok, ":")
	switch a[0] {
	case "N":
		n, err := verifApiNewNode()
		if err != nil {
			return "N|err=" + verifApiHex(err.Error())
		}
		r.closeWatch()
		r.n = n
		r.slots = map[int]*verifApiSlot{}
		r.created = ircServer.ServerCreation
		r.base, r.baseIndex = nil, 0
		rev, base, banned := verifApiConfigDigest(ircServer)
		return fmt.Sprintf("N|pw=%s|wiring=%s|rev=%d|base=%s|banned=%s", verifApiHex(verifApiPassword), os.Getenv("VERIF_API_WIRING"), rev, base, banned)

	case "F":
		hdr := map[string]string{}
		if a[1] != "!" {
			hdr["X-RobustIRC-Config-Revision"] = verifApiUnhex(a[1])
		}
		body := verifApiUnhex(a[2])
		var basic *[2]string
		switch a[3] {
		case "ok":
			basic = &[2]string{"robustirc", verifApiPassword}
		case "bad":
			basic = &[2]string{"robustirc", verifApiPassword + "x"}
		}
		parsed, perr := config.FromString(body)
		tp := "!"
		if perr == nil {
			var bl []string
			var keys []string
			for k := range parsed.Banned {
				keys = append(keys, k)
			}
			sort.Strings(keys)
			for _, k := range keys {
				bl = append(bl, verifApiHex(k)+"="+verifApiHex(parsed.Banned[k]))
			}
			b := strings.Join(bl, ",")
			if b == "" {
				b = "-"
			}
			tp = verifApiBaseDigest(parsed) + "/" + b
		}
		d := r.begin()
		res := r.do("POST", "/config", hdr, basic, []byte(body), 20*time.Second)
		tail := r.end(d)
		rev, base, banned := verifApiConfigDigest(ircServer)
		return fmt.Sprintf("F|h=%s|b=%s|tp=%s|status=%d|class=%s|%s|rev=%d|base=%s|banned=%s", a[1], verifApiHex(body), tp, res.status,
			verifApiClass(res.status, res.body), tail, rev, base, banned)

	case "H":
		// a raw Config entry with a chosen revision proposed directly to raft: what the log contains when a
		// handler that lagged behind the log (D20) accepted a stale revision, or when an update is proposed twice
		hrev, _ := strconv.ParseUint(a[1], 10, 64)
		body := verifApiUnhex(a[2])
		tp := "!"
		if parsed, perr := config.FromString(body); perr == nil {
			var keys, bl []string
			for k := range parsed.Banned {
				keys = append(keys, k)
			}
			sort.Strings(keys)
			for _, k := range keys {
				bl = append(bl, verifApiHex(k)+"="+verifApiHex(parsed.Banned[k]))
			}
			b := strings.Join(bl, ",")
			if b == "" {
				b = "-"
			}
			tp = verifApiBaseDigest(parsed) + "/" + b
		}
		msg := &robust.Message{Type: robust.Config, Data: body, Revision: hrev, UnixNano: time.Now().UnixNano()}
		pbytes, err := proto.Marshal(msg.ProtoMessage())
		if err != nil {
			return "H|err=" + verifApiHex(err.Error())
		}
		verifApiBarrier()
		dg := r.stateDigest()
		d := r.begin()
		f := node.Apply(append([]byte{'p'}, pbytes...), 10*time.Second)
		ferr := f.Error()
		refused := false // what applyMessageWait would turn into HTTP 400 for the proposer
		if ferr == nil {
			_, refused = f.Response().(error)
		}
		tail := r.end(d)
		same := 0
		if r.stateDigest() == dg {
			same = 1
		}
		rev, base, banned := verifApiConfigDigest(ircServer)
		return fmt.Sprintf("H|hrev=%d|b=%s|tp=%s|err=%v|refused=%v|%s|rev=%d|base=%s|banned=%s|same=%d", hrev, verifApiHex(body), tp, ferr != nil, refused, tail, rev, base, banned, same)

	case "G":
		res := r.do("GET", "/config", nil, &[2]string{"robustirc", verifApiPassword}, nil, 20*time.Second)
		rev, base, banned := verifApiConfigDigest(ircServer)
		// the served document, decoded again, must be the configuration in force
		served := "!"
		var got config.Network
		if _, err := toml.Decode(string(res.body), &got); err == nil {
			var keys []string
			for k := range got.Banned {
				keys = append(keys, k)
			}
			sort.Strings(keys)
			var bl []string
			for _, k := range keys {
				bl = append(bl, verifApiHex(k)+"="+verifApiHex(got.Banned[k]))
			}
			b := strings.Join(bl, ",")
			if b == "" {
				b = "-"
			}
			served = verifApiBaseDigest(got) + "/" + b
		}
		return fmt.Sprintf("G|status=%d|hrev=%s|served=%s|rev=%d|base=%s|banned=%s", res.status,
			verifApiHex(res.hdr.Get("X-RobustIRC-Config-Revision")), served, rev, base, banned)

	case "C":
		k, _ := strconv.Atoi(a[1])
		d := r.begin()
		res := r.do("POST", "/robustirc/v1/session", nil, nil, nil, 20*time.Second)
		tail := r.end(d)
		var rep struct{ Sessionid, Sessionauth, Prefix string }
		if err := json.Unmarshal(res.body, &rep); err != nil {
			return fmt.Sprintf("C|status=%d|err=%s|%s", res.status, verifApiHex(err.Error()), tail)
		}
		id, _ := strconv.ParseUint(rep.Sessionid, 0, 64)
		r.slots[k] = &verifApiSlot{id: id, auth: rep.Sessionauth, addr: fmt.Sprintf("10.7.%d.%d", k/250, k%250+1)}
		return fmt.Sprintf("C|k=%d|status=%d|sid=%d|authlen=%d|authhex=%v|%s", k, res.status, id, len(rep.Sessionauth),
			strings.Trim(rep.Sessionauth, "0123456789abcdef") == "", tail)

	case "I":
		s := r.slot(a[1])
		r.cmid++
		body, _ := json.Marshal(struct {
			Data            string
			ClientMessageId uint64
		}{verifApiUnhex(a[2]), r.cmid})
		s.lastBody = body
		return "I|" + r.postBody(s, body)

	case "P":
		s := r.slot(a[1])
		body := []byte(verifApiUnhex(a[2]))
		s.lastBody = body
		return "P|" + r.postBody(s, body)

	case "T":
		s := r.slot(a[1])
		return "T|" + r.postBody(s, s.lastBody)

	case "D":
		s := r.slot(a[1])
		body := []byte(verifApiUnhex(a[2]))
		d := r.begin()
		res := r.do("DELETE", fmt.Sprintf("/robustirc/v1/0x%x", s.id), r.sessHdr(s), nil, body, 20*time.Second)
		tail := r.end(d)
		if res.status == 200 && strings.Contains(tail, ".delete_session.") {
			s.ended = true
		}
		return fmt.Sprintf("D|sid=%d|b=%s|jd=%s|status=%d|class=%s|%s|alive=%v", s.id, verifApiHex(string(body)), verifApiJSONDelete(body),
			res.status, verifApiClass(res.status, res.body), tail, verifApiAlive(s.id))

	case "X":
		s := r.slot(a[1])
		cmid, _ := strconv.ParseUint(a[2], 10, 64)
		msg := &robust.Message{Session: robust.Id{Id: s.id}, Type: robust.MessageOfDeath, Data: verifApiUnhex(a[3]),
			ClientMessageId: cmid, UnixNano: time.Now().UnixNano()}
		b, err := proto.Marshal(msg.ProtoMessage())
		if err != nil {
			return "X|err=" + verifApiHex(err.Error())
		}
		d := r.begin()
		f := node.Apply(append([]byte{'p'}, b...), 10*time.Second)
		ferr := f.Error()
		tail := r.end(d)
		// what a retry of that message would carry
		body, _ := json.Marshal(struct {
			Data            string
			ClientMessageId uint64
		}{verifApiUnhex(a[3]), cmid})
		s.lastBody = body
		return fmt.Sprintf("X|sid=%d|cmid=%d|err=%v|%s|lpm=%d|alive=%v", s.id, cmid, ferr != nil, tail,
			ircServer.LastPostMessage(robust.Id{Id: s.id}), verifApiAlive(s.id))

	case "Q":
		// a raw IRCFromClient entry proposed directly to raft: what the log contains when a handler
		// that lagged behind the log (D14) proposed the retry a second time
		s := r.slot(a[1])
		cmid, _ := strconv.ParseUint(a[2], 10, 64)
		msg := &robust.Message{Session: robust.Id{Id: s.id}, Type: robust.IRCFromClient, Data: verifApiUnhex(a[3]),
			ClientMessageId: cmid, UnixNano: time.Now().UnixNano(), RemoteAddr: s.addr}
		b, err := proto.Marshal(msg.ProtoMessage())
		if err != nil {
			return "Q|err=" + verifApiHex(err.Error())
		}
		verifApiBarrier()
		dg := r.stateDigest()
		d := r.begin()
		f := node.Apply(append([]byte{'p'}, b...), 10*time.Second)
		ferr := f.Error()
		tail := r.end(d)
		same := 0
		if r.stateDigest() == dg {
			same = 1
		}
		return fmt.Sprintf("Q|sid=%d|cmid=%d|data=%s|err=%v|%s|lpm=%d|alive=%v|same=%d", s.id, cmid, a[3], ferr != nil, tail,
			ircServer.LastPostMessage(robust.Id{Id: s.id}), verifApiAlive(s.id), same)

	case "A":
		// the apply gate: "A:close" holds the state machine back while raft keeps appending and committing
		// (the FSM lags behind the log); "A:open" lets it catch up and waits until it has
		if a[1] == "close" {
			verifApiBarrier()
			r.n.gate.set(true)
			return fmt.Sprintf("A|closed|last=%d", verifApiLastIndex())
		}
		r.n.gate.set(false)
		deadline := time.Now().Add(20 * time.Second)
		for time.Now().Before(deadline) {
			verifApiBarrier()
			if li, err := ircStore.LastIndex(); err == nil && li >= r.lastProposed {
				break
			}
			time.Sleep(time.Millisecond)
		}
		return fmt.Sprintf("A|open|last=%d|live=%d", verifApiLastIndex(), len(verifApiLiveIDs()))

	case "E":
		// a CreateSession entry proposed the way handleCreateSession does (128 random bytes as secret), without
		// waiting for the state machine: the session id is the raft index of the entry
		k, _ := strconv.Atoi(a[1])
		secret := make([]byte, 128)
		if _, err := rand.Read(secret); err != nil {
			return "E|err=" + verifApiHex(err.Error())
		}
		auth := fmt.Sprintf("%x", secret)
		idx, err := r.propose(&robust.Message{Type: robust.CreateSession, Data: auth, UnixNano: time.Now().UnixNano()})
		if err != nil {
			return "E|err=" + verifApiHex(err.Error())
		}
		r.slots[k] = &verifApiSlot{id: robust.IdFromRaftIndex(idx), auth: auth, addr: fmt.Sprintf("10.7.%d.%d", k/250, k%250+1)}
		return fmt.Sprintf("E|k=%d|sid=%d|last=%d|applied=%v", k, r.slots[k].id, verifApiLastIndex(), verifApiAlive(r.slots[k].id))

	case "M":
		// a follow-up IRCFromClient entry of slot k, proposed without waiting for the state machine
		sl := r.slot(a[1])
		r.cmid++
		idx, err := r.propose(&robust.Message{Session: robust.Id{Id: sl.id}, Type: robust.IRCFromClient, Data: verifApiUnhex(a[2]),
			ClientMessageId: r.cmid, UnixNano: time.Now().UnixNano(), RemoteAddr: sl.addr})
		if err != nil {
			return "M|err=" + verifApiHex(err.Error())
		}
		return fmt.Sprintf("M|sid=%d|idx=%d|last=%d", sl.id, idx, verifApiLastIndex())

	case "L":
		// keep a long poll of slot k (with its own secret) open; every later R op reports whether it survived
		r.closeWatch()
		sl := r.slot(a[1])
		r.watchSlot = sl
		r.watch = r.openStream(sl)
		return fmt.Sprintf("L|sid=%d|status=%d|ended=%v", sl.id, r.watch.status, r.watch.ended())

	case "K":
		// a REAL snapshot through raft (FSM.Snapshot's compaction fold + robustSnapshot.Persist into the
		// FileSnapshotStore) restored the way a restart / InstallSnapshot does (FSM.Restore of that
		// snapshot).  -canary_compaction_start moves the compaction horizon so that everything applied
		// so far is old enough to be folded into the state message.
		verifApiBarrier()
		// an open long poll (op L) stays open across the restore: InstallSnapshot on a lagging node happens
		// while clients are connected; the stream is probed after the restore (field stream=)
		before := r.markers()
		revB, baseB, bannedB := verifApiConfigDigest(ircServer)
		*canaryCompactionStart = time.Now().Add(48 * time.Hour).UnixNano()
		f := node.Snapshot()
		serr := f.Error()
		*canaryCompactionStart = 0
		if serr != nil {
			return "K|noop=" + verifApiHex(serr.Error())
		}
		meta, rc, err := f.Open()
		if err != nil {
			return "K|err=" + verifApiHex(err.Error())
		}
		if err := r.n.fsm.Restore(rc); err != nil {
			return "K|err=" + verifApiHex(err.Error())
		}
		r.created = ircServer.ServerCreation
		after := r.markers()
		revA, baseA, bannedA := verifApiConfigDigest(ircServer)
		first, _ := ircStore.FirstIndex()
		lastKept, _ := ircStore.LastIndex()
		if data, err := ircServer.Marshal(verifApiLastIndex()); err == nil {
			r.base, r.baseIndex = data, verifApiLastIndex()
		}
		return fmt.Sprintf("K|markers_same=%v|cfg_same=%v|before=%s|after=%s|snapindex=%d|kept=%d..%d|rev=%d|base=%s|banned=%s|stream=%s", before == after,
			revB == revA && baseB == baseA && bannedB == bannedA, before, after, meta.Index, first, lastKept, revA, baseA, bannedA, r.streamProbe())

	case "S":
		verifApiBarrier()
		before := r.markers()
		revB, baseB, bannedB := verifApiConfigDigest(ircServer)
		data, err := ircServer.Marshal(verifApiLastIndex())
		if err != nil {
			return "S|err=" + verifApiHex(err.Error())
		}
		i3 := ircserver.NewIRCServer(*network, r.created)
		if _, err := i3.Unmarshal(data); err != nil {
			return "S|err=" + verifApiHex(err.Error())
		}
		ircServer = i3
		r.n.h.ReplaceState(i3, ircStore, outputStream)
		after := r.markers()
		revA, baseA, bannedA := verifApiConfigDigest(ircServer)
		return fmt.Sprintf("S|markers_same=%v|cfg_same=%v|before=%s|after=%s|rev=%d|base=%s|banned=%s", before == after,
			revB == revA && baseB == baseA && bannedB == bannedA, before, after, revA, baseA, bannedA)

	case "R":
		meth := a[1]
		path := r.expandPath(verifApiUnhex(a[2]))
		hdr := map[string]string{}
		hobs := "!"
		if spec := a[3]; spec != "-" {
			var v string
			switch spec[0] {
			case 'e':
				v = ""
			case 'a':
				v = r.slot(spec[1:]).auth
			case 'w':
				v = r.slot(spec[1:]).auth
				c := byte('0')
				if v[len(v)-1] == '0' {
					c = '1'
				}
				v = v[:len(v)-1] + string(c)
			case 'p':
				v = r.slot(spec[1:]).auth
				v = v[:len(v)-1]
			case 'u':
				v = strings.ToUpper(r.slot(spec[1:]).auth)
			case 'x':
				v = r.slot(spec[1:]).auth + "0"
			case 'l':
				v = verifApiUnhex(spec[1:])
			}
			hdr["X-Session-Auth"] = v
			hobs = verifApiHex(v)
		}
		var basic *[2]string
		bobs := "!"
		if spec := a[4]; spec != "-" {
			if spec == "ok" {
				basic = &[2]string{"robustirc", verifApiPassword}
			} else {
				up := strings.SplitN(spec[1:], ".", 2)
				basic = &[2]string{verifApiUnhex(up[0]), strings.Replace(verifApiUnhex(up[1]), "{pw}", verifApiPassword, 1)}
			}
			bobs = verifApiHex(basic[0]) + "." + verifApiHex(basic[1])
		}
		body := []byte(verifApiUnhex(a[5]))
		query := "-"
		pathOnly := path
		if i := strings.IndexByte(path, '?'); i >= 0 {
			pathOnly, query = path[:i], verifApiHex(path[i+1:])
		}
		verifApiBarrier()
		ss, last, dg := r.sessions(), verifApiLastProcessed(), r.digest()
		d := r.begin()
		timeout := 20 * time.Second
		if meth == "GET" && strings.HasSuffix(path, "/messages") {
			timeout = 400 * time.Millisecond
		}
		res := r.do(meth, path, hdr, basic, body, timeout)
		tail := r.end(d)
		same := 0
		if r.digest() == dg {
			same = 1
		}
		class := verifApiClass(res.status, res.body)
		if res.err != nil {
			class = "error"
		}
		leak := r.leak(res.body)
		stream := r.streamProbe() // after everything else was measured: the probe itself posts a message
		return fmt.Sprintf("R|m=%s|p=%s|q=%s|h=%s|ba=%s|b=%s|jp=%s|jd=%s|last=%d|ss=%s|status=%d|class=%s|%s|leak=%d|same=%d|blen=%d|stream=%s", meth, verifApiHex(pathOnly),
			query, hobs, bobs, verifApiHex(string(body)), verifApiJSONPost(body), verifApiJSONDelete(body), last, ss, res.status, class, tail, leak, same, len(res.body), stream)

	case "W":
		path := verifApiUnhex(a[1])
		res := r.do("GET", path, nil, nil, nil, 5*time.Second)
		return fmt.Sprintf("W|p=%s|status=%d|class=%s|blen=%d", a[1], res.status, verifApiClass(res.status, res.body), len(res.body))

	case "Y":
		verifApiBarrier()
		last := verifApiLastIndex()
		out := r.outputs(outputStream, last)
		if out == "" {
			out = "-"
		}
		return fmt.Sprintf("Y|idx=%d|out=%s", last, out)

	case "J":
		// the responder side of the time safeguard: GET / with Accept: application/json and the network password; the
		// reported CurrentTime must have been read between the moment the request was sent and the moment the answer was read
		pw := verifApiUnhex(a[1])
		before := time.Now()
		res := r.do("GET", "/", map[string]string{"Accept": "application/json"}, &[2]string{"robustirc", pw}, nil, 20*time.Second)
		after := time.Now()
		var st struct{ CurrentTime time.Time }
		if err := json.Unmarshal(res.body, &st); err != nil {
			return fmt.Sprintf("J|status=%d|err=%s", res.status, verifApiHex(err.Error()))
		}
		return fmt.Sprintf("J|status=%d|early_ns=%d|late_ns=%d", res.status, before.Sub(st.CurrentTime).Nanoseconds(), st.CurrentTime.Sub(after).Nanoseconds())

	case "U":
		v, err := strconv.ParseUint(verifApiUnhex(a[1]), 0, 64)
		if err != nil {
			return "U|s=" + a[1] + "|v=!"
		}
		return fmt.Sprintf("U|s=%s|v=%d", a[1], v)

	case "Z":
		verifApiBarrier()
		last := verifApiLastIndex()
		dir2, err := os.MkdirTemp("", "verif-api-replica-")
		if err != nil {
			return "Z|err=" + verifApiHex(err.Error())
		}
		defer os.RemoveAll(dir2)
		i2 := ircserver.NewIRCServer(*network, r.created)
		if r.base != nil {
			if _, err := i2.Unmarshal(r.base); err != nil {
				return "Z|err=" + verifApiHex(err.Error())
			}
		}
		o2, err := outputstream.NewOutputStream(dir2)
		if err != nil {
			return "Z|err=" + verifApiHex(err.Error())
		}
		defer o2.Close()
		outSame, firstDiff := true, uint64(0)
		cfgTrace := []string{}
		for idx := r.baseIndex + 1; idx <= last; idx++ {
			m, ok := verifApiEntry(idx)
			if !ok {
				continue
			}
			r.n.fsm.applyRobustMessage(&m, i2, o2)
			if r.outputs(outputStream, idx) != r.outputs(o2, idx) && outSame {
				outSame, firstDiff = false, idx
			}
			if m.Type == robust.Config {
				rev, base, banned := verifApiConfigDigest(i2)
				cfgTrace = append(cfgTrace, fmt.Sprintf("%d.%d.%s.%s", idx, rev, base, banned))
			}
		}
		mk := func(i *ircserver.IRCServer) string {
			var l []string
			for _, k := range r.slotIDs() {
				s := r.slots[k]
				_, err := i.GetSession(robust.Id{Id: s.id})
				l = append(l, fmt.Sprintf("%d.%v.%d", s.id, err == nil, i.LastPostMessage(robust.Id{Id: s.id})))
			}
			return strings.Join(l, ",")
		}
		rev1, base1, banned1 := verifApiConfigDigest(ircServer)
		rev2, base2, banned2 := verifApiConfigDigest(i2)
		// a copy restored from the snapshot encoding
		data, err := ircServer.Marshal(last)
		if err != nil {
			return "Z|err=" + verifApiHex(err.Error())
		}
		i3 := ircserver.NewIRCServer(*network, r.created)
		if _, err := i3.Unmarshal(data); err != nil {
			return "Z|err=" + verifApiHex(err.Error())
		}
		rev3, base3, banned3 := verifApiConfigDigest(i3)
		ct := strings.Join(cfgTrace, ";")
		if ct == "" {
			ct = "-"
		}
		return fmt.Sprintf("Z|entries=%d|replica_markers=%v|replica_cfg=%v|replica_out=%v|outdiff=%d|restored_markers=%v|restored_cfg=%v|markers=%s|rev=%d|base=%s|banned=%s|cfgtrace=%s",
			last, mk(ircServer) == mk(i2), rev1 == rev2 && base1 == base2 && banned1 == banned2, outSame, firstDiff,
			mk(ircServer) == mk(i3), rev1 == rev3 && base1 == base3 && banned1 == banned3, r.markers(), rev1, base1, banned1, ct)
	}
	return tok[:1] + "|unknown-op"
}

func TestVerifApi(t *testing.T) {
	in, err := os.Open(os.Getenv("VERIF_IN"))
	if err != nil {
		t.Fatal(err)
	}
	defer in.Close()
	out, err := os.Create(os.Getenv("VERIF_OUT"))
	if err != nil {
		t.Fatal(err)
	}
	defer out.Close()
	w := bufio.NewWriter(out)
	defer w.Flush()
	r := &verifApiRun{slots: map[int]*verifApiSlot{}, cmid: uint64(time.Now().UnixNano()) % 1000000007}
	sc := bufio.NewScanner(in)
	sc.Buffer(make([]byte, 1<<20), 1<<26)
	for sc.Scan() {
		f := strings.Fields(sc.Text())
		if len(f) < 2 {
			continue
		}
		// every observation is written (and flushed) as soon as its op is done: if a request makes the
		// process exit (log.Fatalf in handleQuit, exitOnRecover after a handler panic) the observations so
		// far survive and the unfinished line tells the harness which op was being served
		r.slots = map[int]*verifApiSlot{} // slots are per case; sessions of earlier cases stay on the node
		fmt.Fprintf(w, "%s %s", f[0], f[1])
		w.Flush()
		for _, tok := range f[2:] {
			fmt.Fprintf(w, " %s", r.op(tok))
			w.Flush()
		}
		r.closeWatch()
		if r.n != nil && r.n.gate != nil && r.n.gate.isClosed() {
			r.n.gate.set(false) // never leave the state machine held back after a case
		}
		fmt.Fprintln(w)
		w.Flush()
	}
	verifApiCurMu.Lock()
	verifApiCloseNode()
	verifApiCurMu.Unlock()
}
