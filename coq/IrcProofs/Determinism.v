(* IrcProofs/Determinism.v — the three ways in which the model (and the Go code it mirrors) turns a map into
   output or state are independent of the order in which the map is traversed:
     (1) recipient sets: set_of_ids (Misc.recipients_order_independent),
     (2) listings: sort_strings of the traversed keys (NAMES, WHO, WHOIS, LIST, ban list, SERVER burst),
     (3) bulk updates: a fold of a commutative update over the traversed keys.
   The range-site scan of props/c01.py assigns every `for … range <map>` of internal/ircserver to one of these
   classes; the lemmas here are what makes each class order-independent. *)
From Coq Require Import Strings.String Strings.Ascii List Sorting.Permutation Sorting.Sorted Bool NArith Lia.
From RV Require Import Irc.Str.
Import ListNotations.

(* ---- String.leb is a total order (transitivity is not in the standard library) ---------------------- *)
Lemma ascii_compare_N a b : Ascii.compare a b = N.compare (N_of_ascii a) (N_of_ascii b).
Proof. reflexivity. Qed.

Lemma ascii_compare_Lt_trans a b c : Ascii.compare a b = Lt -> Ascii.compare b c = Lt -> Ascii.compare a c = Lt.
Proof. rewrite !ascii_compare_N, !N.compare_lt_iff. lia. Qed.

Lemma string_compare_refl s : String.compare s s = Eq.
Proof.
  induction s as [|a s IH]; [reflexivity|]. cbn [String.compare].
  rewrite ascii_compare_N, N.compare_refl. exact IH.
Qed.

Lemma string_compare_Lt_trans s1 : forall s2 s3,
  String.compare s1 s2 = Lt -> String.compare s2 s3 = Lt -> String.compare s1 s3 = Lt.
Proof.
  induction s1 as [|a s1 IH]; intros [|b s2] [|c s3]; cbn [String.compare]; try discriminate; try reflexivity.
  destruct (Ascii.compare a b) eqn:Hab; try discriminate; destruct (Ascii.compare b c) eqn:Hbc; try discriminate.
  - apply Ascii.compare_eq_iff in Hab, Hbc. subst. rewrite ascii_compare_N, N.compare_refl. apply IH.
  - apply Ascii.compare_eq_iff in Hab. subst. rewrite Hbc. reflexivity.
  - apply Ascii.compare_eq_iff in Hbc. subst. rewrite Hab. reflexivity.
  - rewrite (ascii_compare_Lt_trans _ _ _ Hab Hbc). reflexivity.
Qed.

Lemma string_leb_trans s1 s2 s3 : String.leb s1 s2 = true -> String.leb s2 s3 = true -> String.leb s1 s3 = true.
Proof.
  unfold String.leb.
  destruct (String.compare s1 s2) eqn:H12; try discriminate; destruct (String.compare s2 s3) eqn:H23; try discriminate; intros _ _.
  - apply String.compare_eq_iff in H12, H23. subst. now rewrite string_compare_refl.
  - apply String.compare_eq_iff in H12. subst. now rewrite H23.
  - apply String.compare_eq_iff in H23. subst. now rewrite H12.
  - now rewrite (string_compare_Lt_trans _ _ _ H12 H23).
Qed.

(* ---- (2) sort_strings is determined by the multiset of its input -------------------------------------- *)
Definition le_str (a b : string) : Prop := String.leb a b = true.

Lemma insert_sorted_perm x l : Permutation (insert_sorted x l) (x :: l).
Proof.
  induction l as [|y l IH]; cbn [insert_sorted]; [reflexivity|].
  destruct (String.leb x y); [reflexivity|].
  rewrite perm_swap. now apply perm_skip.
Qed.

Lemma sort_strings_perm_self l : Permutation (sort_strings l) l.
Proof.
  induction l as [|x l IH]; cbn; [reflexivity|].
  unfold sort_strings in *. cbn [fold_right]. rewrite insert_sorted_perm. now apply perm_skip.
Qed.

Lemma insert_sorted_sorted x l : StronglySorted le_str l -> StronglySorted le_str (insert_sorted x l).
Proof.
  induction 1 as [|y l Hs IH Hall]; cbn [insert_sorted]; [repeat constructor|].
  destruct (String.leb x y) eqn:E.
  - constructor; [constructor; assumption|]. constructor; [exact E|].
    rewrite Forall_forall in *. intros z Hz. eapply string_leb_trans; [exact E|]. now apply Hall.
  - constructor; [exact IH|].
    assert (Hyx : le_str y x) by (destruct (String.leb_total x y) as [H|H]; [congruence|exact H]).
    rewrite Forall_forall in *. intros z Hz.
    apply (Permutation_in _ (insert_sorted_perm x l)) in Hz. destruct Hz as [<-|Hz]; [exact Hyx|now apply Hall].
Qed.

Lemma sort_strings_sorted l : StronglySorted le_str (sort_strings l).
Proof.
  induction l as [|x l IH]; [constructor|]. unfold sort_strings in *. cbn [fold_right]. now apply insert_sorted_sorted.
Qed.

Lemma sorted_perm_eq l : forall l', StronglySorted le_str l -> StronglySorted le_str l' -> Permutation l l' -> l = l'.
Proof.
  induction l as [|x l IH]; intros l' Hs Hs' Hp.
  - apply Permutation_nil in Hp. now subst.
  - destruct l' as [|y l']; [apply Permutation_sym, Permutation_nil in Hp; discriminate|].
    inversion Hs as [|? ? Hsl Hall]; subst. inversion Hs' as [|? ? Hsl' Hall']; subst.
    rewrite Forall_forall in Hall, Hall'.
    assert (x = y) as ->.
    { assert (Hx : In x (y :: l')) by (eapply Permutation_in; [exact Hp|now left]).
      assert (Hy : In y (x :: l)) by (eapply Permutation_in; [apply Permutation_sym; exact Hp|now left]).
      destruct Hx as [->|Hx]; [reflexivity|]. destruct Hy as [->|Hy]; [reflexivity|].
      apply String.leb_antisym; [now apply Hall|now apply Hall']. }
    f_equal. apply IH; [assumption|assumption|]. now apply Permutation_cons_inv in Hp.
Qed.

(* the order in which the keys of a map are traversed does not influence a sorted listing *)
Theorem sort_strings_order_independent l l' : Permutation l l' -> sort_strings l = sort_strings l'.
Proof.
  intros Hp. apply sorted_perm_eq; [apply sort_strings_sorted|apply sort_strings_sorted|].
  rewrite (sort_strings_perm_self l), (sort_strings_perm_self l'). exact Hp.
Qed.

(* ---- (3) bulk updates: folding a commutative update over the keys ------------------------------------- *)
Theorem fold_commutative_order_independent {A S} (f : A -> S -> S) :
  (forall a b s, f a (f b s) = f b (f a s)) ->
  forall l l', Permutation l l' -> forall s, fold_right f s l = fold_right f s l'.
Proof.
  intros Hc l l' Hp. induction Hp as [|x l l' _ IH|x y l|l l' l'' _ IH1 _ IH2]; intros s; cbn [fold_right].
  - reflexivity.
  - now rewrite IH.
  - apply Hc.
  - now rewrite IH1, IH2.
Qed.
