# C01 — replica determinism: proofs + 3-instance comparison + scan of map-range sites that emit output
import os, re
import vlib
from props import irc_common

MAP_EXPRS = [r"i\.sessions", r"i\.nicks", r"i\.channels", r"i\.svsholds", r"\w+\.nicks", r"\w+\.Channels", r"\w+\.invitedTo",
             r"aliases", r"seen", r"i\.Config\.\w+", r"\w+\.InterestingFor"]
# map-range loops whose body emits output, with the reason why the order cannot matter
ALLOWED_EMITTING = {
    ("scmd_quit.go", "i.sessions"): "prefix branch: returns after the first match; the match is unique (nick uniqueness, C14)",
    ("commands.go", "aliases"): "cmdServiceAlias: at most one key equals the command, returns after it",
}


def scan_range_sites():
    d = os.path.join(vlib.REPO, "internal", "ircserver")
    sites = []
    for fn in sorted(os.listdir(d)):
        if not fn.endswith(".go") or fn.endswith("_test.go"):
            continue
        src = open(os.path.join(d, fn)).read()
        for m in re.finditer(r"for\s+[^{\n]*?:?=\s*range\s+([^{\n]+?)\s*\{", src):
            expr = m.group(1).strip()
            if not any(re.fullmatch(p, expr) for p in MAP_EXPRS):
                continue
            # body by brace matching
            i, depth = m.end(), 1
            while i < len(src) and depth:
                depth += {"{": 1, "}": -1}.get(src[i], 0)
                i += 1
            body = src[m.end():i]
            emits = bool(re.search(r"\bi\.send\w*\(|\bi\.cmd\w+\(", body))
            sites.append((fn, expr, emits, src[:m.start()].count("\n") + 1))
    return sites


def run(ck, replay):
    sites = scan_range_sites()
    bad = [s for s in sites if s[2] and (s[0], s[1]) not in ALLOWED_EMITTING]
    ck.notes["map_range_sites"] = {"total": len(sites), "emitting": [list(s) for s in sites if s[2]],
                                   "allowed": {"%s:%s" % k: v for k, v in ALLOWED_EMITTING.items()}}
    irc_common.run_irc_check(ck, "C01", "c01", replay)
    ck.add_obligation(not bad, "no handler emits output inside a loop over a Go map (except the %d justified sites)" % len(ALLOWED_EMITTING))
    if bad and not any(v[2] for v in ck.violations):
        ck.violation("map-range-emits", {"what": "a handler emits output inside a loop over a Go map: the order of the emitted lines depends on the map iteration order",
                                         "sites": [list(b) for b in bad], "obligation": "range-site scan (C01)"}, concrete=False)
