(* C10 — a retried POST (same client message id as the last message applied for the session)
   is acknowledged but not applied again.  Two layers:
   (a) a handler that is caught up (answers from the state of the node that applies) proposes
       nothing: C10_handler, C10_retry_noop, C10_retries;
   (b) whatever the handler saw — lagging behind the log, freshly elected, arbitrary (D14) —
       a second copy that reaches the log is skipped by every node that applies it
       (statemachine.go, commit 92a4e2e): identity on the state, not processed, no output:
       C10_second_copy_identity, C10_duplicates_invisible, C10_second_copy_in_log,
       C10_processed_once.  No precondition on the handling node is left.
   Statements over Api/Post.v; which sessions die while an entry is processed is an arbitrary
   oracle, so they hold for every IRC semantics.  Client message id 0 is "no id": two entries
   with id 0 are two messages (the skip rule requires a non-zero id). *)
From Coq Require Import List Bool NArith String.
From RV Require Import Base.Text Api.Auth Api.Post Api.PostProofs.
Import ListNotations.
Local Open Scope string_scope.

(* the marker is written BEFORE processing: after an IRCFromClient or MessageOfDeath entry of
   an existing session, the session is gone or carries the entry's client message id *)
Theorem C10_marker : forall o st e,
  is_client_msg e = true -> is_live st (e_session e) = true ->
  is_live (apply o st e) (e_session e) = true ->
  last_post (apply o st e) (e_session e) = e_cmid e.
Proof. exact marker_after_apply. Qed.
Print Assumptions C10_marker.

Theorem C10_marker_inv : forall o st e,
  is_client_msg e = true -> Inv (e_session e) (e_cmid e) (apply o st e).
Proof. exact apply_establishes_inv. Qed.
Print Assumptions C10_marker_inv.

(* the handler acknowledges without proposing *)
Theorem C10_handler : forall json_decode st sid body d c,
  json_decode (stake body_limit body) = Some (d, c) -> last_post st sid = c ->
  post_handler json_decode st sid body = PAck.
Proof. exact handler_ack. Qed.
Print Assumptions C10_handler.

(* exactly when something is proposed, and what (Data cut at the first newline) *)
Theorem C10_handler_propose : forall json_decode st sid body e,
  post_handler json_decode st sid body = PPropose e <->
  exists d c, json_decode (stake body_limit body) = Some (d, c) /\ last_post st sid <> c /\
              st_leader st = true /\ e = mkEntry EIrc 0 sid c (cut_line d) 0.
Proof. exact handler_propose. Qed.
Print Assumptions C10_handler_propose.

(* one repeat: log and state of the handling node are untouched *)
Theorem C10_retry_noop : forall json_decode restore s t hdr b o sid c d,
  Inv sid c (s_node s) -> parse_uint0 t = Some sid ->
  json_decode (stake body_limit b) = Some (d, c) ->
  step json_decode restore s (EvPost t hdr b o) = s.
Proof. exact retry_is_noop. Qed.
Print Assumptions C10_retry_noop.

(* histories: any number of repeats, interleaved with other sessions' traffic, deletes,
   configuration entries and snapshot restores, adds no entry of that session to the log.
   Hypothesis on [restore]: Marshal/Unmarshal keeps sessions and markers (serialize.go). *)
Theorem C10_retries : forall json_decode restore,
  (forall st id, is_live (restore st) id = is_live st id /\ last_post (restore st) id = last_post st id) ->
  forall sid c evs s,
  Inv sid c (s_node s) -> Forall (allowed json_decode sid c) evs ->
  Inv sid c (s_node (run json_decode restore evs s)) /\
  own_entries sid (s_log (run json_decode restore evs s)) = own_entries sid (s_log s).
Proof. exact retries_add_nothing. Qed.
Print Assumptions C10_retries.

(* the invariant [Inv sid c] is established by the first copy, as a message ... *)
Theorem C10_first_copy : forall json_decode restore s t hdr b o sid d c,
  session_check (s_node s) hdr t = inl sid ->
  json_decode (stake body_limit b) = Some (d, c) ->
  st_leader (s_node s) = true ->
  Inv sid c (s_node (step json_decode restore s (EvPost t hdr b o))).
Proof. exact first_copy_establishes. Qed.
Print Assumptions C10_first_copy.

(* ... and also when the first copy became a message of death *)
Theorem C10_message_of_death : forall json_decode restore s e o,
  e_type e = EMod -> Inv (e_session e) (e_cmid e) (s_node (step json_decode restore s (EvApply e o))).
Proof. exact mod_copy_establishes. Qed.
Print Assumptions C10_message_of_death.

(* ---- (b): the second copy in the log ------------------------------------------------------- *)
(* a copy of the session's last message is the identity on the state and is not processed *)
Theorem C10_second_copy_identity : forall o st e sid c,
  Inv sid c st -> c <> 0%N -> is_copy sid c e = true ->
  apply o st e = st /\ processes st e = false.
Proof. exact dup_apply_identity. Qed.
Print Assumptions C10_second_copy_identity.

(* a log with any number of extra copies = the log without them: same state, same processed
   entries (same output), on every replica (a statement about replay alone) *)
Theorem C10_duplicates_invisible : forall sid c, c <> 0%N -> forall l st,
  Inv sid c st -> Forall (tail_ok sid c) l ->
  replay l st = replay (drop_copies sid c l) st /\
  replay_proc l st = replay_proc (drop_copies sid c l) st.
Proof. exact duplicates_invisible. Qed.
Print Assumptions C10_duplicates_invisible.

(* closed form: ANY log  l1 ++ first copy ++ (entries that keep it the session's last message)
   ++ second copy, from ANY initial state *)
Theorem C10_second_copy_in_log : forall st0 l1 e1 o1 l2 e2 o2,
  is_client_msg e1 = true -> e_cmid e1 <> 0%N ->
  Forall (tail_ok (e_session e1) (e_cmid e1)) l2 ->
  is_copy (e_session e1) (e_cmid e1) e2 = true ->
  replay (l1 ++ (e1, o1) :: l2 ++ [(e2, o2)]) st0 = replay (l1 ++ (e1, o1) :: l2) st0 /\
  replay_proc (l1 ++ (e1, o1) :: l2 ++ [(e2, o2)]) st0 = replay_proc (l1 ++ (e1, o1) :: l2) st0.
Proof. exact second_copy_in_log. Qed.
Print Assumptions C10_second_copy_in_log.

(* one repeat answered from ANY state [view]: state and processed entries of the applying node
   are unchanged *)
Theorem C10_stale_handler : forall json_decode view s t hdr b o sid c d,
  Inv sid c (s_node s) -> c <> 0%N -> parse_uint0 t = Some sid ->
  json_decode (stake body_limit b) = Some (d, c) ->
  s_node (post_from json_decode view s t hdr b o) = s_node s /\
  s_proc (post_from json_decode view s t hdr b o) = s_proc s.
Proof. exact stale_retry_is_invisible. Qed.
Print Assumptions C10_stale_handler.

(* histories with handlers in arbitrary states and copies committed by any means: no client
   message of the session is processed again — the message is processed at most once *)
Theorem C10_processed_once : forall json_decode restore,
  (forall st id, is_live (restore st) id = is_live st id /\ last_post (restore st) id = last_post st id) ->
  forall sid c evs, c <> 0%N -> forall s,
  Inv sid c (s_node s) -> Forall (allowed_any json_decode sid c) evs ->
  Inv sid c (s_node (run json_decode restore evs s)) /\
  filter (own_e sid) (s_proc (run json_decode restore evs s)) = filter (own_e sid) (s_proc s).
Proof. exact retries_processed_once. Qed.
Print Assumptions C10_processed_once.

(* any replica of the same log has the same sessions and markers (leadership is node-local) *)
Theorem C10_replicas : forall l st1 st2 id,
  st_sessions st1 = st_sessions st2 ->
  last_post (replay l st1) id = last_post (replay l st2) id /\
  is_live (replay l st1) id = is_live (replay l st2) id.
Proof. exact replicas_markers. Qed.
Print Assumptions C10_replicas.

(* ---- the IRC model is an instance (IrcProofs/MarkerFrame.v, Refine.v, RefineSys.v) ---- *)

(* ================================================================================================
   C10 on the IRC model itself (IrcProofs/MarkerFrame.v, IrcProofs/Refine.v): the IRC state machine
   of Irc/Apply.v REFINES the marker machine above — the oracle (o_deaths, o_created) is what the IRC
   step does — so the statements above are statements about the IRC model; and the C10 statements
   hold of the IRC model directly.  Hypothesis throughout: the entry / history is well-formed
   (Top.wf_entry: fresh CreateSession ids, services lines conform to the protocol — needed, see
   C10_irc_needs_conformance). *)
From stdpp Require Import gmap.
From RV Require Import Irc.Str Irc.State Irc.Monad Irc.Cmds Irc.Apply IrcProofs.Top IrcProofs.MarkerFrame IrcProofs.Refine.
From RV Require IrcProofs.Outputs IrcProofs.Examples.

(* the marker frame: ProcessMessage neither writes marker or secret of a client session nor adds or
   removes one (all 55 handlers) *)
Theorem C10_irc_marker_frame_handlers : forall e k ra ircmsg sv r,
  nick_ok sv k ircmsg ->
  match process_message e k ra ircmsg sv r with
  | Ok (_, sv', _) => forall id : N, mk <$> (sv_sessions sv' !! (id, 0%N)) = mk <$> (sv_sessions sv !! (id, 0%N))
  | _ => True
  end.
Proof. exact fr_process_message. Qed.
Print Assumptions C10_irc_marker_frame_handlers.

(* the simulation, one entry: the abstraction relation is preserved with the oracle derived from the IRC step *)
Theorem C10_irc_refines : forall e sv st en sv',
  abs_rel sv st -> wf_entry sv en -> entry_result (apply_entry e sv en) = Some sv' ->
  abs_rel sv' (Post.apply (oracle_of sv sv' en) st (conv en)).
Proof. exact sim_step. Qed.
Print Assumptions C10_irc_refines.

(* ... and whole histories from the initial states; both machines process the same entries *)
Theorem C10_irc_refines_history : forall e net pw leader es sv',
  wf_history e (init_server net) es -> run e (init_server net) es = Some sv' ->
  abs_rel sv' (Post.replay (trace e (init_server net) es) (post_init pw leader)) /\
  Post.replay_proc (trace e (init_server net) es) (post_init pw leader) = map conv (irc_proc e (init_server net) es).
Proof. exact irc_refines_marker_machine. Qed.
Print Assumptions C10_irc_refines_history.

(* Post.processes is exactly "the IRC step runs ProcessMessage"; an entry that is not processed is silent *)
Theorem C10_irc_processes : forall sv st en, abs_rel sv st -> Post.processes st (conv en) = irc_processes sv en.
Proof. exact processes_agree. Qed.
Print Assumptions C10_irc_processes.
Theorem C10_irc_unprocessed_silent : forall e sv st en sv' out,
  abs_rel sv st -> Post.processes st (conv en) = false -> apply_entry e sv en = OOk sv' out -> out = [].
Proof. exact post_unprocessed_silent. Qed.
Print Assumptions C10_irc_unprocessed_silent.

(* (a) a retry is a no-op of the IRC model *)
Theorem C10_irc_retry_is_noop : forall e net es sv i un (sid cmid : N) ra data,
  run e (init_server net) es = Some sv -> cmid <> 0%N -> last_post_message sv sid = cmid ->
  apply_entry e sv (EMessage i un sid cmid ra data) = OOk sv [] /\
  irc_processes sv (EMessage i un sid cmid ra data) = false.
Proof. exact irc_retry_is_noop_reachable. Qed.
Print Assumptions C10_irc_retry_is_noop.

(* (b) the marker rule of the IRC model *)
Theorem C10_irc_marker_set : forall e sv en sv' (sid c : N),
  wf_entry sv en -> client_msg_of en = Some (sid, c) -> entry_result (apply_entry e sv en) = Some sv' ->
  is_Some (sv_sessions sv' !! (sid, 0%N)) -> last_post_message sv' sid = c.
Proof. exact irc_marker_set. Qed.
Print Assumptions C10_irc_marker_set.
Theorem C10_irc_marker_only : forall e sv en sv' (sid : N),
  wf_entry sv en -> entry_result (apply_entry e sv en) = Some sv' ->
  last_post_message sv' sid <> last_post_message sv sid ->
  client_msg_of en = Some (sid, last_post_message sv' sid) \/
  (is_Some (sv_sessions sv !! (sid, 0%N)) /\ sv_sessions sv' !! (sid, 0%N) = None).
Proof. exact irc_marker_only. Qed.
Print Assumptions C10_irc_marker_only.
Theorem C10_irc_marker_frame : forall e sv en sv' (sid : N) (s s' : session),
  wf_entry sv en -> entry_result (apply_entry e sv en) = Some sv' ->
  sv_sessions sv !! (sid, 0%N) = Some s -> sv_sessions sv' !! (sid, 0%N) = Some s' ->
  s_auth s' = s_auth s /\ (s_cmid s' = s_cmid s \/ client_msg_of en = Some (sid, s_cmid s')).
Proof. exact irc_marker_frame. Qed.
Print Assumptions C10_irc_marker_frame.

(* (c) processed once, on the IRC model: state, OUTPUT and processed entries *)
Theorem C10_irc_processed_once : forall e sv0 l1 e1 l2 e2 (sid c : N),
  wf_history e sv0 (l1 ++ e1 :: l2 ++ [e2]) ->
  client_msg_of e1 = Some (sid, c) -> c <> 0%N -> Forall (irc_tail_ok sid c) l2 -> irc_is_copy sid c e2 = true ->
  run_out e sv0 (l1 ++ e1 :: l2 ++ [e2]) = run_out e sv0 (l1 ++ e1 :: l2) /\
  irc_proc e sv0 (l1 ++ e1 :: l2 ++ [e2]) = irc_proc e sv0 (l1 ++ e1 :: l2).
Proof. exact irc_processed_once. Qed.
Print Assumptions C10_irc_processed_once.
Theorem C10_irc_duplicates_invisible : forall e sid c, c <> 0%N -> forall l sv,
  irc_inv sid c sv -> wf_history e sv l -> Forall (irc_tail_ok sid c) l ->
  run_out e sv l = run_out e sv (irc_drop_copies sid c l) /\
  irc_proc e sv l = irc_proc e sv (irc_drop_copies sid c l).
Proof. exact irc_duplicates_invisible. Qed.
Print Assumptions C10_irc_duplicates_invisible.

(* FINDING: without conformance of services lines the marker frame is false — a services link that
   introduces a pseudo-client whose nickname has FNV-1 hash 0 overwrites its own session (secret "",
   marker 0), and the retry of that very message is processed again *)
Theorem C10_irc_needs_conformance :
  fnv64 zero_nick = 0%N /\
  wf_history Examples.ex_env (init_server "n") zh_history /\
  exists sv sv' s s',
    run Examples.ex_env (init_server "n") zh_history = Some sv /\
    client_msg_of zh_entry = Some (2%N, 13%N) /\
    apply_entry Examples.ex_env sv zh_entry = OOk sv' [] /\
    sv_sessions sv !! (2%N, 0%N) = Some s /\ sv_sessions sv' !! (2%N, 0%N) = Some s' /\
    (s_auth s = "0123456789abcdef" /\ s_cmid s = 12%N /\ s_server s = true) /\
    (s_auth s' = "" /\ s_cmid s' = 0%N /\ s_server s' = false) /\
    irc_processes sv' zh_entry = true /\ entry_out (apply_entry Examples.ex_env sv' zh_entry) <> [].
Proof. exact marker_frame_needs_conformance_refuted. Qed.
Print Assumptions C10_irc_needs_conformance.

(* non-vacuity: the hypotheses of C10_irc_processed_once hold of a concrete history (three copies of a post,
   a message of death among them); the simulation computed on Examples.ex_history is Refine.ex_simulation *)
Theorem C10_irc_nonvacuous :
  wf_history Examples.ex_env (init_server "robustirc.net") (ex_l1 ++ ex_e1 :: ex_l2 ++ [ex_e2]) /\
  client_msg_of ex_e1 = Some (4%N, 24%N) /\ Forall (irc_tail_ok 4 24) ex_l2 /\ irc_is_copy 4 24 ex_e2 = true /\
  match run_out Examples.ex_env (init_server "robustirc.net") (ex_l1 ++ ex_e1 :: ex_l2 ++ [ex_e2]) with
  | Some (_, outs) => List.length outs = 35
  | None => False
  end /\
  map Outputs.entry_id (irc_proc Examples.ex_env (init_server "robustirc.net") (ex_l1 ++ ex_e1 :: ex_l2 ++ [ex_e2]))
    = [2; 3; 5; 6; 7; 8; 9; 10; 13]%N.
Proof. exact ex_processed_once_hyps. Qed.
Print Assumptions C10_irc_nonvacuous.
