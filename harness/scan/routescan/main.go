// routescan — "translator-lite" for property C11: regenerates, from the current source of the
// repository, the HTTP route table of internal/api (DispatchPublic, DispatchPrivate,
// DispatchPrivateWithoutAuth) with the gate that dominates each handler call, and the table of
// patterns on the mux that main() actually serves (its own registrations plus, when the
// default mux is served, every registration that a package of main's import closure performs
// in an init function, e.g. net/http/pprof, expvar).
//
// Output: JSON on stdout (facts + shapes that were not recognised) and, with -coq FILE, the
// Coq table Gen/Routes.v.  The scanner is deliberately syntactic: a statement shape it does
// not know is listed under "unrecognised" and does not by itself produce a breach; a handler
// call that is reached without passing the gate is recorded with gate "none".
package main

import (
	"encoding/json"
	"flag"
	"fmt"
	"go/ast"
	"go/token"
	"go/types"
	"os"
	"sort"
	"strconv"
	"strings"

	"golang.org/x/tools/go/packages"
)

type Route struct {
	Disp    string `json:"disp"`    // pub | priv
	Method  string `json:"method"`  // GET, POST, DELETE, * (any)
	Pat     string `json:"pat"`     // exact | prefix | idsuffix
	Arg     string `json:"arg"`     // literal
	Handler string `json:"handler"` // e.g. handlePostMessage
	Gate    string `json:"gate"`    // none | session | sessionOrProxy | basic | unknown
	Pos     string `json:"pos"`
}

type MuxEntry struct {
	Pattern string `json:"pattern"`
	Target  string `json:"target"` // public | private | foreign
	Who     string `json:"who"`    // registering package / expression
	Pos     string `json:"pos"`
}

type SideReg struct {
	Pkg     string `json:"pkg"`
	Func    string `json:"func"`
	Pattern string `json:"pattern"`
	Raw     string `json:"raw"`
	InInit  bool   `json:"in_init"`
	Pos     string `json:"pos"`
}

type Facts struct {
	Repo          string     `json:"repo"`
	Routes        []Route    `json:"routes"`
	PublicPrefix  string     `json:"public_prefix"`
	BasicUser     string     `json:"basic_user"`
	BasicCond     string     `json:"basic_cond"`
	Served        string     `json:"served"` // default | private | unrecognised
	MainRegs      []MuxEntry `json:"main_registrations"`
	Mux           []MuxEntry `json:"served_mux"`
	BlankImports  []string   `json:"blank_imports_main"`
	SideRegs      []SideReg  `json:"side_effect_registrations"`
	CondRegs      []SideReg  `json:"conditional_registrations"`
	Unrecognised  []string   `json:"unrecognised"`
	SessionFn     []string   `json:"session_fn_shape"`
	PackagesTotal int        `json:"packages_in_closure"`
}

var (
	fset  *token.FileSet
	facts Facts
)

func pos(n ast.Node) string {
	p := fset.Position(n.Pos())
	f := p.Filename
	if i := strings.Index(f, facts.Repo); i == 0 {
		f = strings.TrimPrefix(f[len(facts.Repo):], "/")
	}
	return fmt.Sprintf("%s:%d", f, p.Line)
}

func unrec(n ast.Node, what string) {
	facts.Unrecognised = append(facts.Unrecognised, pos(n)+": "+what)
}

func str(e ast.Expr) string { return types.ExprString(e) }

func lit(e ast.Expr) (string, bool) {
	if b, ok := e.(*ast.BasicLit); ok && b.Kind == token.STRING {
		s, err := strconv.Unquote(b.Value)
		return s, err == nil
	}
	return "", false
}

// lastLit: the last string literal inside an expression such as prefix+"/debug/pprof/"
func lastLit(e ast.Expr) (string, bool) {
	var s string
	found := false
	ast.Inspect(e, func(n ast.Node) bool {
		if b, ok := n.(*ast.BasicLit); ok && b.Kind == token.STRING {
			if v, err := strconv.Unquote(b.Value); err == nil {
				s, found = v, true
			}
		}
		return true
	})
	return s, found
}

// ---- net/http registration calls -------------------------------------------------------

// httpReg classifies a call: "default" for http.Handle/HandleFunc and
// http.DefaultServeMux.Handle/HandleFunc, "mux:<var>" for <var>.Handle/HandleFunc on a
// *http.ServeMux variable, "" otherwise.
func httpReg(info *types.Info, call *ast.CallExpr) string {
	sel, ok := call.Fun.(*ast.SelectorExpr)
	if !ok || (sel.Sel.Name != "Handle" && sel.Sel.Name != "HandleFunc") {
		return ""
	}
	obj := info.Uses[sel.Sel]
	fn, ok := obj.(*types.Func)
	if !ok || fn.Pkg() == nil || fn.Pkg().Path() != "net/http" {
		return ""
	}
	sig := fn.Type().(*types.Signature)
	if sig.Recv() == nil {
		return "default"
	}
	if str(sel.X) == "http.DefaultServeMux" {
		return "default"
	}
	if t := info.TypeOf(sel.X); t != nil && strings.HasSuffix(t.String(), "net/http.ServeMux") {
		return "mux:" + str(sel.X)
	}
	return ""
}

func scanSideEffects(root *packages.Package) {
	seen := map[string]bool{}
	var visit func(p *packages.Package)
	visit = func(p *packages.Package) {
		if seen[p.PkgPath] {
			return
		}
		seen[p.PkgPath] = true
		for _, imp := range p.Imports {
			visit(imp)
		}
		if p == root || p.TypesInfo == nil {
			return
		}
		for _, f := range p.Syntax {
			for _, d := range f.Decls {
				fname, inInit := "<package-level initialiser>", true
				if fd, ok := d.(*ast.FuncDecl); ok {
					fname = fd.Name.Name
					inInit = fd.Recv == nil && fd.Name.Name == "init"
				}
				ast.Inspect(d, func(n ast.Node) bool {
					call, ok := n.(*ast.CallExpr)
					if !ok || len(call.Args) < 1 {
						return true
					}
					if httpReg(p.TypesInfo, call) != "default" {
						return true
					}
					pat, _ := lastLit(call.Args[0])
					r := SideReg{Pkg: p.PkgPath, Func: fname, Pattern: pat, Raw: str(call.Args[0]), InInit: inInit, Pos: pos(call)}
					if inInit {
						facts.SideRegs = append(facts.SideRegs, r)
					} else {
						facts.CondRegs = append(facts.CondRegs, r)
					}
					return true
				})
			}
		}
	}
	visit(root)
	facts.PackagesTotal = len(seen)
	sort.Slice(facts.SideRegs, func(a, b int) bool {
		x, y := facts.SideRegs[a], facts.SideRegs[b]
		return x.Pkg+"\x00"+x.Pattern < y.Pkg+"\x00"+y.Pattern
	})
}

// ---- package main: what is served --------------------------------------------------------

func dispatchTarget(e ast.Expr) (string, string) {
	if sel, ok := e.(*ast.SelectorExpr); ok {
		switch sel.Sel.Name {
		case "DispatchPublic":
			return "public", str(e)
		case "DispatchPrivate":
			return "private", str(e)
		}
	}
	return "foreign", str(e)
}

func scanMain(p *packages.Package) {
	for _, f := range p.Syntax {
		for _, imp := range f.Imports {
			if imp.Name != nil && imp.Name.Name == "_" {
				s, _ := strconv.Unquote(imp.Path.Value)
				facts.BlankImports = append(facts.BlankImports, s)
			}
		}
	}
	sort.Strings(facts.BlankImports)
	var mainFn *ast.FuncDecl
	for _, f := range p.Syntax {
		for _, d := range f.Decls {
			if fd, ok := d.(*ast.FuncDecl); ok && fd.Recv == nil && fd.Name.Name == "main" {
				mainFn = fd
			}
		}
	}
	if mainFn == nil {
		facts.Served = "unrecognised"
		facts.Unrecognised = append(facts.Unrecognised, "package main: func main not found")
		return
	}
	regs := map[string][]MuxEntry{} // "default" or "mux:<var>"
	var servers []string
	ast.Inspect(mainFn.Body, func(n ast.Node) bool {
		switch x := n.(type) {
		case *ast.CallExpr:
			if where := httpReg(p.TypesInfo, x); where != "" && len(x.Args) == 2 {
				pat, ok := lit(x.Args[0])
				if !ok {
					unrec(x, "registration with a non-literal pattern: "+str(x.Args[0]))
					pat, _ = lastLit(x.Args[0])
				}
				tgt, who := dispatchTarget(x.Args[1])
				regs[where] = append(regs[where], MuxEntry{Pattern: pat, Target: tgt, Who: who, Pos: pos(x)})
			}
			if sel, ok := x.Fun.(*ast.SelectorExpr); ok && str(sel.X) == "http" && strings.HasPrefix(sel.Sel.Name, "ListenAndServe") {
				h := x.Args[len(x.Args)-1]
				servers = append(servers, str(h))
			}
		case *ast.CompositeLit:
			if t := p.TypesInfo.TypeOf(x); t != nil && t.String() == "net/http.Server" {
				h := "nil"
				for _, el := range x.Elts {
					if kv, ok := el.(*ast.KeyValueExpr); ok && str(kv.Key) == "Handler" {
						h = str(kv.Value)
					}
				}
				servers = append(servers, h)
			}
		case *ast.AssignStmt:
			// srv.Handler = ...
			for i, l := range x.Lhs {
				if sel, ok := l.(*ast.SelectorExpr); ok && sel.Sel.Name == "Handler" && i < len(x.Rhs) {
					if t := p.TypesInfo.TypeOf(sel.X); t != nil && strings.HasSuffix(t.String(), "net/http.Server") {
						servers = append(servers, str(x.Rhs[i]))
					}
				}
			}
		}
		return true
	})
	for _, l := range regs {
		facts.MainRegs = append(facts.MainRegs, l...)
	}
	sort.Slice(facts.MainRegs, func(a, b int) bool { return facts.MainRegs[a].Pos < facts.MainRegs[b].Pos })
	if len(servers) == 0 {
		facts.Served = "unrecognised"
		facts.Unrecognised = append(facts.Unrecognised, "main(): no http.Server literal / ListenAndServe call found")
		return
	}
	h := servers[len(servers)-1]
	switch {
	case h == "nil" || h == "http.DefaultServeMux":
		facts.Served = "default"
		facts.Mux = append(facts.Mux, regs["default"]...)
		have := map[string]bool{}
		for _, s := range facts.SideRegs {
			if pat := muxPath(s.Pattern); !have[pat] {
				have[pat] = true
				facts.Mux = append(facts.Mux, MuxEntry{Pattern: pat, Target: "foreign", Who: s.Pkg, Pos: s.Pos})
			}
		}
	case regs["mux:"+h] != nil:
		facts.Served = "private"
		facts.Mux = append(facts.Mux, regs["mux:"+h]...)
		if len(regs["default"]) > 0 {
			unrec(mainFn, "main() registers on the default mux but serves "+h)
		}
	default:
		facts.Served = "unrecognised"
		unrec(mainFn, "http.Server handler expression not understood: "+h)
	}
}

// ---- internal/api: the dispatchers ---------------------------------------------------------

type apiScan struct {
	p     *packages.Package
	funcs map[string]*ast.FuncDecl
}

func (a *apiScan) method(name string) *ast.FuncDecl { return a.funcs[name] }

// handlerCall: is this statement `api.<something>(w, r, ...)` / `<x>.ServeHTTP(w, r)`?
func handlerCall(s ast.Stmt) (*ast.CallExpr, string, bool) {
	es, ok := s.(*ast.ExprStmt)
	if !ok {
		return nil, "", false
	}
	call, ok := es.X.(*ast.CallExpr)
	if !ok || len(call.Args) < 2 || str(call.Args[0]) != "w" || str(call.Args[1]) != "r" {
		return nil, "", false
	}
	name := strings.TrimPrefix(str(call.Fun), "api.")
	if name == "http.Error" {
		return nil, "", false
	}
	return call, name, true
}

// containsHandlerCall: any call passing (w, r) other than http.Error / header plumbing
func containsHandlerCall(n ast.Node) bool {
	found := false
	ast.Inspect(n, func(m ast.Node) bool {
		if call, ok := m.(*ast.CallExpr); ok && len(call.Args) >= 2 && str(call.Args[0]) == "w" && str(call.Args[1]) == "r" {
			if f := str(call.Fun); f != "http.Error" {
				found = true
			}
		}
		return true
	})
	return found
}

func mentionsSessionGate(n ast.Node) bool {
	found := false
	ast.Inspect(n, func(m ast.Node) bool {
		if call, ok := m.(*ast.CallExpr); ok {
			if f := str(call.Fun); f == "api.session" || f == "api.sessionOrProxy" {
				found = true
			}
		}
		return true
	})
	return found
}

func endsInReturn(b *ast.BlockStmt) bool {
	if len(b.List) == 0 {
		return false
	}
	_, ok := b.List[len(b.List)-1].(*ast.ReturnStmt)
	return ok
}

func methodOf(e ast.Expr) string {
	s := str(e)
	if strings.HasPrefix(s, "http.Method") {
		return strings.ToUpper(strings.TrimPrefix(s, "http.Method"))
	}
	if v, ok := lit(e); ok {
		return v
	}
	return "?" + s
}

func (a *apiScan) scanPrivate() {
	fd := a.method("DispatchPrivate")
	if fd == nil {
		facts.Unrecognised = append(facts.Unrecognised, "internal/api: DispatchPrivate not found")
		return
	}
	gate := "none"
	var user, pass, okv string
	for _, s := range fd.Body.List {
		switch x := s.(type) {
		case *ast.DeferStmt:
			continue
		case *ast.AssignStmt:
			if len(x.Rhs) == 1 && str(x.Rhs[0]) == "r.BasicAuth()" && len(x.Lhs) == 3 {
				user, pass, okv = str(x.Lhs[0]), str(x.Lhs[1]), str(x.Lhs[2])
				continue
			}
			unrec(s, "DispatchPrivate: assignment "+str(x.Rhs[0]))
		case *ast.IfStmt:
			cond := str(x.Cond)
			// !ok || username != "robustirc" || password != api.networkPassword
			parts := strings.Split(cond, " || ")
			ok := len(parts) == 3 && parts[0] == "!"+okv && okv != "" &&
				strings.HasPrefix(parts[1], user+" != \"") && parts[2] == pass+" != api.networkPassword"
			if ok && x.Init == nil && x.Else == nil && endsInReturn(x.Body) && !containsHandlerCall(x.Body) &&
				strings.Contains(str1(x.Body), "http.StatusUnauthorized") {
				facts.BasicCond = cond
				u, _ := strconv.Unquote(strings.TrimPrefix(parts[1], user+" != "))
				facts.BasicUser = u
				gate = "basic"
				continue
			}
			if containsHandlerCall(x) {
				unrec(s, "DispatchPrivate: if-statement with a handler call and a condition that is not the basic-auth test: "+cond)
				a.collectLoose(x, "priv", gate)
			} else {
				unrec(s, "DispatchPrivate: if-statement not understood: "+cond)
			}
		default:
			if call, name, ok := handlerCall(s); ok {
				if name == "DispatchPrivateWithoutAuth" {
					a.scanWithoutAuth(gate)
				} else {
					facts.Routes = append(facts.Routes, Route{Disp: "priv", Method: "*", Pat: "prefix", Arg: "/", Handler: name, Gate: gate, Pos: pos(call)})
				}
				continue
			}
			if containsHandlerCall(s) {
				unrec(s, "DispatchPrivate: statement with a handler call")
				a.collectLoose(s, "priv", gate)
			}
		}
	}
}

func str1(b *ast.BlockStmt) string {
	var sb strings.Builder
	ast.Inspect(b, func(n ast.Node) bool {
		if e, ok := n.(ast.Expr); ok {
			sb.WriteString(str(e))
			sb.WriteString(" ")
		}
		return true
	})
	return sb.String()
}

// collectLoose records handler calls found inside a statement whose shape is unknown: they
// are kept (with pattern "unknown") so that they cannot silently vanish from the table.
func (a *apiScan) collectLoose(n ast.Node, disp, gate string) {
	ast.Inspect(n, func(m ast.Node) bool {
		if es, ok := m.(*ast.ExprStmt); ok {
			if call, name, ok := handlerCall(es); ok {
				facts.Routes = append(facts.Routes, Route{Disp: disp, Method: "?", Pat: "unknown", Arg: "", Handler: name, Gate: gate, Pos: pos(call)})
			}
		}
		return true
	})
}

// bodyCallReturn: `{ <handler call>; return }`
func bodyCallReturn(b *ast.BlockStmt) (*ast.CallExpr, string, bool) {
	if len(b.List) != 2 || !endsInReturn(b) {
		return nil, "", false
	}
	return handlerCall(b.List[0])
}

func prefixTest(cond ast.Expr, of string) (string, bool) {
	call, ok := cond.(*ast.CallExpr)
	if !ok || str(call.Fun) != "strings.HasPrefix" || len(call.Args) != 2 || str(call.Args[0]) != of {
		return "", false
	}
	return lit(call.Args[1])
}

func (a *apiScan) scanWithoutAuth(gate string) {
	fd := a.method("DispatchPrivateWithoutAuth")
	if fd == nil {
		facts.Unrecognised = append(facts.Unrecognised, "internal/api: DispatchPrivateWithoutAuth not found")
		return
	}
	add := func(meth, pat, arg, name string, at ast.Node) {
		facts.Routes = append(facts.Routes, Route{Disp: "priv", Method: meth, Pat: pat, Arg: arg, Handler: name, Gate: gate, Pos: pos(at)})
	}
	var pathSwitch func(meth string, sw *ast.SwitchStmt)
	pathSwitch = func(meth string, sw *ast.SwitchStmt) {
		var pending []string
		for _, c := range sw.Body.List {
			cc := c.(*ast.CaseClause)
			var pats []string
			for _, e := range cc.List {
				if v, ok := lit(e); ok {
					pats = append(pats, v)
				} else {
					unrec(e, "path case that is not a string literal: "+str(e))
				}
			}
			pats = append(pending, pats...)
			pending = nil
			if len(cc.Body) == 1 {
				if br, ok := cc.Body[0].(*ast.BranchStmt); ok && br.Tok == token.FALLTHROUGH {
					pending = pats
					continue
				}
			}
			if len(cc.Body) == 2 {
				if call, name, ok := handlerCall(cc.Body[0]); ok {
					if _, isRet := cc.Body[1].(*ast.ReturnStmt); isRet {
						for _, p := range pats {
							add(meth, "exact", p, name, call)
						}
						continue
					}
				}
			}
			unrec(cc, "path case body not of the form `handler(w, r); return`")
			a.collectLoose(cc, "priv", gate)
		}
	}
	stmts := func(meth string, list []ast.Stmt) {
		for _, s := range list {
			switch x := s.(type) {
			case *ast.DeferStmt:
			case *ast.IfStmt:
				if lit, ok := prefixTest(x.Cond, "r.URL.Path"); ok && x.Init == nil && x.Else == nil {
					if call, name, ok := bodyCallReturn(x.Body); ok {
						add(meth, "prefix", lit, name, call)
						continue
					}
				}
				unrec(s, "DispatchPrivateWithoutAuth: if-statement not understood: "+str(x.Cond))
				a.collectLoose(x, "priv", gate)
			case *ast.SwitchStmt:
				if x.Tag != nil && str(x.Tag) == "r.URL.Path" && x.Init == nil {
					pathSwitch(meth, x)
					continue
				}
				unrec(s, "switch on "+fmt.Sprint(x.Tag))
				a.collectLoose(x, "priv", gate)
			case *ast.ExprStmt:
				if str(x.X) == `http.Error(w, "Not found", http.StatusNotFound)` {
					continue
				}
				if call, name, ok := handlerCall(s); ok {
					add(meth, "prefix", "/", name, call)
					continue
				}
				unrec(s, "statement not understood: "+str(x.X))
			default:
				if containsHandlerCall(s) {
					unrec(s, "statement with a handler call")
					a.collectLoose(s, "priv", gate)
				}
			}
		}
	}
	for _, s := range fd.Body.List {
		if sw, ok := s.(*ast.SwitchStmt); ok && sw.Tag != nil && str(sw.Tag) == "r.Method" {
			for _, c := range sw.Body.List {
				cc := c.(*ast.CaseClause)
				if len(cc.List) != 1 {
					unrec(cc, "method case with != 1 expression")
					a.collectLoose(cc, "priv", gate)
					continue
				}
				stmts(methodOf(cc.List[0]), cc.Body)
			}
			continue
		}
		stmts("*", []ast.Stmt{s})
	}
}

// gateInsideHandler: handler(w, r, sessionId string) whose first statements are
//   session, err := api.session(r, sessionId) ; if err != nil { ...no handler call...; return }
func (a *apiScan) gateInsideHandler(name string) string {
	fd := a.method(name)
	if fd == nil || len(fd.Body.List) < 2 || len(fd.Type.Params.List) < 3 {
		return "none"
	}
	last := fd.Type.Params.List[len(fd.Type.Params.List)-1]
	if len(last.Names) != 1 {
		return "none"
	}
	param := last.Names[0].Name
	as, ok := fd.Body.List[0].(*ast.AssignStmt)
	if !ok || len(as.Lhs) != 2 || len(as.Rhs) != 1 {
		return "none"
	}
	var fn string
	switch str(as.Rhs[0]) {
	case "api.session(r, " + param + ")":
		fn = "session"
	case "api.sessionOrProxy(w, r, " + param + ")":
		fn = "sessionOrProxy"
	default:
		return "none"
	}
	errv := str(as.Lhs[1])
	ifs, ok := fd.Body.List[1].(*ast.IfStmt)
	if !ok || str(ifs.Cond) != errv+" != nil" || !endsInReturn(ifs.Body) || containsHandlerCall(ifs.Body) {
		return "none"
	}
	return fn
}

func (a *apiScan) scanPublic() {
	fd := a.method("DispatchPublic")
	if fd == nil {
		facts.Unrecognised = append(facts.Unrecognised, "internal/api: DispatchPublic not found")
		return
	}
	rest := ""
	add := func(meth, pat, arg, name, gate string, at ast.Node) {
		facts.Routes = append(facts.Routes, Route{Disp: "pub", Method: meth, Pat: pat, Arg: arg, Handler: name, Gate: gate, Pos: pos(at)})
	}
	// inner: statements executed once `idVar` is known to be the slash-free session id part
	inner := func(meth, suffix, idVar string, list []ast.Stmt, at ast.Node) {
		for _, s := range list {
			switch x := s.(type) {
			case *ast.ReturnStmt:
			case *ast.IfStmt:
				// if session, err := api.sessionOrProxy(w, r, sessionId); err == nil { api.handleX(w, r, session) }
				if as, ok := x.Init.(*ast.AssignStmt); ok && len(as.Lhs) == 2 && len(as.Rhs) == 1 && x.Else == nil {
					var fn string
					switch str(as.Rhs[0]) {
					case "api.sessionOrProxy(w, r, " + idVar + ")":
						fn = "sessionOrProxy"
					case "api.session(r, " + idVar + ")":
						fn = "session"
					}
					sv, ev := str(as.Lhs[0]), str(as.Lhs[1])
					if fn != "" && str(x.Cond) == ev+" == nil" && len(x.Body.List) == 1 {
						if call, name, ok := handlerCall(x.Body.List[0]); ok && len(call.Args) == 3 && str(call.Args[2]) == sv {
							add(meth, "idsuffix", suffix, name, fn, call)
							continue
						}
					}
				}
				unrec(s, "DispatchPublic: inner if-statement not understood")
				if !mentionsSessionGate(x) {
					// a handler is called for a path that carries a session id and nothing in
					// the statement calls session()/sessionOrProxy(): a definite breach
					ast.Inspect(x, func(m ast.Node) bool {
						if es, ok := m.(*ast.ExprStmt); ok {
							if call, name, ok := handlerCall(es); ok {
								add(meth, "idsuffix", suffix, name, "none", call)
							}
						}
						return true
					})
					continue
				}
				a.collectLooseGate(x, "pub", meth, suffix)
			default:
				if call, name, ok := handlerCall(s); ok {
					g := "none"
					if len(call.Args) == 3 && str(call.Args[2]) == idVar {
						g = a.gateInsideHandler(name)
					}
					add(meth, "idsuffix", suffix, name, g, call)
					continue
				}
				if containsHandlerCall(s) {
					unrec(s, "DispatchPublic: statement with a handler call")
					a.collectLooseGate(s, "pub", meth, suffix)
				}
			}
		}
	}
	methodBody := func(meth string, list []ast.Stmt) {
		for _, s := range list {
			x, ok := s.(*ast.IfStmt)
			if !ok {
				if containsHandlerCall(s) {
					unrec(s, "DispatchPublic: statement with a handler call")
					a.collectLooseGate(s, "pub", meth, "")
				}
				continue
			}
			cond := str(x.Cond)
			// if rest == "session" { handler; return }
			if x.Init == nil && strings.HasPrefix(cond, rest+" == ") {
				if be, ok := x.Cond.(*ast.BinaryExpr); ok {
					if v, ok := lit(be.Y); ok {
						if call, name, ok := bodyCallReturn(x.Body); ok {
							add(meth, "exact", v, name, "none", call)
							continue
						}
					}
				}
			}
			// if strings.HasSuffix(rest, "/message") { if sessionId := rest[:len(rest)-len("/message")]; strings.Index(sessionId, "/") == -1 { ... } }
			if call, ok := x.Cond.(*ast.CallExpr); ok && x.Init == nil && str(call.Fun) == "strings.HasSuffix" && len(call.Args) == 2 && str(call.Args[0]) == rest {
				if suf, ok := lit(call.Args[1]); ok && len(x.Body.List) == 1 {
					if in, ok := x.Body.List[0].(*ast.IfStmt); ok {
						if as, ok := in.Init.(*ast.AssignStmt); ok && len(as.Lhs) == 1 && len(as.Rhs) == 1 {
							idVar := str(as.Lhs[0])
							wantInit := fmt.Sprintf("%s[:len(%s)-len(%q)]", rest, rest, suf)
							if nosp(str(as.Rhs[0])) == nosp(wantInit) && str(in.Cond) == fmt.Sprintf("strings.Index(%s, \"/\") == -1", idVar) && in.Else == nil {
								inner(meth, suf, idVar, in.Body.List, in)
								continue
							}
						}
					}
				}
			}
			// if sessionId := rest; strings.Index(sessionId, "/") == -1 { ... }
			if as, ok := x.Init.(*ast.AssignStmt); ok && len(as.Lhs) == 1 && len(as.Rhs) == 1 && str(as.Rhs[0]) == rest {
				idVar := str(as.Lhs[0])
				if cond == fmt.Sprintf("strings.Index(%s, \"/\") == -1", idVar) && x.Else == nil {
					inner(meth, "", idVar, x.Body.List, x)
					continue
				}
			}
			if containsHandlerCall(x) {
				unrec(s, "DispatchPublic: if-statement not understood: "+cond)
				a.collectLooseGate(x, "pub", meth, "")
			}
		}
	}
	for _, s := range fd.Body.List {
		switch x := s.(type) {
		case *ast.DeferStmt:
		case *ast.AssignStmt:
			// rest := r.URL.Path[len("/robustirc/v1/"):]
			if len(x.Lhs) == 1 && len(x.Rhs) == 1 {
				if se, ok := x.Rhs[0].(*ast.SliceExpr); ok && str(se.X) == "r.URL.Path" && se.High == nil {
					if call, ok := se.Low.(*ast.CallExpr); ok && str(call.Fun) == "len" && len(call.Args) == 1 {
						if v, ok := lit(call.Args[0]); ok {
							rest = str(x.Lhs[0])
							facts.PublicPrefix = v
							continue
						}
					}
				}
			}
			unrec(s, "DispatchPublic: assignment not understood")
		case *ast.IfStmt:
			if containsHandlerCall(x) {
				unrec(s, "DispatchPublic: top-level if-statement with a handler call")
				a.collectLooseGate(x, "pub", "*", "")
			}
		case *ast.SwitchStmt:
			if x.Tag != nil && str(x.Tag) == "r.Method" {
				for _, c := range x.Body.List {
					cc := c.(*ast.CaseClause)
					if len(cc.List) != 1 {
						unrec(cc, "method case with != 1 expression")
						a.collectLooseGate(cc, "pub", "?", "")
						continue
					}
					methodBody(methodOf(cc.List[0]), cc.Body)
				}
				continue
			}
			unrec(s, "DispatchPublic: switch not on r.Method")
			a.collectLooseGate(x, "pub", "?", "")
		case *ast.ExprStmt:
			if str(x.X) == `http.Error(w, "Not found", http.StatusNotFound)` {
				continue
			}
			if call, name, ok := handlerCall(s); ok {
				add("*", "prefix", "", name, "none", call)
				continue
			}
		default:
			if containsHandlerCall(s) {
				unrec(s, "DispatchPublic: statement with a handler call")
				a.collectLooseGate(s, "pub", "?", "")
			}
		}
	}
}

func (a *apiScan) collectLooseGate(n ast.Node, disp, meth, suffix string) {
	ast.Inspect(n, func(m ast.Node) bool {
		if es, ok := m.(*ast.ExprStmt); ok {
			if call, name, ok := handlerCall(es); ok {
				facts.Routes = append(facts.Routes, Route{Disp: disp, Method: meth, Pat: "unknown", Arg: suffix, Handler: name, Gate: "unknown", Pos: pos(call)})
			}
		}
		return true
	})
}

// sessionShape: the statement skeleton of HTTP.session (recorded in the evidence; the
// behaviour itself is covered by the correspondence matrix, not by the scanner).
func (a *apiScan) sessionShape() {
	fd := a.method("session")
	if fd == nil {
		facts.SessionFn = []string{"<missing>"}
		return
	}
	for _, s := range fd.Body.List {
		switch x := s.(type) {
		case *ast.AssignStmt:
			facts.SessionFn = append(facts.SessionFn, str(x.Lhs[0])+" := "+str(x.Rhs[0]))
		case *ast.IfStmt:
			facts.SessionFn = append(facts.SessionFn, "if "+str(x.Cond)+" { return error }")
		case *ast.ReturnStmt:
			facts.SessionFn = append(facts.SessionFn, "return")
		case *ast.DeclStmt:
			facts.SessionFn = append(facts.SessionFn, "var")
		}
	}
}

// ---- Coq rendering -------------------------------------------------------------------------

func nosp(s string) string { return strings.ReplaceAll(s, " ", "") }

// muxPath strips the method part of a Go 1.22 pattern ("GET /debug/vars" -> "/debug/vars")
func muxPath(p string) string {
	if i := strings.IndexByte(p, ' '); i >= 0 {
		return strings.TrimSpace(p[i+1:])
	}
	return p
}

func q(s string) string { return `"` + strings.ReplaceAll(s, `"`, `""`) + `"` }

func coq() string {
	var b strings.Builder
	b.WriteString("(* GENERATED by /verif/harness/scan/routescan from " + facts.Repo + " — do not edit, regenerated on every run *)\n")
	b.WriteString("From RV Require Import Base.Text Api.Auth.\nLocal Open Scope string_scope.\n\n")
	b.WriteString("Definition gen_routes : list route := [\n")
	for i, r := range facts.Routes {
		pat := map[string]string{"exact": "PExact", "prefix": "PPrefix", "idsuffix": "PIdSuffix", "unknown": "PUnknown"}[r.Pat]
		gate := map[string]string{"none": "GNone", "session": "GSession", "sessionOrProxy": "GSessionOrProxy", "basic": "GBasic", "unknown": "GUnknown"}[r.Gate]
		disp := map[string]string{"pub": "Pub", "priv": "Priv"}[r.Disp]
		sep := ";"
		if i == len(facts.Routes)-1 {
			sep = ""
		}
		fmt.Fprintf(&b, "  mkRoute %s %s (%s %s) %s %s%s\n", disp, q(r.Method), pat, q(r.Arg), q(r.Handler), gate, sep)
	}
	b.WriteString("].\n\nDefinition gen_mux : list mux_entry := [\n")
	for i, m := range facts.Mux {
		t := map[string]string{"public": "TPublic", "private": "TPrivate"}[m.Target]
		if t == "" {
			t = "(TForeign " + q(m.Who) + ")"
		}
		sep := ";"
		if i == len(facts.Mux)-1 {
			sep = ""
		}
		fmt.Fprintf(&b, "  (%s, %s)%s\n", q(m.Pattern), t, sep)
	}
	b.WriteString("].\n\n")
	fmt.Fprintf(&b, "Definition gen_public_prefix : string := %s.\n", q(facts.PublicPrefix))
	fmt.Fprintf(&b, "Definition gen_basic_user : string := %s.\n", q(facts.BasicUser))
	fmt.Fprintf(&b, "Definition gen_served : string := %s.\n", q(facts.Served))
	return b.String()
}

func main() {
	repo := flag.String("repo", "/repo", "repository working tree")
	coqOut := flag.String("coq", "", "write Gen/Routes.v here")
	flag.Parse()
	facts.Repo = *repo
	cfg := &packages.Config{
		Mode: packages.NeedName | packages.NeedFiles | packages.NeedSyntax | packages.NeedTypes | packages.NeedTypesInfo |
			packages.NeedImports | packages.NeedDeps,
		Dir: *repo,
		Env: append(os.Environ(), "GOFLAGS=-mod=mod", "GOPROXY=off", "GOSUMDB=off", "GOTOOLCHAIN=local"),
	}
	pkgs, err := packages.Load(cfg, ".", "./internal/api")
	if err != nil {
		fmt.Fprintln(os.Stderr, "load:", err)
		os.Exit(2)
	}
	var mainPkg, apiPkg *packages.Package
	for _, p := range pkgs {
		if len(p.Errors) > 0 {
			fmt.Fprintln(os.Stderr, "package errors:", p.PkgPath, p.Errors)
			os.Exit(2)
		}
		if p.Name == "main" {
			mainPkg = p
		}
		if strings.HasSuffix(p.PkgPath, "/internal/api") {
			apiPkg = p
		}
	}
	if mainPkg == nil || apiPkg == nil {
		fmt.Fprintln(os.Stderr, "packages not found")
		os.Exit(2)
	}
	fset = mainPkg.Fset
	scanSideEffects(mainPkg)
	scanMain(mainPkg)
	a := &apiScan{p: apiPkg, funcs: map[string]*ast.FuncDecl{}}
	for _, f := range apiPkg.Syntax {
		for _, d := range f.Decls {
			if fd, ok := d.(*ast.FuncDecl); ok && fd.Recv != nil && fd.Body != nil {
				a.funcs[fd.Name.Name] = fd
			}
		}
	}
	a.scanPublic()
	a.scanPrivate()
	a.sessionShape()
	if *coqOut != "" {
		if err := os.WriteFile(*coqOut, []byte(coq()), 0644); err != nil {
			fmt.Fprintln(os.Stderr, err)
			os.Exit(2)
		}
	}
	enc := json.NewEncoder(os.Stdout)
	enc.SetIndent("", " ")
	enc.Encode(facts)
}
