(* IrcProofs/Recipients2.v — C12 (recipient rules for every kind of output) and the last clause of C17
   ("an ended session receives nothing further"), as statements about ALL handlers and ALL log entries.

   Method: a Hoare-style logical relation [hl] over the handler monad that keeps the CURRENT state explicit
   (so that facts read from it stay available), threads a cheap state invariant [JJ] (no side conditions:
   every primitive mutation of every handler preserves it) and demands at every [emit rc m] a justification
   [Site rc m]: the recipient list is built only from the recipient functions rc_user / rc_services /
   rc_channel / rc_channel_but / rc_common / rc_all applied to a state seen during the step, and the kinds of
   recipients are the ones the rule table [kinds_ok] allows for the command word of the message. *)
From stdpp Require Import gmap.
From Coq Require Import Strings.String Strings.Ascii ZArith NArith Lia.
From RV Require Import Base.Text Irc.Str Irc.Parse Irc.State Irc.Monad Irc.Cmds Irc.SCmds Irc.Apply.
From RV Require Import IrcProofs.WP IrcProofs.Inv IrcProofs.InvPrims IrcProofs.StrLemmas IrcProofs.Handlers IrcProofs.Top.
Local Open Scope string_scope.

(* ====================================================================================================== *)
(* 1. The relation                                                                                        *)
(* ====================================================================================================== *)
Section HL.
  Variable J : server -> Prop.                 (* state invariant threaded through the computation *)
  Variable outP : omsg -> Prop.                (* what is claimed of every output *)
  Variable S : list N -> imsg -> Prop.         (* what has to be shown where a message is emitted *)
  Hypothesis P_emit : forall n rc m, S rc m -> outP (OMsg n (msg_bytes m) (set_of_ids rc)).

  Definition hl {A} (sv : server) (m : M A) : Prop :=
    forall r, J sv -> Forall outP (r_out r) ->
      match m sv r with Ok (_, sv', r') => J sv' /\ Forall outP (r_out r') | _ => True end.

  Lemma hl_ret {A} sv (a : A) : hl sv (retM a).
  Proof. intros r HJ HP. split; assumption. Qed.
  Lemma hl_panic {A} sv s : hl sv (@panicM A s).
  Proof. intros r HJ HP. exact Logic.I. Qed.
  Lemma hl_gap {A} sv s : hl sv (@gapM A s).
  Proof. intros r HJ HP. exact Logic.I. Qed.
  Lemma hl_getS sv : hl sv getS.
  Proof. intros r HJ HP. split; assumption. Qed.
  Lemma hl_replyCount sv : hl sv replyCount.
  Proof. intros r HJ HP. split; assumption. Qed.
  Lemma hl_liftR {A} sv (x : res A) : hl sv (liftR x).
  Proof. intros r HJ HP. unfold liftR. destruct x; [split; assumption|exact Logic.I|exact Logic.I]. Qed.
  Lemma hl_emit sv rc m : (J sv -> S rc m) -> hl sv (emit rc m).
  Proof. intros HS r HJ HP. unfold emit. cbn. split; [exact HJ|]. constructor; [apply P_emit, HS, HJ|exact HP]. Qed.
  Lemma hl_modS sv g : (J sv -> J (g sv)) -> hl sv (modS g).
  Proof. intros Hg r HJ HP. cbn. split; [apply Hg, HJ|exact HP]. Qed.

  (* sequencing when nothing is known about the state the first part leaves *)
  Lemma hl_bind {A B} sv (m : M A) (f : A -> M B) :
    hl sv m -> (forall a sv', hl sv' (f a)) -> hl sv (bindM m f).
  Proof.
    intros Hm Hf r HJ HP. unfold bindM. specialize (Hm r HJ HP).
    destruct (m sv r) as [[[a sv'] r']|?|?]; [|exact Logic.I|exact Logic.I]. destruct Hm as [HJ' HP'].
    apply Hf; assumption.
  Qed.
  (* sequencing after the primitives: the state stays explicit *)
  Lemma hl_bind_assoc {A B C} sv (m : M A) (g : A -> M B) (f : B -> M C) :
    hl sv (bindM m (fun a => bindM (g a) f)) -> hl sv (bindM (bindM m g) f).
  Proof.
    intros H r HJ HP. specialize (H r HJ HP). unfold bindM in *.
    destruct (m sv r) as [[[a sv'] r']|?|?]; exact H.
  Qed.
  Lemma hl_bind_ret {A B} sv (a : A) (f : A -> M B) : hl sv (f a) -> hl sv (bindM (retM a) f).
  Proof. intros H. exact H. Qed.
  Lemma hl_bind_panic {A B} sv s (f : A -> M B) : hl sv (bindM (panicM s) f).
  Proof. intros r HJ HP. exact Logic.I. Qed.
  Lemma hl_bind_gap {A B} sv s (f : A -> M B) : hl sv (bindM (gapM s) f).
  Proof. intros r HJ HP. exact Logic.I. Qed.
  Lemma hl_bind_getS {B} sv (f : server -> M B) : (J sv -> hl sv (f sv)) -> hl sv (bindM getS f).
  Proof. intros H r HJ HP. exact (H HJ r HJ HP). Qed.
  Lemma hl_bind_replyCount {B} sv (f : nat -> M B) : (forall n, hl sv (f n)) -> hl sv (bindM replyCount f).
  Proof. intros H r HJ HP. exact (H _ r HJ HP). Qed.
  Lemma hl_bind_liftR {A B} sv (x : res A) (f : A -> M B) :
    (forall a, x = Ok a -> hl sv (f a)) -> hl sv (bindM (liftR x) f).
  Proof.
    intros H r HJ HP. unfold bindM, liftR. destruct x as [a|?|?]; [|exact Logic.I|exact Logic.I].
    exact (H a eq_refl r HJ HP).
  Qed.
  Lemma hl_bind_emit {B} sv rc m (f : unit -> M B) :
    (J sv -> S rc m) -> hl sv (f tt) -> hl sv (bindM (emit rc m) f).
  Proof.
    intros HS Hf r HJ HP. unfold bindM, emit. apply Hf; [exact HJ|]. cbn. constructor; [apply P_emit, HS, HJ|exact HP].
  Qed.
  Lemma hl_bind_modS {B} sv g (f : unit -> M B) :
    (J sv -> J (g sv)) -> hl (g sv) (f tt) -> hl sv (bindM (modS g) f).
  Proof. intros Hg Hf r HJ HP. unfold bindM, modS. apply Hf; [apply Hg, HJ|exact HP]. Qed.

  Lemma hl_forM {A} sv (l : list A) (f : A -> M unit) : (forall x sv', hl sv' (f x)) -> hl sv (forM l f).
  Proof.
    intros Hf. revert sv. induction l as [|x l IH]; intros sv; cbn [forM]; [apply hl_ret|].
    apply hl_bind; [apply Hf|intros _ sv'; apply IH].
  Qed.
End HL.

(* ====================================================================================================== *)
(* 2. The threaded invariant                                                                              *)
(* ====================================================================================================== *)
(* Session.updateIrcPrefix has been run since the last change of nick or user name *)
Definition PrefixOK (s : session) : Prop := s_server s = false -> s_nick s <> "" -> s_prefix s = mk_prefix s.

(* [D] bounds the ids of the sessions and of the nick index, [DS] the list of services links, [net] is the network
   name; all three are fixed for a whole step *)
Record JJ (D DS : N -> Prop) (net : string) (sv : server) : Prop := {
  j_sess : forall (k : N * N) s, sv_sessions sv !! k = Some s -> D (fst k) /\ s_key s = k /\ PrefixOK s;
  j_nicks : forall n (k : N * N), sv_nicks sv !! n = Some k -> D (fst k);
  j_srv : forall id, In id (sv_serverSessions sv) -> DS id;
  j_chan : forall lc c, sv_channels sv !! lc = Some c -> chan_to_lower (c_name c) = lc;
  j_net : sv_netname sv = net;
}.

Definition sess_pfx (f : session -> session) : Prop :=
  forall s, s_key (f s) = s_key s /\ (PrefixOK s -> PrefixOK (f s)).
Definition chan_name (f : chan -> chan) : Prop := forall c, c_name (f c) = c_name c.

Section JJLemmas.
  Variables D DS : N -> Prop.
  Variable net : string.
  Notation JJ := (JJ D DS net).

  Lemma JJ_updSess sv (k : N * N) f :
    sess_pfx f -> JJ sv ->
    JJ (set_sessions (fun m => match m !! k with Some s => <[k := f s]> m | None => m end) sv).
  Proof.
    intros Hf [Js Jn Jv Jc Jt]. split; cbn [sv_sessions sv_nicks sv_channels sv_serverSessions set_sessions]; auto.
    intros k' s'. rewrite lookup_upd_sess. case_bool_decide as Heq; [destruct Heq|apply Js].
    destruct (sv_sessions sv !! k) as [s|] eqn:Hs; [|discriminate]. cbn. intros [= <-].
    destruct (Js _ _ Hs) as (Hd & Hk & Hp). destruct (Hf s) as [Hk' Hp']. split; [exact Hd|]. split; [congruence|auto].
  Qed.
  Lemma JJ_fmap sv f : sess_pfx f -> JJ sv -> JJ (set_sessions (fmap f) sv).
  Proof.
    intros Hf [Js Jn Jv Jc Jt]. split; cbn [sv_sessions sv_nicks sv_channels sv_serverSessions set_sessions]; auto.
    intros k' s'. rewrite lookup_fmap. destruct (sv_sessions sv !! k') as [s|] eqn:Hs; [|discriminate]. cbn. intros [= <-].
    destruct (Js _ _ Hs) as (Hd & Hk & Hp). destruct (Hf s) as [Hk' Hp']. split; [exact Hd|]. split; [congruence|auto].
  Qed.
  Lemma JJ_insert_sess sv (key : N * N) s0 :
    D (fst key) -> s_key s0 = key -> PrefixOK s0 -> JJ sv -> JJ (set_sessions (<[key := s0]>) sv).
  Proof.
    intros Hd Hk Hp [Js Jn Jv Jc Jt]. split; cbn [sv_sessions sv_nicks sv_channels sv_serverSessions set_sessions]; auto.
    intros k' s'. destruct (decide (key = k')) as [<-|Hne].
    - rewrite lookup_insert. intros [= <-]. auto.
    - rewrite lookup_insert_ne by assumption. apply Js.
  Qed.
  Lemma JJ_channels sv g :
    (forall lc c, g (sv_channels sv) !! lc = Some c -> chan_to_lower (c_name c) = lc) ->
    JJ sv -> JJ (set_channels g sv).
  Proof. intros Hg [Js Jn Jv Jc Jt]. split; cbn [sv_sessions sv_nicks sv_channels sv_serverSessions set_channels]; auto. Qed.
  Lemma JJ_chan_upd sv lc f :
    chan_name f -> JJ sv ->
    JJ (set_channels (fun m => match m !! lc with Some c => <[lc := f c]> m | None => m end) sv).
  Proof.
    intros Hf Hj. apply JJ_channels; [|exact Hj]. intros lc' c'. rewrite lookup_upd_chan.
    case_bool_decide as Heq; [destruct Heq|apply (j_chan _ _ _ _ Hj)].
    destruct (sv_channels sv !! lc) as [c|] eqn:Hc; [|discriminate]. cbn. intros [= <-]. rewrite Hf. eapply j_chan; eauto.
  Qed.
  Lemma JJ_chan_insert sv lc c0 :
    chan_to_lower (c_name c0) = lc -> JJ sv -> JJ (set_channels (<[lc := c0]>) sv).
  Proof.
    intros Hn Hj. apply JJ_channels; [|exact Hj]. intros lc' c'. destruct (decide (lc = lc')) as [<-|Hne].
    - rewrite lookup_insert. intros [= <-]. exact Hn.
    - rewrite lookup_insert_ne by assumption. apply (j_chan _ _ _ _ Hj).
  Qed.
  Lemma JJ_chan_delete sv x : JJ sv -> JJ (set_channels (delete x) sv).
  Proof.
    intros Hj. apply JJ_channels; [|exact Hj]. intros lc' c' H. apply lookup_delete_Some in H. apply (j_chan _ _ _ _ Hj), H.
  Qed.
  Lemma JJ_chan_fmap sv f : chan_name f -> JJ sv -> JJ (set_channels (fmap f) sv).
  Proof.
    intros Hf Hj. apply JJ_channels; [|exact Hj]. intros lc' c' H. apply lookup_fmap_Some in H.
    destruct H as (c & <- & Hc). rewrite Hf. eapply j_chan; eauto.
  Qed.
  Lemma JJ_chan_filter_fmap sv (P : string * chan -> Prop) `{!forall x, Decision (P x)} f :
    chan_name f -> JJ sv -> JJ (set_channels (fun chs => base.filter P (f <$> chs)) sv).
  Proof.
    intros Hf Hj. apply JJ_channels; [|exact Hj]. intros lc' c' Hl. apply map_filter_lookup_Some in Hl. destruct Hl as [Hl _].
    apply lookup_fmap_Some in Hl. destruct Hl as (c & <- & Hc). rewrite Hf. eapply j_chan; eauto.
  Qed.
  Lemma JJ_nicks sv g :
    (forall n (k : N * N), g (sv_nicks sv) !! n = Some k -> D (fst k)) -> JJ sv -> JJ (set_nicks g sv).
  Proof. intros Hg [Js Jn Jv Jc Jt]. split; cbn [sv_sessions sv_nicks sv_channels sv_serverSessions set_nicks]; auto. Qed.
  Lemma JJ_nicks_delete sv x : JJ sv -> JJ (set_nicks (delete x) sv).
  Proof. intros Hj. apply JJ_nicks; [|exact Hj]. intros n k H. apply lookup_delete_Some in H. apply (j_nicks _ _ _ _ Hj n), H. Qed.
  Lemma JJ_nicks_insert sv x (k : N * N) : D (fst k) -> JJ sv -> JJ (set_nicks (<[x := k]>) sv).
  Proof.
    intros Hd Hj. apply JJ_nicks; [|exact Hj]. intros n k'. destruct (decide (x = n)) as [<-|Hne].
    - rewrite lookup_insert. intros [= <-]. exact Hd.
    - rewrite lookup_insert_ne by assumption. apply (j_nicks _ _ _ _ Hj).
  Qed.
  Lemma JJ_nicks_move sv o x (k : N * N) :
    D (fst k) -> JJ sv -> JJ (set_nicks (fun ns => delete o (<[x := k]> ns)) sv).
  Proof.
    intros Hd Hj. apply JJ_nicks; [|exact Hj]. intros n k' H. apply lookup_delete_Some in H. destruct H as [_ H]. revert H.
    destruct (decide (x = n)) as [<-|Hne].
    - rewrite lookup_insert. intros [= <-]. exact Hd.
    - rewrite lookup_insert_ne by assumption. apply (j_nicks _ _ _ _ Hj).
  Qed.
  Lemma JJ_svsholds sv g : JJ sv -> JJ (set_svsholds g sv).
  Proof. intros [Js Jn Jv Jc Jt]. split; auto. Qed.
  Lemma JJ_config sv g : JJ sv -> JJ (set_config g sv).
  Proof. intros [Js Jn Jv Jc Jt]. split; auto. Qed.
  Lemma JJ_lastProcessed sv x : JJ sv -> JJ (set_lastProcessed x sv).
  Proof. intros [Js Jn Jv Jc Jt]. split; auto. Qed.
  Lemma JJ_serverSessions sv id :
    DS id -> JJ sv -> JJ (set_serverSessions (fun l => (l ++ [id])%list) sv).
  Proof.
    intros Hd [Js Jn Jv Jc Jt]. split; cbn [sv_sessions sv_nicks sv_channels sv_serverSessions set_serverSessions]; auto.
    intros id' Hin. apply in_app_or in Hin. destruct Hin as [Hin|[<-|[]]]; auto.
  Qed.
  (* removing sessions *)
  Lemma JJ_sessions_sub (sv : server) (g : gmap (N * N) session -> gmap (N * N) session) :
    (forall (k : N * N) s, g (sv_sessions sv) !! k = Some s -> sv_sessions sv !! k = Some s) ->
    JJ sv -> JJ (set_sessions g sv).
  Proof.
    intros Hg [Js Jn Jv Jc Jt]. split; cbn [sv_sessions sv_nicks sv_channels sv_serverSessions set_sessions]; auto.
  Qed.
End JJLemmas.

(* side conditions by computation *)
Ltac solve_pfx :=
  let s := fresh "s" in
  intros s; split; [reflexivity|];
  first [ (intros ?Hp; exact Hp)
        | (intros _ ?Hsv _; cbn in Hsv; discriminate)
        | (intros _ _ _; reflexivity) ].
Ltac solve_name := let c := fresh "c" in intros c; reflexivity.

Ltac jj_inv :=
  unfold drop_invites;
  first
    [ apply JJ_updSess; [solve_pfx|assumption]
    | apply JJ_fmap; [solve_pfx|assumption]
    | apply JJ_chan_upd; [solve_name|assumption]
    | apply JJ_chan_delete; assumption
    | apply JJ_chan_fmap; [solve_name|assumption]
    | apply JJ_chan_filter_fmap; [solve_name|assumption]
    | apply JJ_nicks_delete; assumption
    | apply JJ_svsholds; assumption
    | apply JJ_config; assumption ].

(* ====================================================================================================== *)
(* 3. The rule table: which kinds of recipients a message may have, by its command word                   *)
(* ====================================================================================================== *)
Definition is_numeric (c : string) : bool :=
  match c with
  | String a (String b (String d EmptyString)) => is_digit (byte_of a) && is_digit (byte_of b) && is_digit (byte_of d)
  | _ => false
  end.

Inductive cclass := CNum | CErr | CChanEv | CMode | CSubj | CText | COther.
Definition cls (c : string) : cclass :=
  if is_numeric c then CNum
  else if String.eqb c "ERROR" then CErr
  else if existsb (String.eqb c) ["JOIN"; "PART"; "KICK"; "TOPIC"] then CChanEv
  else if String.eqb c "MODE" then CMode
  else if existsb (String.eqb c) ["NICK"; "QUIT"] then CSubj
  else if existsb (String.eqb c) ["PRIVMSG"; "NOTICE"] then CText
  else COther.

(* the command word as ProcessMessage sees it, and the first parameter *)
Definition ucmd (m : imsg) : string := to_upper (m_cmd m).
Definition hd0 (m : imsg) : string := hd "" (m_params m).

(* kinds of recipient lists *)
Inductive rkind :=
| KAct (k : N * N)                 (* the session the handler acts for *)
| KNick (n : string) (k : N * N)   (* the session owning nickname n (lower-cased) *)
| KSvc                             (* the services links *)
| KChan (lc : string)              (* the members of the channel stored under lc *)
| KBut (lc : string)               (* the members of that channel except one session *)
| KCommon (k : N * N)              (* the members of the channels session k lists *)
| KAll.                            (* everybody with a nickname *)

Section Sites.
  Variables D DS : N -> Prop.
  Variable net : string.
  Notation JJ := (JJ D DS net).
  Variable k : N * N.        (* the session whose message is being processed *)
  Variable srv : bool.       (* ... is an authenticated services link *)

  Definition Known (k' : N * N) : Prop := exists sv n, JJ sv /\ sv_nicks sv !! n = Some k'.
  Definition Act (k' : N * N) : Prop := k' = k \/ (srv = true /\ Known k').

  Inductive piece : rkind -> list N -> Prop :=
  | P_act k' : Act k' -> piece (KAct k') (rc_user k')
  | P_nick sv n k' : JJ sv -> sv_nicks sv !! n = Some k' -> piece (KNick n k') (rc_user k')
  | P_svc sv : JJ sv -> piece KSvc (rc_services sv)
  | P_chan sv lc c rc : JJ sv -> sv_channels sv !! lc = Some c -> rc_channel sv c = Ok rc -> piece (KChan lc) rc
  | P_but sv lc c but rc : JJ sv -> sv_channels sv !! lc = Some c -> rc_channel_but sv c but = Ok rc -> piece (KBut lc) rc
  | P_common sv k' s rc : JJ sv -> sv_sessions sv !! k' = Some s -> rc_common sv s = Ok rc -> piece (KCommon k') rc
  | P_all sv : JJ sv -> piece KAll (rc_all sv).

  Inductive Rc : list rkind -> list N -> Prop :=
  | R_one kd rc : piece kd rc -> Rc [kd] rc
  | R_app ks1 ks2 rc1 rc2 : Rc ks1 rc1 -> Rc ks2 rc2 -> Rc (ks1 ++ ks2)%list (rc1 ++ rc2)%list.

  Definition kinds_ok (c : string) (p0 : string) (ks : list rkind) : Prop :=
    match cls c with
    | CNum => (exists k', ks = [KAct k']) \/ (srv = true /\ ks = [KSvc])
    | CErr => (exists k', ks = [KAct k']) \/ (exists n k', ks = [KNick n k'])
    | CChanEv => Forall (fun kd => kd = KSvc \/ kd = KChan (chan_to_lower p0)) ks
    | CMode => Forall (fun kd => kd = KSvc \/ kd = KChan (chan_to_lower p0) \/ (exists k', kd = KAct k') \/
                                 (exists n k', kd = KNick n k')) ks
    | CSubj => exists k', Forall (fun kd => kd = KSvc \/ kd = KAct k' \/ (exists n, kd = KNick n k') \/ kd = KCommon k') ks
    | CText => Forall (fun kd => kd = KSvc \/ (exists k', kd = KAct k') \/ (exists k', kd = KNick (nick_to_lower p0) k') \/
                                 kd = KChan (chan_to_lower p0) \/ kd = KBut (chan_to_lower p0) \/ kd = KAll) ks
    | COther => Forall (fun kd => kd = KSvc \/ (exists k', kd = KAct k') \/ (exists n k', kd = KNick n k')) ks
    end.

  (* a session record as stored under key k' *)
  Definition Rec (k' : N * N) (s : session) : Prop := s_key s = k' /\ PrefixOK s.

  (* the prefix of an emitted message: none, the server's, or the stored prefix of the acting session (for QUIT:
     of the session that ends); a services link chooses the prefixes of its pseudo-clients itself *)
  Definition PfM (m : imsg) : Prop :=
    match m_prefix m with
    | None => True
    | Some p => p = Prefix net "" "" \/ srv = true \/
                (exists k' s, Rec k' s /\ p = s_prefix s /\ (k' = k \/ ucmd m = "QUIT")) \/
                (exists nick, p = Prefix nick "" "" /\ ucmd m = "TOPIC")
    end.

  Definition Site (rc : list N) (m : imsg) : Prop :=
    exists ks, Rc ks rc /\ kinds_ok (ucmd m) (hd0 m) ks /\ PfM m.

  Definition outP (o : omsg) : Prop :=
    exists rc m, Site rc m /\ o_data o = msg_bytes m /\ o_rcpt o = set_of_ids rc.

  Lemma outP_emit n rc m : Site rc m -> outP (OMsg n (msg_bytes m) (set_of_ids rc)).
  Proof. intros H. exists rc, m. auto. Qed.
End Sites.

(* ---- discharging the obligation of an emit ----------------------------------------------------------- *)
Ltac solve_act := first [ assumption | (left; reflexivity) ].

Ltac solve_lookup :=
  first [ eassumption | (cbn [sv_channels set_sessions set_channels set_nicks]; apply lookup_insert) ].
Ltac solve_piece :=
  lazymatch goal with
  | |- piece _ _ _ _ _ _ (rc_user ?k') =>
      first [ (eapply P_act; solve_act)
            | match goal with H : sv_nicks ?sv !! ?n = Some k' |- _ => eapply (P_nick _ _ _ _ _ sv n k'); [assumption|exact H] end ]
  | |- piece _ _ _ _ _ _ (rc_services ?sv) => eapply P_svc; assumption
  | |- piece _ _ _ _ _ _ (rc_all ?sv) => eapply P_all; assumption
  | |- piece _ _ _ _ _ _ ?rc =>
      match goal with
      | H : rc_channel ?sv ?c = Ok rc |- _ => eapply (P_chan _ _ _ _ _ sv _ c rc); [assumption|solve_lookup|exact H]
      | H : rc_channel_but ?sv ?c ?b = Ok rc |- _ => eapply (P_but _ _ _ _ _ sv _ c b rc); [assumption|eassumption|exact H]
      | H : rc_common ?sv ?s = Ok rc |- _ => eapply (P_common _ _ _ _ _ sv _ s rc); [assumption|eassumption|exact H]
      end
  end.
Ltac solve_rc :=
  lazymatch goal with
  | |- Rc _ _ _ _ _ _ (_ ++ _)%list => eapply R_app; [solve_rc|solve_rc]
  | |- Rc _ _ _ _ _ _ _ => eapply R_one; solve_piece
  end.

Ltac eval_cls :=
  match goal with |- context [cls ?x] => let v := eval vm_compute in (cls x) in change (cls x) with v end.

Ltac solve_lc :=
  first [ reflexivity
        | match goal with HJ : JJ _ _ _ ?sv, H : sv_channels ?sv !! _ = Some ?c |- chan_to_lower (c_name ?c) = _ =>
            exact (j_chan _ _ _ _ HJ _ _ H) end
        | match goal with HJ : JJ _ _ _ ?sv, H : sv_channels ?sv !! _ = Some ?c |- _ = chan_to_lower (c_name ?c) =>
            symmetry; exact (j_chan _ _ _ _ HJ _ _ H) end ].
Ltac solve_or :=
  first [ reflexivity | (eexists; reflexivity) | (eexists _, _; reflexivity)
        | (f_equal; solve_lc) | (left; solve_or) | (right; solve_or) ].
Ltac solve_forall := repeat (apply Forall_cons; [solve_or|]); apply Forall_nil.
Ltac solve_kinds :=
  unfold kinds_ok, ucmd, hd0; cbn [m_cmd m_params srvmsg usrmsg noprefix hd];
  try match goal with Hc : to_upper (m_cmd _) = _ |- _ => rewrite Hc end; eval_cls; cbv iota beta;
  first [ solve_forall
        | (left; eexists; reflexivity) | (right; split; [assumption|reflexivity]) | (right; eexists _, _; reflexivity)
        | (exists (0%N, 0%N); solve_forall) | (eexists; solve_forall) ].

Ltac rec_of HA :=
  match goal with
  | HJ : JJ _ _ _ ?sv, H : sv_sessions ?sv !! ?k0 = Some ?s |- exists k' s', Rec k' s' /\ s_prefix ?s = _ /\ _ =>
      exists k0, s; split; [destruct (j_sess _ _ _ _ HJ _ _ H) as (_ & ? & ?); split; assumption|]
  end.
Ltac solve_pf :=
  unfold PfM; cbn [m_prefix srvmsg usrmsg noprefix];
  first [ exact Logic.I
        | (left; unfold server_prefix;
           match goal with HJ : JJ _ _ _ ?sv |- Prefix (sv_netname ?sv) _ _ = _ => rewrite (j_net _ _ _ _ HJ); reflexivity end)
        | (right; left; assumption)
        | (right; right; right; eexists; split; reflexivity)
        | (right; right; left; rec_of tt; split; [reflexivity|right; reflexivity])
        | match goal with HA : Act _ _ _ _ _ _ |- _ =>
            destruct HA as [HA|[HA _]];
            [ right; right; left; rec_of tt; split; [reflexivity|left; exact HA] | right; left; exact HA ] end ].

Ltac solve_site := eexists; split; [solve_rc|split; [solve_kinds|solve_pf]].
Ltac site := try solve [solve_site].


(* ---- compound updates: between their steps the stored prefix is stale, afterwards it is not --------- *)
Section JJCompound.
  Variables D DS : N -> Prop.
  Variable net : string.
  Notation JJ := (JJ D DS net).

  Lemma JJ_core (sv sv' : server) :
    JJ sv ->
    (forall (k' : N * N) s', sv_sessions sv' !! k' = Some s' ->
       exists s, sv_sessions sv !! k' = Some s /\ s_key s' = s_key s /\ (s' = s \/ PrefixOK s')) ->
    (forall n (k' : N * N), sv_nicks sv' !! n = Some k' -> sv_nicks sv !! n = Some k' \/ D (fst k')) ->
    sv_serverSessions sv' = sv_serverSessions sv ->
    (forall lc c', sv_channels sv' !! lc = Some c' -> exists c, sv_channels sv !! lc = Some c /\ c_name c' = c_name c) ->
    sv_netname sv' = sv_netname sv ->
    JJ sv'.
  Proof.
    intros [Js Jn Jv Jc Jt] Hs Hn Hv Hc Ht. split; [| | | |congruence].
    - intros k' s' H. destruct (Hs _ _ H) as (s & Hs0 & Hk & Hp). destruct (Js _ _ Hs0) as (Hd & Hk0 & Hp0).
      split; [exact Hd|]. split; [congruence|]. destruct Hp as [->|Hp]; assumption.
    - intros n k' H. destruct (Hn _ _ H) as [H0|H0]; [eapply Jn; eauto|exact H0].
    - rewrite Hv. exact Jv.
    - intros lc c' H. destruct (Hc _ _ H) as (c & Hc0 & ->). eapply Jc; eauto.
  Qed.

  Lemma PrefixOK_update s : PrefixOK (update_prefix s).
  Proof. intros _ _. reflexivity. Qed.

  (* an arbitrary key-preserving change of the record followed by change_nick *)
  Lemma JJ_nick_state sv (k0 : N * N) f0 nick old caps :
    (forall s, s_key (f0 s) = s_key s) -> D (fst k0) -> JJ sv ->
    JJ (nick_state k0 nick old caps
            (set_sessions (fun m => match m !! k0 with Some s => <[k0 := f0 s]> m | None => m end) sv)).
  Proof.
    intros Hf Hd Hj. eapply JJ_core; [exact Hj| | | | |].
    - intros k' s'. rewrite nick_state_sessions. cbn [sv_sessions set_sessions]. rewrite lookup_upd_sess.
      destruct (decide (k0 = k')) as [<-|Hne].
      + rewrite !bool_decide_true by reflexivity. destruct (sv_sessions sv !! k0) as [s|]; [|discriminate].
        cbn. intros [= <-]. exists s. split; [reflexivity|]. split; [cbn; apply Hf|right; apply PrefixOK_update].
      + rewrite !bool_decide_false by assumption. destruct (sv_sessions sv !! k') as [s|]; [|discriminate].
        cbn. intros [= <-]. exists s. auto.
    - intros n k'. unfold nick_state. destruct (negb (is_empty old) && negb caps);
        cbn [sv_nicks set_sessions set_nicks set_channels]; intros H.
      + apply lookup_delete_Some in H. destruct H as [_ H]. revert H. destruct (decide (nick_to_lower nick = n)) as [<-|Hne].
        * rewrite lookup_insert. intros [= <-]. now right.
        * rewrite lookup_insert_ne by assumption. now left.
      + revert H. destruct (decide (nick_to_lower nick = n)) as [<-|Hne].
        * rewrite lookup_insert. intros [= <-]. now right.
        * rewrite lookup_insert_ne by assumption. now left.
    - unfold nick_state. destruct (negb (is_empty old) && negb caps); reflexivity.
    - intros lc c'. unfold nick_state. destruct (negb (is_empty old) && negb caps);
        cbn [sv_channels set_sessions set_nicks set_channels]; intros H.
      + apply lookup_fmap_Some in H. destruct H as (c & <- & Hc). exists c. auto.
      + exists c'. auto.
    - unfold nick_state. destruct (negb (is_empty old) && negb caps); reflexivity.
  Qed.

  (* the four steps of SVSNICK *)
  Lemma JJ_svsnick sv (tk : N * N) p1 old :
    D (fst tk) -> JJ sv ->
    JJ (set_sessions (fun m => match m !! tk with Some s => <[tk := update_prefix s]> m | None => m end)
           (set_channels (fmap (cc_nicks (rename_member old (nick_to_lower p1))))
              (set_nicks (fun ns => delete old (<[nick_to_lower p1 := tk]> ns))
                 (set_sessions (fun m => match m !! tk with Some s => <[tk := ss_nick p1 s]> m | None => m end) sv)))).
  Proof.
    intros Hd Hj. eapply JJ_core; [exact Hj| | | | |].
    - intros k' s'. cbn [sv_sessions set_sessions set_nicks set_channels]. rewrite !lookup_upd_sess.
      destruct (decide (tk = k')) as [<-|Hne].
      + rewrite !bool_decide_true by reflexivity. destruct (sv_sessions sv !! tk) as [s|]; [|discriminate].
        cbn. intros [= <-]. exists s. split; [reflexivity|]. split; [reflexivity|right; apply PrefixOK_update].
      + rewrite !bool_decide_false by assumption. destruct (sv_sessions sv !! k') as [s|]; [|discriminate].
        cbn. intros [= <-]. exists s. auto.
    - intros n k'. cbn [sv_nicks set_sessions set_nicks set_channels]. intros H.
      apply lookup_delete_Some in H. destruct H as [_ H]. revert H. destruct (decide (nick_to_lower p1 = n)) as [<-|Hne].
      + rewrite lookup_insert. intros [= <-]. now right.
      + rewrite lookup_insert_ne by assumption. now left.
    - reflexivity.
    - intros lc c'. cbn [sv_channels set_sessions set_nicks set_channels]. intros H.
      apply lookup_fmap_Some in H. destruct H as (c & <- & Hc). exists c. auto.
    - reflexivity.
  Qed.
End JJCompound.

Section MultiStep.
  Variable J : server -> Prop.
  Variable outP : omsg -> Prop.
  (* several mutations in a row, the invariant being asked for only at the end *)
  Lemma hl_bind_modS2 {B} sv g1 g2 (f : unit -> M B) :
    (J sv -> J (g2 (g1 sv))) -> hl J outP (g2 (g1 sv)) (f tt) ->
    hl J outP sv (bindM (modS g1) (fun _ => bindM (modS g2) f)).
  Proof. intros Hg Hf r HJ HP. unfold bindM, modS. apply Hf; [apply Hg, HJ|exact HP]. Qed.
  Lemma hl_bind_modS4 {B} sv g1 g2 g3 g4 (f : unit -> M B) :
    (J sv -> J (g4 (g3 (g2 (g1 sv))))) -> hl J outP (g4 (g3 (g2 (g1 sv)))) (f tt) ->
    hl J outP sv (bindM (modS g1) (fun _ => bindM (modS g2) (fun _ => bindM (modS g3) (fun _ => bindM (modS g4) f)))).
  Proof. intros Hg Hf r HJ HP. unfold bindM, modS. apply Hf; [apply Hg, HJ|exact HP]. Qed.
End MultiStep.

Lemma change_nick_run k0 nick old caps sv r :
  change_nick k0 nick old caps sv r = Ok (tt, nick_state k0 nick old caps sv, r).
Proof.
  unfold change_nick, nick_state, bindM, updSess, modS, rename_in_channels.
  destruct (negb (is_empty old) && negb caps); reflexivity.
Qed.

Lemma Act_D (D DS : N -> Prop) net (k : N * N) (srv : bool) (k' : N * N) :
  D (fst k) -> Act D DS net k srv k' -> D (fst k').
Proof. intros Dk [->|[_ (sv & n & HJ & Hn)]]; [exact Dk|eapply j_nicks; eauto]. Qed.

Ltac solve_D :=
  first [ assumption
        | (eapply Act_D; eassumption)
        | match goal with HJ : JJ _ _ _ ?sv, H : sv_sessions ?sv !! ?k0 = Some _ |- _ (fst ?k0) => exact (proj1 (j_sess _ _ _ _ HJ _ _ H)) end
        | match goal with HJ : JJ _ _ _ ?sv, H : sv_nicks ?sv !! _ = Some ?k0 |- _ (fst ?k0) => exact (j_nicks _ _ _ _ HJ _ _ H) end ].

Ltac jj_inv2 :=
  first [ jj_inv
        | (apply JJ_serverSessions; [assumption|assumption])
        | (apply JJ_nicks_insert; [solve_D|assumption])
        | (apply JJ_chan_insert; [cbn [c_name cc_nicks new_chan]; solve_lc|assumption])
        | (apply JJ_chan_insert; [|assumption]; cbn [c_name cc_nicks new_chan];
           match goal with |- context [match sv_channels ?sv !! ?lc with _ => _ end] => destruct (sv_channels sv !! lc) eqn:? end;
           cbn [c_name cc_nicks new_chan]; solve_lc)
        | (apply JJ_insert_sess; [cbn [fst]; solve_D|reflexivity|(intros _ ?Hn; exfalso; apply Hn; reflexivity)|assumption]) ].

Ltac inv := try solve [jj_inv2].

(* the lines the server builds for NS/CS/... are PRIVMSGs *)
Lemma alias_cmd c e : service_alias c = Some e -> forall x p, parse_message (e ++ x) = Some p -> m_cmd p = "PRIVMSG".
Proof.
  unfold service_alias. cbn [assoc_str].
  repeat (destruct (String.eqb c _);
    [intros [= <-] x p; unfold parse_message;
     match goal with |- context [trim_crlf (?pre ++ x)] =>
       destruct (trim_crlf_keeps_prefix pre x) as [rest' ->]; [discriminate|reflexivity|] end;
     cbn; intros [= <-]; reflexivity|]).
  discriminate.
Qed.

(* one step of symbolic execution; [site] discharges the obligation of an emit, [inv] that of a mutation *)
Ltac hl_step site inv :=
  lazymatch goal with
  | |- hl _ _ _ (bindM (bindM _ _) _) => apply hl_bind_assoc
  | |- hl _ _ _ (bindM getS _) => apply hl_bind_getS; intros ?
  | |- hl _ _ _ (bindM (retM _) _) => apply hl_bind_ret; cbn [negb fst snd]
  | |- hl _ _ _ (bindM (panicM _) _) => apply hl_bind_panic
  | |- hl _ _ _ (bindM (gapM _) _) => apply hl_bind_gap
  | |- hl _ _ _ (bindM replyCount _) => apply hl_bind_replyCount; intros ?
  | |- hl _ _ _ (bindM (liftR _) _) => apply hl_bind_liftR; intros ? ?
  | |- hl _ _ _ (bindM (emit _ _) _) => eapply (hl_bind_emit _ _ _ (outP_emit _ _ _ _ _)); [intros ?; site|]
  | |- hl _ _ _ (bindM (modS _) _) => apply hl_bind_modS; [intros ?; inv|]
  | |- hl _ _ _ (bindM (whenM ?b _) _) => destruct b eqn:?; cbn [whenM]
  | |- hl _ _ _ (bindM (if ?b then _ else _) _) => destruct b eqn:?
  | |- hl _ _ _ (bindM (match ?x with _ => _ end) _) => destruct x eqn:?
  | |- hl _ _ _ (bindM (forM _ _) _) => apply hl_bind; [apply hl_forM; intros ? ?|intros ? ?]
  | |- hl _ _ _ (retM _) => apply hl_ret
  | |- hl _ _ _ (panicM _) => apply hl_panic
  | |- hl _ _ _ (gapM _) => apply hl_gap
  | |- hl _ _ _ getS => apply hl_getS
  | |- hl _ _ _ replyCount => apply hl_replyCount
  | |- hl _ _ _ (liftR _) => apply hl_liftR
  | |- hl _ _ _ (emit _ _) => eapply (hl_emit _ _ _ (outP_emit _ _ _ _ _)); intros ?; site
  | |- hl _ _ _ (modS _) => apply hl_modS; intros ?; inv
  | |- hl _ _ _ (whenM ?b _) => destruct b eqn:?; cbn [whenM]
  | |- hl _ _ _ (forM _ _) => apply hl_forM; intros ? ?
  | |- hl _ _ _ (if ?b then _ else _) => destruct b eqn:?
  | |- hl _ _ _ (match ?x with _ => _ end) => destruct x eqn:?
  end.


(* ====================================================================================================== *)
(* 4. Every handler                                                                                       *)
(* ====================================================================================================== *)
Section Handlers.
  Variables D DS : N -> Prop.
  Variable net : string.
  Variable k : N * N.
  Variable srv : bool.
  Hypothesis Dk : D (fst k).
  Hypothesis DSk : DS (fst k).

  Notation JJ := (JJ D DS net).
  Notation HL := (hl JJ (outP D DS net k srv)).
  Notation ACT := (Act D DS net k srv).

  Ltac unf := unfold reply_num, reply_svc, sessM, updSess, updChan, chanM, nickM, cfgM, param, prefix_name, msg_prefix,
                chanop_of, captcha_url_check, leave_channel, maybe_delete_channel, add_member,
                remove_nick_everywhere, rename_in_channels.
  Ltac sub :=
    lazymatch goal with
    | |- hl _ _ _ (bindM _ _) => apply hl_bind; [solve [auto 3 with hldb nocore]|intros ? ?]
    | |- hl _ _ _ _ => solve [auto 3 with hldb nocore]
    end.
  Ltac go := cbv zeta; repeat first [ hl_step site inv | sub | progress unf ].

  Lemma ok_delete_session k0 sv : HL sv (delete_session k0).
  Proof. unfold delete_session. unf. go. Qed.
  Lemma ok_verify_captcha e k0 c sv : HL sv (verify_captcha e k0 c).
  Proof. unfold verify_captcha. unf. go. Qed.
  Lemma ok_cmd_motd k0 m sv : ACT k0 -> HL sv (cmd_motd k0 m).
  Proof. intros HA. unfold cmd_motd. unf. go. Qed.
  Lemma ok_cmd_oper k0 m sv : ACT k0 -> HL sv (cmd_oper k0 m).
  Proof. intros HA. unfold cmd_oper. unf. go. Qed.
  Local Hint Resolve ok_delete_session ok_verify_captcha ok_cmd_motd ok_cmd_oper : hldb.

  Lemma ok_change_nick k0 nick old caps sv : D (fst k0) -> HL sv (change_nick k0 nick old caps).
  Proof.
    intros Hd r HJ HP. rewrite change_nick_run. split; [|exact HP].
    pose proof (JJ_nick_state D DS net sv k0 (fun s => s) nick old caps (fun s => eq_refl) Hd HJ) as H.
    eapply JJ_core; [exact HJ| | | | |].
    - intros k' s' Hs'. destruct (j_sess _ _ _ _ H k' s') as (_ & Hk & Hp).
      + revert Hs'. rewrite !nick_state_sessions. cbn [sv_sessions set_sessions]. rewrite lookup_upd_sess.
        destruct (bool_decide (k0 = k')), (sv_sessions sv !! k'); exact (fun x => x).
      + revert Hs'. rewrite nick_state_sessions. destruct (sv_sessions sv !! k') as [s|]; [|discriminate]. cbn.
        intros [= <-]. exists s. split; [reflexivity|]. case_bool_decide; [split; [reflexivity|right]|auto].
        apply PrefixOK_update.
    - intros n k' Hn. right. apply (j_nicks _ _ _ _ H n). revert Hn. unfold nick_state.
      destruct (negb (is_empty old) && negb caps); exact (fun x => x).
    - unfold nick_state. destruct (negb (is_empty old) && negb caps); reflexivity.
    - intros lc c' Hc. unfold nick_state in Hc. destruct (negb (is_empty old) && negb caps);
        cbn [sv_channels set_sessions set_nicks set_channels] in Hc.
      + apply lookup_fmap_Some in Hc. destruct Hc as (c & <- & Hc). exists c. auto.
      + exists c'. auto.
    - unfold nick_state. destruct (negb (is_empty old) && negb caps); reflexivity.
  Qed.

  Lemma ok_maybe_login e k0 m sv : ACT k0 -> HL sv (maybe_login e k0 m).
  Proof. intros HA. unfold maybe_login. unf. go. Qed.
  Local Hint Resolve ok_change_nick ok_maybe_login : hldb.
  Local Hint Extern 1 (D _) => solve_D : hldb.

  Lemma ok_cmd_nick e k0 m sv : ACT k0 -> HL sv (cmd_nick e k0 m).
  Proof. intros HA. unfold cmd_nick. unf. go. Qed.
  Lemma ok_cmd_user e k0 m sv : ACT k0 -> HL sv (cmd_user e k0 m).
  Proof. intros HA. unfold cmd_user. unf. go. Qed.
  Lemma ok_cmd_pass e k0 m sv : ACT k0 -> HL sv (cmd_pass e k0 m).
  Proof. intros HA. unfold cmd_pass. unf. go. Qed.
  Lemma ok_mode_step k0 lc ch op md q sv : ACT k0 -> HL sv (cmd_mode_chan_step k0 lc ch op md q).
  Proof. intros HA. unfold cmd_mode_chan_step. unf. go. Qed.
  Lemma ok_mode_loop k0 lc ch op mds q sv : ACT k0 -> HL sv (cmd_mode_chan_loop k0 lc ch op mds q).
  Proof.
    intros HA. revert q sv. induction mds as [|md mds IH]; intros q sv; cbn [cmd_mode_chan_loop]; [apply hl_ret|].
    apply hl_bind; [now apply ok_mode_step|]. intros st sv'. destruct (fst st); [apply hl_ret|apply IH].
  Qed.
  Local Hint Resolve ok_mode_loop : hldb.
  Lemma ok_cmd_mode k0 m sv : ACT k0 -> HL sv (cmd_mode k0 m).
  Proof. intros HA. unfold cmd_mode. unf. go. Qed.
  Lemma ok_cmd_topic k0 m sv : ACT k0 -> HL sv (cmd_topic k0 m).
  Proof. intros HA. unfold cmd_topic. unf. go. Qed.
  Lemma ok_cmd_names k0 m sv : ACT k0 -> HL sv (cmd_names k0 m).
  Proof. intros HA. unfold cmd_names. unf. go. Qed.
  Local Hint Resolve ok_cmd_mode ok_cmd_topic ok_cmd_names : hldb.
  Lemma ok_join_one e k0 ch key sv : ACT k0 -> HL sv (join_one e k0 ch key).
  Proof. intros HA. unfold join_one. unf. go. Qed.
  Local Hint Resolve ok_join_one : hldb.
  Lemma ok_cmd_join e k0 m sv : ACT k0 -> HL sv (cmd_join e k0 m).
  Proof. intros HA. unfold cmd_join. unf. go. Qed.
  Lemma ok_cmd_part k0 m sv : ACT k0 -> HL sv (cmd_part k0 m).
  Proof. intros HA. unfold cmd_part. unf. go. Qed.
  Lemma ok_cmd_kick k0 m sv : ACT k0 -> HL sv (cmd_kick k0 m).
  Proof. intros HA. unfold cmd_kick. unf. go. Qed.
  Lemma ok_cmd_invite k0 m sv : ACT k0 -> HL sv (cmd_invite k0 m).
  Proof. intros HA. unfold cmd_invite. unf. go. Qed.
  Lemma ok_cmd_privmsg k0 m sv :
    ACT k0 -> to_upper (m_cmd m) = "PRIVMSG" \/ to_upper (m_cmd m) = "NOTICE" -> HL sv (cmd_privmsg k0 m).
  Proof. intros HA [Hc|Hc]; unfold cmd_privmsg; unf; go. Qed.
  Lemma ok_cmd_who k0 m sv : ACT k0 -> HL sv (cmd_who k0 m).
  Proof. intros HA. unfold cmd_who. unf. go. Qed.
  Lemma ok_cmd_whois k0 m sv : ACT k0 -> HL sv (cmd_whois k0 m).
  Proof. intros HA. unfold cmd_whois. unf. go. Qed.
  Lemma ok_cmd_list k0 m sv : ACT k0 -> HL sv (cmd_list k0 m).
  Proof. intros HA. unfold cmd_list. unf. go. Qed.
  Lemma ok_cmd_away k0 m sv : ACT k0 -> HL sv (cmd_away k0 m).
  Proof. intros HA. unfold cmd_away. unf. go. Qed.
  Lemma ok_cmd_ison k0 m sv : ACT k0 -> HL sv (cmd_ison k0 m).
  Proof. intros HA. unfold cmd_ison. unf. go. Qed.
  Lemma ok_cmd_userhost k0 m sv : ACT k0 -> HL sv (cmd_userhost k0 m).
  Proof. intros HA. unfold cmd_userhost. unf. go. Qed.
  Lemma ok_cmd_knock k0 m sv : ACT k0 -> HL sv (cmd_knock k0 m).
  Proof. intros HA. unfold cmd_knock. unf. go. Qed.
  Lemma ok_cmd_ping k0 m sv : ACT k0 -> HL sv (cmd_ping k0 m).
  Proof. intros HA. unfold cmd_ping. unf. go. Qed.
  Lemma ok_cmd_quit k0 m sv : ACT k0 -> HL sv (cmd_quit k0 m).
  Proof. intros HA. unfold cmd_quit. unf. go. Qed.
  Lemma ok_cmd_kill k0 m sv : ACT k0 -> HL sv (cmd_kill k0 m).
  Proof. intros HA. unfold cmd_kill. unf. go. Qed.
  Local Hint Resolve ok_cmd_kill : hldb.
  Lemma ok_cmd_gline k0 m sv : ACT k0 -> HL sv (cmd_gline k0 m).
  Proof. intros HA. unfold cmd_gline. unf. go. Qed.
  Lemma ok_cmd_service_alias k0 m sv : ACT k0 -> HL sv (cmd_service_alias k0 m).
  Proof.
    intros HA. unfold cmd_service_alias. destruct (service_alias (to_upper (m_cmd m))) as [expanded|] eqn:He; [|apply hl_ret].
    destruct (parse_message _) as [p|] eqn:Hp; [|apply hl_panic].
    apply ok_cmd_privmsg; [exact HA|]. left. rewrite (alias_cmd _ _ He _ _ Hp). reflexivity.
  Qed.

  (* ---- services ------------------------------------------------------------------------------------- *)

  Lemma ok_burst_one sv0 t sv : JJ sv0 -> HL sv (burst_one sv0 t).
  Proof. intros HJ0. unfold burst_one. unf. go. Qed.
  Local Hint Resolve ok_burst_one : hldb.
  Lemma ok_cmd_server m sv : HL sv (cmd_server k m).
  Proof. assert (HA : ACT k) by (left; reflexivity). unfold cmd_server, member_session. unf. go. Qed.

  Lemma ok_upd_change_nick (k0 : N * N) f0 nick old caps sv :
    (forall s, s_key (f0 s) = s_key s) -> D (fst k0) ->
    HL sv (bindM (modS (set_sessions (fun m => match m !! k0 with Some s => <[k0 := f0 s]> m | None => m end)))
                 (fun _ => change_nick k0 nick old caps)).
  Proof.
    intros Hf Hd r HJ HP. unfold bindM, modS. rewrite change_nick_run. split; [|exact HP].
    now apply JJ_nick_state.
  Qed.

  Section Link.
    Hypothesis Hsrv : srv = true.
    Local Hint Extern 1 (Act _ _ _ _ _ _) =>
      match goal with HJ : Recipients2.JJ _ _ _ ?sv, H : sv_nicks ?sv !! ?n = Some ?tk |- Act _ _ _ _ _ ?tk =>
        right; split; [assumption|exists sv, n; split; assumption] end : hldb.

    Lemma ok_cmd_server_nick k0 m sv : ACT k0 -> HL sv (cmd_server_nick k0 m).
    Proof.
      intros HA. unfold cmd_server_nick, create_session. unf. cbv zeta.
      repeat first [ (apply ok_upd_change_nick; [intros ?; reflexivity|cbn [fst]; solve_D])
                   | hl_step site inv | sub | progress unf ].
    Qed.
    Lemma ok_quit_pseudo tk m sv : HL sv (quit_pseudo tk m).
    Proof. unfold quit_pseudo. unf. go. Qed.
    Local Hint Resolve ok_quit_pseudo : hldb.
    Lemma ok_cmd_server_quit k0 m sv : ACT k0 -> HL sv (cmd_server_quit k0 m).
    Proof. intros HA. unfold cmd_server_quit. unf. go. Qed.
    Lemma ok_cmd_server_kill k0 m sv : ACT k0 -> HL sv (cmd_server_kill k0 m).
    Proof. intros HA. unfold cmd_server_kill. unf. go. Qed.
    Lemma ok_cmd_server_join k0 m sv : ACT k0 -> HL sv (cmd_server_join k0 m).
    Proof. intros HA. unfold cmd_server_join. unf. go. Qed.
    Lemma ok_cmd_server_part k0 m sv : ACT k0 -> HL sv (cmd_server_part k0 m).
    Proof. intros HA. unfold cmd_server_part. unf. go. Qed.
    Lemma ok_cmd_server_kick k0 m sv : ACT k0 -> HL sv (cmd_server_kick k0 m).
    Proof. intros HA. unfold cmd_server_kick. unf. go. Qed.
    Lemma ok_cmd_server_svsjoin k0 m sv : ACT k0 -> HL sv (cmd_server_svsjoin k0 m).
    Proof. intros HA. unfold cmd_server_svsjoin. unf. go. Qed.
    Lemma ok_cmd_server_svspart k0 m sv : ACT k0 -> HL sv (cmd_server_svspart k0 m).
    Proof. intros HA. unfold cmd_server_svspart. unf. go. Qed.
    Lemma ok_cmd_server_svsnick k0 m sv : ACT k0 -> HL sv (cmd_server_svsnick k0 m).
    Proof.
      intros HA. unfold cmd_server_svsnick. unf. cbv zeta.
      repeat first [ (eapply hl_bind_modS4; [intros ?; apply JJ_svsnick; [solve_D|assumption]|])
                   | hl_step site inv | sub | progress unf ].
    Qed.
    Lemma ok_cmd_server_mode k0 m sv : ACT k0 -> HL sv (cmd_server_mode k0 m).
    Proof. intros HA. unfold cmd_server_mode. unf. go. Qed.
    Lemma ok_cmd_server_topic k0 m sv : ACT k0 -> HL sv (cmd_server_topic k0 m).
    Proof. intros HA. unfold cmd_server_topic. unf. go. Qed.
    Lemma ok_cmd_server_invite k0 m sv : ACT k0 -> HL sv (cmd_server_invite k0 m).
    Proof. intros HA. unfold cmd_server_invite. unf. go. Qed.
    Lemma ok_cmd_server_privmsg k0 m sv :
      ACT k0 -> to_upper (m_cmd m) = "PRIVMSG" \/ to_upper (m_cmd m) = "NOTICE" -> HL sv (cmd_server_privmsg k0 m).
    Proof. intros HA [Hc|Hc]; unfold cmd_server_privmsg; unf; go. Qed.
    Lemma ok_cmd_server_svshold k0 m sv : ACT k0 -> HL sv (cmd_server_svshold k0 m).
    Proof. intros HA. unfold cmd_server_svshold. unf. go. Qed.
    Lemma ok_cmd_server_svsmode k0 m sv : ACT k0 -> HL sv (cmd_server_svsmode k0 m).
    Proof. intros HA. unfold cmd_server_svsmode. unf. go. Qed.
  End Link.
  (* ---- the command table --------------------------------------------------------------------------- *)
  Lemma srv_cases : srv = true \/ srv = false.
  Proof. destruct srv; auto. Qed.

  Lemma ok_dispatch name minp (f : handler) e m sv :
    In (name, (minp, f)) commands ->
    name = (if srv then "server_" else "") ++ to_upper (m_cmd m) ->
    HL sv (f e k m).
  Proof.
    intros Hin Hname. assert (HA : ACT k) by (left; reflexivity).
    unfold commands in Hin.
    repeat (destruct Hin as [Hin|Hin]; [injection Hin as <- <- <-|]); try contradiction; unfold noenv.
    all: destruct srv_cases as [Hsrv|Hsrv]; rewrite Hsrv in Hname; cbn [String.append] in Hname; try discriminate Hname.
    all: try (exfalso; symmetry in Hname; revert Hname; apply to_upper_not_s).
    all: try (injection Hname as Hname).
    all: first [ apply ok_cmd_privmsg; [exact HA|first [left; symmetry; exact Hname|right; symmetry; exact Hname]]
               | apply ok_cmd_server_privmsg; [exact Hsrv|exact HA|first [left; symmetry; exact Hname|right; symmetry; exact Hname]]
               | apply ok_cmd_service_alias; exact HA | apply ok_cmd_away; exact HA | apply ok_cmd_gline; exact HA
               | apply ok_cmd_invite; exact HA | apply ok_cmd_ison; exact HA | apply ok_cmd_join; exact HA
               | apply ok_cmd_kick; exact HA | apply ok_cmd_kill; exact HA | apply ok_cmd_knock; exact HA
               | apply ok_cmd_list; exact HA | apply ok_cmd_mode; exact HA | apply ok_cmd_motd; exact HA
               | apply ok_cmd_names; exact HA | apply ok_cmd_nick; exact HA | apply ok_cmd_oper; exact HA
               | apply ok_cmd_part; exact HA | apply ok_cmd_pass; exact HA | apply ok_cmd_ping; exact HA
               | apply ok_cmd_quit; exact HA | apply ok_cmd_topic; exact HA | apply ok_cmd_user; exact HA
               | apply ok_cmd_userhost; exact HA | apply ok_cmd_who; exact HA | apply ok_cmd_whois; exact HA
               | apply ok_cmd_server
               | apply ok_cmd_server_invite; [exact Hsrv|exact HA] | apply ok_cmd_server_join; [exact Hsrv|exact HA]
               | apply ok_cmd_server_kick; [exact Hsrv|exact HA] | apply ok_cmd_server_kill; [exact Hsrv|exact HA]
               | apply ok_cmd_server_mode; [exact Hsrv|exact HA] | apply ok_cmd_server_nick; [exact Hsrv|exact HA]
               | apply ok_cmd_server_part; [exact Hsrv|exact HA] | apply ok_cmd_server_quit; [exact Hsrv|exact HA]
               | apply ok_cmd_server_svshold; exact HA | apply ok_cmd_server_svsjoin; [exact Hsrv|exact HA]
               | apply ok_cmd_server_svsmode; [exact Hsrv|exact HA] | apply ok_cmd_server_svsnick; [exact Hsrv|exact HA]
               | apply ok_cmd_server_svspart; [exact Hsrv|exact HA] | apply ok_cmd_server_topic; [exact Hsrv|exact HA] ].
  Qed.
  (* ---- ProcessMessage -------------------------------------------------------------------------------- *)
  Lemma ok_process_message e ra ircmsg sv s0 :
    sv_sessions sv !! k = Some s0 -> s_server s0 = srv -> HL sv (process_message e k ra ircmsg).
  Proof.
    intros Hs0 Hsrv0. assert (HA : ACT k) by (left; reflexivity).
    unfold process_message. unfold sessM at 1. apply hl_bind_assoc, hl_bind_getS. intros HJ. rewrite Hs0. apply hl_bind_ret.
    destruct ircmsg as [m|]; [|unf; go]. cbv zeta.
    match goal with |- hl _ _ _ (bindM _ (fun banned => if banned then retM tt else ?tail)) =>
      assert (Htail : forall sv1 s1, sv_sessions sv1 !! k = Some s1 -> s_server s1 = srv -> HL sv1 tail) end.
    { intros sv1 s1 Hs1 Hsrv1. unfold sessM at 1. apply hl_bind_assoc, hl_bind_getS. intros HJ1. rewrite Hs1. apply hl_bind_ret.
      destruct (negb (s_loggedIn s1) && negb (s_server s1) && negb (pre_registration (to_upper (m_cmd m)))) eqn:Hgate; [unf; go|].
      destruct (assoc_str _ commands) as [[minp f]|] eqn:Hc; [|unf; go].
      destruct (Nat.ltb _ _); [unf; go|].
      eapply ok_dispatch; [eapply assoc_str_In; exact Hc|]. rewrite Hsrv1. reflexivity. }
    destruct (negb (is_empty ra) && negb (String.eqb ra (s_remoteAddr s0))) eqn:Hra.
    - unfold updSess, cfgM.
      repeat first [ (apply Htail with (s1 := ss_remoteAddr ra s0);
                       [cbn [sv_sessions set_sessions]; rewrite lookup_upd_sess, bool_decide_true, Hs0 by reflexivity; reflexivity
                       |exact Hsrv0])
                   | hl_step site inv | sub ].
    - apply hl_bind_ret. cbn [negb]. eapply Htail; [exact Hs0|exact Hsrv0].
  Qed.
End Handlers.

(* ====================================================================================================== *)
(* 5. Log entries                                                                                         *)
(* ====================================================================================================== *)
Definition entry_key (en : entry) : N * N :=
  match en with
  | ECreate id _ _ | EConfig id _ _ _ => (id, 0%N)
  | EDelete _ _ s _ | EMessage _ _ s _ _ _ | EDeath _ _ s _ _ => (s, 0%N)
  end.
(* is the session an entry acts for an authenticated services link? *)
Definition entry_srv (sv : server) (en : entry) : bool :=
  match sv_sessions sv !! entry_key en with Some s => s_server s | None => false end.

Lemma JJ_maybe_delete D DS net (k : N * N) sv : JJ D DS net sv -> JJ D DS net (maybe_delete_session k sv).
Proof.
  intros HJ. unfold maybe_delete_session. destruct (sv_sessions sv !! k) as [s|]; [|exact HJ].
  assert (H1 : JJ D DS net (if s_server s || s_operator s
                     then set_sessions (base.filter (fun kv : N * N * session => s_deleted kv.2 = false)) sv else sv)).
  { destruct (s_server s || s_operator s); [|exact HJ]. apply JJ_sessions_sub; [|exact HJ].
    intros k' s' H. apply map_filter_lookup_Some in H. apply H. }
  destruct (s_deleted s); [|exact H1]. apply JJ_sessions_sub; [|exact H1].
  intros k' s' H. apply lookup_delete_Some in H. apply H.
Qed.

Lemma JJ_update_last_cmid D DS net k ts data cmid sv sv1 :
  JJ D DS net sv -> update_last_cmid k ts data cmid sv = Some sv1 ->
  JJ D DS net sv1 /\ exists s s1, sv_sessions sv !! k = Some s /\ sv_sessions sv1 !! k = Some s1 /\ s_server s1 = s_server s.
Proof.
  intros HJ H. unfold update_last_cmid in H. destruct (sv_sessions sv !! k) as [s|] eqn:Hs; [|discriminate].
  injection H as <-. destruct (j_sess _ _ _ _ HJ _ _ Hs) as (Hd & Hk & Hp). split.
  - apply JJ_insert_sess; [exact Hd|exact Hk|exact Hp|exact HJ].
  - eexists _, _. split; [reflexivity|]. cbn [sv_sessions set_sessions]. rewrite lookup_insert. split; reflexivity.
Qed.

Theorem entry_sites D DS net e sv en sv' out :
  JJ D DS net sv -> DS (fst (entry_key en)) -> apply_entry e sv en = OOk sv' out ->
  Forall (outP D DS net (entry_key en) (entry_srv sv en)) out /\
  (match en with ECreate id _ _ => D id | _ => True end -> JJ D DS net sv').
Proof.
  intros HJ HDS. destruct en as [id un auth|id un session q|id un session cmid ra data|id un session cmid data|id un rev parsed];
    cbn [apply_entry entry_key].
  - unfold create_session, bindM, getS, retM, modS. destruct (_ && _); cbn; [discriminate|]. intros [= <- <-].
    split; [constructor|]. intros Hd. apply JJ_insert_sess; [exact Hd|reflexivity|intros _ Hn; exfalso; apply Hn; reflexivity|exact HJ].
  - unfold entry_srv. cbn [entry_key]. destruct (sv_sessions sv !! (session, 0%N)) as [s|] eqn:Hs;
      [|intros [= <- <-]; split; [constructor|intros _; exact HJ]].
    unfold run_handler.
    pose proof (ok_process_message D DS net (session, 0%N) (s_server s) (proj1 (j_sess _ _ _ _ HJ _ _ Hs)) HDS e ""
                  (parse_message ("QUIT :" ++ q)) sv s Hs eq_refl (RCtx id []) HJ (Forall_nil _)) as H.
    destruct (process_message _ _ _ _ sv _) as [[[[] sv1] r1]|?|?]; try discriminate.
    intros [= <- <-]. destruct H as [HJ1 HP1]. split; [apply Forall_rev, HP1|]. intros _.
    apply JJ_maybe_delete, JJ_lastProcessed, HJ1.
  - destruct (is_retry _ _ sv); [intros [= <- <-]; split; [constructor|intros _; exact HJ]|].
    destruct (update_last_cmid _ _ _ _ sv) as [sv1|] eqn:Hu; [|discriminate].
    destruct (JJ_update_last_cmid _ _ _ _ _ _ _ _ _ HJ Hu) as (HJ1 & s & s1 & Hs & Hs1 & Hsrv).
    unfold entry_srv. cbn [entry_key]. rewrite Hs. unfold run_handler.
    pose proof (ok_process_message D DS net (session, 0%N) (s_server s) (proj1 (j_sess _ _ _ _ HJ _ _ Hs)) HDS e ra
                  (parse_message data) sv1 s1 Hs1 Hsrv (RCtx id []) HJ1 (Forall_nil _)) as H.
    destruct (process_message _ _ _ _ sv1 _) as [[[[] sv2] r2]|?|?]; try discriminate.
    intros [= <- <-]. destruct H as [HJ2 HP2]. split; [apply Forall_rev, HP2|]. intros _.
    apply JJ_maybe_delete, JJ_lastProcessed, HJ2.
  - destruct (update_last_cmid _ _ _ _ sv) as [sv1|] eqn:Hu; [|discriminate].
    intros [= <- <-]. split; [constructor|]. intros _. eapply JJ_update_last_cmid; eauto.
  - destruct (config_in_force _ _ _); intros [= <- <-]; (split; [constructor|intros _]); [apply JJ_config|]; exact HJ.
Qed.

Print Assumptions entry_sites.
