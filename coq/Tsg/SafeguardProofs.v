(* Proofs about Tsg/Safeguard.v: the physical soundness of the start-up time check. *)
From Coq Require Import ZArith List Bool Lia Permutation.
From RV Require Import Tsg.Safeguard.
Import ListNotations.
Local Open Scope Z_scope.

(* Physical model of one answered measurement: the local clock reads [st] before the
   request and [en] after decoding the answer; the peer read *its* clock at some local
   instant t in [st, en]; its clock is ahead of ours by theta: res = t + theta. *)
Definition explains (theta : Z) (x : Z * Z * Z) : Prop :=
  let '(st, en, res) := x in exists t, st <= t <= en /\ res = t + theta.

Lemma worst_bounds_offset theta st en res :
  explains theta (st, en, res) -> Z.abs theta <= worst st en res.
Proof. unfold explains, worst. intros [t [Ht ->]]. lia. Qed.

Section WithET.
Variable ET : Z.
Notation in_sync := (in_sync ET).
Notation offenders := (offenders ET).
Notation decide := (decide ET).

Lemma in_sync_spec rs : in_sync rs = true <-> forall x, In x rs -> worst3 x < ET.
Proof.
  unfold Safeguard.in_sync. rewrite forallb_forall. split; intros H x Hx; specialize (H x Hx).
  - now apply Z.ltb_lt. - now apply Z.ltb_lt.
Qed.

Lemma answered_in ms st en r :
  In (st, en, r) (answered ms) <-> In (Meas st en (Some r)) ms.
Proof.
  unfold answered. rewrite in_flat_map. split.
  - intros [m [Hm Hx]]. destruct m as [s e [r'|]]; simpl in Hx; [|tauto].
    destruct Hx as [Hx|[]]. inversion Hx; subst. exact Hm.
  - intros H. exists (Meas st en (Some r)). split; [exact H|]. simpl. now left.
Qed.

(* accept (without the flag) => every answering peer's true offset is below ET *)
Theorem sound ms :
  decide false ms = Accept ->
  forall st en r theta, In (Meas st en (Some r)) ms -> explains theta (st, en, r) ->
  Z.abs theta < ET.
Proof.
  unfold Safeguard.decide. intros Hd st en r theta Hin Hex.
  destruct (in_sync (answered ms)) eqn:Hs; [|discriminate].
  rewrite in_sync_spec in Hs.
  apply answered_in in Hin. specialize (Hs _ Hin). simpl in Hs.
  pose proof (worst_bounds_offset _ _ _ _ Hex). lia.
Qed.

(* more generally: Accept is only ever returned when in sync, whatever the flag *)
Theorem accept_means_in_sync d ms :
  decide d ms = Accept -> forall x, In x (answered ms) -> worst3 x < ET.
Proof.
  unfold Safeguard.decide. destruct (in_sync (answered ms)) eqn:Hs.
  - intros _. now apply in_sync_spec.
  - destruct d; discriminate.
Qed.

Lemma offenders_spec rs x : In x (offenders rs) <-> In x rs /\ ET <= worst3 x.
Proof. unfold Safeguard.offenders. rewrite filter_In. now rewrite Z.leb_le. Qed.

Lemma not_in_sync_iff rs : in_sync rs = false <-> exists x, In x rs /\ ET <= worst3 x.
Proof.
  unfold Safeguard.in_sync. split.
  - intros H. induction rs as [|x rs IH]; simpl in *; [discriminate|].
    apply andb_false_iff in H. destruct H as [H|H].
    + exists x. split; [now left|]. apply Z.ltb_ge in H. exact H.
    + destruct (IH H) as [y [Hy Hw]]. exists y. split; [now right|exact Hw].
  - intros [x [Hx Hw]]. destruct (forallb _ rs) eqn:E; [|reflexivity].
    rewrite forallb_forall in E. specialize (E x Hx). apply Z.ltb_lt in E. lia.
Qed.

(* refusal: with the safeguard enabled, one answering peer whose worst-case drift
   reaches ET makes the node refuse, and exactly the offending peers are reported *)
Theorem refuse ms :
  (exists x, In x (answered ms) /\ ET <= worst3 x) ->
  decide false ms = Refuse (offenders (answered ms)) /\
  (forall x, In x (offenders (answered ms)) <-> In x (answered ms) /\ ET <= worst3 x).
Proof.
  intros H. apply not_in_sync_iff in H. unfold Safeguard.decide. rewrite H.
  split; [reflexivity|]. intros x. apply offenders_spec.
Qed.

(* the converse: refusal only with a reason (so a synchronised node always joins) *)
Theorem refuse_only_with_reason d ms off :
  decide d ms = Refuse off -> d = false /\ exists x, In x (answered ms) /\ ET <= worst3 x.
Proof.
  unfold Safeguard.decide. destruct (in_sync (answered ms)) eqn:Hs; [discriminate|].
  destruct d; [discriminate|]. intros _. split; [reflexivity|]. now apply not_in_sync_iff.
Qed.

(* silent peers are ignored rather than trusted or distrusted *)
Lemma answered_app a b : answered (a ++ b) = answered a ++ answered b.
Proof. unfold answered. now rewrite flat_map_app. Qed.

Theorem ignore_silent d ms st en :
  decide d (Meas st en None :: ms) = decide d ms /\
  (forall ms', decide d (ms ++ Meas st en None :: ms') = decide d (ms ++ ms')).
Proof.
  split; [reflexivity|]. intros ms'. unfold Safeguard.decide.
  now rewrite !answered_app.
Qed.

Theorem disabled_never_refuses ms off : decide true ms <> Refuse off.
Proof. unfold Safeguard.decide. destruct (in_sync _); discriminate. Qed.

(* tightness: the bound cannot be improved — a measurement with worst >= ET is
   explained by some offset of magnitude >= ET - (en - st) ... we only record that a
   peer refused with zero-length measurement really is off by >= ET. *)
Theorem refuse_instant_measurement_is_off st r theta :
  explains theta (st, st, r) -> ET <= worst st st r -> ET <= Z.abs theta.
Proof. unfold explains, worst. intros [t [Ht ->]] H. lia. Qed.

(* the title statement, directly: if the clock COULD be off by >= ET with respect to some
   answering peer (some offset of that magnitude is consistent with the measurement), the
   node refuses to join and names that peer *)
Theorem could_be_off_refuses ms st en r theta :
  In (Meas st en (Some r)) ms -> explains theta (st, en, r) -> ET <= Z.abs theta ->
  decide false ms = Refuse (offenders (answered ms)) /\ In (st, en, r) (offenders (answered ms)).
Proof.
  intros Hin Hex Hoff. pose proof (worst_bounds_offset _ _ _ _ Hex) as Hw.
  apply answered_in in Hin.
  assert (Hx : In (st, en, r) (answered ms) /\ ET <= worst3 (st, en, r)) by (split; [exact Hin|simpl; lia]).
  destruct (refuse ms (ex_intro _ _ Hx)) as [Hd Hspec]. split; [exact Hd|]. now apply Hspec.
Qed.

(* the peers answer on goroutines, in any order: the verdict does not depend on the order
   in which the measurements were collected, and the same peers are named *)
Lemma answered_perm ms ms' : Permutation ms ms' -> Permutation (answered ms) (answered ms').
Proof.
  unfold answered. induction 1 as [|x l l' _ IH|x y l|l l' l'' _ IH1 _ IH2]; simpl.
  - constructor.
  - now apply Permutation_app_head.
  - rewrite !app_assoc. apply Permutation_app_tail, Permutation_app_comm.
  - now transitivity (flat_map (fun m => match m_result m with Some r => [(m_start m, m_end m, r)] | None => [] end) l').
Qed.

Lemma in_sync_perm rs rs' : Permutation rs rs' -> in_sync rs = in_sync rs'.
Proof.
  intros HP. destruct (in_sync rs) eqn:E1, (in_sync rs') eqn:E2; try reflexivity.
  - rewrite in_sync_spec in E1. apply not_in_sync_iff in E2. destruct E2 as [x [Hx Hw]].
    apply Permutation_sym in HP. pose proof (E1 x (Permutation_in _ HP Hx)). lia.
  - rewrite in_sync_spec in E2. apply not_in_sync_iff in E1. destruct E1 as [x [Hx Hw]].
    pose proof (E2 x (Permutation_in _ HP Hx)). lia.
Qed.

Definition same_verdict (a b : decision) : Prop :=
  match a, b with
  | Accept, Accept => True
  | AcceptDisabled o, AcceptDisabled o' => Permutation o o'
  | Refuse o, Refuse o' => Permutation o o'
  | _, _ => False
  end.

Theorem order_irrelevant d ms ms' : Permutation ms ms' -> same_verdict (decide d ms) (decide d ms').
Proof.
  intros HP. apply answered_perm in HP. unfold Safeguard.decide.
  rewrite (in_sync_perm _ _ HP). destruct (in_sync (answered ms')); simpl; [exact I|].
  assert (Permutation (offenders (answered ms)) (offenders (answered ms'))) as HO.
  { unfold Safeguard.offenders. clear -HP.
    induction HP as [|x l l' _ IH|x y l|l l' l'' _ IH1 _ IH2]; simpl.
    - constructor.
    - destruct (ET <=? worst3 x); [now constructor|exact IH].
    - destruct (ET <=? worst3 x), (ET <=? worst3 y); try reflexivity. apply perm_swap.
    - now transitivity (filter (fun x => ET <=? worst3 x) l'). }
  destruct d; exact HO.
Qed.

End WithET.

(* non-vacuity, at the value compiled into the pinned tree *)
Definition ET2s : Z := 2000000000.
Example sound_premises_met :
  decide ET2s false [Meas 0 500000000 (Some 250000001); Meas 0 10 None] = Accept /\
  explains 1 (0, 500000000, 250000001).
Proof. split; [reflexivity|]. exists 250000000. lia. Qed.
Example refuse_premises_met :
  decide ET2s false [Meas 0 500000000 (Some 3600000000000)] = Refuse [(0, 500000000, 3600000000000)].
Proof. reflexivity. Qed.
Example could_be_off_premises_met :
  explains 3599999999999 (0, 500000000, 3600000000000) /\ ET2s <= Z.abs 3599999999999.
Proof. split; [exists 1; lia|unfold ET2s; lia]. Qed.
Example order_irrelevant_nontrivial :
  decide ET2s false [Meas 0 5 (Some 3600000000000); Meas 0 10 None; Meas 1 6 (Some 7200000000000)] =
    Refuse [(0, 5, 3600000000000); (1, 6, 7200000000000)] /\
  decide ET2s false [Meas 1 6 (Some 7200000000000); Meas 0 5 (Some 3600000000000); Meas 0 10 None] =
    Refuse [(1, 6, 7200000000000); (0, 5, 3600000000000)].
Proof. split; reflexivity. Qed.
