(* C11 — session routes need the secret of exactly the target session; every other route the
   network password.  Statements over M-API (Api/Auth.v), for an arbitrary route table [rt]
   that passes [forallb gated] — the table generated from the current source is obliged to
   (Gen/GenOKRoutes.v) — and for the mux main() serves after the D17 repair. *)
From Coq Require Import List Bool NArith String.
From RV Require Import Base.Text Api.Auth Api.AuthProofs Api.Post Api.PostProofs.
Import ListNotations.
Local Open Scope string_scope.

(* a handler acting for session [id] is entered only if X-Session-Auth is non-empty, equals
   the secret of exactly that session, and that session is alive *)
Theorem C11_session : forall rt, forallb gated rt = true -> forall st q h id,
  dispatch_public rt st q = Handled h (Some id) ->
  exists hd s, q_hdr q = Some hd /\ hd <> "" /\ get_session st id = GsOk s /\ hd = s_auth s /\
               alive st id = true /\ auth_of st id = Some hd.
Proof. exact public_session_gate. Qed.
Print Assumptions C11_session.

(* the same through whatever mux is served, provided it only routes to the two dispatchers *)
Theorem C11_session_served : forall rt, forallb gated rt = true -> forall m st q h id,
  serve m rt st q = Handled h (Some id) ->
  exists hd s, q_hdr q = Some hd /\ hd <> "" /\ get_session st id = GsOk s /\ hd = s_auth s /\
               alive st id = true /\ auth_of st id = Some hd.
Proof. exact served_session_gate. Qed.
Print Assumptions C11_session_served.

(* the gate itself: parse the id, require a non-empty header, look the session up, compare *)
Theorem C11_gate : forall st hdr sid id,
  session_check st hdr sid = inl id <->
  (parse_uint0 sid = Some id /\ exists s, get_session st id = GsOk s /\ hdr = Some (s_auth s) /\ s_auth s <> "").
Proof. exact session_check_complete. Qed.
Print Assumptions C11_gate.

(* no other session's secret works (secrets of distinct live sessions are distinct:
   createsession.go draws 128 random bytes per session) *)
Theorem C11_other_secret : forall rt, forallb gated rt = true -> forall st q h i j sj,
  distinct_secrets st ->
  get_session st j = GsOk sj -> q_hdr q = Some (s_auth sj) ->
  dispatch_public rt st q = Handled h (Some i) -> i = j.
Proof. exact other_sessions_secret_refused. Qed.
Print Assumptions C11_other_secret.

Theorem C11_wrong_secret : forall rt, forallb gated rt = true -> forall st q h i si,
  get_session st i = GsOk si -> q_hdr q <> Some (s_auth si) ->
  dispatch_public rt st q <> Handled h (Some i).
Proof. exact wrong_secret_refused. Qed.
Print Assumptions C11_wrong_secret.

Theorem C11_dead_session : forall rt, forallb gated rt = true -> forall st q h i,
  alive st i = false -> dispatch_public rt st q <> Handled h (Some i).
Proof. exact dead_or_unknown_session_refused. Qed.
Print Assumptions C11_dead_session.

(* a refused request enters no handler (hence proposes nothing to raft and reads no message)
   and its body is a fixed text that does not depend on the state *)
Theorem C11_refused_pure : forall t d,
  is_refusal d ->
  rs_handler_entered (respond t d) = false /\ exists txt, rs_body (respond t d) = BErrorText txt.
Proof. exact refused_pure. Qed.
Print Assumptions C11_refused_pure.

(* every private route — every method, every path, existing or not — answers 401 without
   the correct basic-auth credentials *)
Theorem C11_private : forall rt, forallb gated rt = true -> forall st q,
  basic_ok st q = false -> dispatch_private rt st q = Unauthorized.
Proof. exact private_needs_password. Qed.
Print Assumptions C11_private.

(* and through the mux main() serves: every path outside /robustirc/v1/ *)
Theorem C11_private_served : forall rt st q,
  forallb gated rt = true ->
  has_prefix public_prefix (q_path q) = false -> has_prefix "/" (q_path q) = true ->
  basic_ok st q = false ->
  serve model_mux rt st q = Unauthorized.
Proof. exact model_served_private. Qed.
Print Assumptions C11_private_served.

(* a mux that only routes to the two dispatchers never hands a request to a foreign handler *)
Theorem C11_no_foreign_handler : forall rt m, forallb mux_gated m = true -> forall st q w,
  serve m rt st q <> Foreign w.
Proof. exact served_never_foreign. Qed.
Print Assumptions C11_no_foreign_handler.

Theorem C11_mux_total : forall path,
  mux_lookup model_mux path =
    if has_prefix public_prefix path then Some TPublic
    else if has_prefix "/" path then Some TPrivate else None.
Proof. exact model_mux_total. Qed.
Print Assumptions C11_mux_total.

(* the gate on a node whose state machine lags behind its log (restart replay, slow apply, follower
   catching up): answering from a replay of any strict prefix, it never says "No such session" for
   the id of an entry still ahead of it — e.g. a session whose CreateSession entry is committed but
   not yet applied; the answer is "not yet seen" (also cited by C17).  Ids are raft indexes. *)
Theorem C11_lagging_view_not_gone : forall st0 b l1 e o l2,
  (st_lastproc st0 <= b)%N -> ids_increase b (l1 ++ (e, o) :: l2) ->
  get_session (replay l1 st0) (e_id e) <> GsNoSuch.
Proof. exact lagging_view_not_gone. Qed.
Print Assumptions C11_lagging_view_not_gone.

Theorem C11_lagging_check_not_gone : forall st0 b l1 e o l2 hdr t,
  (st_lastproc st0 <= b)%N -> ids_increase b (l1 ++ (e, o) :: l2) ->
  parse_uint0 t = Some (e_id e) ->
  session_check (replay l1 st0) hdr t <> inr RNoSuch.
Proof. exact lagging_check_not_gone. Qed.
Print Assumptions C11_lagging_check_not_gone.

(* status codes (D22, c0e28c0): "Session not yet seen" is never answered with 404 — the status on
   which the bridge gives a session up — on any route, in any state *)
Theorem C11_notyet_status : forall rt st q c,
  dispatch_public rt st q = Refused RNotYet c -> c = 500%N.
Proof. exact notyet_status. Qed.
Print Assumptions C11_notyet_status.

(* the id of an entry still ahead of the applied prefix is exactly "not yet seen" ... *)
Theorem C11_lagging_view_not_yet : forall st0 b l1 e o l2,
  (st_lastproc st0 <= b)%N -> keys_below b st0 -> ids_increase b (l1 ++ (e, o) :: l2) ->
  get_session (replay l1 st0) (e_id e) = GsNotYet.
Proof. exact lagging_view_not_yet. Qed.
Print Assumptions C11_lagging_view_not_yet.

(* ... so every gated session route (GET messages, POST message, DELETE), on a node answering from
   a replay of any strict prefix of the log, answers a request for that id (with any non-empty
   X-Session-Auth) with 500 or proxies it to the leader: never 404 (also cited by C17) *)
Theorem C11_lagging_never_404 : forall rt st0 b l1 e o l2 q h,
  forallb gated rt = true ->
  (st_lastproc st0 <= b)%N -> keys_below b st0 -> ids_increase b (l1 ++ (e, o) :: l2) ->
  q_hdr q = Some h -> h <> "" ->
  forall r sid,
  find_route (fun _ => true) Pub (q_meth q) (sdrop (String.length public_prefix) (q_path q)) rt = Some (r, Some sid) ->
  parse_uint0 sid = Some (e_id e) ->
  has_prefix public_prefix (q_path q) = true ->
  dispatch_public rt (replay l1 st0) q = Refused RNotYet 500 \/ dispatch_public rt (replay l1 st0) q = Proxied.
Proof. exact lagging_dispatch_never_404. Qed.
Print Assumptions C11_lagging_never_404.
