# C17 — see DESIGN.md §4; shared IRC check logic in irc_common.py
#   + the lookup-during-restore driver: in the model `reload` (Marshal/Unmarshal) is one atomic step; FSM.Restore hands
#     the fresh IRCServer to the HTTP handlers before Unmarshal runs, so lookups race with the load.  A session that is in
#     the snapshot must be answered "not yet seen" or found, never "no such session" (C17: "a lagging follower never tells
#     a client its live session is gone").
import os
import vlib
from props import irc_common


def restore_lookup(ck):
    wd = vlib.workdir()
    outp = os.path.join(wd, "lookup.out")
    if os.path.exists(outp):
        os.remove(outp)
    rounds = 20 if ck.tier == "quick" else 300
    ov = {os.path.join(vlib.REPO, "internal/ircserver/zz_verif_lookup_test.go"): os.path.join(vlib.HGO, "ircserver/zz_verif_lookup_test.go")}
    rc, out = vlib.go_test("./internal/ircserver/", ov, "^TestVerifRestoreLookup$",
                           {"VERIF_OUT": outp, "VERIF_ROUNDS": str(rounds), "VERIF_SESSIONS": "3000"}, timeout=900)
    if rc != 0 or not os.path.exists(outp):
        ck.add_obligation(False, "lookup-during-restore driver ran")
        ck.violation("tie-broken:go-driver-lookup", {"what": "the lookup-during-restore driver did not build/run against the current tree",
                                                     "output": out[-3000:], "obligation": "correspondence (atomicity of reload)"}, concrete=False)
        return
    f = dict(x.split("=", 1) for x in open(outp).read().split()[1:])
    ck.add_obligation(True, "lookup-during-restore driver ran")
    ck.cov["restore_lookup"] = {k: f[k] for k in ("rounds", "sessions", "ok", "notyet", "nosuch")}
    ck.cov["evaluations"] = ck.cov.get("evaluations", 0) + int(f["rounds"])
    if int(f["nosuch"]) > 0:
        ck.violation("c17:nosuch-during-restore", {
            "what": "while a snapshot with %s sessions was being loaded, %s lookups of sessions contained in it answered 'No such session' (first: round:id %s); "
                    "a client told so gives its session up" % (f["sessions"], f["nosuch"], f["first"]),
            "how_to_replay": "bin/check C17 (the driver harness/go/ircserver/zz_verif_lookup_test.go is a schedule search: %s rounds of Unmarshal against 3 polling goroutines)" % f["rounds"],
            "expected": "only 'Session not yet seen' before and found after"}, concrete=True)


def api_lookup(ck):
    """the same distinction at the HTTP layer, where the bridge sees it: for a session id newer than anything this node
    has applied GET .../messages answers 500 'Session not yet seen' (the bridge retries elsewhere), never 404 (the bridge
    gives the session up); for a deleted session 404 'No such session'."""
    from props import c11 as api
    facts, _, _ = api.scan_routes()
    wiring = api.wiring_of(facts)
    ops = api.setup_ops()          # slots 0..3; slot 3 is deleted at the end of the setup
    future = ["0x7fffffffffff", "99999999999", "0xfffffffffffffff"]
    reqs = []
    for f in future:
        reqs.append(api.R("GET", "/robustirc/v1/%s/messages" % f, "a1"))
        reqs.append(api.R("GET", "/robustirc/v1/%s/messages" % f, "e"))
    nfuture = len(reqs)
    for k in ("4", "5", "6"):      # sessions that ended before they ever logged in (deleted fresh / after NICK only / own QUIT after NICK only)
        reqs.append(api.R("GET", "/robustirc/v1/{%s}/messages" % k, "a" + k))
    reqs.append(api.R("GET", "/robustirc/v1/{3}/messages", "a3"))
    line = "api lookup " + " ".join(ops + reqs)
    # ---- the state machine lags behind the log (replay after a restart, slow apply, follower catching up): the apply gate of
    # the driver holds FSM.Apply back while raft appends and commits.  Sessions 10 and 11 are created (and used) in the LOG only.
    def hx(t): return api.hx(t)
    POSTB = '{"Data":"PING lag","ClientMessageId":%d}'
    lag, expect = list(api.setup_ops()), {}
    def req(tok, want):
        expect[len(lag)] = want
        lag.append(tok)
    lag += ["A:close", "E:10", "M:10:" + hx("NICK laga"), "M:10:" + hx("USER l 0 * :L"), "E:11", "M:11:" + hx("NICK lagb")]
    for k in ("10", "11"):
        for cred in ("a" + k, "a1", "l" + hx("x" * 256)):          # own secret, another live session's, garbage: all must be "not yet seen"
            req(api.R("GET", "/robustirc/v1/{%s}/messages" % k, cred), "lagging")
            req(api.R("POST", "/robustirc/v1/{%s:d}/message" % k, cred, "-", POSTB % (7000 + len(lag))), "lagging")
            req(api.R("DELETE", "/robustirc/v1/{%s}" % k, cred, "-", '{"Quitmessage":"bye"}'), "lagging")
    for cred in ("a1", "a10"):                                      # an id newer than anything in the log, too
        req(api.R("POST", "/robustirc/v1/{g:d}/message", cred, "-", POSTB % (7900 + len(lag))), "lagging")
        req(api.R("DELETE", "/robustirc/v1/{g}", cred, "-", '{"Quitmessage":"bye"}'), "lagging")
    # the converse keeps the distinction honest: ids that really are dead answer "No such session" also while the FSM lags
    req(api.R("GET", "/robustirc/v1/{3}/messages", "a3"), "dead")
    req(api.R("DELETE", "/robustirc/v1/{3}", "a3", "-", '{"Quitmessage":"bye"}'), "dead")
    req(api.R("GET", "/robustirc/v1/1/messages", "a1"), "dead")       # raft index 1 never was a session and lies below lastProcessed
    lag.append("A:open")
    req(api.R("GET", "/robustirc/v1/{10}/messages", "a10"), "live")
    req(api.R("POST", "/robustirc/v1/{10:d}/message", "a10", "-", POSTB % 7999), "live")
    req(api.R("GET", "/robustirc/v1/{11}/messages", "a1"), "refused")
    req(api.R("DELETE", "/robustirc/v1/{11}", "a11", "-", '{"Quitmessage":"bye"}'), "live")
    lagline = "api lag " + " ".join(lag)
    res, out = api.run_go([line, lagline], wiring, "c17api", timeout=900)
    if res is None:
        ck.add_obligation(False, "API lookup probe ran")
        ck.violation("tie-broken:go-driver-api", {"what": "the API driver did not build/run against the current tree", "output": out[-3000:],
                                                  "obligation": "correspondence apidrv (C17 lookup at the HTTP layer)"}, concrete=False)
        return
    ck.add_obligation(True, "API lookup probe ran")
    obs = [o for o in res[0][2:] if o["op"] == "R"]
    n = 0
    for oi, o in enumerate(obs):
        path = api.unhx(o["p"]).decode("latin-1")
        status = int(o["status"])
        n += 1
        if nfuture <= oi < nfuture + 3:
            if status == 200 or o["class"] == "handled":
                ck.violation("c17:api:deleted-session-found", {
                    "what": "GET %s with the secret of a session that ended before it ever logged in (DELETE answered 200 / its QUIT was committed) was "
                            "answered %d (%s): the deleted session is still found" % (path, status, o["class"]),
                    "cases": [line], "how_to_replay": "bin/check C17"}, concrete=True)
                break
            continue
        if "/{3}/" in path or path.endswith("/messages") and o is obs[-1]:
            continue
        hdr_empty = o["h"] in ("!", "-")
        if hdr_empty:
            continue                     # refused before the lookup (no header): 404 is right
        if status != 500 or o["class"] != "notyet":
            ck.violation("c17:api:notyet-answered-as-gone", {
                "what": "GET %s for a session id newer than anything applied was answered %d (%s); the bridge treats 404 as 'session gone' — "
                        "expected 500 'Session not yet seen'" % (path, status, o["class"]),
                "cases": [line], "how_to_replay": "bin/check C17"}, concrete=True)
            break
    last = obs[-1]
    if int(last["status"]) != 404:
        ck.violation("c17:api:deleted-not-gone", {"what": "GET messages of a deleted session answered %s %s, expected 404" % (last["status"], last["class"]),
                                                  "cases": [line]}, concrete=True)
    # ---- the lagging node
    lobs = res[1][2:]
    nl, dist, gone = 0, {}, []
    for i, want in sorted(expect.items()):
        o = lobs[i] if i < len(lobs) else {}
        if o.get("op") != "R" or "status" not in o:
            ck.violation("tie-broken:go-driver-api", {"what": "lag scenario: op %d did not produce an observation: %s" % (i, o), "cases": [lagline],
                                                      "obligation": "correspondence apidrv (C17 lookup on a lagging node)"}, concrete=False)
            break
        nl += 1
        path, status, cls = api.unhx(o["p"]).decode("latin-1"), int(o["status"]), o["class"]
        dist["%s/%s/%d" % (want, cls, status)] = dist.get("%s/%s/%d" % (want, cls, status), 0) + 1
        # classified by STATUS, the way the bridge does (robustsession.go gives the session up on ANY 404, whatever the body says):
        # an id that is committed but not applied, or newer than anything applied, must get a 5xx (retry) on every route
        if want == "lagging" and not (500 <= status <= 599):
            gone.append((i, o["m"], path, status, cls))
            continue
        if want == "dead" and status != 404:
            ck.violation("c17:api:deleted-not-gone", {"what": "%s %s for a dead id while the state machine lags answered %d %s, expected 404 'No such session'" % (o["m"], path, status, cls),
                                                      "cases": [lagline]}, concrete=True)
            break
        if want == "live" and cls != "handled":
            ck.violation("c17:api:live-session-refused-after-catch-up", {"what": "%s %s with the session's own secret after the state machine caught up answered %d %s" % (o["m"], path, status, cls),
                                                                         "cases": [lagline]}, concrete=True)
            break
        if want == "refused" and cls == "handled":
            ck.violation("c17:api:handled-without-secret", {"what": "%s %s handled with another session's secret" % (o["m"], path), "cases": [lagline]}, concrete=True)
            break
    if gone:
        i, m, path, status, cls = gone[0]
        minimal = [t for j, t in enumerate(lag) if j not in expect or j == i]
        routes = sorted(set("%s -> %d" % (g[1], g[3]) for g in gone))
        ck.violation("c17:api:live-session-reported-gone", {
            "what": "%s %s for a session whose CreateSession entry is committed to the log but not yet applied (the state machine lags behind the log) was "
                    "answered %d %s; the bridge gives a session up on any 404 — a LIVE session is reported gone; expected a 5xx 'Session not yet seen' "
                    "(after the state machine caught up the same session is served).  All offending requests of the scenario: %d (%s)"
                    % (m, path, status, cls, len(gone), ", ".join(routes)),
            "offending": [{"method": g[1], "path": g[2], "status": g[3], "class": g[4]} for g in gone],
            "cases": ["api lag " + " ".join(minimal)], "how_to_replay": "bin/check C17 (API lag scenario: ops A:close, E, M, R, A:open of harness/go/main/zz_verif_api_test.go)"},
            concrete=True)
    ck.cov["api_lag_requests"] = nl
    ck.cov["api_lag_distribution"] = dist
    ck.cov["api_lookup_requests"] = n
    ck.cov["evaluations"] = ck.cov.get("evaluations", 0) + n + nl


def run(ck, replay):
    irc_common.run_irc_check(ck, "C17", "c17", replay)
    if not replay:
        restore_lookup(ck)
        api_lookup(ck)
        # open finding `ended-link-served-once`: handler-level probe owned by props/c04.py (gm driver)
        from props import c04
        c04.gm_known_c17(ck)
