# C01 — replica determinism: proofs + 3-instance comparison + scan of map-range sites that emit output
import os, re
import vlib
from props import irc_common

MAP_EXPRS = [r"i\.sessions", r"i\.nicks", r"i\.channels", r"i\.svsholds", r"\w+\.nicks", r"\w+\.Channels", r"\w+\.invitedTo",
             r"aliases", r"seen", r"i\.Config\.\w+", r"\w+\.InterestingFor"]
# map-range loops whose body emits output, with the reason why the order cannot matter
ALLOWED_EMITTING = {
    ("scmd_quit.go", "i.sessions"): "prefix branch: returns after the first match; the match is unique (nick uniqueness, C14)",
    ("commands.go", "aliases"): "cmdServiceAlias: at most one key equals the command, returns after it",
}


def scan_range_sites():
    d = os.path.join(vlib.REPO, "internal", "ircserver")
    sites = []
    for fn in sorted(os.listdir(d)):
        if not fn.endswith(".go") or fn.endswith("_test.go"):
            continue
        src = open(os.path.join(d, fn)).read()
        for m in re.finditer(r"for\s+[^{\n]*?:?=\s*range\s+([^{\n]+?)\s*\{", src):
            expr = m.group(1).strip()
            if not any(re.fullmatch(p, expr) for p in MAP_EXPRS):
                continue
            # body by brace matching
            i, depth = m.end(), 1
            while i < len(src) and depth:
                depth += {"{": 1, "}": -1}.get(src[i], 0)
                i += 1
            body = src[m.end():i]
            emits = bool(re.search(r"\bi\.send\w*\(|\bi\.cmd\w+\(", body))
            sites.append((fn, expr, emits, src[:m.start()].count("\n") + 1, classify(fn, body, src[i:i + 2500])))
    return sites


def classify(fn, body, after):
    """why the traversal order of this map loop cannot influence output or state (one of the three classes proved
    order-independent in IrcProofs/Determinism.v / Misc.v, or a shape that has no order at all); None = unclassified"""
    app = re.findall(r"(\w+)\s*=\s*append\(\1\b", body)
    if app and all(re.search(r"sort\.(Strings|Slice|Sort|Stable)\(\s*%s\b" % re.escape(v), after) for v in set(app)):
        if re.search(r"\b(break|return|goto)\b", body):
            return None                      # collecting stops early: WHICH elements are collected depends on the order
        return "sorted"                      # C01_listings_order_independent
    if re.search(r"InterestingFor\[.*\]\s*=\s*true", body):
        return "set"                         # C01_recipients_order_independent
    if fn == "serialize.go" or re.search(r"\bresult\[\w+\]\s*=", body):
        return "copy"                        # builds a map / protobuf map message: no order
    if re.search(r"\b(break|return)\b", body) and not re.search(r"append\(", body):
        return "search"                      # existence test / unique match (C14 nick uniqueness)
    if re.search(r"deletes\s*=\s*append", body):
        return "proposals"                   # ExpireSessions: a list of proposals for raft, not output of the state machine
    if re.search(r"\bdelete\(|\]\s*=\s*", body):
        return "bulk-update"                 # C01_bulk_updates_order_independent (commuting per-key updates)
    return None


def run(ck, replay):
    sites = scan_range_sites()
    bad = [s for s in sites if s[2] and (s[0], s[1]) not in ALLOWED_EMITTING]
    unclassified = [s for s in sites if not s[2] and s[4] is None]
    classes = {}
    for s in sites:
        if not s[2]:
            classes[s[4] or "unclassified"] = classes.get(s[4] or "unclassified", 0) + 1
    ck.notes["map_range_sites"] = {"total": len(sites), "emitting": [list(s) for s in sites if s[2]],
                                   "allowed": {"%s:%s" % k: v for k, v in ALLOWED_EMITTING.items()},
                                   "classes_of_non_emitting_sites": classes, "unclassified": [list(s) for s in unclassified]}
    irc_common.run_irc_check(ck, "C01", "c01", replay)
    ck.add_obligation(not bad, "no handler emits output inside a loop over a Go map (except the %d justified sites)" % len(ALLOWED_EMITTING))
    ck.add_obligation(not unclassified, "every non-emitting loop over a Go map is of a class proved order-independent (sorted listing / recipient set / "
                                        "commuting bulk update) or has no order (search for a unique match, copy into a map)")
    if unclassified and not any(v[2] for v in ck.violations):
        ck.violation("map-range-unclassified", {"what": "a loop over a Go map in internal/ircserver fits none of the order-independent classes (IrcProofs/Determinism.v)",
                                                "sites": [list(b) for b in unclassified], "obligation": "range-site scan (C01)"}, concrete=False)
    if bad and not any(v[2] for v in ck.violations):
        ck.violation("map-range-emits", {"what": "a handler emits output inside a loop over a Go map: the order of the emitted lines depends on the map iteration order",
                                         "sites": [list(b) for b in bad], "obligation": "range-site scan (C01)"}, concrete=False)
