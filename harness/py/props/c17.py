# C17 — see DESIGN.md §4; shared IRC check logic in irc_common.py
#   + the lookup-during-restore driver: in the model `reload` (Marshal/Unmarshal) is one atomic step; FSM.Restore hands
#     the fresh IRCServer to the HTTP handlers before Unmarshal runs, so lookups race with the load.  A session that is in
#     the snapshot must be answered "not yet seen" or found, never "no such session" (C17: "a lagging follower never tells
#     a client its live session is gone").
import os
import vlib
from props import irc_common


def restore_lookup(ck):
    wd = vlib.workdir()
    outp = os.path.join(wd, "lookup.out")
    if os.path.exists(outp):
        os.remove(outp)
    rounds = 20 if ck.tier == "quick" else 300
    ov = {os.path.join(vlib.REPO, "internal/ircserver/zz_verif_lookup_test.go"): os.path.join(vlib.HGO, "ircserver/zz_verif_lookup_test.go")}
    rc, out = vlib.go_test("./internal/ircserver/", ov, "^TestVerifRestoreLookup$",
                           {"VERIF_OUT": outp, "VERIF_ROUNDS": str(rounds), "VERIF_SESSIONS": "3000"}, timeout=900)
    if rc != 0 or not os.path.exists(outp):
        ck.add_obligation(False, "lookup-during-restore driver ran")
        ck.violation("tie-broken:go-driver-lookup", {"what": "the lookup-during-restore driver did not build/run against the current tree",
                                                     "output": out[-3000:], "obligation": "correspondence (atomicity of reload)"}, concrete=False)
        return
    f = dict(x.split("=", 1) for x in open(outp).read().split()[1:])
    ck.add_obligation(True, "lookup-during-restore driver ran")
    ck.cov["restore_lookup"] = {k: f[k] for k in ("rounds", "sessions", "ok", "notyet", "nosuch")}
    ck.cov["evaluations"] = ck.cov.get("evaluations", 0) + int(f["rounds"])
    if int(f["nosuch"]) > 0:
        ck.violation("c17:nosuch-during-restore", {
            "what": "while a snapshot with %s sessions was being loaded, %s lookups of sessions contained in it answered 'No such session' (first: round:id %s); "
                    "a client told so gives its session up" % (f["sessions"], f["nosuch"], f["first"]),
            "how_to_replay": "bin/check C17 (the driver harness/go/ircserver/zz_verif_lookup_test.go is a schedule search: %s rounds of Unmarshal against 3 polling goroutines)" % f["rounds"],
            "expected": "only 'Session not yet seen' before and found after"}, concrete=True)


def api_lookup(ck):
    """the same distinction at the HTTP layer, where the bridge sees it: for a session id newer than anything this node
    has applied GET .../messages answers 500 'Session not yet seen' (the bridge retries elsewhere), never 404 (the bridge
    gives the session up); for a deleted session 404 'No such session'."""
    from props import c11 as api
    facts, _, _ = api.scan_routes()
    wiring = api.wiring_of(facts)
    ops = api.setup_ops()          # slots 0..3; slot 3 is deleted at the end of the setup
    future = ["0x7fffffffffff", "99999999999", "0xfffffffffffffff"]
    reqs = []
    for f in future:
        reqs.append(api.R("GET", "/robustirc/v1/%s/messages" % f, "a1"))
        reqs.append(api.R("GET", "/robustirc/v1/%s/messages" % f, "e"))
    reqs.append(api.R("GET", "/robustirc/v1/{3}/messages", "a3"))
    line = "api lookup " + " ".join(ops + reqs)
    res, out = api.run_go([line], wiring, "c17api", timeout=900)
    if res is None:
        ck.add_obligation(False, "API lookup probe ran")
        ck.violation("tie-broken:go-driver-api", {"what": "the API driver did not build/run against the current tree", "output": out[-3000:],
                                                  "obligation": "correspondence apidrv (C17 lookup at the HTTP layer)"}, concrete=False)
        return
    ck.add_obligation(True, "API lookup probe ran")
    obs = [o for o in res[0][2:] if o["op"] == "R"]
    n = 0
    for o in obs:
        path = api.unhx(o["p"]).decode("latin-1")
        status = int(o["status"])
        n += 1
        if "/{3}/" in path or path.endswith("/messages") and o is obs[-1]:
            continue
        hdr_empty = o["h"] in ("!", "-")
        if hdr_empty:
            continue                     # refused before the lookup (no header): 404 is right
        if status != 500 or o["class"] != "notyet":
            ck.violation("c17:api:notyet-answered-as-gone", {
                "what": "GET %s for a session id newer than anything applied was answered %d (%s); the bridge treats 404 as 'session gone' — "
                        "expected 500 'Session not yet seen'" % (path, status, o["class"]),
                "cases": [line], "how_to_replay": "bin/check C17"}, concrete=True)
            break
    last = obs[-1]
    if int(last["status"]) != 404:
        ck.violation("c17:api:deleted-not-gone", {"what": "GET messages of a deleted session answered %s %s, expected 404" % (last["status"], last["class"]),
                                                  "cases": [line]}, concrete=True)
    ck.cov["api_lookup_requests"] = n
    ck.cov["evaluations"] = ck.cov.get("evaluations", 0) + n


def run(ck, replay):
    irc_common.run_irc_check(ck, "C17", "c17", replay)
    if not replay:
        restore_lookup(ck)
        api_lookup(ck)
