(* IrcProofs/WP.v — weakest preconditions for the handler monad: "the computation does not
   panic, does not leave the model's domain, and ends in a state satisfying Q". *)
From stdpp Require Import gmap.
From Coq Require Import Strings.String Strings.Ascii ZArith NArith.
From RV Require Import Base.Text Irc.Str Irc.Parse Irc.State Irc.Monad.

Definition wp {A} (m : M A) (Q : A -> server -> rctx -> Prop) (sv : server) (r : rctx) : Prop :=
  match m sv r with
  | Ok (a, sv', r') => Q a sv' r'
  | Panic _ => False
  | Gap _ => False
  end.

Lemma wp_ret {A} (a : A) (Q : A -> server -> rctx -> Prop) sv r : Q a sv r -> wp (retM a) Q sv r.
Proof. intros H; exact H. Qed.

Lemma wp_bind {A B} (m : M A) (f : A -> M B) (Q : B -> server -> rctx -> Prop) sv r :
  wp m (fun a sv' r' => wp (f a) Q sv' r') sv r -> wp (bindM m f) Q sv r.
Proof.
  unfold wp, bindM. destruct (m sv r) as [[[a sv'] r']|s|s]; [|tauto|tauto]. intros H; exact H.
Qed.

Lemma wp_bind_inv {A B} (m : M A) (f : A -> M B) (Q : B -> server -> rctx -> Prop) sv r :
  wp (bindM m f) Q sv r -> wp m (fun a sv' r' => wp (f a) Q sv' r') sv r.
Proof.
  unfold wp, bindM. destruct (m sv r) as [[[a sv'] r']|s|s]; [|tauto|tauto]. intros H; exact H.
Qed.

Lemma wp_mono {A} (m : M A) (Q Q' : A -> server -> rctx -> Prop) sv r :
  wp m Q sv r -> (forall a sv' r', Q a sv' r' -> Q' a sv' r') -> wp m Q' sv r.
Proof. unfold wp. destruct (m sv r) as [[[a sv'] r']|s|s]; [|tauto|tauto]. intros H HQ; apply HQ, H. Qed.

Lemma wp_getS (Q : server -> server -> rctx -> Prop) sv r : Q sv sv r -> wp getS Q sv r.
Proof. intros H; exact H. Qed.
Lemma wp_putS sv0 (Q : unit -> server -> rctx -> Prop) sv r : Q tt sv0 r -> wp (putS sv0) Q sv r.
Proof. intros H; exact H. Qed.
Lemma wp_modS f (Q : unit -> server -> rctx -> Prop) sv r : Q tt (f sv) r -> wp (modS f) Q sv r.
Proof. intros H; exact H. Qed.
Lemma wp_replyCount (Q : nat -> server -> rctx -> Prop) sv r : Q (List.length (r_out r)) sv r -> wp replyCount Q sv r.
Proof. intros H; exact H. Qed.
Lemma wp_emit rc m (Q : unit -> server -> rctx -> Prop) sv r :
  (forall r', r_msgid r' = r_msgid r -> Q tt sv r') -> wp (emit rc m) Q sv r.
Proof. intros H. unfold wp, emit. apply H. reflexivity. Qed.
Lemma wp_whenM b m (Q : unit -> server -> rctx -> Prop) sv r :
  (b = true -> wp m Q sv r) -> (b = false -> Q tt sv r) -> wp (whenM b m) Q sv r.
Proof. destruct b; simpl; intros H1 H2; [apply H1|apply wp_ret, H2]; reflexivity. Qed.
Lemma wp_liftR {A} (x : res A) (Q : A -> server -> rctx -> Prop) sv r a : x = Ok a -> Q a sv r -> wp (liftR x) Q sv r.
Proof. intros -> H. exact H. Qed.
Lemma wp_cfgM (Q : config -> server -> rctx -> Prop) sv r : Q (sv_config sv) sv r -> wp cfgM Q sv r.
Proof. intros H; exact H. Qed.
Lemma wp_chanM lc (Q : option chan -> server -> rctx -> Prop) sv r : Q (sv_channels sv !! lc) sv r -> wp (chanM lc) Q sv r.
Proof. intros H; exact H. Qed.
Lemma wp_nickM lc (Q : option skey -> server -> rctx -> Prop) sv r : Q (sv_nicks sv !! lc) sv r -> wp (nickM lc) Q sv r.
Proof. intros H; exact H. Qed.
Lemma wp_sessM k (Q : session -> server -> rctx -> Prop) sv r s : sv_sessions sv !! k = Some s -> Q s sv r -> wp (sessM k) Q sv r.
Proof. intros Hs H. unfold wp, sessM, bindM, getS. rewrite Hs. exact H. Qed.
Lemma wp_updSess k f (Q : unit -> server -> rctx -> Prop) sv r :
  Q tt (set_sessions (fun m => match m !! k with Some s => <[k := f s]> m | None => m end) sv) r ->
  wp (updSess k f) Q sv r.
Proof. intros H; exact H. Qed.
Lemma wp_updChan lc f (Q : unit -> server -> rctx -> Prop) sv r :
  Q tt (set_channels (fun m => match m !! lc with Some c => <[lc := f c]> m | None => m end) sv) r ->
  wp (updChan lc f) Q sv r.
Proof. intros H; exact H. Qed.

(* loops: an invariant over the state that every iteration re-establishes *)
Lemma wp_forM {A} (l : list A) (f : A -> M unit) (I : server -> rctx -> Prop) sv r :
  I sv r ->
  (forall x sv r, In x l -> I sv r -> wp (f x) (fun _ sv' r' => I sv' r') sv r) ->
  wp (forM l f) (fun _ sv' r' => I sv' r') sv r.
Proof.
  revert sv r. induction l as [|x l IH]; intros sv r HI Hf.
  - exact HI.
  - cbn [forM]. apply wp_bind. eapply wp_mono.
    + apply Hf; [now left|exact HI].
    + intros u sv' r' HI'. apply IH; [exact HI'|]. intros y sv0 r0 Hy. apply Hf. now right.
Qed.
