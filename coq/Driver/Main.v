(* Driver/Main.v — the single entry point of the executable models.  [run input] maps a
   case file (one case per line, first field names the model) to one result line per
   case.  Extracted to OCaml (Extract.v) and also evaluated with vm_compute on samples. *)
From RV Require Import Base.Text.
From RV Require Tsg.SafeguardDriver.
From RV Require Store.StoreDriver.
From RV Require Out.OutDriver.
From RV Require Irc.IrcDriver.
From RV Require Api.ApiDriver.
From RV Require Fsm.FsmDriver.
Local Open Scope string_scope.

Definition run_line (l : string) : string :=
  let f := fields l in
  let k := nth_field f 0 in
  if String.eqb k "tsg" then Tsg.SafeguardDriver.run_line f
  else if String.eqb k "codec" then Store.StoreDriver.run_line f
  else if String.eqb k "store" then Store.StoreDriver.run_line f
  else if String.eqb k "out" then Out.OutDriver.run_line f
  else if String.eqb k "outc" then Out.OutDriver.run_line f
  else if String.eqb k "outs" then Out.OutDriver.run_line f
  else if String.eqb k "res" then Out.OutDriver.run_line f
  else if String.eqb k "irc" then Irc.IrcDriver.run_line f
  else if String.eqb k "irctable" then Irc.IrcDriver.run_line f
  else if String.eqb k "ircline" then Irc.IrcDriver.run_line f
  else if String.eqb k "api" then Api.ApiDriver.run_line f
  else if String.eqb k "post" then Api.ApiDriver.run_line f
  else if String.eqb k "cfg" then Api.ApiDriver.run_line f
  else if String.eqb k "uint" then Api.ApiDriver.run_line f
  else if String.eqb k "fsm" then Fsm.FsmDriver.run_line f
  else "unknown-case-kind".

Definition run (input : string) : string :=
  sconcat (map (fun l => run_line l ++ String "010"%char EmptyString) (lines input)).
