# C09 — LevelDBStore honours raft's LogStore/StableStore: proof obligations + correspondence of
# M-STORE (coq/Store/KV.v) with a real LevelDBStore on random operation programs (both encodings,
# close/reopen, ConvertToProto) + a reference monitor (plain python dicts, independent of the model).
import json, os, re
import vlib
from props import c18
from props.c18 import U64, S_INDEX, hx, unhx

ZERO_TIME = (-62135596800, 0)
BILLION = 1000000000


# ------------------------------------------------------------------ independent reference encoder (monitor side)
def _tag(num, wt):
    return c18.varint(num << 3 | wt)


def py_encode_id(i, r):
    out = b""
    if i:
        out += _tag(1, 1) + i.to_bytes(8, "little")
    if r:
        out += _tag(2, 1) + r.to_bytes(8, "little")
    return out


def py_encode_msg(m):
    """proto3 encoding of RobustMessage written from types.proto, used by the monitor to know what a
    converted entry's data may look like"""
    def sub(num, b):
        return _tag(num, 2) + c18.varint(len(b)) + b
    out = sub(1, py_encode_id(m["idid"], m["idreply"])) + sub(2, py_encode_id(m["sid"], m["sreply"]))
    if m["type"]:
        out += _tag(3, 0) + c18.varint(m["type"] % U64)
    if m["data"]:
        out += sub(4, m["data"])
    if m["nano"]:
        out += _tag(5, 0) + c18.varint(m["nano"] % U64)
    for s in m["servers"]:
        out += sub(6, s)
    if m["master"]:
        out += sub(7, m["master"])
    if m["cmid"]:
        out += _tag(8, 0) + c18.varint(m["cmid"])
    if m["rev"]:
        out += _tag(9, 0) + c18.varint(m["rev"])
    if m["remote"]:
        out += sub(10, m["remote"])
    return b"p" + out


# ------------------------------------------------------------------ generators
def idx_pool(rng, present=None):
    k = rng.random()
    if present and k < 0.45:
        return rng.choice(sorted(present))
    if k < 0.65:
        return rng.randint(1, 12)
    if k < 0.85:   # around the bytes of "stablestore-": "stablest" = S_INDEX sorts before, S_INDEX+1 after every stable key
        return rng.choice([S_INDEX - 1, S_INDEX, S_INDEX + 1, S_INDEX + 2, 0x737461626c650000, 0x7374000000000000, 0x7400000000000000,
                           0x7300000000000000, 0x737461626c6573ff])
    return rng.choice([0, 1, 255, 256, 65535, 65536, (1 << 32) - 1, 1 << 32, (1 << 63) - 1, 1 << 63, U64 - 3, U64 - 2, U64 - 1])


def time_pool(rng, json_mode, far=True):
    k = rng.random()
    if k < 0.3:
        return ZERO_TIME
    if k < 0.5:
        return (rng.choice([0, 1, -1, 1432323893, 1758800000, 1 << 31, 253402300799 - 86400 * 2]), rng.choice([0, 1, 999999999, 123456789]))
    if k < 0.8 or not far:
        return (rng.randint(-2000000000, 4000000000), rng.randint(0, BILLION - 1))
    if json_mode:   # far outside years 0..9999: json.Marshal(raft.Log) fails
        return (rng.choice([400000000000, -100000000000]), rng.randint(0, BILLION - 1))
    return (rng.choice([(1 << 63) - 1, -(1 << 63), 1 << 62, -(1 << 62), 400000000000, -100000000000]), rng.choice([0, 999999999]))


def gen_entry(rng, idx, json_mode, garbage_ok=False, far=True):
    t = rng.choice([0, 0, 0, 1, 2, 3, 4, 5, 5, 255])
    sec, nsec = time_pool(rng, json_mode, far)
    e = {"idx": idx, "term": c18.u64_pool(rng), "type": t, "ext": bytes(rng.randint(0, 255) for _ in range(rng.choice([0, 0, 1, 8, 20]))).hex(),
         "sec": sec, "nsec": nsec, "msg": None, "menc": None}
    if t == 0:
        if garbage_ok and rng.random() < 0.5:
            e["data"] = rng.choice([b"", b"p", b"garbage", b"{\"Id\":", b"p\xff\xff"]).hex()
            e["menc"] = "garbage"
        else:
            m = c18.gen_msg(rng, invalid_ok=False, types=list(range(9)))
            e["msg"] = c18.msg_to_jsonable(m)
            if rng.random() < 0.5:
                e["menc"], e["data"] = "p", py_encode_msg(m).hex()
            else:
                e["menc"], e["data"] = "j", c18.json_text(m).hex()
    else:
        e["data"] = rng.choice([b"", b"p", b"x", b"peers", bytes(rng.randint(0, 255) for _ in range(rng.randint(1, 40)))]).hex()
    return e


KEY_POOL = [b"CurrentTerm", b"LastVoteTerm", b"LastVoteCand", b"", b"\x00", b"\x00\x00\x00\x00\x00\x00\x00\x01", b"-", b"\xff",
            "kü".encode("utf-8"), b"stablestore-", b"CurrentTerm\x00"]


def gen_program(rng, garbage=False, maxops=22):
    mode = "j" if garbage else rng.choice(["j", "p"])
    prog = {"offset": rng.choice([0, 0, 0, 1, 1 << 40, U64 - 5]), "mode": mode, "ops": [], "in_domain": not garbage}
    present, keys = set(), set()
    kills = rng.random() < 0.15      # child processes are slow: a minority of the programs
    for _ in range(rng.randint(4, maxops)):
        k = rng.random()
        if k < 0.24:
            n = rng.choice([1, 1, 1, 2, 3])
            es = []
            for _ in range(n):
                i = idx_pool(rng, present if rng.random() < 0.3 else None)
                es.append(gen_entry(rng, i, mode == "j", garbage_ok=garbage))
            prog["ops"].append({"op": "sl", "entries": es})
            far = any(e["sec"] in (400000000000, -100000000000) for e in es)
            if not (mode == "j" and far):
                present.update(e["idx"] for e in es)
        elif k < 0.29:
            i = idx_pool(rng)
            sec, nsec = time_pool(rng, False)
            ts = None if rng.random() < 0.3 else sec
            if ts is not None and rng.random() < 0.3:
                nsec = rng.choice([-1, BILLION, 2 * BILLION + 5, -(1 << 31), (1 << 31) - 1])   # denormalised nanos
            prog["ops"].append({"op": "slp", "idx": i, "term": c18.u64_pool(rng), "type": rng.choice([1, 2, 4, 5, 255, 256 + 3, -1]),
                                "data": bytes(rng.randint(0, 255) for _ in range(rng.randint(0, 12))).hex(),
                                "ext": rng.choice(["", "00", "ff00"]), "sec": ts, "nsec": nsec})
            present.add(i)
        elif k < 0.44:
            prog["ops"].append({"op": rng.choice(["get", "get", "get", "msg", "raw", "fb"]), "i": idx_pool(rng, present)})
        elif k < 0.52:
            prog["ops"].append({"op": rng.choice(["first", "last"])})
        elif k < 0.64:
            a, b = idx_pool(rng, present), idx_pool(rng, present)
            kk = rng.random()
            if kk < 0.5:
                lo, hi = min(a, b), max(a, b)
            elif kk < 0.7:
                lo, hi = a, a
            elif kk < 0.85:
                lo, hi = rng.choice([0, 1]), rng.choice([U64 - 2, 1 << 63, S_INDEX])
            else:
                lo, hi = a, b      # possibly min > max
            hi = min(hi, U64 - 2)  # domain: max < 2^64 - 1
            if rng.random() < 0.03:
                hi = U64 - 1        # outside the domain (max+1 wraps: nothing is deleted); compared with the model only
            prog["ops"].append({"op": "dr", "min": lo, "max": hi})
        elif k < 0.72:
            key = rng.choice(KEY_POOL)
            keys.add(key)
            prog["ops"].append({"op": "set", "k": key.hex(), "v": rng.choice([b"", b"v", b"abc", bytes(8), b"12345678rest", bytes(range(40))]).hex()})
        elif k < 0.78:
            key = rng.choice(KEY_POOL)
            keys.add(key)
            prog["ops"].append({"op": "setu", "k": key.hex(), "n": c18.u64_pool(rng)})
        elif k < 0.86:
            prog["ops"].append({"op": rng.choice(["getk", "getu"]), "k": rng.choice(sorted(keys) if keys and rng.random() < 0.8 else KEY_POOL).hex()})
        elif k < 0.95:
            # a panic of ConvertToProto inside NewLevelDBStore leaks the open database handle (the
            # directory stays locked), so programs with undecodable command data only reopen in JSON
            # mode and exercise the panic through the explicit ConvertToProto call
            mode = "j" if garbage else rng.choice(["j", "p"])
            # kill: the process is SIGKILLed with the database open and a new process reopens it
            prog["ops"].append({"op": "kill" if kills and rng.random() < 0.5 else "reopen", "mode": mode})
        else:
            prog["ops"].append({"op": "convert"})
    # finish with a full read-out so that every effect is observed
    for i in sorted(present)[:12]:
        prog["ops"].append({"op": "get", "i": i})
        if rng.random() < 0.4:
            prog["ops"].append({"op": "msg", "i": i})
    for key in sorted(keys):
        prog["ops"].append({"op": rng.choice(["getk", "getu"]), "k": key.hex()})
    prog["ops"] += [{"op": "first"}, {"op": "last"}]
    return prog


def gen_log_program(rng):
    """C18: entries of every type written by a protobuf-mode store, raw bytes and every reader reachable
    from package raftstore; a second half through JSON + conversion"""
    mode = rng.choice(["p", "p", "j"])
    prog = {"offset": rng.choice([0, 7]), "mode": mode, "ops": [], "in_domain": True}
    idxs = []
    for _ in range(rng.randint(1, 5)):
        i = idx_pool(rng)
        idxs.append(i)
        prog["ops"].append({"op": "sl", "entries": [gen_entry(rng, i, mode == "j", far=(mode == "p"))]})
    for i in idxs:
        prog["ops"] += [{"op": "raw", "i": i}, {"op": "get", "i": i}, {"op": "fb", "i": i}, {"op": "msg", "i": i}]
    if mode == "j":
        prog["ops"].append({"op": "reopen", "mode": "p"})
        for i in idxs:
            prog["ops"] += [{"op": "raw", "i": i}, {"op": "get", "i": i}, {"op": "fb", "i": i}, {"op": "msg", "i": i}]
    return prog


def gen_putraw_programs(rng, results):
    """take the model's raw protobuf values out of earlier results and feed them back as raw database
    values (decode direction: Go reads model-produced bytes)"""
    progs = []
    for r in results:
        raws = re.findall(r"raw=(70[0-9a-f]*)", r["model"])
        if not raws:
            continue
        ops = []
        for n, v in enumerate(raws[:4]):
            i = idx_pool(rng)
            b = bytes.fromhex(v)
            if rng.random() < 0.3:
                b = c18.mutate(rng, b) if rng.random() < 0.5 else b[:rng.randint(1, len(b))]
            ops += [{"op": "putraw", "i": i, "v": b.hex()}, {"op": "get", "i": i}, {"op": "fb", "i": i}, {"op": "raw", "i": i}]
        progs.append({"offset": 0, "mode": "p", "ops": ops, "in_domain": False})
    return progs


# ------------------------------------------------------------------ case lines
def entry_tok(e):
    return ",".join([str(e["idx"]), str(e["term"]), str(e["type"]), e["data"] or "-", e["ext"] or "-", str(e["sec"]), str(e["nsec"])])


def op_tok(o):
    k = o["op"]
    if k in ("first", "last", "convert"):
        return k
    if k in ("get", "msg", "raw", "fb"):
        return "%s:%d" % (k, o["i"])
    if k == "sl":
        return "sl:" + "|".join(entry_tok(e) for e in o["entries"])
    if k == "slp":
        return "slp:" + ",".join([str(o["idx"]), str(o["term"]), str(o["type"]), o["data"] or "-", o["ext"] or "-",
                                  "none" if o["sec"] is None else str(o["sec"]), str(o["nsec"])])
    if k == "dr":
        return "dr:%d,%d" % (o["min"], o["max"])
    if k == "set":
        return "set:%s,%s" % (o["k"] or "-", o["v"] or "-")
    if k == "setu":
        return "setu:%s,%d" % (o["k"] or "-", o["n"])
    if k in ("getk", "getu"):
        return "%s:%s" % (k, o["k"] or "-")
    if k in ("reopen", "kill"):
        return k + ":" + o["mode"]
    if k == "putraw":
        return "putraw:%d,%s" % (o["i"], o["v"] or "-")
    raise ValueError(k)


def prog_line(p, variant):
    tbl = []
    for o in p["ops"]:
        if o["op"] == "sl":
            for e in o["entries"]:
                if e.get("menc") == "j":
                    tbl.append(e["data"] + "~" + ",".join(c18.msg_tokens(c18.msg_from_jsonable(e["msg"]))))
    return " ".join(["store", variant, str(p["offset"]), p["mode"], ";".join(sorted(set(tbl))) or "-"] + [op_tok(o) for o in p["ops"]])


# ------------------------------------------------------------------ the reference: two python dicts
def norm_time(sec, nsec):
    s = sec + nsec // BILLION
    s = (s + (1 << 63)) % U64 - (1 << 63)
    return s, nsec % BILLION


def show_entry(e):
    return ",".join([str(e["idx"]), str(e["term"]), str(e["type"]), e["data"] or "-", e["ext"] or "-", str(e["sec"]), str(e["nsec"])])


def reference(p, outs):
    """walk the program with a dict for the log and a dict for the stable store and compare with what
    the implementation answered.  Returns [(signature, text)]."""
    log, stable, mode = {}, {}, p["mode"]
    fails = []
    trusted = True        # False once the program left the domain (garbage command data converted, raw puts)
    wiped_after = {}      # stable key -> True if a DeleteRange spanning "stablest" ran after its last write
    off = p["offset"]

    def bad(sig, text):
        if trusted:
            fails.append((sig, text))

    def conv_mark():
        for e in log.values():
            if e["type"] == 0:
                e["conv"] = True

    for n, (o, got) in enumerate(zip(p["ops"], outs)):
        k = o["op"]
        where = "op %d (%s)" % (n, op_tok(o)[:80])
        if k == "sl":
            far = any(not (-62167219200 + 86400 <= e["sec"] < 253402300800 - 86400) for e in o["entries"])
            if mode == "j" and far:
                if got not in ("err", "ok"):
                    bad("store-monitor:storelogs", where + ": got " + got)
                if got == "ok":   # near the year boundaries the reference does not predict; resynchronise
                    for e in o["entries"]:
                        log[e["idx"]] = dict(e, conv=False, unsure=True)
                continue
            if got != "ok":
                bad("store-monitor:storelogs", where + ": StoreLogs failed: " + got)
                continue
            for e in o["entries"]:
                log[e["idx"]] = dict(e, conv=False)
        elif k == "slp":
            if got != "ok":
                bad("store-monitor:storelogproto", where + ": " + got)
                continue
            sec, nsec = (0, 0) if o["sec"] is None else norm_time(o["sec"], o["nsec"])
            log[o["idx"]] = {"idx": o["idx"], "term": o["term"], "type": o["type"] % 256, "data": o["data"], "ext": o["ext"],
                             "sec": sec, "nsec": nsec, "msg": None, "menc": None, "conv": False}
        elif k == "putraw":
            log[o["i"]] = {"unsure": True, "type": -1}
        elif k in ("get", "fb", "msg", "raw"):
            e = log.get(o["i"])
            if e is not None and e.get("unsure"):
                continue
            absent = {"get": "notfound", "fb": "fb=absent", "msg": "msg=notfound", "raw": "raw=absent"}[k]
            if e is None:
                if got != absent:
                    bad("store-monitor:found-a-missing-entry", where + ": expected %s, got %s" % (absent, got[:200]))
                continue
            if got == absent:
                bad("store-monitor:stored-entry-missing", where + ": entry %d was stored and not deleted, got %s" % (o["i"], got))
                continue
            if k == "raw":
                continue
            if k == "msg":
                if e["type"] != 0:
                    want = "msg=-"
                elif e.get("msg") is None:
                    continue
                else:
                    want = "msg=" + c18.show_msg(c18.default_id(c18.msg_from_jsonable(e["msg"]), (off + e["idx"]) % U64))
                if got != want:
                    bad("store-monitor:message-changed", where + ": expected %s, got %s" % (want[:300], got[:300]))
                continue
            pre = "log=" if k == "get" else "fb="
            want = pre + show_entry(e)
            if got == want:
                continue
            ok2 = False
            if e.get("conv") and e["type"] == 0 and e.get("msg") is not None:   # converted: data may be the re-encoded message
                m = c18.default_id(c18.msg_from_jsonable(e["msg"]), (off + e["idx"]) % U64)
                ok2 = got == pre + show_entry(dict(e, data=py_encode_msg(m).hex()))
            if not ok2:
                bad("store-monitor:entry-changed", where + ": expected %s, got %s" % (want[:300], got[:300]))
        elif k in ("first", "last"):
            want = "idx=%d" % ((min(log) if k == "first" else max(log)) if log else 0)
            if got != want:
                bad("store-monitor:" + k + "index", where + ": expected %s, got %s" % (want, got))
        elif k == "dr":
            if o["max"] >= U64 - 1:
                trusted = False     # outside the stated domain; the monitor stops judging this program
            if got != "ok":
                bad("store-monitor:deleterange", where + ": " + got)
            for i in [i for i in log if o["min"] <= i <= o["max"]]:
                del log[i]
            if o["min"] <= S_INDEX <= o["max"]:
                for key in stable:
                    wiped_after[key] = True
        elif k in ("set", "setu"):
            key = bytes.fromhex(o["k"])
            stable[key] = bytes.fromhex(o["v"]) if k == "set" else o["n"].to_bytes(8, "big")
            wiped_after[key] = False
            if got != "ok":
                bad("store-monitor:set", where + ": " + got)
        elif k in ("getk", "getu"):
            key = bytes.fromhex(o["k"])
            v = stable.get(key)
            if k == "getk":
                want = "bytes=nil" if v is None else "bytes=" + hx(v)
            else:
                want = "u64=0" if v is None else ("panic" if len(v) < 8 else "u64=%d" % int.from_bytes(v[:8], "big"))
            if got != want:
                if v is not None and wiped_after.get(key) and got in ("bytes=nil", "u64=0"):
                    bad("deleterange-deletes-stable-keys", where + ": the value written for this key is gone after a DeleteRange "
                        "whose range contains index 0x737461626c657374; expected %s, got %s" % (want, got))
                    del stable[key]   # resynchronise so that one defect is reported once
                else:
                    bad("store-monitor:stable-read", where + ": expected %s, got %s" % (want, got))
        elif k in ("reopen", "kill", "convert"):
            if k in ("reopen", "kill"):
                mode = o["mode"]
            if k == "convert" or o["mode"] == "p":
                if any(e.get("menc") == "garbage" for e in log.values()):
                    trusted = False
                conv_mark()
                if got != "ok":
                    bad("store-monitor:convert", where + ": " + got)
            elif got != "ok":
                bad("store-monitor:reopen", where + ": " + got)
    return fails


def run_programs(ck, progs, tag, variant=None):
    """run programs on the real store and on the model; returns per program
    {line, impl, model, monitor: [(sig, text)], entries} or None (tie broken, violation recorded)"""
    if variant is None:
        variant = getattr(ck, "_c09_variant", None) or probe_variant(ck)
        if variant is None:
            return None
    lines = [prog_line(p, variant) for p in progs]
    g, gout = c18.go_run("store", lines, tag)
    if g is None:
        ck.violation("tie-broken:go-driver", {"what": "Go store driver did not build/run against the current tree",
                                              "output": gout[-3000:], "obligation": "correspondence storedrv (internal/raftstore)"},
                     concrete=False)
        return None
    ml = vlib.run_model("\n".join(lines) + "\n")
    res = []
    for i, p in enumerate(progs):
        gi = g[i] if i < len(g) else "<missing>"
        outs = gi.split(" ")[1:]
        mon = reference(p, outs) if len(outs) == len(p["ops"]) else [("store-monitor:driver-output", "driver printed %d observations for %d operations" % (len(outs), len(p["ops"])))]
        ents = [e for o in p["ops"] if o["op"] == "sl" for e in o["entries"]]
        res.append({"line": lines[i], "impl": gi, "model": ml[i] if i < len(ml) else "<missing>", "monitor": mon, "entries": ents})
    return res


WITNESS = {"offset": 0, "mode": "p", "in_domain": True,
           "ops": [{"op": "set", "k": b"CurrentTerm".hex(), "v": b"abc".hex()}, {"op": "setu", "k": b"LastVoteTerm".hex(), "n": 7},
                   {"op": "dr", "min": S_INDEX, "max": S_INDEX},
                   {"op": "getk", "k": b"CurrentTerm".hex()}, {"op": "getu", "k": b"LastVoteTerm".hex()}]}


def probe_variant(ck):
    """which DeleteRange does the tree implement?  'r' (stable keys survive) or 'p' (pinned: they are deleted)"""
    g, gout = c18.go_run("store", [prog_line(WITNESS, "r")], "c09probe")
    if g is None:
        ck.violation("tie-broken:go-driver", {"what": "Go store driver did not build/run against the current tree",
                                              "output": gout[-3000:], "obligation": "correspondence storedrv (internal/raftstore)"},
                     concrete=False)
        return None
    v = "r" if g[0].endswith("bytes=616263 u64=7") else "p"
    ck._c09_variant = v
    ck._c09_probe_out = g[0]
    return v


# ------------------------------------------------------------------ shrinking (delta debugging over operations)
def shrink_program(p, fails):
    ops = list(p["ops"])
    n = 2
    while len(ops) >= 2:
        chunk = max(1, len(ops) // n)
        reduced = False
        for s in range(0, len(ops), chunk):
            cand = ops[:s] + ops[s + chunk:]
            if cand and fails(dict(p, ops=cand)):
                ops, reduced = cand, True
                n = max(n - 1, 2)
                break
        if not reduced:
            if chunk == 1:
                break
            n = min(n * 2, len(ops))
    return dict(p, ops=ops)


# ------------------------------------------------------------------ C18 helper: decoders inlined in package main
def gen_reader_cases(rng, n):
    """cases for harness/go/main/zz_verif_readers_test.go:  readers <offset> {<L>}*  with L = idx,term,0,datahex,exthex,sec,nsec.
    Old entries (CreateSession, old UnixNano) are folded by the Snapshot loop, recent ones survive into the snapshot."""
    out = []
    for _ in range(n):
        off = rng.choice([0, 0, 5])
        idx = rng.randint(1, 4)
        ents = []
        now = 1758800000 * BILLION
        cnt = rng.randint(3, 6)
        for j in range(cnt):
            old = j < cnt - 1 and (j < 2 or (rng.random() < 0.3 and not any(not e["old"] for e in ents)))
            if old:
                m = {"idid": rng.choice([0, 0, idx + 1000]), "idreply": 0, "sid": 0, "sreply": 0, "type": 0,
                     "data": bytes(rng.choice(b"0123456789abcdef") for _ in range(64)), "nano": rng.choice([0, 1000 + j]), "servers": [],
                     "master": b"", "cmid": 0, "rev": 0, "remote": b""}
            else:
                m = {"idid": rng.choice([0, idx + 5000]), "idreply": 0, "sid": rng.choice([999001, 999002, 1 << 63]), "sreply": 0,   # sessions that never exist: no IRC side effects
                     "type": 2, "data": rng.choice([b"NICK n%d" % j, b"PRIVMSG #x :h\xc3\xbc", b"JOIN #c"]), "nano": "recent",
                     "servers": [], "master": b"", "cmid": rng.randint(1, 1 << 40), "rev": 0, "remote": rng.choice([b"", b"10.0.0.1:1"])}
            ents.append({"idx": idx, "term": rng.randint(1, 9), "ext": rng.choice(["", "ab"]), "sec": rng.choice([0, 1758800000]),
                         "nsec": rng.choice([0, 5]), "old": old, "m": m})
            idx += rng.choice([1, 1, 2])
        out.append({"offset": off, "entries": ents})
    for c in out:
        toks, mtoks = [], []
        for e in c["entries"]:
            m = dict(e["m"])
            recent = m["nano"] == "recent"
            m["nano"] = 0
            # the Go driver substitutes a current UnixNano for the marker `recent`
            toks.append(",".join([str(e["idx"]), str(e["term"]), "old" if e["old"] else "recent", e["ext"] or "-", str(e["sec"]),
                                  str(e["nsec"])] + c18.msg_tokens(m)))
        c["line"] = " ".join(["readers", str(c["offset"])] + toks)
        c["model_line"] = "codec readers 0"
    return out


def check_readers(case, gline, mline):
    """the Go driver reports, per entry, what each reader made of the stored value; all must agree with what was
    written.  Returns [(sig, text, concrete)]"""
    res = []
    if not gline.startswith("readers "):
        return [("readers-driver", "unexpected driver output: " + gline[:300], False)]
    for part in gline[len("readers "):].split(" | "):
        if part.startswith("FAIL"):
            res.append(("readers-disagree", part[:600], True))
    return res


# ------------------------------------------------------------------ the check
def run(ck, replay):
    ck.cov["trusted_base"] += [
        "goleveldb as an ordered durable byte-keyed map (iterators in bytewise key order, Range [start,limit), atomic batches); closing and reopening returns the same map",
        "modelled, not verified: encoding/binary big-endian keys, encoding/json for raft.Log (abstract in Coq: round-trip + never 'p' + never empty), protobuf-go wire behaviour (C18)",
        "the python reference store (two dicts) used as monitor; the python RobustMessage encoder used only to recognise converted entries"]
    ck.assumptions += ["indexes < 2^64 and DeleteRange max < 2^64-1 (max+1 wraps otherwise; raft never produces it)",
                       "LogCommand entries carry an encoded robust.Message (ConvertToProto panics on anything else)",
                       "JSON mode: append times within years 0..9999 (json.Marshal(time.Time) refuses others: StoreLogs returns the error)",
                       "LevelDB durability: close/reopen and SIGKILL/reopen return the same map (exercised with child processes; power loss is not)"]
    ok = ck.proof_obligations()
    if not getattr(ck, "model_ok", False):
        ck.violation("tie-broken:model", {"what": "model driver could not be built", "output": ck.model_out[-3000:],
                                          "obligation": "extraction of Driver/Main.v"}, concrete=False)
        return
    rng = ck.rng
    quick = ck.tier == "quick"
    variant = probe_variant(ck)
    if variant is None:
        return
    ck.notes["deleterange_variant_of_tree"] = {"r": "repaired (stablestore- keys survive DeleteRange)",
                                               "p": "pinned (DeleteRange deletes every stablestore- key when min <= 0x737461626c657374 <= max)"}[variant]
    ck.add_obligation(variant == "r", "tree implements the DeleteRange variant for which C09_refinement/C09_convert are proved without exception (Repaired); otherwise only C09_partial applies and C09_refuted's witness is live")

    progs = []
    if replay:
        rp = json.load(open(replay))
        progs = [c["program"] if "program" in c else c for c in rp.get("cases", [])]
    else:
        cdir = os.path.join(vlib.ROOT, "corpus", "C09")
        if os.path.isdir(cdir):
            for fn in sorted(os.listdir(cdir)):
                if fn.endswith(".json"):
                    progs += [c["program"] for c in json.load(open(os.path.join(cdir, fn))).get("cases", [])]
        n = 260 if quick else 6000
        for i in range(n):
            progs.append(gen_program(rng, garbage=(rng.random() < 0.04)))
        for i in range(3 if quick else 40):    # long JSON logs: the 100-entry batches of ConvertToProto
            p = {"offset": 0, "mode": "j", "ops": [], "in_domain": True}
            base = rng.choice([1, S_INDEX - 60])
            for j in range(0, rng.choice([101, 102, 150, 230]), 3):
                p["ops"].append({"op": "sl", "entries": [gen_entry(rng, base + j + t, True, far=False) for t in range(3)]})
            p["ops"] += [{"op": "set", "k": b"CurrentTerm".hex(), "v": "01"}, {"op": "reopen", "mode": "p"}]
            p["ops"] += [{"op": rng.choice(["raw", "get", "msg"]), "i": base + rng.randint(0, 240)} for _ in range(30)]
            p["ops"] += [{"op": "first"}, {"op": "last"}, {"op": "getk", "k": b"CurrentTerm".hex()}]
            progs.append(p)
    res = run_programs(ck, progs, "c09", variant)
    if res is None:
        return
    if not quick:
        pick = [r for r in res if len(r["line"]) < 2500][:40]
        vm = c18.vm_chunks([r["line"] for r in pick])
        ck.add_obligation(vm == [r["model"] for r in pick], "extracted model agrees with vm_compute on %d store programs" % len(pick))

    dist = {"ops": {}, "entry_types": {}, "index_class": {}, "encodings": {"json_store": 0, "proto_store": 0}, "reopen": 0, "convert": 0,
            "entry_data": {}, "observations": {}}
    nontriv, mism, monfail = set(), [], []
    for p, r in zip(progs, res):
        dist["encodings"]["json_store" if p["mode"] == "j" else "proto_store"] += 1
        for o in p["ops"]:
            dist["ops"][o["op"]] = dist["ops"].get(o["op"], 0) + 1
            if o["op"] == "reopen":
                dist["reopen"] += 1
            if o["op"] == "kill":
                dist["kill9_reopen"] = dist.get("kill9_reopen", 0) + 1
            if o["op"] == "convert":
                dist["convert"] += 1
            if o["op"] == "sl":
                for e in o["entries"]:
                    dist["entry_types"][str(e["type"])] = dist["entry_types"].get(str(e["type"]), 0) + 1
                    ic = ("small" if e["idx"] < 1000 else "near-stablestore" if abs(e["idx"] - S_INDEX) < (1 << 40) else "huge")
                    dist["index_class"][ic] = dist["index_class"].get(ic, 0) + 1
                    dk = e.get("menc") or "bytes"
                    dist["entry_data"][dk] = dist["entry_data"].get(dk, 0) + 1
        for t in r["impl"].split(" ")[1:]:
            kk = t.split("=")[0]
            dist["observations"][kk] = dist["observations"].get(kk, 0) + 1
        if "log=" in r["impl"] or "bytes=" in r["impl"]:
            nontriv.add(r["line"])
        if r["impl"] != r["model"]:
            mism.append((p, r))
        for sig, what in r["monitor"]:
            monfail.append((sig, what, p))
    ck.cov["evaluations"] = len(progs)
    ck.cov["distinct_nontrivial"] = len(nontriv)
    ck.cov["disagreements_checked"] = len(progs)
    ck.cov["traces_validated_against_impl"] = len(progs)
    ck.cov["rule"] = ("random operation programs (4-22 ops + full read-out) over small indexes, indexes around the bytes of 'stablestore-' "
                      "(0x737461626c657374 +-2, 0x73.., 0x74..) and huge ones (2^63, 2^64-1), all raft entry types, command data as protobuf or legacy JSON "
                      "messages, both store encodings with close/reopen and SIGKILL/reopen (child processes of the test binary) in either encoding and explicit ConvertToProto at any position, long JSON logs crossing "
                      "the 100-entry conversion batches, 4% programs with undecodable command data (panic path); run on a real LevelDBStore in $TMPDIR and on the "
                      "extracted model; reference monitor = two python dicts. non-trivial = program that read back at least one entry or stable value; distinct by text")
    ck.cov["input_distribution"] = dist
    ck.cov["samples"] = [{"case": r["line"][:400], "impl": r["impl"][:400], "model": r["model"][:400]} for r in res[:2]]

    # the pinned variant is the concrete, replayable violation (C09_refuted's witness on the real store)
    if variant == "p":
        ck.violation("deleterange-deletes-stable-keys",
                     {"what": "DeleteRange(min,max) with min <= 0x737461626c657374 <= max deletes every stablestore- key: log entries shadow the stable store",
                      "cases": [{"program": WITNESS}], "case_line": prog_line(WITNESS, "p"), "impl_output": getattr(ck, "_c09_probe_out", ""),
                      "expected": "store ok ok ok bytes=616263 u64=7", "theorem": "C09_refuted / C09_no_shadow_delete_range",
                      "fix": "/verif/fixes/c09-deleterange-skip-stable.diff", "how_to_replay": "bin/check C09 --replay <this file>"}, concrete=True)
    seen = {"deleterange-deletes-stable-keys"} if variant == "p" else set()
    for sig, what, p in monfail:
        if sig in seen:
            continue
        seen.add(sig)

        def fails(q, sig=sig):
            rr = run_programs(ck, [q], "c09shr", variant)
            return bool(rr) and any(s == sig for s, _ in rr[0]["monitor"])
        try:
            small = shrink_program(p, fails) if len(p["ops"]) <= 80 else p
        except Exception:
            small = p
        ck.violation(sig, {"what": what, "cases": [{"program": small}], "case_line": prog_line(small, variant),
                           "how_to_replay": "bin/check C09 --replay <this file>"}, concrete=True)
    if mism and not [m for m in monfail if m[0] != "deleterange-deletes-stable-keys"]:
        p, r = mism[0]

        def differs(q):
            rr = run_programs(ck, [q], "c09shr", variant)
            return bool(rr) and rr[0]["impl"] != rr[0]["model"]
        try:
            small = shrink_program(p, differs) if len(p["ops"]) <= 80 else p
            rr = run_programs(ck, [small], "c09shr", variant)[0]
        except Exception:
            small, rr = p, r
        ck.violation("correspondence:store", {"what": "model and implementation disagree; the reference monitor found no property violation",
                                              "obligation": "correspondence storedrv (Store/KV.v vs internal/raftstore), variant " + variant,
                                              "cases": [{"program": small}], "case_line": rr["line"][:3000], "impl_output": rr["impl"][:3000],
                                              "model_output": rr["model"][:3000], "mismatches": len(mism)}, concrete=False)
    if not ok:
        ck.violation("proof-broken", {"what": "proof obligations not discharged", "errors": ck.proof_errors,
                                      "obligation": ck.proof_result.get("broken_at", "Properties/C09.v"),
                                      "coq_output": ck.proof_result["output_tail"]}, concrete=False)
