(* Store/Proto.v — field-by-field model of the three protobuf messages of
   internal/proto/types.proto (RobustId, RobustMessage, RaftLog + google.protobuf.Timestamp)
   as protobuf-go marshals/unmarshals them (proto3: scalar fields with the zero value are
   omitted, a message-typed field is emitted iff its pointer is non-nil — also when the
   sub-message is empty —, fields are written in field-number order, repeated strings one
   element per tag, enums/int32/int64 as 64-bit two's-complement varints, string fields are
   UTF-8 validated in both directions), and of the Go code around them:
     robust.Message.ProtoMessage / CopyToProtoMessage / NewMessageFromBytes,
     the RaftLog writers (LevelDBStore.StoreLogs, FSM.Apply -> StoreLogProto) and the
     copies of the RaftLog reader (LevelDBStore.GetLog, raftlog.FromBytes, the loops in
     FSM.Snapshot, dumpLogToDisk1, the canary dump, FSM.decodeProtobuf).
   Legacy JSON is NOT modelled: it is a parameter (Section variable) of the readers.
   Executable definitions only; proofs are in ProtoProofs.v. *)
From Coq Require Import List NArith ZArith Bool.
From Coq Require Import Strings.String Strings.Ascii.
From RV Require Import Store.Wire.
Import ListNotations.
Local Open Scope string_scope.
Local Open Scope N_scope.

(* result of a piece of Go code that can return an error or panic *)
Inductive res (A : Type) :=
| ROk (a : A)
| RErr          (* the Go code returns a non-nil error *)
| RPanic.       (* the Go code panics (nil dereference, slice bounds, log.Panicf) *)
Arguments ROk {A} a.
Arguments RErr {A}.
Arguments RPanic {A}.

(* ---- proto3 field emitters --------------------------------------------------------------- *)
Definition opt_varint (num n : N) : string := if n =? 0 then "" else enc_field num (VVarint n).
Definition opt_fixed64 (num n : N) : string := if n =? 0 then "" else enc_field num (VFixed64 n).
Definition opt_bytes (num : N) (s : string) : string :=
  match s with EmptyString => "" | _ => enc_field num (VBytes s) end.
Definition opt_sub (num : N) (o : option string) : string :=
  match o with None => "" | Some b => enc_field num (VBytes b) end.
Fixpoint rep_bytes (num : N) (l : list string) : string :=
  match l with [] => "" | s :: r => enc_field num (VBytes s) ++ rep_bytes num r end.

(* ---- RobustId ---------------------------------------------------------------------------- *)
Record pb_id := PbId { pi_id : N; pi_reply : N }.
Definition pb_id_zero : pb_id := PbId 0 0.

Definition marshal_id (i : pb_id) : string :=
  opt_fixed64 1 (pi_id i) ++ opt_fixed64 2 (pi_reply i).

Definition upd_id (i : pb_id) (f : N * wval) : pb_id :=
  match f with
  | (1, VFixed64 v) => PbId v (pi_reply i)
  | (2, VFixed64 v) => PbId (pi_id i) v
  | _ => i
  end.
(* unmarshalling into an existing sub-message merges (later occurrences of a field win) *)
Definition unmarshal_id_into (i : pb_id) (b : string) : option pb_id :=
  match parse_message b with Some fs => Some (fold_left upd_id fs i) | None => None end.

(* ---- RobustMessage ----------------------------------------------------------------------- *)
Record pb_msg := PbMsg {
  pm_id : option pb_id;        (* pointer to RobustId, nil = None *)
  pm_session : option pb_id;
  pm_type : Z;                 (* RobustMessage_RobustType = int32 *)
  pm_data : string;
  pm_unixnano : Z;             (* int64 *)
  pm_servers : list string;
  pm_master : string;
  pm_cmid : N;                 (* uint64 *)
  pm_revision : N;
  pm_remote : string }.
Definition pb_msg_zero : pb_msg := PbMsg None None 0 "" 0 [] "" 0 0 "".

Definition set_pm_id (m : pb_msg) (v : option pb_id) :=
  PbMsg v (pm_session m) (pm_type m) (pm_data m) (pm_unixnano m) (pm_servers m) (pm_master m) (pm_cmid m) (pm_revision m) (pm_remote m).
Definition set_pm_session (m : pb_msg) (v : option pb_id) :=
  PbMsg (pm_id m) v (pm_type m) (pm_data m) (pm_unixnano m) (pm_servers m) (pm_master m) (pm_cmid m) (pm_revision m) (pm_remote m).
Definition set_pm_type (m : pb_msg) (v : Z) :=
  PbMsg (pm_id m) (pm_session m) v (pm_data m) (pm_unixnano m) (pm_servers m) (pm_master m) (pm_cmid m) (pm_revision m) (pm_remote m).
Definition set_pm_data (m : pb_msg) (v : string) :=
  PbMsg (pm_id m) (pm_session m) (pm_type m) v (pm_unixnano m) (pm_servers m) (pm_master m) (pm_cmid m) (pm_revision m) (pm_remote m).
Definition set_pm_unixnano (m : pb_msg) (v : Z) :=
  PbMsg (pm_id m) (pm_session m) (pm_type m) (pm_data m) v (pm_servers m) (pm_master m) (pm_cmid m) (pm_revision m) (pm_remote m).
Definition set_pm_servers (m : pb_msg) (v : list string) :=
  PbMsg (pm_id m) (pm_session m) (pm_type m) (pm_data m) (pm_unixnano m) v (pm_master m) (pm_cmid m) (pm_revision m) (pm_remote m).
Definition set_pm_master (m : pb_msg) (v : string) :=
  PbMsg (pm_id m) (pm_session m) (pm_type m) (pm_data m) (pm_unixnano m) (pm_servers m) v (pm_cmid m) (pm_revision m) (pm_remote m).
Definition set_pm_cmid (m : pb_msg) (v : N) :=
  PbMsg (pm_id m) (pm_session m) (pm_type m) (pm_data m) (pm_unixnano m) (pm_servers m) (pm_master m) v (pm_revision m) (pm_remote m).
Definition set_pm_revision (m : pb_msg) (v : N) :=
  PbMsg (pm_id m) (pm_session m) (pm_type m) (pm_data m) (pm_unixnano m) (pm_servers m) (pm_master m) (pm_cmid m) v (pm_remote m).
Definition set_pm_remote (m : pb_msg) (v : string) :=
  PbMsg (pm_id m) (pm_session m) (pm_type m) (pm_data m) (pm_unixnano m) (pm_servers m) (pm_master m) (pm_cmid m) (pm_revision m) v.

(* proto.Marshal of a RobustMessage: bytes only (UTF-8 check separately below) *)
Definition marshal_msg (m : pb_msg) : string :=
  opt_sub 1 (option_map marshal_id (pm_id m)) ++
  opt_sub 2 (option_map marshal_id (pm_session m)) ++
  opt_varint 3 (u64_of_Z (pm_type m)) ++
  opt_bytes 4 (pm_data m) ++
  opt_varint 5 (u64_of_Z (pm_unixnano m)) ++
  rep_bytes 6 (pm_servers m) ++
  opt_bytes 7 (pm_master m) ++
  opt_varint 8 (pm_cmid m) ++
  opt_varint 9 (pm_revision m) ++
  opt_bytes 10 (pm_remote m).

Definition pb_msg_utf8 (m : pb_msg) : bool :=
  valid_utf8 (pm_data m) && forallb valid_utf8 (pm_servers m) && valid_utf8 (pm_master m) && valid_utf8 (pm_remote m).
(* proto.Marshal with its error: None = "string field contains invalid UTF-8" *)
Definition marshal_msg_checked (m : pb_msg) : option string :=
  if pb_msg_utf8 m then Some (marshal_msg m) else None.

Definition upd_msg (m : pb_msg) (f : N * wval) : option pb_msg :=
  match f with
  | (1, VBytes b) =>
      match unmarshal_id_into (match pm_id m with Some i => i | None => pb_id_zero end) b with
      | Some i => Some (set_pm_id m (Some i))
      | None => None
      end
  | (2, VBytes b) =>
      match unmarshal_id_into (match pm_session m with Some i => i | None => pb_id_zero end) b with
      | Some i => Some (set_pm_session m (Some i))
      | None => None
      end
  | (3, VVarint v) => Some (set_pm_type m (i32_of_Z (Z.of_N v)))
  | (4, VBytes b) => if valid_utf8 b then Some (set_pm_data m b) else None
  | (5, VVarint v) => Some (set_pm_unixnano m (i64_of_N v))
  | (6, VBytes b) => if valid_utf8 b then Some (set_pm_servers m (pm_servers m ++ [b])%list) else None
  | (7, VBytes b) => if valid_utf8 b then Some (set_pm_master m b) else None
  | (8, VVarint v) => Some (set_pm_cmid m v)
  | (9, VVarint v) => Some (set_pm_revision m v)
  | (10, VBytes b) => if valid_utf8 b then Some (set_pm_remote m b) else None
  | _ => Some m        (* unknown field number or mismatching wire type: kept as unknown, ignored *)
  end.
Fixpoint fold_opt {A B : Type} (f : A -> B -> option A) (l : list B) (a : A) : option A :=
  match l with
  | [] => Some a
  | x :: r => match f a x with Some a' => fold_opt f r a' | None => None end
  end.
(* proto.Unmarshal(b, &p) on a fresh (reset) message; None = error *)
Definition unmarshal_msg (b : string) : option pb_msg :=
  match parse_message b with Some fs => fold_opt upd_msg fs pb_msg_zero | None => None end.

(* ---- robust.Message ---------------------------------------------------------------------- *)
Record msg := Msg {
  m_id : N * N;           (* Id.Id, Id.Reply *)
  m_session : N * N;
  m_type : Z;             (* robust.Type = int64 *)
  m_data : string;
  m_unixnano : Z;
  m_servers : list string;
  m_master : string;
  m_cmid : N;
  m_revision : N;
  m_remote : string }.

(* (m *Message) ProtoMessage(): a fresh struct literal; both sub-messages always allocated;
   pb.RobustMessage_RobustType(m.Type) converts int64 -> int32 *)
Definition proto_message (m : msg) : pb_msg :=
  PbMsg (Some (PbId (fst (m_id m)) (snd (m_id m))))
        (Some (PbId (fst (m_session m)) (snd (m_session m))))
        (i32_of_Z (m_type m)) (m_data m) (m_unixnano m) (m_servers m) (m_master m)
        (m_cmid m) (m_revision m) (m_remote m).

(* (m *Message) CopyToProtoMessage(dst): assignment by assignment into a caller-provided
   message; dst.Id / dst.Session must be allocated (nil => nil-pointer panic) *)
Definition copy_to_proto (m : msg) (dst : pb_msg) : res pb_msg :=
  match pm_id dst with
  | None => RPanic
  | Some i0 =>
      let i1 := PbId (fst (m_id m)) (pi_reply i0) in             (* dst.Id.Id = m.Id.Id *)
      let i2 := PbId (pi_id i1) (snd (m_id m)) in                (* dst.Id.Reply = m.Id.Reply *)
      let d1 := set_pm_id dst (Some i2) in
      match pm_session d1 with
      | None => RPanic
      | Some s0 =>
          let s1 := PbId (fst (m_session m)) (pi_reply s0) in    (* dst.Session.Id = ... *)
          let s2 := PbId (pi_id s1) (snd (m_session m)) in       (* dst.Session.Reply = ... *)
          let d2 := set_pm_session d1 (Some s2) in
          let d3 := set_pm_type d2 (i32_of_Z (m_type m)) in
          let d4 := set_pm_data d3 (m_data m) in
          let d5 := set_pm_unixnano d4 (m_unixnano m) in
          let d6 := set_pm_servers d5 (m_servers m) in
          let d7 := set_pm_master d6 (m_master m) in
          let d8 := set_pm_cmid d7 (m_cmid m) in
          let d9 := set_pm_revision d8 (m_revision m) in
          ROk (set_pm_remote d9 (m_remote m))
      end
  end.

(* the two encoders as they are used: api.applyMessageWait / applyProto (ProtoMessage) and
   ConvertToProto (CopyToProtoMessage into one re-used, fully allocated message) *)
Definition encode_msg (m : msg) : string := marshal_msg (proto_message m).
Definition encode_msg_copy (dst : pb_msg) (m : msg) : res string :=
  match copy_to_proto m dst with
  | ROk p => ROk (marshal_msg p)
  | RErr => RErr
  | RPanic => RPanic
  end.
(* with proto.Marshal's UTF-8 error *)
Definition encode_msg_checked (m : msg) : option string := marshal_msg_checked (proto_message m).

(* the field copies of NewMessageFromBytes; p.Id.Id with p.Id == nil panics *)
Definition msg_of_pb (p : pb_msg) : res msg :=
  match pm_id p, pm_session p with
  | Some i, Some s =>
      ROk (Msg (pi_id i, pi_reply i) (pi_id s, pi_reply s) (pm_type p) (pm_data p) (pm_unixnano p)
               (pm_servers p) (pm_master p) (pm_cmid p) (pm_revision p) (pm_remote p))
  | _, _ => RPanic
  end.
Definition decode_msg (b : string) : res msg :=
  match unmarshal_msg b with Some p => msg_of_pb p | None => RPanic (* log.Panicf *) end.

Definition set_m_idid (m : msg) (v : N) : msg :=
  Msg (v, snd (m_id m)) (m_session m) (m_type m) (m_data m) (m_unixnano m) (m_servers m) (m_master m)
      (m_cmid m) (m_revision m) (m_remote m).
Definition default_id (m : msg) (index : N) : msg :=
  if fst (m_id m) =? 0 then set_m_idid m index else m.

Definition starts_p (b : string) : bool :=
  match b with String c _ => Ascii.eqb c "p"%char | EmptyString => false end.
Definition tail (b : string) : string :=
  match b with String _ r => r | EmptyString => EmptyString end.

(* robust.IdFromRaftIndex: MessageOffset + index in uint64 arithmetic *)
Definition id_from_raft_index (offset index : N) : N := (offset + index) mod two64N.

Section Json.
(* legacy JSON decoders: parameters.  None = json.Unmarshal returns an error. *)
Variable json_dec_msg : string -> option msg.

(* robust.NewMessageFromBytes(b, index) *)
Definition from_bytes (b : string) (index : N) : res msg :=
  let r := if starts_p b then decode_msg (tail b)
           else match json_dec_msg b with Some m => ROk m | None => RPanic end in
  match r with
  | ROk m => ROk (default_id m index)
  | RErr => RErr
  | RPanic => RPanic
  end.
End Json.

(* what api.applyMessageWait hands to raft in protobuf mode *)
Definition encode_for_raft (m : msg) : string := String "p"%char (encode_msg m).

(* ---- RaftLog ----------------------------------------------------------------------------- *)
Record pb_log := PbLog {
  pl_index : N; pl_term : N;
  pl_type : Z;                       (* RaftLog_LogType = int32 *)
  pl_data : string; pl_ext : string; (* bytes: nil and empty are both "" *)
  pl_at : option (Z * Z) }.          (* pointer to timestamppb.Timestamp: (seconds int64, nanos int32) *)
Definition pb_log_zero : pb_log := PbLog 0 0 0 "" "" None.

Definition marshal_ts (t : Z * Z) : string :=
  opt_varint 1 (u64_of_Z (fst t)) ++ opt_varint 2 (u64_of_Z (snd t)).
Definition marshal_log (l : pb_log) : string :=
  opt_varint 1 (pl_index l) ++
  opt_varint 2 (pl_term l) ++
  opt_varint 3 (u64_of_Z (pl_type l)) ++
  opt_bytes 4 (pl_data l) ++
  opt_bytes 5 (pl_ext l) ++
  opt_sub 6 (option_map marshal_ts (pl_at l)).

Definition upd_ts (t : Z * Z) (f : N * wval) : Z * Z :=
  match f with
  | (1, VVarint v) => (i64_of_N v, snd t)
  | (2, VVarint v) => (fst t, i32_of_Z (Z.of_N v))
  | _ => t
  end.
Definition unmarshal_ts_into (t : Z * Z) (b : string) : option (Z * Z) :=
  match parse_message b with Some fs => Some (fold_left upd_ts fs t) | None => None end.

Definition upd_log (l : pb_log) (f : N * wval) : option pb_log :=
  match f with
  | (1, VVarint v) => Some (PbLog v (pl_term l) (pl_type l) (pl_data l) (pl_ext l) (pl_at l))
  | (2, VVarint v) => Some (PbLog (pl_index l) v (pl_type l) (pl_data l) (pl_ext l) (pl_at l))
  | (3, VVarint v) => Some (PbLog (pl_index l) (pl_term l) (i32_of_Z (Z.of_N v)) (pl_data l) (pl_ext l) (pl_at l))
  | (4, VBytes b) => Some (PbLog (pl_index l) (pl_term l) (pl_type l) b (pl_ext l) (pl_at l))
  | (5, VBytes b) => Some (PbLog (pl_index l) (pl_term l) (pl_type l) (pl_data l) b (pl_at l))
  | (6, VBytes b) =>
      match unmarshal_ts_into (match pl_at l with Some t => t | None => (0, 0)%Z end) b with
      | Some t => Some (PbLog (pl_index l) (pl_term l) (pl_type l) (pl_data l) (pl_ext l) (Some t))
      | None => None
      end
  | _ => Some l
  end.
Definition unmarshal_log (b : string) : option pb_log :=
  match parse_message b with Some fs => fold_opt upd_log fs pb_log_zero | None => None end.

(* ---- raft.Log ---------------------------------------------------------------------------- *)
Record rlog := RLog {
  l_index : N; l_term : N;
  l_type : N;                       (* raft.LogType = uint8 *)
  l_data : string; l_ext : string;
  l_sec : Z; l_nsec : Z }.          (* AppendedAt as an instant: Unix() seconds, Nanosecond() *)

Definition billion : Z := 1000000000%Z.
(* Timestamp.AsTime(): nil -> Unix(0,0); else time.Unix(seconds, nanos), which carries
   nanos outside [0,1e9) into the seconds; observed through Time.Unix()/Nanosecond() *)
Definition as_time (t : option (Z * Z)) : Z * Z :=
  match t with
  | None => (0, 0)%Z
  | Some (s, n) => (i64_of_Z (s + n / billion), (n mod billion))%Z
  end.

(* the writers' field copies (StoreLogs with useProtobuf, FSM.Apply): timestamppb.New(t) is
   never nil, so field 6 is always written *)
Definition pb_of_log (l : rlog) : pb_log :=
  PbLog (l_index l) (l_term l) (Z.of_N (l_type l)) (l_data l) (l_ext l) (Some (l_sec l, l_nsec l)).

Definition u8_of_Z (z : Z) : N := Z.to_N (z mod 256).

(* the readers' field copies, one definition per copy in the source *)
Definition log_of_pb_store (p : pb_log) : rlog :=         (* LevelDBStore.GetLog *)
  let '(s, n) := as_time (pl_at p) in
  RLog (pl_index p) (pl_term p) (u8_of_Z (pl_type p)) (pl_data p) (pl_ext p) s n.
Definition log_of_pb_frombytes (p : pb_log) : rlog :=     (* raftlog.FromBytes *)
  let '(s, n) := as_time (pl_at p) in
  RLog (pl_index p) (pl_term p) (u8_of_Z (pl_type p)) (pl_data p) (pl_ext p) s n.
Definition log_of_pb_snapshot (p : pb_log) : rlog :=      (* loop in FSM.Snapshot *)
  let '(s, n) := as_time (pl_at p) in
  RLog (pl_index p) (pl_term p) (u8_of_Z (pl_type p)) (pl_data p) (pl_ext p) s n.
Definition log_of_pb_dump (p : pb_log) : rlog :=          (* loop in dumpLogToDisk1 *)
  let '(s, n) := as_time (pl_at p) in
  RLog (pl_index p) (pl_term p) (u8_of_Z (pl_type p)) (pl_data p) (pl_ext p) s n.
Definition log_of_pb_canary (p : pb_log) : rlog :=        (* loop in canary.go *)
  let '(s, n) := as_time (pl_at p) in
  RLog (pl_index p) (pl_term p) (u8_of_Z (pl_type p)) (pl_data p) (pl_ext p) s n.

(* the value a protobuf-mode store writes for an entry *)
Definition encode_log (l : rlog) : string := String "p"%char (marshal_log (pb_of_log l)).
(* FSM.Apply / applyProto hand a pb.RaftLog to StoreLogProto *)
Definition encode_pblog (p : pb_log) : string := String "p"%char (marshal_log p).

Section JsonLog.
Variable json_dec_log : string -> option rlog.

(* all five have the shape: 'p' prefix => protobuf, else JSON; error => RErr *)
Definition read_with (conv : pb_log -> rlog) (v : string) : res rlog :=
  if starts_p v then
    match unmarshal_log (tail v) with Some p => ROk (conv p) | None => RErr end
  else match json_dec_log v with Some l => ROk l | None => RErr end.

Definition read_store := read_with log_of_pb_store.
Definition read_snapshot := read_with log_of_pb_snapshot.
Definition read_dump := read_with log_of_pb_dump.
Definition read_canary := read_with log_of_pb_canary.
(* raftlog.FromBytes additionally rejects the empty value before looking at b[0] *)
Definition read_frombytes (v : string) : res rlog :=
  match v with
  | EmptyString => RErr
  | _ => read_with log_of_pb_frombytes v
  end.
End JsonLog.

(* FSM.decodeProtobuf on one length-delimited record [buf] of a protobuf snapshot: only
   protobuf is accepted; it uses entry.Index and entry.Data and re-stores [buf] verbatim under
   the key of entry.Index.  buf[1:] on an empty record is a slice-bounds panic. *)
Definition read_restore (buf : string) : res (N * string * (string * string)) :=
  match buf with
  | EmptyString => RPanic
  | String c r =>
      if negb (Ascii.eqb c "p"%char) then RErr
      else match unmarshal_log r with
           | Some p => ROk (pl_index p, pl_data p, (be8 (pl_index p), buf))
           | None => RErr
           end
  end.

(* ---- protobuf snapshot framing (robustSnapshot.Persist / decodeProtobuf) ---------------- *)
(* 'p', then per record an 8-byte big-endian length and the record *)
Fixpoint frame_records (l : list string) : string :=
  match l with [] => "" | v :: r => be8 (slen v) ++ v ++ frame_records r end.
Definition persist_stream (l : list string) : string := String "p"%char (frame_records l).
Fixpoint unframe_records (fuel : nat) (s : string) : option (list string) :=
  match s with
  | EmptyString => Some []          (* io.EOF at a record boundary ends the loop *)
  | String _ _ =>
      match fuel with
      | O => None
      | S f => match dec_be 8 s with
               | Some (len, r) => match split_at r len with
                                  | Some (v, r') => match unframe_records f r' with
                                                    | Some l => Some (v :: l)
                                                    | None => None
                                                    end
                                  | None => None
                                  end
               | None => None         (* io.ErrUnexpectedEOF *)
               end
      end
  end.
Definition restore_stream (s : string) : option (list string) :=
  if starts_p s then unframe_records (String.length s) (tail s) else None.
