(* Api/Auth.v — M-API, routing and authentication: what main() serves (the mux), the two
   dispatchers of internal/api/api.go (DispatchPublic, DispatchPrivate +
   DispatchPrivateWithoutAuth), HTTP.session() and HTTP.sessionOrProxy(), branch by branch.

   The dispatchers are an *interpreter of a route table*: the table of the current source is
   regenerated on every run by /verif/harness/scan/routescan (Gen/Routes.v) and must equal
   [model_routes] by reflexivity; every theorem of AuthProofs.v is proved for an arbitrary
   table that satisfies [forallb gated], so it also speaks about the generated one.

   Server state is abstracted to what routing reads: session id -> (secret, alive, last client
   message id), IRCServer.lastProcessed (decides between "No such session" and "Session not
   yet seen"), the network password, and whether this node is the raft leader.
   Executable definitions only; proofs live in AuthProofs.v. *)
From Coq Require Import List Bool NArith Ascii String.
From RV Require Import Base.Text.
Import ListNotations.
Local Open Scope string_scope.

(* ---- byte-string helpers (Go: strings.HasPrefix/HasSuffix/Index, slicing) ------------- *)
Definition has_prefix (p s : string) : bool := String.prefix p s.

Fixpoint sdrop (n : nat) (s : string) : string :=
  match n, s with
  | O, _ => s
  | S k, String _ r => sdrop k r
  | S _, EmptyString => EmptyString
  end.
Fixpoint stake (n : nat) (s : string) : string :=
  match n, s with
  | O, _ => EmptyString
  | S k, String c r => String c (stake k r)
  | S _, EmptyString => EmptyString
  end.
Definition has_suffix (suf s : string) : bool :=
  Nat.leb (String.length suf) (String.length s) &&
  String.eqb (sdrop (String.length s - String.length suf) s) suf.
Definition strip_suffix (suf s : string) : string :=
  stake (String.length s - String.length suf) s.
Fixpoint contains_char (c : ascii) (s : string) : bool :=
  match s with
  | EmptyString => false
  | String d r => Ascii.eqb c d || contains_char c r
  end.
Definition is_empty (s : string) : bool := match s with EmptyString => true | _ => false end.
Fixpoint last_char (s : string) : option ascii :=
  match s with
  | EmptyString => None
  | String c EmptyString => Some c
  | String _ r => last_char r
  end.

(* ---- strconv.ParseUint(s, 0, 64) --------------------------------------------------------- *)
Local Open Scope N_scope.
Definition max_u64 : N := 18446744073709551615.
Definition lowerN (n : N) : N := N.lor n 32.            (* c | ('x' - 'X') *)

Definition digit_of (c : ascii) : option N :=
  let n := N_of_ascii c in
  if (48 <=? n) && (n <=? 57) then Some (n - 48)
  else let l := lowerN n in
       if (97 <=? l) && (l <=? 122) then Some (l - 97 + 10) else None.

(* the digit loop; the flag records whether an underscore was skipped *)
Fixpoint parse_digits (base : N) (s : string) (acc : N) (us : bool) : option (N * bool) :=
  match s with
  | EmptyString => Some (acc, us)
  | String c r =>
      if Ascii.eqb c "_"%char then parse_digits base r acc true
      else match digit_of c with
           | None => None
           | Some d =>
               if base <=? d then None
               else let n1 := acc * base + d in
                    if max_u64 <? n1 then None else parse_digits base r n1 us
           end
  end.

Inductive saw := SBeg | SDig | SUnd | SOth.
Fixpoint us_loop (hex : bool) (s : string) (sw : saw) : bool :=
  match s with
  | EmptyString => match sw with SUnd => false | _ => true end
  | String c r =>
      let n := N_of_ascii c in
      if ((48 <=? n) && (n <=? 57)) || (hex && (97 <=? lowerN n) && (lowerN n <=? 102))
      then us_loop hex r SDig
      else if Ascii.eqb c "_"%char
           then match sw with SDig => us_loop hex r SUnd | _ => false end
           else match sw with SUnd => false | _ => us_loop hex r SOth end
  end.
Definition underscore_ok (s0 : string) : bool :=
  let s := match s0 with
           | String c r => if Ascii.eqb c "-"%char || Ascii.eqb c "+"%char then r else s0
           | EmptyString => s0
           end in
  match s with
  | String c0 (String c1 r) =>
      let l := lowerN (N_of_ascii c1) in
      if Ascii.eqb c0 "0"%char && ((l =? 98) || (l =? 111) || (l =? 120))
      then us_loop (l =? 120) r SDig
      else us_loop false s SBeg
  | _ => us_loop false s SBeg
  end.

Definition parse_uint0 (s : string) : option N :=
  match s with
  | EmptyString => None
  | String c0 r0 =>
      let '(base, rest) :=
        if Ascii.eqb c0 "0"%char then
          match r0 with
          | String c1 (String c2 r2) =>
              let l := lowerN (N_of_ascii c1) in
              if l =? 98 then (2, String c2 r2)
              else if l =? 111 then (8, String c2 r2)
              else if l =? 120 then (16, String c2 r2)
              else (8, r0)
          | _ => (8, r0)
          end
        else (10, s) in
      match parse_digits base rest 0 false with
      | None => None
      | Some (n, us) => if us && negb (underscore_ok s) then None else Some n
      end
  end.
Local Close Scope N_scope.

(* ---- route table ----------------------------------------------------------------------------- *)
Inductive disp := Pub | Priv.
Inductive pat :=
| PExact (s : string)      (* path (private) / rest (public) == s *)
| PPrefix (s : string)     (* strings.HasPrefix *)
| PIdSuffix (s : string)   (* rest = <id> ++ s, and <id> contains no slash (s may be empty) *)
| PUnknown (s : string).   (* a handler call the scanner found in a shape it does not know *)
Inductive gate :=
| GNone              (* the handler call is not dominated by any check *)
| GSession           (* api.session(r, id) inside the handler (GET messages) *)
| GSessionOrProxy    (* api.sessionOrProxy(w, r, id) in the dispatcher *)
| GBasic             (* the basic-auth test of DispatchPrivate *)
| GUnknown.
Record route := mkRoute { r_disp : disp; r_meth : string; r_pat : pat; r_handler : string; r_gate : gate }.

Inductive target := TPublic | TPrivate | TForeign (who : string).
Definition mux_entry := (string * target)%type.

(* The table of the REPAIRED tree (D17: pprof/expvar reachable only behind the password). *)
Definition model_routes : list route := [
  mkRoute Pub "POST" (PExact "session") "handleCreateSession" GNone;
  mkRoute Pub "POST" (PIdSuffix "/message") "handlePostMessage" GSessionOrProxy;
  mkRoute Pub "GET" (PIdSuffix "/messages") "handleGetMessages" GSession;
  mkRoute Pub "DELETE" (PIdSuffix "") "handleDeleteSession" GSessionOrProxy;
  mkRoute Priv "*" (PPrefix "/debug/") "http.DefaultServeMux.ServeHTTP" GBasic;
  mkRoute Priv "GET" (PExact "/") "handleStatus" GBasic;
  mkRoute Priv "GET" (PExact "/status") "handleStatus" GBasic;
  mkRoute Priv "GET" (PExact "/status/getmessage") "handleStatusGetMessage" GBasic;
  mkRoute Priv "GET" (PExact "/status/sessions") "handleStatusSessions" GBasic;
  mkRoute Priv "GET" (PExact "/status/irclog") "handleStatusIrclog" GBasic;
  mkRoute Priv "GET" (PExact "/status/state") "handleStatusState" GBasic;
  mkRoute Priv "GET" (PExact "/irclog") "handleIrclog" GBasic;
  mkRoute Priv "GET" (PExact "/snapshot") "handleSnapshot" GBasic;
  mkRoute Priv "GET" (PExact "/leader") "handleLeader" GBasic;
  mkRoute Priv "GET" (PExact "/config") "handleGetConfig" GBasic;
  mkRoute Priv "GET" (PExact "/metrics") "promhttp.Handler().ServeHTTP" GBasic;
  mkRoute Priv "POST" (PPrefix "/raft/") "transport.ServeHTTP" GBasic;
  mkRoute Priv "POST" (PExact "/join") "handleJoin" GBasic;
  mkRoute Priv "POST" (PExact "/part") "handlePart" GBasic;
  mkRoute Priv "POST" (PExact "/quit") "handleQuit" GBasic;
  mkRoute Priv "POST" (PExact "/config") "handlePostConfig" GBasic;
  mkRoute Priv "POST" (PExact "/kill") "handleKill" GBasic
].

(* what main() serves after the repair: its own mux with exactly the two dispatchers *)
Definition model_mux : list mux_entry := [ ("/robustirc/v1/", TPublic); ("/", TPrivate) ].
Definition public_prefix : string := "/robustirc/v1/".
Definition basic_user : string := "robustirc".

(* A route is gated when the check that must precede its handler does precede it.  Public
   routes whose pattern carries a session id need the session gate; public routes without an
   id (create session) are public by design; every private route needs the basic-auth test.
   PUnknown rows are inert in the interpreter (fail-open on shape; they still break the
   equality obligation gen_routes = model_routes). *)
Definition gated (r : route) : bool :=
  match r_pat r with
  | PUnknown _ => true
  | PIdSuffix _ =>
      match r_disp r, r_gate r with
      | Pub, GSession | Pub, GSessionOrProxy | Priv, GBasic => true
      | _, _ => false
      end
  | _ =>
      match r_disp r, r_gate r with
      | Pub, GNone | Priv, GBasic => true
      | _, _ => false
      end
  end.

Definition mux_gated (e : mux_entry) : bool :=
  match snd e with TPublic | TPrivate => true | TForeign _ => false end.

(* ---- state and requests -------------------------------------------------------------------- *)
Record sess := mkSess { s_auth : string; s_alive : bool; s_last : N }.
Record state := mkState {
  st_sessions : list (N * sess);
  st_lastproc : N;
  st_password : string;
  st_leader : bool }.

Fixpoint lookup (id : N) (l : list (N * sess)) : option sess :=
  match l with
  | [] => None
  | (k, s) :: r => if N.eqb k id then Some s else lookup id r
  end.

(* IRCServer.GetSession: a session is found iff it is in the map (alive) *)
Inductive gs := GsOk (s : sess) | GsNoSuch | GsNotYet.
Definition get_session (st : state) (id : N) : gs :=
  let absent := if N.ltb id (st_lastproc st) then GsNoSuch else GsNotYet in
  match lookup id (st_sessions st) with
  | Some s => if s_alive s then GsOk s else absent
  | None => absent
  end.
Definition alive (st : state) (id : N) : bool :=
  match get_session st id with GsOk _ => true | _ => false end.
Definition auth_of (st : state) (id : N) : option string :=
  match get_session st id with GsOk s => Some (s_auth s) | _ => None end.

Record request := mkReq {
  q_meth : string;
  q_path : string;
  q_hdr : option string;               (* X-Session-Auth; r.Header.Get maps absent to "" *)
  q_basic : option (string * string);  (* r.BasicAuth() *)
  q_body : string }.

Inductive refusal := RInvalidSession | RNoHeader | RNoSuch | RNotYet | RBadAuth.

(* HTTP.session() *)
Definition session_check (st : state) (hdr : option string) (sid : string) : N + refusal :=
  match parse_uint0 sid with
  | None => inr RInvalidSession
  | Some id =>
      let h := match hdr with Some h => h | None => "" end in
      if is_empty h then inr RNoHeader
      else match get_session st id with
           | GsNoSuch => inr RNoSuch
           | GsNotYet => inr RNotYet
           | GsOk s => if String.eqb h (s_auth s) then inl id else inr RBadAuth
           end
  end.

Inductive decision :=
| Handled (h : string) (sid : option N)  (* the handler is entered; sid = the session it acts for *)
| Refused (r : refusal) (status : N)
| Proxied                               (* sessionOrProxy on a non-leader, session not yet seen: forwarded to the leader *)
| Unauthorized                          (* 401 *)
| NotFound                              (* 404 "Not found" *)
| Foreign (who : string)                (* the served mux hands the request to somebody else's handler *)
| Panics.                               (* r.URL.Path[len(prefix):] out of range *)

Definition disp_eqb (a b : disp) : bool :=
  match a, b with Pub, Pub | Priv, Priv => true | _, _ => false end.
Definition is_basic (g : gate) : bool := match g with GBasic => true | _ => false end.

Definition pat_match (p : pat) (rest : string) : option (option string) :=
  match p with
  | PExact s => if String.eqb rest s then Some None else None
  | PPrefix s => if has_prefix s rest then Some None else None
  | PIdSuffix suf =>
      if has_suffix suf rest
      then let id := strip_suffix suf rest in
           if contains_char "/"%char id then None else Some (Some id)
      else None
  | PUnknown _ => None
  end.
Definition meth_match (rm m : string) : bool := String.eqb rm "*" || String.eqb rm m.

(* first route (in source order) of dispatcher [d] that satisfies [keep] and matches *)
Fixpoint find_route (keep : route -> bool) (d : disp) (m rest : string) (rt : list route)
  : option (route * option string) :=
  match rt with
  | [] => None
  | r :: tl =>
      if disp_eqb (r_disp r) d && keep r && meth_match (r_meth r) m
      then match pat_match (r_pat r) rest with
           | Some idopt => Some (r, idopt)
           | None => find_route keep d m rest tl
           end
      else find_route keep d m rest tl
  end.

Definition gate_session (leader_matters : bool) (st : state) (q : request) (h sid : string) : decision :=
  match session_check st (q_hdr q) sid with
  | inl id => Handled h (Some id)
  | inr RNotYet =>
      (* "not yet seen" is never a 404: clients give a session up on any 404 (D22, c0e28c0) *)
      if leader_matters
      then (if st_leader st then Refused RNotYet 500 else Proxied)
      else Refused RNotYet 500
  | inr e => Refused e 404
  end.

Definition dispatch_public (rt : list route) (st : state) (q : request) : decision :=
  if negb (has_prefix public_prefix (q_path q)) then Panics else
  let rest := sdrop (String.length public_prefix) (q_path q) in
  match find_route (fun _ => true) Pub (q_meth q) rest rt with
  | None => NotFound
  | Some (r, idopt) =>
      match r_gate r, idopt with
      | GSession, Some sid => gate_session false st q (r_handler r) sid
      | GSessionOrProxy, Some sid => gate_session true st q (r_handler r) sid
      | _, Some sid => Handled (r_handler r) (parse_uint0 sid)   (* id route without the gate *)
      | _, None => Handled (r_handler r) None
      end
  end.

Definition basic_ok (st : state) (q : request) : bool :=
  match q_basic q with
  | Some (u, p) => String.eqb u basic_user && String.eqb p (st_password st)
  | None => false
  end.

Definition dispatch_private (rt : list route) (st : state) (q : request) : decision :=
  (* a handler call that is not dominated by the basic-auth test is reached first *)
  match find_route (fun r => negb (is_basic (r_gate r))) Priv (q_meth q) (q_path q) rt with
  | Some (r, _) => Handled (r_handler r) None
  | None =>
      if basic_ok st q
      then match find_route (fun r => is_basic (r_gate r)) Priv (q_meth q) (q_path q) rt with
           | Some (r, _) => Handled (r_handler r) None
           | None => NotFound
           end
      else Unauthorized
  end.

(* net/http.ServeMux for patterns without host/method/wildcards: a pattern ending in "/"
   matches every path it is a prefix of, any other pattern matches exactly; the longest
   matching pattern wins.  (Path cleaning and the redirect to the tree root are not modelled.) *)
Definition mux_pat_match (p path : string) : bool :=
  match last_char p with
  | Some "/"%char => has_prefix p path
  | _ => String.eqb p path
  end.
Fixpoint mux_lookup_aux (m : list mux_entry) (path : string) (best : option mux_entry) : option mux_entry :=
  match m with
  | [] => best
  | e :: tl =>
      let better :=
        mux_pat_match (fst e) path &&
        match best with
        | None => true
        | Some b => Nat.ltb (String.length (fst b)) (String.length (fst e))
        end in
      mux_lookup_aux tl path (if better then Some e else best)
  end.
Definition mux_lookup (m : list mux_entry) (path : string) : option target :=
  match mux_lookup_aux m path None with Some e => Some (snd e) | None => None end.

Definition serve (m : list mux_entry) (rt : list route) (st : state) (q : request) : decision :=
  match mux_lookup m (q_path q) with
  | None => NotFound
  | Some TPublic => dispatch_public rt st q
  | Some TPrivate => dispatch_private rt st q
  | Some (TForeign w) => Foreign w
  end.

(* ---- what a decision means for the response ------------------------------------------------ *)
Inductive body :=
| BErrorText (t : string)             (* http.Error with a fixed text *)
| BHandler (h : string) (sid : option N)  (* whatever that handler writes *)
| BUpstream                           (* the leader's answer, relayed *)
| BForeign (who : string).
Record response := mkResp {
  rs_status : option N;       (* None: chosen by the handler *)
  rs_body : body;
  rs_handler_entered : bool   (* only an entered handler can propose to raft or read the output stream *)
}.

(* the error texts depend on the request and the kind of refusal only — never on the state *)
Definition refusal_text (q_sid : string) (r : refusal) : string :=
  match r with
  | RInvalidSession => "invalid session: " ++ q_sid
  | RNoHeader => "no X-Session-Auth header set"
  | RNoSuch => "No such session"
  | RNotYet => "Session not yet seen"
  | RBadAuth => "invalid X-Session-Auth header"
  end.

Definition respond (sid_text : string) (d : decision) : response :=
  match d with
  | Handled h sid => mkResp None (BHandler h sid) true
  | Refused r c => mkResp (Some c) (BErrorText (refusal_text sid_text r)) false
  | Proxied => mkResp None BUpstream false
  | Unauthorized => mkResp (Some 401%N) (BErrorText "Unauthorized") false
  | NotFound => mkResp (Some 404%N) (BErrorText "Not found") false
  | Foreign w => mkResp None (BForeign w) false
  | Panics => mkResp None (BErrorText "") false
  end.
