(* Fsm/FsmDriver.v — case-file driver for M-FSM (kind `fsm`) and the message-of-death layer
   (kind `mod`), instantiated with the OPAQUE DIGEST MACHINE: the state of the abstract machine is
   the list of entries applied so far (so "equal states" in the model <=> "equal replay" <=> equal
   state digests on the Go side; the IRC semantics stay a black box), the reply batch of an entry is
   named by the state it was produced in, Marshal is the identity.

   in : fsm <id> <variant: 3 chars, fix_d3 fix_d15 fix_d18> <proto> <sink> L <entry>* S <step>*
        entry = <idx>:<kind c|i|m>:<ts>:<exp|->:<rev>:<hex payload>
        step = A | S<t>:ok | S<t>:fail<n> | SP<t>:<k>:ok | SP<t>:<k>:fail<n> | R | X | Q..
   out: fsm <id> | <step record> | ...     (exactly the Go driver's line, with state/batch digests
        replaced by descriptors: the '.'-joined indexes of the applied entries, `!` = applied as
        message of death; harness/py/props/c02.py translates between the two) *)
From RV Require Import Base.Text Fsm.Fsm Fsm.Mod.
Local Open Scope string_scope.

(* ---- the digest machine ------------------------------------------------------------ *)
Definition dS := list entry.
Definition dO := list entry.           (* the state the batch was produced in *)
Definition dB := (list entry * N)%type.
Definition d_init : dS := [].
Definition d_apply (s : dS) (e : entry) : dS * list dO :=
  ((s ++ [e])%list, match e_kind e with KMoD => [] | _ => [s] end).
Definition d_marshal (s : dS) (k : N) : dB := (s, k).
Definition d_unmarshal (b : dB) : option (dS * N) := Some b.
(* (revision in force, SessionExpiration): a Config entry takes effect iff it parses and carries revision + 1 *)
Definition d_cfg_step (c : N * N) (e : entry) : N * N :=
  if sets_exp (fst c) e then (e_rev e, match e_exp e with Some d => d | None => snd c end) else c.
Definition d_cfg_of (s : dS) : N * N := fold_left d_cfg_step s (0%N, 0%N).
Definition d_exp_of (s : dS) : N := snd (d_cfg_of s).
Definition d_rev_of (s : dS) : N := fst (d_cfg_of s).

Definition dfsm := fsm dS dO dB.
Definition dworld := world dS dO dB.

(* ---- parsing ------------------------------------------------------------------------- *)
Definition parse_kind (s : string) : kind :=
  if String.eqb s "i" then KInternal else if String.eqb s "m" then KMoD else KCmd.

Definition parse_entry (tok : string) : entry :=
  let f := split_on ":"%char tok in
  mkEntry (N_field f 0) (Z_field f 2) (parse_kind (nth_field f 1)) (N_of_dec (nth_field f 3)) (N_field f 4) (nth_field f 5).

Fixpoint take_entries (l : list string) : list entry * list string :=
  match l with
  | [] => ([], [])
  | x :: r => if String.eqb x "S" then ([], r)
              else let '(es, rest) := take_entries r in (parse_entry x :: es, rest)
  end.

Definition parse_variant (s : string) : variant :=
  match s with
  | String a (String b r) =>
      mkVariant (Ascii.eqb a "1"%char) (Ascii.eqb b "1"%char)
                (match r with String c _ => Ascii.eqb c "1"%char | EmptyString => false end)
  | _ => repaired
  end.

Definition head_char (s : string) : ascii := match s with String c _ => c | EmptyString => " "%char end.
Definition tail_str (s : string) : string := match s with String _ r => r | EmptyString => EmptyString end.
Fixpoint starts_with (p s : string) : bool :=
  match p, s with
  | EmptyString, _ => true
  | String a p', String b s' => Ascii.eqb a b && starts_with p' s'
  | _, _ => false
  end.

(* ---- printing ------------------------------------------------------------------------ *)
Definition show_list (l : list string) : string := match l with [] => "-" | _ => sjoin "," l end.
Definition tok_of (e : entry) : string :=
  dec_of_N (e_idx e) ++ match e_kind e with KMoD => "!" | _ => "" end.
Definition desc (s : dS) : string := match s with [] => "-" | _ => sjoin "." (map tok_of s) end.

Definition show_key (kb : N * dB) : string :=
  let '(k, (s, lii)) := kb in
  dec_of_N k ++ "=" ++ desc s ++ (if N.eqb lii k then "" else "@" ++ dec_of_N lii).

Definition dump (w : dworld) : string :=
  let f := w_fsm w in
  "st=" ++ dec_of_N (first_index (ircstore f)) ++ ":" ++ dec_of_N (last_index (ircstore f)) ++ ":" ++
    show_list (map (fun kv => dec_of_N (fst kv)) (ircstore f)) ++
  " out=" ++ show_list (map (fun kv => dec_of_N (fst kv) ++ "=" ++
                                    match snd kv with s :: _ => desc s | [] => "?" end) (outstore f)) ++
  " keys=" ++ show_list (map show_key (lss f)) ++
  " exp=" ++ dec_of_Z (eff_exp (expdur f)) ++
  " rev=" ++ dec_of_N (d_rev_of (server f)) ++
  " srv=" ++ desc (server f) ++
  " n=" ++ dec_of_nat (w_applied w).

Definition show_state (b : dB) : string := dec_of_N (snd b) ++ "=" ++ desc (fst b).

(* one schedule step: the record the Go driver prints for it, and the next world *)
Definition drive_step (v : variant) (L : list entry) (w : dworld) (tok : string) : option (string * dworld) :=
  let c := head_char tok in
  if Ascii.eqb c "A"%char then
    match nth_error L (w_applied w) with
    | Some e => Some ("A" ++ dec_of_N (e_idx e),
                      do_step dS dO dB d_init d_apply d_marshal d_unmarshal d_exp_of d_rev_of v L w (SApply (w_applied w)))
    | None => Some ("A:end", w)
    end
  else if Ascii.eqb c "R"%char then
    match w_persisted w with
    | [] => Some ("R:none", w)
    | _ => Some ("R:ok", do_step dS dO dB d_init d_apply d_marshal d_unmarshal d_exp_of d_rev_of v L w SRestore)
    end
  else if Ascii.eqb c "X"%char then
    Some (match w_persisted w with [] => "X:none" | _ => "X:snap" end,
          do_step dS dO dB d_init d_apply d_marshal d_unmarshal d_exp_of d_rev_of v L w SRestart)
  else if Ascii.eqb c "S"%char then
    (* S<t>:ok|fail..        Snapshot + Persist back to back
       SP<t>:<k>:ok|fail..   Snapshot now, k more entries applied, then Persist of that snapshot *)
    let late := starts_with "SP" tok in
    let f := split_on ":"%char (if late then tail_str (tail_str tok) else tail_str tok) in
    let t := Z_field f 0 in
    let k := if late then N.to_nat (N_field f 1) else O in
    let ok := String.eqb (nth_field f (if late then 2 else 1)%nat) "ok" in
    match fsm_snapshot dS dO dB d_init d_apply d_marshal d_unmarshal d_exp_of d_rev_of v t (w_fsm w) with
    | None => Some ("S:err", w)
    | Some (f', sn) =>
        let w' := do_step dS dO dB d_init d_apply d_marshal d_unmarshal d_exp_of d_rev_of v L w (SSnapshot t k ok) in
        let head := "S:" ++ dec_of_N (sn_first sn) ++ ":" ++ dec_of_N (sn_last sn) ++ ":" ++ show_state (sn_state sn) in
        if ok then
          let p := persist dS dO dB (w_fsm w') sn (w_applied w) in
          Some (head ++ ":ok:" ++ show_state (p_state p) ++ ":" ++
                show_list (map (fun e => dec_of_N (e_idx e)) (p_entries p)), w')
        else Some (head ++ ":fail", w')
    end
  else None.   (* Q.. : queries are answered by the Go side only *)

Fixpoint drive (v : variant) (L : list entry) (w : dworld) (steps : list string) : list string :=
  match steps with
  | [] => []
  | tok :: r =>
      match drive_step v L w tok with
      | Some (rec, w') => (rec ++ " " ++ dump w') :: drive v L w' r
      | None => drive v L w r
      end
  end.

Definition run_fsm (f : list string) : string :=
  let id := nth_field f 1 in
  let v := parse_variant (nth_field f 2) in
  let '(L, steps) := take_entries (skipn 6 f) in
  sjoin " | " (("fsm " ++ id) :: drive v L (world0 dS dO dB d_init) steps).

(* ---- kind `mod`: the process-level message-of-death semantics (Mod.v) -----------------
   in : fsm mod <id> <proto> L <entry>*          entry payload "P.." (hex 50..) = the PANIC command issued by a
        session for which the real handler is reached; the Go driver reports which entries
        really panicked, the model is told through the payload marker.
   out: fsm mod <id> | <run record> | ...  one record per process run: `exit@<idx>` or `done`,
        followed by the kinds of the durable log after the run. *)
Definition panics (e : entry) : bool :=
  match e_kind e with KCmd => starts_with "50" (e_payload e) | _ => false end.
Definition m_apply_cmd (s : dS) (e : entry) : option (dS * list dO) :=
  if panics e then None else Some ((s ++ [e])%list, [s]).
Definition m_apply_mod (s : dS) (e : entry) : dS := (s ++ [e])%list.

Definition show_kinds (L : list entry) : string :=
  sconcat (map (fun e => match e_kind e with KCmd => "c" | KMoD => "m" | KInternal => "i" end) L).

Fixpoint mod_runs (fuel : nat) (L : list entry) : list string :=
  match fuel with
  | O => ["fuel"]
  | Datatypes.S n =>
      match run_process dS dO dB m_apply_cmd m_apply_mod d_exp_of d_rev_of L (fresh_fsm dS dO dB d_init []) L with
      | Exited _ _ _ k L' => ("exit@" ++ dec_of_N k ++ " " ++ show_kinds L') :: mod_runs n L'
      | Finished _ _ _ f => ["done " ++ show_kinds L ++ " srv=" ++ desc (server f)]
      end
  end.

Definition run_mod (f : list string) : string :=
  let id := nth_field f 1 in
  let '(L, _) := take_entries (skipn 4 f) in
  sjoin " | " (("fsm mod " ++ id) :: mod_runs (Datatypes.S (List.length L)) L).

(* Driver/Main.v dispatches kind `fsm` here; `fsm mod ...` lines are message-of-death cases *)
Definition run_line (f : list string) : string :=
  if String.eqb (nth_field f 1) "mod" then run_mod (skipn 1 f) else run_fsm f.
