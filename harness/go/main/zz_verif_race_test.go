//go:build verif

package main

// C20 race-detector stress harness over main()'s wiring (run with `go test -race`).
// Injected into package main by `go test -overlay`; never part of /repo.
//
// A single-node raft (in-memory transport, real LevelDB log/stable store, file snapshot store)
// drives the real FSM of statemachine.go; the real api.HTTP is served behind httptest exactly as
// main() wires it (DispatchPublic / DispatchPrivate, fsm.ReplaceState = api.ReplaceState); the
// package-level ircServer/ircStore/outputStream/node variables are set up the way main() does it,
// before any goroutine is started, and are afterwards only touched by the repository's own code —
// with one exception, marked REPLICA below: main()'s expiry statement cannot be executed without
// running main(), so it is replicated verbatim in verifRaceExpiryReplicaOfMain.
//
// phase "serve":   an OPERed session GLINEs users with known remote addresses (cmdGline modifies
//                  Config.Banned in place) while GET /config and the status pages render the config;
//                  POST session / POST message (two posters per session: ThrottleUntil,
//                  LastPostMessage, raft Apply -> FSM.Apply -> ProcessMessage -> outputstream.Add),
//                  long-poll GetMessages (GetNext, cancellation), status pages, GET/POST config,
//                  /metrics (the gauge closures of robustirc.go), expiry sweep, raft snapshots
//                  (FSM.Snapshot on the FSM goroutine, robustSnapshot.Persist on raft's snapshot
//                  goroutine).
// phase "restore": the same minus long-polls and the two pages that read the irc store, while
//                  raft restores the FSM from the latest snapshot (FSM.Restore -> ReplaceState ->
//                  Unmarshal -> Apply).  Long-polls and irc-store pages are left out because a
//                  GetNext/GetLog on the closed LevelDB panics (use-after-Close, not a data race).

import (
	"bytes"
	"context"
	"encoding/json"
	"flag"
	"fmt"
	"io"
	"log"
	"math/rand"
	"net/http"
	"net/http/httptest"
	"os"
	"path/filepath"
	"sort"
	"strconv"
	"strings"
	"sync"
	"sync/atomic"
	"testing"
	"time"

	hclog "github.com/hashicorp/go-hclog"
	"github.com/hashicorp/raft"
	"github.com/robustirc/robustirc/internal/api"
	"github.com/robustirc/robustirc/internal/ircserver"
	"github.com/robustirc/robustirc/internal/outputstream"
	"github.com/robustirc/robustirc/internal/raftstore"
	"github.com/robustirc/robustirc/internal/robust"
)

const verifRacePassword = "verif-race-pw"

type verifRaceCounts struct {
	mu sync.Mutex
	m  map[string]*int64
}

func (c *verifRaceCounts) inc(n string) {
	c.mu.Lock()
	p, ok := c.m[n]
	if !ok {
		p = new(int64)
		c.m[n] = p
	}
	c.mu.Unlock()
	atomic.AddInt64(p, 1)
}

func (c *verifRaceCounts) dump(path string) {
	if path == "" {
		return
	}
	f, err := os.OpenFile(path, os.O_TRUNC|os.O_CREATE|os.O_WRONLY, 0644)
	if err != nil {
		return
	}
	defer f.Close()
	c.mu.Lock()
	defer c.mu.Unlock()
	var names []string
	for n := range c.m {
		names = append(names, n)
	}
	sort.Strings(names)
	for _, n := range names {
		fmt.Fprintf(f, "op system/%s %d\n", n, atomic.LoadInt64(c.m[n]))
	}
}

func verifRaceEnvInt(name string, def int64) int64 {
	if v, err := strconv.ParseInt(os.Getenv(name), 10, 64); err == nil {
		return v
	}
	return def
}

// REPLICA of the body of `case <-expireSessionsTimer:` in main() (robustirc.go), verbatim except
// for the log call.  The range expression on the line marked VERIF:EXPIRY-RANGE is re-extracted from
// the current robustirc.go by the python check on every run (so that a repaired main() is
// replicated as repaired); the text below is the pinned tree's.
func verifRaceExpiryReplicaOfMain(api *api.HTTP) {
	if node.State() != raft.Leader {
		return
	}

	for _, msg := range ircServer.ExpireSessions() { // VERIF:EXPIRY-RANGE
		if err := api.ApplyMessageWait(msg, 10*time.Second); err != nil {
			_ = err
		}
	}
}

type verifRaceClient struct {
	pub, priv string
	http      *http.Client
	cnt       *verifRaceCounts
}

func (c *verifRaceClient) do(method, url string, hdr map[string]string, body []byte, ctx context.Context) (int, []byte) {
	var rd io.Reader
	if body != nil {
		rd = bytes.NewReader(body)
	}
	req, err := http.NewRequest(method, url, rd)
	if err != nil {
		return 0, nil
	}
	if ctx != nil {
		req = req.WithContext(ctx)
	}
	for k, v := range hdr {
		req.Header.Set(k, v)
	}
	resp, err := c.http.Do(req)
	if err != nil {
		return 0, nil
	}
	defer resp.Body.Close()
	b, _ := io.ReadAll(resp.Body)
	return resp.StatusCode, b
}

func (c *verifRaceClient) private(method, path string, hdr map[string]string, body []byte) (int, []byte) {
	h := map[string]string{}
	for k, v := range hdr {
		h[k] = v
	}
	req, _ := http.NewRequest(method, c.priv+path, nil)
	req.SetBasicAuth("robustirc", verifRacePassword)
	h["Authorization"] = req.Header.Get("Authorization")
	return c.do(method, c.priv+path, h, body, nil)
}

type verifRaceSession struct {
	id, auth string
}

func (c *verifRaceClient) createSession() (verifRaceSession, bool) {
	code, b := c.do("POST", c.pub+"/robustirc/v1/session", nil, []byte{}, nil)
	c.cnt.inc("POST session")
	if code != 200 {
		return verifRaceSession{}, false
	}
	var r struct{ Sessionid, Sessionauth string }
	if json.Unmarshal(b, &r) != nil {
		return verifRaceSession{}, false
	}
	return verifRaceSession{r.Sessionid, r.Sessionauth}, true
}

// postFrom posts a line through the trusted bridge, so that the message carries |addr| as the
// client's remote address (X-Forwarded-For is honoured for configured X-Bridge-Auth values)
func (c *verifRaceClient) postFrom(s verifRaceSession, addr, line string, cmid uint64) int {
	body, _ := json.Marshal(map[string]interface{}{"Data": line, "ClientMessageId": cmid})
	code, _ := c.do("POST", c.pub+"/robustirc/v1/"+s.id+"/message", map[string]string{"X-Session-Auth": s.auth, "Content-Type": "application/json",
		"X-Bridge-Auth": "secret", "X-Forwarded-For": addr}, body, nil)
	c.cnt.inc("POST message")
	return code
}

func (c *verifRaceClient) post(s verifRaceSession, line string, cmid uint64) int {
	body, _ := json.Marshal(map[string]interface{}{"Data": line, "ClientMessageId": cmid})
	code, _ := c.do("POST", c.pub+"/robustirc/v1/"+s.id+"/message", map[string]string{"X-Session-Auth": s.auth, "Content-Type": "application/json"}, body, nil)
	c.cnt.inc("POST message")
	return code
}

func TestVerifRaceSystem(t *testing.T) {
	ms := verifRaceEnvInt("VERIF_RACE_MS", 6000)
	seed := verifRaceEnvInt("VERIF_SEED", 1)
	restores := int(verifRaceEnvInt("VERIF_RACE_RESTORES", 10))
	cnt := &verifRaceCounts{m: map[string]*int64{}}

	// ---- what main() does before it starts serving (single-threaded)
	dir := t.TempDir()
	log.SetOutput(io.Discard)
	flag.Set("log_dir", dir)
	flag.Set("stderrthreshold", "FATAL")
	*raftDir = dir
	*network = "verif.net"
	*useProtobuf = true
	robust.MessageOffset = 0

	cfg := raft.DefaultConfig()
	cfg.LocalID = "node0"
	cfg.HeartbeatTimeout = 50 * time.Millisecond
	cfg.ElectionTimeout = 50 * time.Millisecond
	cfg.LeaderLeaseTimeout = 50 * time.Millisecond
	cfg.CommitTimeout = 2 * time.Millisecond
	cfg.ProtocolVersion = 3
	cfg.SnapshotInterval = 24 * time.Hour
	cfg.SnapshotThreshold = 1 << 40
	cfg.TrailingLogs = 64
	cfg.Logger = hclog.NewNullLogger()
	_, trans := raft.NewInmemTransport("node0")

	logStore, err := raftstore.NewLevelDBStore(filepath.Join(dir, "raftlog"), true, true)
	if err != nil {
		t.Fatal(err)
	}
	ircStore, err = raftstore.NewLevelDBStore(filepath.Join(dir, "irclog"), true, true)
	if err != nil {
		t.Fatal(err)
	}
	fss, err := raft.NewFileSnapshotStore(dir, 2, io.Discard)
	if err != nil {
		t.Fatal(err)
	}
	ircServer = ircserver.NewIRCServer(*network, time.Now())
	outputStream, err = outputstream.NewOutputStream(dir)
	if err != nil {
		t.Fatal(err)
	}
	fsm := &FSM{
		store:             logStore,
		ircstore:          ircStore,
		lastSnapshotState: make(map[uint64][]byte),
		ReplaceState:      func(*ircserver.IRCServer, *raftstore.LevelDBStore, *outputstream.OutputStream) {},
	}
	if err := raft.BootstrapCluster(cfg, logStore, logStore, fss, trans, raft.Configuration{
		Servers: []raft.Server{{ID: cfg.LocalID, Address: "node0"}},
	}); err != nil {
		t.Fatal(err)
	}
	node, err = raft.NewRaft(cfg, fsm, logStore, logStore, fss, trans)
	if err != nil {
		t.Fatal(err)
	}
	h := api.NewHTTP(ircServer, node, ircStore, outputStream, nil, *network, verifRacePassword, dir, "node0", true, 3)
	fsm.ReplaceState = h.ReplaceState
	pub := httptest.NewServer(http.HandlerFunc(h.DispatchPublic))
	priv := httptest.NewServer(http.HandlerFunc(h.DispatchPrivate))
	defer pub.Close()
	defer priv.Close()
	// ---- from here on other goroutines exist; the harness no longer touches the package-level state
	deadline := time.Now().Add(10 * time.Second)
	for node.State() != raft.Leader {
		if time.Now().After(deadline) {
			t.Fatal("single-node raft did not become leader")
		}
		time.Sleep(5 * time.Millisecond)
	}

	cl := &verifRaceClient{pub: pub.URL, priv: priv.URL, cnt: cnt,
		http: &http.Client{Transport: &http.Transport{MaxIdleConnsPerHost: 32}}}

	// network configuration: short throttling and expiry so that both paths are busy
	setConfig := func(rev int) bool {
		code, _ := cl.private("GET", "/config", nil, nil)
		cnt.inc("GET config")
		if code != 200 {
			return false
		}
		toml := "SessionExpiration = \"400ms\"\nPostMessageCooloff = \"4ms\"\nMaxSessions = 200\n[TrustedBridges]\n\"secret\" = \"bridge\"\n[[IRC.Operators]]\nName = \"verifop\"\nPassword = \"verifpw\"\n"
		code, _ = cl.private("POST", "/config", map[string]string{"X-RobustIRC-Config-Revision": strconv.Itoa(rev)}, []byte(toml))
		cnt.inc("POST config")
		return code == 200
	}
	if !setConfig(0) {
		t.Fatal("could not set the network configuration")
	}

	var stop int32
	var phase int32 // 0 = serve, 1 = restore
	// requests that must not overlap a restore (they would use the closed LevelDBs: a panic, not a
	// race) hold phaseMu.RLock while in flight; the switch to the restore phase takes phaseMu.Lock
	var phaseMu sync.RWMutex
	serveOnly := func(f func()) bool {
		phaseMu.RLock()
		defer phaseMu.RUnlock()
		if atomic.LoadInt32(&phase) != 0 {
			return false
		}
		f()
		return true
	}
	var wg sync.WaitGroup
	spawn := func(k int64, f func(rng *rand.Rand)) {
		wg.Add(1)
		go func() {
			defer wg.Done()
			rng := rand.New(rand.NewSource(seed + k))
			for atomic.LoadInt32(&stop) == 0 {
				f(rng)
			}
		}()
	}

	// shared sessions: every session is used by two posters and one long-poller
	const nSessions = 3
	var smu sync.Mutex
	sessions := make([]verifRaceSession, nSessions)
	getS := func(k int) verifRaceSession { smu.Lock(); defer smu.Unlock(); return sessions[k] }
	renew := func(k int, old verifRaceSession) {
		smu.Lock()
		defer smu.Unlock()
		if sessions[k] != old {
			return
		}
		if s, ok := cl.createSession(); ok {
			sessions[k] = s
			cl.post(s, fmt.Sprintf("NICK v%d", k), uint64(rand.Int63()))
			cl.post(s, "USER v 0 * :verif", uint64(rand.Int63()))
			cl.post(s, "JOIN #race", uint64(rand.Int63()))
		}
	}
	for k := 0; k < nSessions; k++ {
		renew(k, verifRaceSession{})
	}
	chans := []string{"#race", "#b", "#c"}
	for p := 0; p < 2*nSessions; p++ {
		k := p % nSessions
		spawn(int64(10+p), func(rng *rand.Rand) {
			s := getS(k)
			var line string
			switch rng.Intn(8) {
			case 0:
				line = "JOIN " + chans[rng.Intn(3)]
			case 1:
				line = "PART " + chans[rng.Intn(3)]
			case 2:
				line = fmt.Sprintf("NICK v%dx%d", k, rng.Intn(5))
			case 3:
				line = "TOPIC #race :t" + strconv.Itoa(rng.Intn(9))
			case 4:
				line = "PING keepalive"
			default:
				line = "PRIVMSG #race :hello " + strconv.Itoa(rng.Intn(1000))
			}
			if code := cl.post(s, line, uint64(rng.Int63())); code == 404 {
				renew(k, s) // expired by the sweep
			}
		})
	}
	// long-polls (phase serve only)
	for p := 0; p < nSessions; p++ {
		k := p
		spawn(int64(30+p), func(rng *rand.Rand) {
			if !serveOnly(func() {
				s := getS(k)
				ctx, cancel := context.WithTimeout(context.Background(), time.Duration(5+rng.Intn(40))*time.Millisecond)
				defer cancel()
				cl.do("GET", cl.pub+"/robustirc/v1/"+s.id+"/messages?lastseen=0.0", map[string]string{"X-Session-Auth": s.auth, "X-Bridge-Auth": "secret"}, nil, ctx)
				cnt.inc("GET messages (long-poll, cancelled by timeout)")
			}) {
				time.Sleep(2 * time.Millisecond)
			}
		})
	}
	// a client that starts its long-poll before it has a nickname and picks one afterwards (the
	// status page then resolves the nickname through GetMessagesStats.NickWithFallback)
	lateNick := func(rng *rand.Rand) {
		s, ok := cl.createSession()
		if !ok {
			time.Sleep(5 * time.Millisecond)
			return
		}
		ctx, cancel := context.WithTimeout(context.Background(), 120*time.Millisecond)
		done := make(chan struct{})
		go func() {
			defer close(done)
			cl.do("GET", cl.pub+"/robustirc/v1/"+s.id+"/messages?lastseen=0.0", map[string]string{"X-Session-Auth": s.auth}, nil, ctx)
		}()
		time.Sleep(10 * time.Millisecond)
		for n := 0; n < 6; n++ {
			cl.post(s, fmt.Sprintf("NICK late%dx%d", rng.Intn(1000), n), uint64(rng.Int63()))
			cl.private("GET", "/status/getmessage", nil, nil)
			cnt.inc("GET /status/getmessage")
		}
		cancel()
		<-done
		cnt.inc("GET messages (long-poll started before NICK)")
		code, _ := cl.do("DELETE", cl.pub+"/robustirc/v1/"+s.id, map[string]string{"X-Session-Auth": s.auth, "Content-Type": "application/json"}, []byte(`{"Quitmessage":"bye"}`), nil)
		_ = code
		cnt.inc("DELETE session")
	}
	for p := 0; p < 2; p++ {
		spawn(int64(35+p), func(rng *rand.Rand) {
			if !serveOnly(func() { lateNick(rng) }) {
				time.Sleep(2 * time.Millisecond)
			}
		})
	}
	// status pages, config reads, metrics
	for p := 0; p < 2; p++ {
		spawn(int64(40+p), func(rng *rand.Rand) {
			pages := []string{"/status", "/status/sessions", "/status/getmessage", "/status/state", "/config", "/metrics", "/metrics", "/leader",
				"/status/irclog", "/irclog?sessionid=" + getS(rng.Intn(nSessions)).id}
			pg := pages[rng.Intn(len(pages))]
			hdr := map[string]string{}
			if pg == "/status" && rng.Intn(2) == 0 {
				hdr["Accept"] = "application/json"
			}
			get := func() {
				cl.private("GET", pg, hdr, nil)
				if i := strings.Index(pg, "?"); i > 0 {
					pg = pg[:i]
				}
				cnt.inc("GET " + pg)
			}
			if strings.Contains(pg, "irclog") {
				serveOnly(get) // reads the irc store and the output stream, which a restore closes
			} else {
				get()
			}
		})
	}
	// a scraper without credentials now and then (DispatchPrivate's throttle counters)
	spawn(50, func(rng *rand.Rand) {
		cl.do("GET", cl.priv+"/status", nil, nil, nil)
		cnt.inc("GET /status (wrong password)")
		time.Sleep(20 * time.Millisecond)
	})
	// expiry sweep (REPLICA of main()'s loop body)
	spawn(51, func(rng *rand.Rand) {
		verifRaceExpiryReplicaOfMain(h)
		cnt.inc("expiry sweep (replica of main)")
		time.Sleep(15 * time.Millisecond)
	})
	// an IRC operator GLINEs users whose remote address is known: cmdGline is the only code that
	// modifies IRCServer.Config in place (Config.Banned[addr] = reason, under ConfigMu.Lock on the FSM
	// goroutine) instead of replacing it
	var opS verifRaceSession
	var victimSeq uint64
	spawn(53, func(rng *rand.Rand) {
		if opS.id == "" {
			s, ok := cl.createSession()
			if !ok {
				time.Sleep(5 * time.Millisecond)
				return
			}
			cl.postFrom(s, "10.9.9.9", "NICK verifoper", uint64(rng.Int63()))
			cl.postFrom(s, "10.9.9.9", "USER o 0 * :operator", uint64(rng.Int63()))
			cl.postFrom(s, "10.9.9.9", "OPER verifop verifpw", uint64(rng.Int63()))
			opS = s
			cnt.inc("OPER")
		}
		victimSeq++
		v, ok := cl.createSession()
		if !ok {
			time.Sleep(5 * time.Millisecond)
			return
		}
		addr := fmt.Sprintf("10.%d.%d.%d", victimSeq>>16&255, victimSeq>>8&255, victimSeq&255)
		nick := fmt.Sprintf("victim%d", victimSeq)
		cl.postFrom(v, addr, "NICK "+nick, uint64(rng.Int63()))
		cl.postFrom(v, addr, "USER v 0 * :victim", uint64(rng.Int63()))
		if code := cl.postFrom(opS, "10.9.9.9", "GLINE "+nick+" :verif gline", uint64(rng.Int63())); code == 404 {
			opS = verifRaceSession{} // the operator's session expired or did not survive a restore
			return
		}
		cnt.inc("GLINE (cmdGline: Config.Banned modified in place)")
	})
	// config readers: robustirc-editconfig / monitoring fetching the configuration
	for p := 0; p < 2; p++ {
		spawn(int64(54+p), func(rng *rand.Rand) {
			cl.private("GET", "/config", nil, nil)
			cnt.inc("GET /config")
			if rng.Intn(4) == 0 {
				cl.private("GET", "/status", nil, nil)
				cnt.inc("GET /status")
			}
		})
	}
	// config changes
	spawn(52, func(rng *rand.Rand) {
		code, _ := cl.private("GET", "/config", nil, nil)
		cnt.inc("GET config")
		_ = code
		time.Sleep(30 * time.Millisecond)
	})

	// ---- phase serve, with snapshots
	serveUntil := time.Now().Add(time.Duration(ms*2/3) * time.Millisecond)
	for time.Now().Before(serveUntil) {
		time.Sleep(60 * time.Millisecond)
		if err := node.Snapshot().Error(); err == nil {
			cnt.inc("raft snapshot (FSM.Snapshot + Persist)")
		}
	}
	// ---- phase restore
	func() {
		phaseMu.Lock() // waits for the in-flight serve-only requests
		defer phaseMu.Unlock()
		atomic.StoreInt32(&phase, 1)
	}()
	time.Sleep(20 * time.Millisecond)
	// more pressure on what a restore swaps: metrics scrapes (the gauge closures) and the sweep
	for p := 0; p < 2; p++ {
		spawn(int64(60+p), func(rng *rand.Rand) {
			cl.private("GET", "/metrics", nil, nil)
			cnt.inc("GET /metrics")
			verifRaceExpiryReplicaOfMain(h)
			cnt.inc("expiry sweep (replica of main)")
		})
	}
	restoreUntil := time.Now().Add(time.Duration(ms/3) * time.Millisecond)
	for r := 0; r < restores && (r < 2 || time.Now().Before(restoreUntil)); r++ {
		if err := node.Snapshot().Error(); err != nil {
			continue
		}
		cnt.inc("raft snapshot (FSM.Snapshot + Persist)")
		metas, err := fss.List()
		if err != nil || len(metas) == 0 {
			continue
		}
		meta, rc, err := fss.Open(metas[0].ID)
		if err != nil {
			continue
		}
		err = node.Restore(meta, rc, 20*time.Second)
		rc.Close()
		if err == nil {
			cnt.inc("raft restore (FSM.Restore)")
		} else {
			cnt.inc("raft restore failed: " + err.Error())
		}
		time.Sleep(60 * time.Millisecond)
	}
	atomic.StoreInt32(&stop, 1)
	wg.Wait()
	cnt.dump(os.Getenv("VERIF_OUT"))
	node.Shutdown().Error()
}
