(* C04 — exactly-once, in-order delivery when a client resumes with lastseen (M-RESUME, the
   repaired getMessages).  [reach STR sess ls0 st]: st is reached from a client that starts
   at resume point ls0 with any set of fresh nodes, by any interleaving of: a node applies the
   next batch of the common stream STR / compacts below the client's resume point / is
   created / evicts a cache entry; the client connects to any node with the id of the last
   message it received / disconnects at any moment (between or inside batches); the handler
   goroutine takes a step (GetNext at its linearisation point, a stale GetNext result under the
   weak contract of the unrepaired output stream, channel hand-over); the HTTP handler filters and
   writes the next message.  Safety formulation: completeness is stated at quiescence, scheduler
   fairness is not modelled. *)
From Coq Require Import NArith List.
From stdpp Require Import gmap.
From RV Require Import Out.OutSeq Out.Resume Out.ResumeProofs Out.ResumeCorollaries.
Import ListNotations.
Local Open Scope N_scope.

Theorem C04_exactly_once : forall (STR : list (N * batch)) (sess : N),
  wf_stream STR ->
  forall (ls0 : N * N) (st : rstate),
  reach STR sess ls0 st ->
  r_recv st = List.filter (interesting sess) (between ls0 (r_last st) (flat STR)).
Proof. exact exactly_once. Qed.
Print Assumptions C04_exactly_once.

Theorem C04_complete_at_quiescence : forall (STR : list (N * batch)) (sess : N),
  wf_stream STR ->
  forall (ls0 : N * N) (st : rstate) (k : nat) (nd : node) (pos : N) (res : N * N),
  reach STR sess ls0 st -> r_conn st = Some (k, HCall pos res) -> r_nodes st !! k = Some nd ->
  n_applied nd = length STR -> r_inflight st = [] -> handler_step st = None ->
  r_recv st = List.filter (interesting sess) (List.filter (fun m => ltb2 ls0 (mid m)) (flat STR)).
Proof. exact complete_at_quiescence. Qed.
Print Assumptions C04_complete_at_quiescence.

(* the fact that makes the open finding `ended-session-tail-not-served` precise: a reader whose
   handler has passed the last batch d addressed to the session (e.g. the batch of the message
   that ended the session) has everything; the real handler stops following once the session is
   gone, which the model only has as the disconnect step *)
Theorem C04_complete_once_passed : forall (STR : list (N * batch)) (sess : N),
  wf_stream STR ->
  forall (ls0 : N * N) (st : rstate) (k : nat) (pos : N) (res : N * N) (d : N),
  reach STR sess ls0 st -> r_conn st = Some (k, HCall pos res) -> r_inflight st = [] ->
  (forall m, List.In m (flat STR) -> interesting sess m = true -> o_id m <= d) -> d <= pos ->
  r_recv st = List.filter (interesting sess) (List.filter (fun m => ltb2 ls0 (mid m)) (flat STR)).
Proof. exact complete_once_passed. Qed.
Print Assumptions C04_complete_once_passed.

Theorem C04_stream_sorted : forall STR, wf_stream STR ->
  Sorted.StronglySorted (fun x y => lt2 (mid x) (mid y)) (flat STR).
Proof. exact flat_sorted. Qed.
Print Assumptions C04_stream_sorted.

(* reader-facing corollaries of C04_exactly_once, at EVERY reachable point of every schedule
   (not only at quiescence): strictly increasing ids, no id twice, nothing the session is not
   entitled to and nothing at or below the resume point it started from *)
Theorem C04_in_order : forall (STR : list (N * batch)) (sess : N), wf_stream STR ->
  forall (ls0 : N * N) (st : rstate), reach STR sess ls0 st ->
  Sorted.StronglySorted (fun x y => lt2 (mid x) (mid y)) (r_recv st).
Proof. exact recv_in_order. Qed.
Print Assumptions C04_in_order.

Theorem C04_no_duplicates : forall (STR : list (N * batch)) (sess : N), wf_stream STR ->
  forall (ls0 : N * N) (st : rstate), reach STR sess ls0 st ->
  List.NoDup (List.map mid (r_recv st)).
Proof. exact recv_no_duplicates. Qed.
Print Assumptions C04_no_duplicates.

Theorem C04_only_entitled : forall (STR : list (N * batch)) (sess : N), wf_stream STR ->
  forall (ls0 : N * N) (st : rstate), reach STR sess ls0 st ->
  forall m, List.In m (r_recv st) ->
  List.In m (flat STR) /\ interesting sess m = true /\ lt2 ls0 (mid m) /\ le2 (mid m) (r_last st).
Proof. exact recv_only_entitled. Qed.
Print Assumptions C04_only_entitled.
