(* Irc/Parse.v — gopkg.in/sorcix/irc.v2: Prefix, Message, ParseMessage, Message.Bytes,
   modelled function by function (index arithmetic kept as in the Go source). *)
From Coq Require Import List ZArith NArith Bool Arith.
From Coq Require Import Strings.String Strings.Ascii.
From RV Require Import Base.Text Irc.Str.
Import ListNotations.
Local Open Scope string_scope.

Record prefix := Prefix { p_name : string; p_user : string; p_host : string }.

Record imsg := IMsg { m_prefix : option prefix; m_cmd : string; m_params : list string }.

Definition trailing (m : imsg) : string := last (m_params m) EmptyString.

(* ParsePrefix *)
Definition parse_prefix (raw : string) : prefix :=
  let user := index_byte "!"%char raw in
  let host := index_byte "@"%char raw in
  match user, host with
  | Some u, Some h =>
      if Nat.ltb 0 u && Nat.ltb u h then
        Prefix (stake u raw) (stake (h - u - 1) (sdrop (S u) raw)) (sdrop (S h) raw)
      else if Nat.ltb 0 u then Prefix (stake u raw) (sdrop (S u) raw) EmptyString
      else if Nat.ltb 0 h then Prefix (stake h raw) EmptyString (sdrop (S h) raw)
      else Prefix raw EmptyString EmptyString
  | Some u, None =>
      if Nat.ltb 0 u then Prefix (stake u raw) (sdrop (S u) raw) EmptyString
      else Prefix raw EmptyString EmptyString
  | None, Some h =>
      if Nat.ltb 0 h then Prefix (stake h raw) EmptyString (sdrop (S h) raw)
      else Prefix raw EmptyString EmptyString
  | None, None => Prefix raw EmptyString EmptyString
  end.

(* Prefix.String *)
Definition prefix_string (p : prefix) : string :=
  p_name p ++ (if is_empty (p_user p) then EmptyString else "!" ++ p_user p)
           ++ (if is_empty (p_host p) then EmptyString else "@" ++ p_host p).

Definition split_space (s : string) : list string := split_on " "%char s.

(* ParseMessage; None = nil *)
Definition parse_message (raw0 : string) : option imsg :=
  let raw := trim_crlf raw0 in
  if Nat.ltb (slen raw) 2 then None else
  (* optional prefix: i = position after it *)
  let pre : option (option prefix * nat) :=
    match raw with
    | String ":"%char _ =>
        match index_byte " "%char raw with
        | Some i => if Nat.ltb i 2 then None else Some (Some (parse_prefix (stake (i - 1) (sdrop 1 raw))), S i)
        | None => None
        end
    | _ => Some (None, O)
    end in
  match pre with
  | None => None
  | Some (pfx, i) =>
      let rest := sdrop i raw in
      match index_byte " "%char rest with
      | None | Some O => Some (IMsg pfx (to_upper rest) [])
      | Some k =>
          (* j = i + k > i *)
          let cmd := to_upper (stake k rest) in
          let fromj := sdrop k rest in            (* raw[j:], begins with the space *)
          match sindex " :" fromj with
          | None => Some (IMsg pfx cmd (split_space (sdrop 1 fromj)))
          | Some idx =>
              (* middle params are raw[j+1 : j+idx] when idx > 1 *)
              let middle := if Nat.ltb 1 idx then split_space (stake (idx - 1) (sdrop 1 fromj)) else [] in
              Some (IMsg pfx cmd (middle ++ [sdrop (idx + 2) fromj]))
          end
      end
  end.

Definition needs_colon (t : string) : bool :=
  is_empty t || contains " " t || has_prefix ":" t.

(* Message.Bytes (before truncation) *)
Definition msg_bytes_full (m : imsg) : string :=
  (match m_prefix m with Some p => ":" ++ prefix_string p ++ " " | None => EmptyString end)
  ++ m_cmd m
  ++ (match m_params m with
      | [] => EmptyString
      | ps => (if Nat.ltb 1 (List.length ps) then " " ++ sjoin " " (removelast ps) else EmptyString)
              ++ " " ++ (let t := last ps EmptyString in if needs_colon t then ":" ++ t else t)
      end).

Definition max_length : nat := 510.
(* send(): string(trimPartialRune(msg.Bytes())) — Message.Bytes cuts after 510 bytes, send() removes the fragment of
   a UTF-8 sequence the cut may leave at the end *)
Definition msg_bytes (m : imsg) : string := trim_partial_rune (stake max_length (msg_bytes_full m)).
