(* IrcProofs/Outputs.v — facts about every output message of every handler, by a logical
   relation over the handler monad: whatever a handler does, each message it appends was rendered
   by Message.Bytes (hence at most 510 bytes), and reply numbers count up from 1. *)
From stdpp Require Import gmap.
From Coq Require Import Strings.String Strings.Ascii ZArith NArith Lia.
From RV Require Import Base.Text Irc.Str Irc.Parse Irc.State Irc.Monad Irc.Cmds Irc.SCmds Irc.Apply.
From RV Require IrcProofs.StrLemmas IrcProofs.Trim.
From RV Require Import IrcProofs.Top.
Local Open Scope string_scope.

Section Rel.
  (* a property of single output messages that every rendered message has *)
  Variable P : omsg -> Prop.
  Hypothesis P_emit : forall n rc m, P (OMsg n (msg_bytes m) rc).

  (* fields no handler writes: lastProcessed (set by applyRobustMessage only) and the network name *)
  Definition frame (sv sv' : server) : Prop :=
    sv_lastProcessed sv' = sv_lastProcessed sv /\ sv_netname sv' = sv_netname sv.
  Lemma frame_refl sv : frame sv sv. Proof. split; reflexivity. Qed.
  Lemma frame_trans a b c : frame a b -> frame b c -> frame a c.
  Proof. intros [H1 H2] [H3 H4]. split; congruence. Qed.

  Definition out_ok {A} (m : M A) : Prop :=
    forall sv r, Forall P (r_out r) ->
      match m sv r with Ok (_, sv', r') => Forall P (r_out r') /\ frame sv sv' | _ => True end.

  Lemma out_ok_ret {A} (a : A) : out_ok (retM a).
  Proof. intros sv r H. split; [exact H|apply frame_refl]. Qed.
  Lemma out_ok_bind {A B} (m : M A) (f : A -> M B) : out_ok m -> (forall a, out_ok (f a)) -> out_ok (bindM m f).
  Proof.
    intros Hm Hf sv r H. unfold bindM. specialize (Hm sv r H).
    destruct (m sv r) as [[[a sv'] r']|?|?]; [|exact Logic.I|exact Logic.I]. destruct Hm as [Hp Hfr].
    specialize (Hf a sv' r' Hp). destruct (f a sv' r') as [[[b sv''] r'']|?|?]; [|exact Logic.I|exact Logic.I].
    destruct Hf as [Hp' Hfr']. split; [exact Hp'|eapply frame_trans; eauto].
  Qed.
  Lemma out_ok_panic {A} s : out_ok (@panicM A s).
  Proof. intros sv r H. exact Logic.I. Qed.
  Lemma out_ok_gap {A} s : out_ok (@gapM A s).
  Proof. intros sv r H. exact Logic.I. Qed.
  Lemma out_ok_getS : out_ok getS. Proof. intros sv r H. split; [exact H|apply frame_refl]. Qed.
  Lemma out_ok_modS f : (forall sv, frame sv (f sv)) -> out_ok (modS f).
  Proof. intros Hf sv r H. split; [exact H|apply Hf]. Qed.
  Lemma out_ok_liftR {A} (x : res A) : out_ok (liftR x).
  Proof. intros sv r H. unfold liftR. destruct x; [split; [exact H|apply frame_refl]|exact Logic.I|exact Logic.I]. Qed.
  Lemma out_ok_replyCount : out_ok replyCount. Proof. intros sv r H. split; [exact H|apply frame_refl]. Qed.
  Lemma out_ok_emit rc m : out_ok (emit rc m).
  Proof. intros sv r H. unfold emit. cbn. split; [constructor; [apply P_emit|exact H]|apply frame_refl]. Qed.
  Lemma out_ok_whenM b m : out_ok m -> out_ok (whenM b m).
  Proof. intros Hm. destruct b; [exact Hm|apply out_ok_ret]. Qed.
  Lemma out_ok_forM {A} (l : list A) (f : A -> M unit) : (forall x, out_ok (f x)) -> out_ok (forM l f).
  Proof. intros Hf. induction l as [|x l IH]; cbn [forM]; [apply out_ok_ret|]. apply out_ok_bind; [apply Hf|intros _; exact IH]. Qed.
End Rel.

(* the syntactic closure: any term built from the primitives, binds, ifs and matches *)
Ltac out_ok_step :=
  lazymatch goal with
  | |- out_ok _ (bindM _ _) => apply out_ok_bind; [|intros ?]
  | |- out_ok _ (retM _) => apply out_ok_ret
  | |- out_ok _ (panicM _) => apply out_ok_panic
  | |- out_ok _ (gapM _) => apply out_ok_gap
  | |- out_ok _ getS => apply out_ok_getS
  | |- out_ok _ (modS _) => apply out_ok_modS; intros ?; split; reflexivity
  | |- out_ok _ (liftR _) => apply out_ok_liftR
  | |- out_ok _ replyCount => apply out_ok_replyCount
  | |- out_ok _ (emit _ _) => apply out_ok_emit; assumption
  | |- out_ok _ (whenM _ _) => apply out_ok_whenM
  | |- out_ok _ (forM _ _) => apply out_ok_forM; intros ?
  | |- out_ok _ (if ?b then _ else _) => destruct b
  | |- out_ok _ (match ?x with _ => _ end) => destruct x
  | |- out_ok _ (let _ := _ in _) => cbv zeta
  end.

Section Handlers.
  Variable P : omsg -> Prop.
  Hypothesis P_emit : forall n rc m, P (OMsg n (msg_bytes m) rc).

  Ltac unf := unfold reply_num, reply_svc, sessM, updSess, updChan, chanM, nickM, cfgM, param, prefix_name, msg_prefix,
                chanop_of, captcha_url_check, add_member, leave_channel, maybe_delete_channel,
                remove_nick_everywhere, rename_in_channels, change_nick, create_session.
  Ltac go := repeat (first [ out_ok_step | assumption | progress unf ]).

  Lemma ok_delete_session k : out_ok P (delete_session k).
  Proof. unfold delete_session. unf. go. Qed.
  Lemma ok_verify_captcha e k c : out_ok P (verify_captcha e k c).
  Proof. unfold verify_captcha. unf. go. Qed.
  Lemma ok_cmd_motd k m : out_ok P (cmd_motd k m).
  Proof. unfold cmd_motd. unf. go. Qed.
  Lemma ok_cmd_oper k m : out_ok P (cmd_oper k m).
  Proof. unfold cmd_oper. unf. go. Qed.
  Lemma ok_maybe_login e k m : out_ok P (maybe_login e k m).
  Proof.
    unfold maybe_login. unf. go; try apply ok_verify_captcha; try apply ok_cmd_oper; try apply ok_cmd_motd.
  Qed.
  Lemma ok_cmd_nick e k m : out_ok P (cmd_nick e k m).
  Proof. unfold cmd_nick. unf. go; try apply ok_maybe_login. Qed.
  Lemma ok_cmd_user e k m : out_ok P (cmd_user e k m).
  Proof. unfold cmd_user. unf. go; try apply ok_maybe_login. Qed.
  Lemma ok_cmd_pass e k m : out_ok P (cmd_pass e k m).
  Proof. unfold cmd_pass. unf. go; try apply ok_maybe_login. Qed.
  Lemma ok_mode_step k lc ch op md q : out_ok P (cmd_mode_chan_step k lc ch op md q).
  Proof. unfold cmd_mode_chan_step. unf. go. Qed.
  Lemma ok_mode_loop k lc ch op mds q : out_ok P (cmd_mode_chan_loop k lc ch op mds q).
  Proof.
    revert q. induction mds as [|md mds IH]; intros q; cbn [cmd_mode_chan_loop]; [apply out_ok_ret|].
    apply out_ok_bind; [apply ok_mode_step|]. intros st. destruct (fst st); [apply out_ok_ret|apply IH].
  Qed.
  Lemma ok_cmd_mode k m : out_ok P (cmd_mode k m).
  Proof. unfold cmd_mode. unf. go; try apply ok_mode_loop. Qed.
  Lemma ok_cmd_topic k m : out_ok P (cmd_topic k m).
  Proof. unfold cmd_topic. unf. go. Qed.
  Lemma ok_cmd_names k m : out_ok P (cmd_names k m).
  Proof. unfold cmd_names. unf. go. Qed.
  Lemma ok_join_one e k ch key : out_ok P (join_one e k ch key).
  Proof. unfold join_one. unf. go; try apply ok_verify_captcha; try apply ok_cmd_mode; try apply ok_cmd_topic; try apply ok_cmd_names. Qed.
  Lemma ok_cmd_join e k m : out_ok P (cmd_join e k m).
  Proof. unfold cmd_join. unf. go; try apply ok_join_one. Qed.
  Lemma ok_cmd_part k m : out_ok P (cmd_part k m).
  Proof. unfold cmd_part. unf. go. Qed.
  Lemma ok_cmd_kick k m : out_ok P (cmd_kick k m).
  Proof. unfold cmd_kick. unf. go. Qed.
  Lemma ok_cmd_invite k m : out_ok P (cmd_invite k m).
  Proof. unfold cmd_invite. unf. go. Qed.
  Lemma ok_cmd_privmsg k m : out_ok P (cmd_privmsg k m).
  Proof. unfold cmd_privmsg. unf. go. Qed.
  Lemma ok_cmd_service_alias k m : out_ok P (cmd_service_alias k m).
  Proof. unfold cmd_service_alias. unf. go; try apply ok_cmd_privmsg. Qed.
  Lemma ok_cmd_who k m : out_ok P (cmd_who k m).
  Proof. unfold cmd_who. unf. go. Qed.
  Lemma ok_cmd_whois k m : out_ok P (cmd_whois k m).
  Proof. unfold cmd_whois. unf. go. Qed.
  Lemma ok_cmd_list k m : out_ok P (cmd_list k m).
  Proof. unfold cmd_list. unf. go. Qed.
  Lemma ok_cmd_away k m : out_ok P (cmd_away k m).
  Proof. unfold cmd_away. unf. go. Qed.
  Lemma ok_cmd_ison k m : out_ok P (cmd_ison k m).
  Proof. unfold cmd_ison. unf. go. Qed.
  Lemma ok_cmd_userhost k m : out_ok P (cmd_userhost k m).
  Proof. unfold cmd_userhost. unf. go. Qed.
  Lemma ok_cmd_knock k m : out_ok P (cmd_knock k m).
  Proof. unfold cmd_knock. unf. go. Qed.
  Lemma ok_cmd_ping k m : out_ok P (cmd_ping k m).
  Proof. unfold cmd_ping. unf. go. Qed.
  Lemma ok_cmd_quit k m : out_ok P (cmd_quit k m).
  Proof. unfold cmd_quit. unf. go; try apply ok_delete_session. Qed.
  Lemma ok_cmd_kill k m : out_ok P (cmd_kill k m).
  Proof. unfold cmd_kill. unf. go; try apply ok_delete_session. Qed.
  Lemma ok_cmd_gline k m : out_ok P (cmd_gline k m).
  Proof. unfold cmd_gline. unf. go; try apply ok_cmd_kill. Qed.
  (* services *)
  Lemma ok_burst_one sv t : out_ok P (burst_one sv t).
  Proof. unfold burst_one. unf. go. Qed.
  Lemma ok_cmd_server k m : out_ok P (cmd_server k m).
  Proof. unfold cmd_server. unf. go; try apply ok_burst_one. Qed.
  Lemma ok_cmd_server_nick k m : out_ok P (cmd_server_nick k m).
  Proof. unfold cmd_server_nick. unf. go. Qed.
  Lemma ok_quit_pseudo tk m : out_ok P (quit_pseudo tk m).
  Proof. unfold quit_pseudo. unf. go; try apply ok_delete_session. Qed.
  Lemma ok_cmd_server_quit k m : out_ok P (cmd_server_quit k m).
  Proof. unfold cmd_server_quit. unf. go; try apply ok_delete_session; try apply ok_quit_pseudo. Qed.
  Lemma ok_cmd_server_kill k m : out_ok P (cmd_server_kill k m).
  Proof. unfold cmd_server_kill. unf. go; try apply ok_delete_session. Qed.
  Lemma ok_cmd_server_join k m : out_ok P (cmd_server_join k m).
  Proof. unfold cmd_server_join. unf. go. Qed.
  Lemma ok_cmd_server_part k m : out_ok P (cmd_server_part k m).
  Proof. unfold cmd_server_part. unf. go. Qed.
  Lemma ok_cmd_server_kick k m : out_ok P (cmd_server_kick k m).
  Proof. unfold cmd_server_kick. unf. go. Qed.
  Lemma ok_cmd_server_svsjoin k m : out_ok P (cmd_server_svsjoin k m).
  Proof. unfold cmd_server_svsjoin. unf. go; try apply ok_cmd_topic; try apply ok_cmd_names. Qed.
  Lemma ok_cmd_server_svspart k m : out_ok P (cmd_server_svspart k m).
  Proof. unfold cmd_server_svspart. unf. go. Qed.
  Lemma ok_cmd_server_svsnick k m : out_ok P (cmd_server_svsnick k m).
  Proof. unfold cmd_server_svsnick. unf. go. Qed.
  Lemma ok_cmd_server_mode k m : out_ok P (cmd_server_mode k m).
  Proof. unfold cmd_server_mode. unf. go. Qed.
  Lemma ok_cmd_server_topic k m : out_ok P (cmd_server_topic k m).
  Proof. unfold cmd_server_topic. unf. go. Qed.
  Lemma ok_cmd_server_invite k m : out_ok P (cmd_server_invite k m).
  Proof. unfold cmd_server_invite. unf. go. Qed.
  Lemma ok_cmd_server_privmsg k m : out_ok P (cmd_server_privmsg k m).
  Proof. unfold cmd_server_privmsg. unf. go. Qed.
  Lemma ok_cmd_server_svshold k m : out_ok P (cmd_server_svshold k m).
  Proof. unfold cmd_server_svshold. unf. go. Qed.
  Lemma ok_cmd_server_svsmode k m : out_ok P (cmd_server_svsmode k m).
  Proof. unfold cmd_server_svsmode. unf. go. Qed.

  Lemma ok_dispatch name minp (f : handler) e k m : In (name, (minp, f)) commands -> out_ok P (f e k m).
  Proof.
    intros Hin. unfold commands in Hin.
    repeat (destruct Hin as [Hin|Hin]; [injection Hin as <- <- <-|]); try contradiction; unfold noenv;
      first [ apply ok_cmd_service_alias | apply ok_cmd_away | apply ok_cmd_gline | apply ok_cmd_invite | apply ok_cmd_ison
            | apply ok_cmd_join | apply ok_cmd_kick | apply ok_cmd_kill | apply ok_cmd_knock | apply ok_cmd_list | apply ok_cmd_mode
            | apply ok_cmd_motd | apply ok_cmd_names | apply ok_cmd_nick | apply ok_cmd_oper | apply ok_cmd_part | apply ok_cmd_pass
            | apply ok_cmd_ping | apply ok_cmd_privmsg | apply ok_cmd_quit | apply ok_cmd_topic | apply ok_cmd_user
            | apply ok_cmd_userhost | apply ok_cmd_who | apply ok_cmd_whois | apply ok_cmd_server
            | apply ok_cmd_server_invite | apply ok_cmd_server_join | apply ok_cmd_server_kick | apply ok_cmd_server_kill
            | apply ok_cmd_server_mode | apply ok_cmd_server_nick | apply ok_cmd_server_part | apply ok_cmd_server_privmsg
            | apply ok_cmd_server_quit | apply ok_cmd_server_svshold | apply ok_cmd_server_svsjoin | apply ok_cmd_server_svsmode
            | apply ok_cmd_server_svsnick | apply ok_cmd_server_svspart | apply ok_cmd_server_topic ].
  Qed.

  Lemma assoc_str_In' {A} k (l : list (string * A)) v : assoc_str k l = Some v -> In (k, v) l.
  Proof.
    induction l as [|[k' v'] l IH]; cbn [assoc_str]; [discriminate|].
    destruct (String.eqb k k') eqn:E.
    - apply String.eqb_eq in E. subst k'. intros [= <-]. now left.
    - intros H. right. now apply IH.
  Qed.

  Lemma ok_dispatch_lookup e k m name :
    out_ok P (match assoc_str name commands with
              | None => reply_num k "421" ["x"; "y"; "Unknown command"]
              | Some (minp, f) => if Nat.ltb (nparams m) minp then reply_num k "461" ["x"; "y"; "z"] else f e k m
              end) -> True.
  Proof. trivial. Qed.

  Lemma ok_process_message e k ra ircmsg : out_ok P (process_message e k ra ircmsg).
  Proof.
    unfold process_message. apply out_ok_bind; [unf; go|]. intros s.
    destruct ircmsg as [m|]; [|unf; go]. cbv zeta.
    apply out_ok_bind.
    { destruct (_ && _); [|apply out_ok_ret]. unf. go; apply ok_delete_session. }
    intros banned. destruct banned; [apply out_ok_ret|].
    apply out_ok_bind; [unf; go|]. intros s1.
    destruct (_ && _ && _).
    { unf. go; apply ok_delete_session. }
    destruct (assoc_str _ commands) as [[minp f]|] eqn:Hc; [|unf; go].
    destruct (Nat.ltb _ _); [unf; go|].
    eapply ok_dispatch. eapply assoc_str_In'. exact Hc.
  Qed.

  (* every message an entry produces satisfies P *)
  Theorem outputs_of_entry e sv en sv' out :
    apply_entry e sv en = OOk sv' out -> Forall P out.
  Proof.
    destruct en; cbn [apply_entry].
    - unfold create_session, bindM, getS, retM, modS. destruct (_ && _); cbn; intros [= _ <-] || intros H; try constructor; try discriminate.
    - destruct (sv_sessions sv !! _); [|intros [= _ <-]; constructor].
      unfold run_handler. pose proof (ok_process_message e (session, 0%N) "" (parse_message ("QUIT :" ++ quitmsg)) sv (RCtx id [])) as H.
      destruct (process_message _ _ _ _ sv _) as [[[[] sv1] r1]|?|?]; try discriminate.
      intros [= _ <-]. apply Forall_rev. apply H. constructor.
    - destruct (is_retry _ _ sv); [intros [= _ <-]; constructor|].
      destruct (update_last_cmid _ _ _ _ sv) as [sv1|]; [|discriminate].
      unfold run_handler. pose proof (ok_process_message e (session, 0%N) remoteAddr (parse_message data) sv1 (RCtx id [])) as H.
      destruct (process_message _ _ _ _ sv1 _) as [[[[] sv2] r2]|?|?]; try discriminate.
      intros [= _ <-]. apply Forall_rev. apply H. constructor.
    - destruct (update_last_cmid _ _ _ _ sv); [intros [= _ <-]; constructor|discriminate].
    - destruct (config_in_force _ _ _); intros [= _ <-]; constructor.
  Qed.
End Handlers.

(* ---- instances --------------------------------------------------------------------------------------- *)
Lemma slen_stake n s : slen (stake n s) <= n.
Proof.
  revert s. induction n as [|n IH]; intros s; cbn [stake]; [cbn; lia|].
  destruct s as [|c r]; [cbn; lia|]. unfold slen in *. cbn [String.length]. specialize (IH r). lia.
Qed.

(* ToValidUTF8 only drops bytes *)
Lemma slen_to_valid_utf8_aux k s : slen (to_valid_utf8_aux k s) <= slen s.
Proof.
  revert k. induction s as [|c r IH]; intros k; cbn [to_valid_utf8_aux]; [lia|].
  unfold slen in *. destruct k as [|k].
  - destruct (lead_info (byte_of c)) as [[[n lo] hi]|]; [destruct (conts_ok n lo hi r)|]; cbn [String.length];
      first [specialize (IH n); lia | specialize (IH 0); lia].
  - cbn [String.length]. specialize (IH k). lia.
Qed.
Lemma slen_cap_user u : slen (cap_user u) <= max_user_len.
Proof.
  unfold cap_user. destruct (Nat.ltb max_user_len (slen u)) eqn:E.
  - unfold to_valid_utf8. pose proof (slen_to_valid_utf8_aux 0 (stake max_user_len u)). pose proof (slen_stake max_user_len u). lia.
  - apply PeanoNat.Nat.ltb_ge in E. exact E.
Qed.

Definition short (o : omsg) : Prop := slen (o_data o) <= max_length.   (* max_length = 510 *)
Definition rendered (o : omsg) : Prop := exists m, o_data o = msg_bytes m.

Theorem outputs_short e sv en sv' out : apply_entry e sv en = OOk sv' out -> Forall short out.
Proof.
  apply outputs_of_entry. intros n rc m. unfold short, msg_bytes. cbn [o_data].
  eapply Nat.le_trans; [apply RV.IrcProofs.Trim.slen_trim_partial_rune|apply slen_stake].
Qed.

Theorem outputs_rendered e sv en sv' out : apply_entry e sv en = OOk sv' out -> Forall rendered out.
Proof. apply outputs_of_entry. intros n rc m. now exists m. Qed.

(* a rendered message always carries its command word: after the optional ":prefix " comes the command *)
Lemma msg_bytes_full_shape m :
  exists rest, msg_bytes_full m =
    (match m_prefix m with Some p => ":" ++ prefix_string p ++ " " | None => "" end) ++ m_cmd m ++ rest.
Proof.
  unfold msg_bytes_full. eexists. reflexivity.
Qed.

(* ---- lastProcessed is only ever set by applyRobustMessage --------------------------------------------- *)
Lemma maybe_delete_session_lp k sv : sv_lastProcessed (maybe_delete_session k sv) = sv_lastProcessed sv.
Proof.
  unfold maybe_delete_session. destruct (sv_sessions sv !! k) as [s|]; [|reflexivity].
  destruct (s_server s || s_operator s), (s_deleted s); reflexivity.
Qed.

Lemma update_last_cmid_lp k ts d c sv sv' :
  update_last_cmid k ts d c sv = Some sv' -> sv_lastProcessed sv' = sv_lastProcessed sv.
Proof. unfold update_last_cmid. destruct (sv_sessions sv !! k); [intros [= <-]; reflexivity|discriminate]. Qed.

Definition entry_id (en : entry) : N :=
  match en with ECreate id _ _ | EDelete id _ _ _ | EMessage id _ _ _ _ _ | EDeath id _ _ _ _ | EConfig id _ _ _ => id end.

Theorem entry_lastProcessed e sv en sv' :
  entry_result (apply_entry e sv en) = Some sv' ->
  sv_lastProcessed sv' = sv_lastProcessed sv \/ sv_lastProcessed sv' = (entry_id en, 0%N) \/
  match en with EMessage _ _ session _ _ _ => sv_lastProcessed sv' = (session, 0%N) | _ => False end.
Proof.
  pose (P := fun _ : omsg => True).
  assert (PE : forall n rc m, P (OMsg n (msg_bytes m) rc)) by (intros; exact Logic.I).
  destruct en; cbn [apply_entry entry_id].
  - unfold create_session, bindM, getS, retM, modS. destruct (_ && _); cbn; intros [= <-]; now left.
  - destruct (sv_sessions sv !! _); [|cbn; intros [= <-]; now left].
    unfold run_handler. pose proof (ok_process_message P PE e (session, 0%N) "" (parse_message ("QUIT :" ++ quitmsg)) sv (RCtx id [])) as H.
    destruct (process_message _ _ _ _ sv _) as [[[[] sv1] r1]|?|?]; cbn; try discriminate.
    intros [= <-]. right. left. rewrite maybe_delete_session_lp. reflexivity.
  - destruct (is_retry _ _ sv); [cbn; intros [= <-]; now left|].
    destruct (update_last_cmid _ _ _ _ sv) as [sv1|] eqn:Hu; [|cbn; intros [= <-]; now left].
    unfold run_handler. pose proof (ok_process_message P PE e (session, 0%N) remoteAddr (parse_message data) sv1 (RCtx id [])) as H.
    destruct (process_message _ _ _ _ sv1 _) as [[[[] sv2] r2]|?|?]; cbn; try discriminate.
    intros [= <-]. right. right. rewrite maybe_delete_session_lp. reflexivity.
  - destruct (update_last_cmid _ _ _ _ sv) as [sv1|] eqn:Hu; cbn; intros [= <-]; left; [eapply update_last_cmid_lp; eauto|reflexivity].
  - destruct (config_in_force _ _ _); cbn; intros [= <-]; now left.
Qed.
