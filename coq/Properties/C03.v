(* C03 — state serialization is complete: save + load is invisible.
   Proved over the model of Marshal followed by Unmarshal (Irc/Apply.v reload), for every state reached by a
   well-formed history with positive timestamps (IrcProofs/Reload.v reachable):
   - every session is reproduced field by field, the nick index is rebuilt to the same index, channels, nickname
     holds, network name, lastProcessed and the whole configuration — WhitelistedOrigins included, which is part of
     the snapshot since the repair of snapshot.proto — are unchanged, the consistency invariant is preserved;
   - the only component that save + load changes is the representation of the list of services links
     (sv_serverSessions): it comes back sorted, duplicate-free and without the ids of links that have quit (D13: the
     implementation never removes an id from i.serverSessions); reload sv = normal sv, and reload sv = sv when the
     list is sorted and has no stale id;
   - the state machine cannot see that difference: for every continuation both instances produce the same outcomes
     and the same messages, with the same recipients up to stale ids (literally the same when there is none); under
     raft's id discipline a stale id never names a session again, so every live session gets exactly the same
     output; save + load commutes with every continuation.
   No open finding. *)
From stdpp Require Import gmap.
From Coq Require Import Strings.String List ZArith.
From RV Require Import Irc.Str Irc.State Irc.Cmds Irc.Apply.
From Coq Require Import NArith Sorting.Sorted.
From RV Require Import IrcProofs.Inv IrcProofs.Top IrcProofs.Misc IrcProofs.Examples.
From RV Require Import IrcProofs.ReloadInv IrcProofs.ReloadSim IrcProofs.Reload IrcProofs.ReloadLive.

Theorem C03_index_rebuilt : forall sv, EInv sv -> forall n, sv_nicks (reload sv) !! n = sv_nicks sv !! n.
Proof. exact reload_nicks. Qed.
Print Assumptions C03_index_rebuilt.

Theorem C03_sessions : forall sv k, sv_sessions (reload sv) !! k = reload_session <$> (sv_sessions sv !! k).
Proof. exact reload_sessions. Qed.
Print Assumptions C03_sessions.

Theorem C03_session_exact : forall s,
  (0 < s_created s)%Z -> s_lastNonPing s <> None -> s_deleted s = false -> reload_session s = s.
Proof. exact reload_session_id. Qed.
Print Assumptions C03_session_exact.

Theorem C03_invariant_preserved : forall sv, EInv sv -> EInv (reload sv).
Proof. exact reload_EInv. Qed.
Print Assumptions C03_invariant_preserved.

Theorem C03_whitelisted_origins_kept : forall sv,
  g_whitelistedOrigins (sv_config (reload sv)) = g_whitelistedOrigins (sv_config sv).
Proof. exact reload_keeps_whitelisted_origins. Qed.
Print Assumptions C03_whitelisted_origins_kept.

Theorem C03_config_kept : forall sv, sv_config (reload sv) = sv_config sv.
Proof. exact reload_config. Qed.
Print Assumptions C03_config_kept.

(* (1) the side conditions of C03_session_exact hold of every session of every reachable state *)
Theorem C03_reachable_sessions_exact : forall e net sv, reachable e net sv ->
  forall (k : N * N) s, sv_sessions sv !! k = Some s ->
    (0 < s_created s)%Z /\ s_lastNonPing s <> None /\ s_deleted s = false.
Proof. exact reachable_sessions. Qed.
Print Assumptions C03_reachable_sessions_exact.

Theorem C03_reachable_session_reproduced : forall e net sv, reachable e net sv ->
  forall (k : N * N) s, sv_sessions sv !! k = Some s -> reload_session s = s.
Proof. exact reachable_reload_session. Qed.
Print Assumptions C03_reachable_session_reproduced.

Theorem C03_raft_timestamps_suffice : forall es hi,
  history_ids_ok hi es -> Forall (fun en => (0 <= entry_un en)%Z) es -> Forall ts_pos es.
Proof. intros es hi. exact (history_ids_ts_pos es hi). Qed.
Print Assumptions C03_raft_timestamps_suffice.

(* (2) save + load is the identity up to the representation of the list of services links *)
Theorem C03_fixpoint : forall e net sv, reachable e net sv -> reload sv = normal sv.
Proof. exact reload_fixpoint. Qed.
Print Assumptions C03_fixpoint.

Theorem C03_rest_unchanged : forall e net sv, reachable e net sv ->
  sv_sessions (reload sv) = sv_sessions sv /\ sv_nicks (reload sv) = sv_nicks sv /\ sv_channels (reload sv) = sv_channels sv /\
  sv_svsholds (reload sv) = sv_svsholds sv /\ sv_netname (reload sv) = sv_netname sv /\
  sv_lastProcessed (reload sv) = sv_lastProcessed sv /\ sv_config (reload sv) = sv_config sv.
Proof. exact reload_rest_identity. Qed.
Print Assumptions C03_rest_unchanged.

Theorem C03_identity : forall e net sv, reachable e net sv ->
  StronglySorted N.lt (sv_serverSessions sv) -> (forall x, In x (sv_serverSessions sv) -> is_server_id sv x = true) ->
  reload sv = sv.
Proof. exact reload_identity. Qed.
Print Assumptions C03_identity.

Theorem C03_idempotent : forall e net sv, reachable e net sv -> reload (reload sv) = reload sv.
Proof. exact reload_idempotent. Qed.
Print Assumptions C03_idempotent.

Theorem C03_serverSessions_unchanged_iff : forall sv,
  sv_serverSessions (normal sv) = sv_serverSessions sv <->
  StronglySorted N.lt (sv_serverSessions sv) /\ forall x, In x (sv_serverSessions sv) -> is_server_id sv x = true.
Proof. exact normal_serverSessions_id_iff. Qed.
Print Assumptions C03_serverSessions_unchanged_iff.

Theorem C03_drops_exactly_stale_ids : forall e net sv, reachable e net sv ->
  forall x, In x (sv_serverSessions (reload sv)) <-> In x (sv_serverSessions sv) /\ stale sv x = false.
Proof. exact reload_drops_exactly_stale. Qed.
Print Assumptions C03_drops_exactly_stale_ids.

(* not invariants of the implementation (D13; registration order) *)
Theorem C03_refuted_serverSessions_stale :
  exists e net sv, reachable e net sv /\ sv_serverSessions (reload sv) <> sv_serverSessions sv /\ ~ no_stale sv.
Proof. exact serverSessions_stale_refuted. Qed.
Print Assumptions C03_refuted_serverSessions_stale.

Theorem C03_refuted_serverSessions_order :
  exists e net sv, reachable e net sv /\ no_stale sv /\ sv_serverSessions (reload sv) <> sv_serverSessions sv.
Proof. exact serverSessions_order_refuted. Qed.
Print Assumptions C03_refuted_serverSessions_order.

(* (3) every continuation *)
Theorem C03_invisible : forall e net sv, reachable e net sv ->
  forall e' es, Forall2 (Rout (stale sv)) (run_trace e' (reload sv) es) (run_trace e' sv es).
Proof. exact reload_invisible. Qed.
Print Assumptions C03_invisible.

Theorem C03_invisible_exact : forall e net sv, reachable e net sv -> no_stale sv ->
  forall e' es, Forall2 same_outcome (run_trace e' (reload sv) es) (run_trace e' sv es).
Proof. exact reload_invisible_exact. Qed.
Print Assumptions C03_invisible_exact.

Theorem C03_commutes : forall e net sv, reachable e net sv ->
  forall e' es,
    match run e' (reload sv) es, run e' sv es with
    | Some s1, Some s2 => reload s1 = reload s2
    | None, None => True
    | _, _ => False
    end.
Proof. exact reload_commutes. Qed.
Print Assumptions C03_commutes.

Theorem C03_bisimulation : forall D e sv1 sv2 en, R D sv1 sv2 -> Rout D (apply_entry e sv1 en) (apply_entry e sv2 en).
Proof. exact apply_entry_sim. Qed.
Print Assumptions C03_bisimulation.

(* under raft's id discipline the dropped recipients are dead: the same output to every live session *)
Theorem C03_stale_ids_dead : forall e net es sv,
  wf_history e (init_server net) es -> history_ids_ok 0 es -> run e (init_server net) es = Some sv ->
  forall es' sv', wf_history e sv es' -> history_ids_ok (last_id 0 es) es' -> run e sv es' = Some sv' ->
  forall x, stale sv x = true -> sv_sessions sv' !! (x, 0%N) = None.
Proof. exact stale_stay_dead. Qed.
Print Assumptions C03_stale_ids_dead.

Theorem C03_invisible_to_live_sessions : forall e net es sv,
  wf_history e (init_server net) es -> history_ids_ok 0 es -> Forall (fun en => (0 <= entry_un en)%Z) es ->
  run e (init_server net) es = Some sv ->
  forall es', wf_history e sv es' -> history_ids_ok (last_id 0 es) es' -> live_equiv e (reload sv) sv es'.
Proof. exact reload_invisible_live. Qed.
Print Assumptions C03_invisible_to_live_sessions.

(* non-vacuity *)
Theorem C03_example_reachable : reachable ex_env "robustirc.net"%string ex_final /\ reachable ex_env "robustirc.net"%string link_final /\
  reachable ex_env "robustirc.net"%string stale_final.
Proof. exact (conj ex_reachable (conj link_reachable stale_reachable)). Qed.
Print Assumptions C03_example_reachable.

(* ---- Marshal is total on reachable states: the snapshot is a proto3 message and proto.Marshal refuses strings that
   are not valid UTF-8.  [utf8 s] := to_valid_utf8 s = s, with Str.to_valid_utf8 the Gallina rendering of Go's
   strings.ToValidUTF8(s, "").  Entries that come through the HTTP API carry valid UTF-8 only (encoding/json replaces
   ill-formed sequences; the raft entry is itself a proto3 message): then every string, map key and repeated string that
   IRCServer.Marshal serialises (marshal_strings) is valid in every reachable state, also after a reload.  The one place
   that slices a stored string at a byte offset, the user-name limit, drops the character it cuts (C03_cap_user_valid). *)
From RV Require Import IrcProofs.Utf8 IrcProofs.Utf8Handlers.

Theorem C03_utf8_step : forall e sv en, Utf8State sv -> utf8_entry en -> utf8_outcome (apply_entry e sv en).
Proof. exact utf8_step. Qed.
Print Assumptions C03_utf8_step.

Theorem C03_utf8_reachable : forall e net es sv,
  Forall utf8_entry es -> run e (init_server net) es = Some sv -> Utf8State sv.
Proof. exact utf8_run. Qed.
Print Assumptions C03_utf8_reachable.

Theorem C03_marshal_total : forall e net es sv,
  Forall utf8_entry es -> run e (init_server net) es = Some sv -> Forall utf8 (marshal_strings sv).
Proof. exact marshal_total. Qed.
Print Assumptions C03_marshal_total.

Theorem C03_marshal_total_after_reload : forall e net es sv,
  Forall utf8_entry es -> run e (init_server net) es = Some sv -> Forall utf8 (marshal_strings (reload sv)).
Proof. exact marshal_total_reload. Qed.
Print Assumptions C03_marshal_total_after_reload.

Theorem C03_utf8_reload : forall sv, Utf8State sv -> Utf8State (reload sv).
Proof. exact utf8_reload. Qed.
Print Assumptions C03_utf8_reload.

Theorem C03_utf8_covers_marshal : forall sv, Utf8State sv -> Forall utf8 (marshal_strings sv).
Proof. exact marshal_strings_utf8. Qed.
Print Assumptions C03_utf8_covers_marshal.

Theorem C03_to_valid_utf8_valid : forall s, utf8 (to_valid_utf8 s).
Proof. exact utf8_to_valid_utf8. Qed.
Print Assumptions C03_to_valid_utf8_valid.

Theorem C03_cap_user_valid : forall u, utf8 u -> utf8 (cap_user u).
Proof. exact utf8_cap_user. Qed.
Print Assumptions C03_cap_user_valid.

(* the hypothesis is needed: a raw ill-formed byte in an entry reaches the state and Marshal would refuse it *)
Theorem C03_ill_formed_entry_breaks_marshal :
  exists sv sv' out,
    run Examples.ex_env (init_server "robustirc.net") (firstn 3 u8_history) = Some sv /\
    (apply_entry Examples.ex_env sv (EMessage 4 4000 1 13 "" ill_line) = OOk sv' out) /\
    ~ (Forall utf8 (marshal_strings sv')).
Proof. exact ill_formed_entry_breaks_marshal. Qed.
Print Assumptions C03_ill_formed_entry_breaks_marshal.
