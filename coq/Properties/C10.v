(* C10 — a retried POST (same client message id as the last message applied for the session)
   is acknowledged but not applied again.  Two layers:
   (a) a handler that is caught up (answers from the state of the node that applies) proposes
       nothing: C10_handler, C10_retry_noop, C10_retries;
   (b) whatever the handler saw — lagging behind the log, freshly elected, arbitrary (D14) —
       a second copy that reaches the log is skipped by every node that applies it
       (statemachine.go, commit 92a4e2e): identity on the state, not processed, no output:
       C10_second_copy_identity, C10_duplicates_invisible, C10_second_copy_in_log,
       C10_processed_once.  No precondition on the handling node is left.
   Statements over Api/Post.v; which sessions die while an entry is processed is an arbitrary
   oracle, so they hold for every IRC semantics.  Client message id 0 is "no id": two entries
   with id 0 are two messages (the skip rule requires a non-zero id). *)
From Coq Require Import List Bool NArith String.
From RV Require Import Base.Text Api.Auth Api.Post Api.PostProofs.
Import ListNotations.
Local Open Scope string_scope.

(* the marker is written BEFORE processing: after an IRCFromClient or MessageOfDeath entry of
   an existing session, the session is gone or carries the entry's client message id *)
Theorem C10_marker : forall o st e,
  is_client_msg e = true -> is_live st (e_session e) = true ->
  is_live (apply o st e) (e_session e) = true ->
  last_post (apply o st e) (e_session e) = e_cmid e.
Proof. exact marker_after_apply. Qed.
Print Assumptions C10_marker.

Theorem C10_marker_inv : forall o st e,
  is_client_msg e = true -> Inv (e_session e) (e_cmid e) (apply o st e).
Proof. exact apply_establishes_inv. Qed.
Print Assumptions C10_marker_inv.

(* the handler acknowledges without proposing *)
Theorem C10_handler : forall json_decode st sid body d c,
  json_decode (stake body_limit body) = Some (d, c) -> last_post st sid = c ->
  post_handler json_decode st sid body = PAck.
Proof. exact handler_ack. Qed.
Print Assumptions C10_handler.

(* exactly when something is proposed, and what (Data cut at the first newline) *)
Theorem C10_handler_propose : forall json_decode st sid body e,
  post_handler json_decode st sid body = PPropose e <->
  exists d c, json_decode (stake body_limit body) = Some (d, c) /\ last_post st sid <> c /\
              st_leader st = true /\ e = mkEntry EIrc 0 sid c (cut_line d) 0.
Proof. exact handler_propose. Qed.
Print Assumptions C10_handler_propose.

(* one repeat: log and state of the handling node are untouched *)
Theorem C10_retry_noop : forall json_decode restore s t hdr b o sid c d,
  Inv sid c (s_node s) -> parse_uint0 t = Some sid ->
  json_decode (stake body_limit b) = Some (d, c) ->
  step json_decode restore s (EvPost t hdr b o) = s.
Proof. exact retry_is_noop. Qed.
Print Assumptions C10_retry_noop.

(* histories: any number of repeats, interleaved with other sessions' traffic, deletes,
   configuration entries and snapshot restores, adds no entry of that session to the log.
   Hypothesis on [restore]: Marshal/Unmarshal keeps sessions and markers (serialize.go). *)
Theorem C10_retries : forall json_decode restore,
  (forall st id, is_live (restore st) id = is_live st id /\ last_post (restore st) id = last_post st id) ->
  forall sid c evs s,
  Inv sid c (s_node s) -> Forall (allowed json_decode sid c) evs ->
  Inv sid c (s_node (run json_decode restore evs s)) /\
  own_entries sid (s_log (run json_decode restore evs s)) = own_entries sid (s_log s).
Proof. exact retries_add_nothing. Qed.
Print Assumptions C10_retries.

(* the invariant [Inv sid c] is established by the first copy, as a message ... *)
Theorem C10_first_copy : forall json_decode restore s t hdr b o sid d c,
  session_check (s_node s) hdr t = inl sid ->
  json_decode (stake body_limit b) = Some (d, c) ->
  st_leader (s_node s) = true ->
  Inv sid c (s_node (step json_decode restore s (EvPost t hdr b o))).
Proof. exact first_copy_establishes. Qed.
Print Assumptions C10_first_copy.

(* ... and also when the first copy became a message of death *)
Theorem C10_message_of_death : forall json_decode restore s e o,
  e_type e = EMod -> Inv (e_session e) (e_cmid e) (s_node (step json_decode restore s (EvApply e o))).
Proof. exact mod_copy_establishes. Qed.
Print Assumptions C10_message_of_death.

(* ---- (b): the second copy in the log ------------------------------------------------------- *)
(* a copy of the session's last message is the identity on the state and is not processed *)
Theorem C10_second_copy_identity : forall o st e sid c,
  Inv sid c st -> c <> 0%N -> is_copy sid c e = true ->
  apply o st e = st /\ processes st e = false.
Proof. exact dup_apply_identity. Qed.
Print Assumptions C10_second_copy_identity.

(* a log with any number of extra copies = the log without them: same state, same processed
   entries (same output), on every replica (a statement about replay alone) *)
Theorem C10_duplicates_invisible : forall sid c, c <> 0%N -> forall l st,
  Inv sid c st -> Forall (tail_ok sid c) l ->
  replay l st = replay (drop_copies sid c l) st /\
  replay_proc l st = replay_proc (drop_copies sid c l) st.
Proof. exact duplicates_invisible. Qed.
Print Assumptions C10_duplicates_invisible.

(* closed form: ANY log  l1 ++ first copy ++ (entries that keep it the session's last message)
   ++ second copy, from ANY initial state *)
Theorem C10_second_copy_in_log : forall st0 l1 e1 o1 l2 e2 o2,
  is_client_msg e1 = true -> e_cmid e1 <> 0%N ->
  Forall (tail_ok (e_session e1) (e_cmid e1)) l2 ->
  is_copy (e_session e1) (e_cmid e1) e2 = true ->
  replay (l1 ++ (e1, o1) :: l2 ++ [(e2, o2)]) st0 = replay (l1 ++ (e1, o1) :: l2) st0 /\
  replay_proc (l1 ++ (e1, o1) :: l2 ++ [(e2, o2)]) st0 = replay_proc (l1 ++ (e1, o1) :: l2) st0.
Proof. exact second_copy_in_log. Qed.
Print Assumptions C10_second_copy_in_log.

(* one repeat answered from ANY state [view]: state and processed entries of the applying node
   are unchanged *)
Theorem C10_stale_handler : forall json_decode view s t hdr b o sid c d,
  Inv sid c (s_node s) -> c <> 0%N -> parse_uint0 t = Some sid ->
  json_decode (stake body_limit b) = Some (d, c) ->
  s_node (post_from json_decode view s t hdr b o) = s_node s /\
  s_proc (post_from json_decode view s t hdr b o) = s_proc s.
Proof. exact stale_retry_is_invisible. Qed.
Print Assumptions C10_stale_handler.

(* histories with handlers in arbitrary states and copies committed by any means: no client
   message of the session is processed again — the message is processed at most once *)
Theorem C10_processed_once : forall json_decode restore,
  (forall st id, is_live (restore st) id = is_live st id /\ last_post (restore st) id = last_post st id) ->
  forall sid c evs, c <> 0%N -> forall s,
  Inv sid c (s_node s) -> Forall (allowed_any json_decode sid c) evs ->
  Inv sid c (s_node (run json_decode restore evs s)) /\
  filter (own_e sid) (s_proc (run json_decode restore evs s)) = filter (own_e sid) (s_proc s).
Proof. exact retries_processed_once. Qed.
Print Assumptions C10_processed_once.

(* any replica of the same log has the same sessions and markers (leadership is node-local) *)
Theorem C10_replicas : forall l st1 st2 id,
  st_sessions st1 = st_sessions st2 ->
  last_post (replay l st1) id = last_post (replay l st2) id /\
  is_live (replay l st1) id = is_live (replay l st2) id.
Proof. exact replicas_markers. Qed.
Print Assumptions C10_replicas.
