(* C17 — session lifecycle: only dead sessions are reported dead, only idle ones expire. *)
From stdpp Require Import gmap.
From Coq Require Import Strings.String List ZArith NArith.
From RV Require Import Irc.Str Irc.State Irc.Cmds Irc.Apply.
From RV Require Import IrcProofs.Inv IrcProofs.InvPrims IrcProofs.Top IrcProofs.Outputs IrcProofs.Misc.
From RV Require Import IrcProofs.Recipients2 IrcProofs.Recipients3.
From RV Require Api.Auth Api.Post Api.PostProofs.
Local Open Scope string_scope.

Theorem C17_nosuch_sound : forall sv id,
  get_session sv id = LNoSuch <-> sv_sessions sv !! (id, 0%N) = None /\ (id < fst (sv_lastProcessed sv))%N.
Proof. exact get_session_nosuch. Qed.
Print Assumptions C17_nosuch_sound.

Theorem C17_found : forall sv id, get_session sv id = LFound <-> is_Some (sv_sessions sv !! (id, 0%N)).
Proof. exact get_session_found. Qed.
Print Assumptions C17_found.

(* on every prefix of the log: an id at or beyond the newest applied entry is never reported as gone *)
Theorem C17_notyet : forall e net es sv' id,
  history_ids_ok 0 es -> run e (init_server net) es = Some sv' ->
  (last_id 0 es <= id)%N -> get_session sv' id <> LNoSuch.
Proof. exact never_nosuch_for_future. Qed.
Print Assumptions C17_notyet.

Theorem C17_expire : forall sv now id d,
  In (id, d) (expire_sessions sv now) <->
  exists s, sv_sessions sv !! (id, 0%N) = Some s /\
            (g_expiration (sv_config sv) < tsub (Some now) (s_lastActivity s))%Z /\
            d = "Ping timeout (" ++ dur_string (g_expiration (sv_config sv)) ++ ")".
Proof. exact expire_sessions_spec. Qed.
Print Assumptions C17_expire.

Theorem C17_end_frees : forall sv k s,
  InvM sv -> sv_sessions sv !! k = Some s -> s_deleted s = false ->
  let sv' := delete_state k s sv in
  sv_nicks sv' !! nick_to_lower (s_nick s) = None /\
  forall lc c, sv_channels sv' !! lc = Some c -> c_nicks c !! nick_to_lower (s_nick s) = None.
Proof. exact delete_frees. Qed.
Print Assumptions C17_end_frees.

(* one step: whoever receives anything exists before the step or is listed as a services link *)
Theorem C17_recipients_exist : forall e sv en sv' out,
  SInv sv -> apply_entry e sv en = OOk sv' out ->
  forall o id, In o out -> In id (o_rcpt o) -> has_id sv id \/ In id (sv_serverSessions sv).
Proof. exact recipients_exist. Qed.
Print Assumptions C17_recipients_exist.

(* histories: after a session has ended it receives nothing further (until a CreateSession with the same id) *)
Theorem C17_ended_receives_nothing : forall e net id es0 es1 en es2 sv svj sv' out,
  wf_history e (init_server net) (es0 ++ es1 ++ en :: es2) ->
  run e (init_server net) es0 = Some sv ->
  ~ has_id sv id -> ~ In id (sv_serverSessions sv) -> Forall (fun en => ~ creates id en) es1 ->
  run e sv es1 = Some svj -> apply_entry e svj en = OOk sv' out ->
  forall o, In o out -> ~ In id (o_rcpt o).
Proof. exact ended_session_silent_from_init. Qed.
Print Assumptions C17_ended_receives_nothing.

(* the same at the HTTP layer (api.session, Api/Auth.v session_check), for a handler that answers from the replay of any
   strict prefix of the log: the id of an entry still ahead of it — a session whose CreateSession is committed but not yet
   applied on this node — is never answered with "No such session" (seeded change C17a-e3: LastIndex of the LOG used instead
   of the applied state).  Ids are raft indexes. *)
Theorem C17_lagging_handler_not_gone : forall st0 b l1 e o l2 hdr t,
  (RV.Api.Auth.st_lastproc st0 <= b)%N -> RV.Api.PostProofs.ids_increase b (l1 ++ (e, o) :: l2) ->
  RV.Api.Auth.parse_uint0 t = Some (RV.Api.Post.e_id e) ->
  RV.Api.Auth.session_check (RV.Api.Post.replay l1 st0) hdr t <> inr RV.Api.Auth.RNoSuch.
Proof. exact RV.Api.PostProofs.lagging_check_not_gone. Qed.
Print Assumptions C17_lagging_handler_not_gone.

(* ... and with the status the bridge looks at (it gives a session up on ANY 404): every gated session route — GET messages,
   POST message, DELETE — on a node answering from a replay of any strict prefix of the log answers a request for the id of
   an entry still ahead of it with 500 or proxies it to the leader, never with 404 (repair of D22, /repo c0e28c0: the lagging
   LEADER answered POST and DELETE with 404 "Session not yet seen") *)
Theorem C17_lagging_never_404 : forall rt st0 b l1 e o l2 q h,
  forallb RV.Api.Auth.gated rt = true ->
  (RV.Api.Auth.st_lastproc st0 <= b)%N -> RV.Api.PostProofs.keys_below b st0 ->
  RV.Api.PostProofs.ids_increase b (l1 ++ (e, o) :: l2) ->
  RV.Api.Auth.q_hdr q = Some h -> h <> "" ->
  forall r sid,
  RV.Api.Auth.find_route (fun _ => true) RV.Api.Auth.Pub (RV.Api.Auth.q_meth q)
     (RV.Api.Auth.sdrop (String.length RV.Api.Auth.public_prefix) (RV.Api.Auth.q_path q)) rt = Some (r, Some sid) ->
  RV.Api.Auth.parse_uint0 sid = Some (RV.Api.Post.e_id e) ->
  RV.Api.Auth.has_prefix RV.Api.Auth.public_prefix (RV.Api.Auth.q_path q) = true ->
  RV.Api.Auth.dispatch_public rt (RV.Api.Post.replay l1 st0) q = RV.Api.Auth.Refused RV.Api.Auth.RNotYet 500 \/
  RV.Api.Auth.dispatch_public rt (RV.Api.Post.replay l1 st0) q = RV.Api.Auth.Proxied.
Proof. exact RV.Api.PostProofs.lagging_dispatch_never_404. Qed.
Print Assumptions C17_lagging_never_404.
