(* Store/WireProofs.v — lemmas about Store/Wire.v: varint / fixed-width round trips in the
   "decode (encode x ++ rest) = Some (x, rest)" form (which is prefix-freeness: the decoder
   consumes exactly what the encoder wrote, whatever follows), field and message parsing,
   bytewise order of big-endian keys, transitivity of the bytewise string order. *)
From Coq Require Import List NArith ZArith Bool Lia ZifyN ZifyNat ZifyBool.
From Coq Require Import Strings.String Strings.Ascii.
From RV Require Import Store.Wire.
Import ListNotations.
Local Open Scope N_scope.

Ltac Zify.zify_post_hook ::= Z.div_mod_to_equations.

Arguments N.div : simpl never.
Arguments N.modulo : simpl never.
Arguments N.mul : simpl never.
Arguments N.add : simpl never.
Arguments N.sub : simpl never.
Arguments N.pow : simpl never.
Arguments N.ltb : simpl never.
Arguments N.leb : simpl never.
Arguments N.eqb : simpl never.
Arguments N_of_ascii : simpl never.
Arguments ascii_of_N : simpl never.
Arguments Z.modulo : simpl never.
Arguments Z.div : simpl never.

Lemma byte_val n : n < 256 -> N_of_ascii (byte n) = n.
Proof. apply N_ascii_embedding. Qed.

Lemma app_assoc_s (a b c : string) : ((a ++ b) ++ c = a ++ (b ++ c))%string.
Proof. induction a as [|x a IH]; simpl; [reflexivity|now rewrite IH]. Qed.
Lemma app_nil_r_s (a : string) : (a ++ "")%string = a.
Proof. induction a as [|x a IH]; simpl; [reflexivity|now rewrite IH]. Qed.

(* ---- slen / split_at ------------------------------------------------------------------------ *)
Lemma slen_length s : slen s = N.of_nat (String.length s).
Proof. induction s as [|c s IH]; simpl; [reflexivity|]. rewrite IH. lia. Qed.

Lemma slen_app a b : slen (a ++ b) = slen a + slen b.
Proof. induction a as [|c a IH]; simpl; [lia|]. rewrite IH. lia. Qed.

Lemma split_at_app a b : split_at (a ++ b) (slen a) = Some (a, b).
Proof.
  induction a as [|c a IH].
  - simpl. destruct b; reflexivity.
  - cbn [append slen split_at].
    destruct (N.eqb_spec (N.succ (slen a)) 0) as [E|_]; [lia|].
    rewrite N.pred_succ, IH. reflexivity.
Qed.

(* ---- varint --------------------------------------------------------------------------------- *)
(* the numbers a varint decoder with [f] bytes left can still accept *)
Fixpoint vbound (f : nat) : N :=
  match f with
  | O => 0
  | S f' => match f' with O => 2 | S _ => 128 * vbound f' end
  end.

Lemma vbound_10 : vbound 10 = 18446744073709551616.
Proof. reflexivity. Qed.

Lemma dec_varint_fuel_step f c r :
  dec_varint_fuel (S f) (String c r) =
  if N_of_ascii c <? 128 then
    match f with
    | O => if N_of_ascii c <? 2 then Some (N_of_ascii c, r) else None
    | S _ => Some (N_of_ascii c, r)
    end
  else match dec_varint_fuel f r with
       | Some (v, r') => Some (N_of_ascii c - 128 + 128 * v, r')
       | None => None
       end.
Proof. reflexivity. Qed.

Lemma dec_enc_varint_fuel f : forall n rest,
  n < vbound f -> dec_varint_fuel f (enc_varint_fuel f n ++ rest) = Some (n, rest).
Proof.
  induction f as [|f IH]; intros n rest Hn.
  - simpl in Hn. lia.
  - cbn [enc_varint_fuel].
    destruct (N.ltb_spec n 128) as [Hlt|Hge].
    + cbn [append]. rewrite dec_varint_fuel_step. rewrite byte_val by lia.
      destruct (N.ltb_spec n 128); [|lia].
      destruct f as [|f'].
      * simpl in Hn. destruct (N.ltb_spec n 2); [reflexivity|lia].
      * reflexivity.
    + cbn [append]. rewrite dec_varint_fuel_step. rewrite byte_val by lia.
      destruct (N.ltb_spec (128 + n mod 128) 128); [lia|].
      destruct f as [|f']; [simpl in Hn; lia|].
      change (vbound (S (S f'))) with (128 * vbound (S f')) in Hn.
      rewrite IH by lia. f_equal. f_equal. lia.
Qed.

(* the round trip below 2^64, for any continuation: prefix-freeness *)
Theorem dec_enc_varint n rest :
  n < 18446744073709551616 -> dec_varint (enc_varint n ++ rest) = Some (n, rest).
Proof. intros H. unfold dec_varint, enc_varint. apply dec_enc_varint_fuel. rewrite vbound_10. exact H. Qed.

Lemma dec_varint_fuel_bound f : forall s v r,
  dec_varint_fuel f s = Some (v, r) -> v < vbound f.
Proof.
  induction f as [|f IH]; intros s v r H; [discriminate|].
  destruct s as [|c s]; [discriminate|]. cbn [dec_varint_fuel] in H.
  pose proof (N_ascii_bounded c) as Hc.
  destruct (N.ltb_spec (N_of_ascii c) 128) as [Hlt|Hge].
  - destruct f as [|f'].
    + destruct (N.ltb_spec (N_of_ascii c) 2); inversion H; subst. simpl. lia.
    + inversion H; subst. change (vbound (S (S f'))) with (128 * vbound (S f')).
      assert (0 < vbound (S f')) by (clear; induction f'; simpl in *; lia). lia.
  - destruct (dec_varint_fuel f s) as [[v' r']|] eqn:E; [|discriminate].
    inversion H; subst. apply IH in E.
    destruct f as [|f']; [simpl in E; lia|].
    change (vbound (S (S f'))) with (128 * vbound (S f')). lia.
Qed.

(* whatever is decoded fits a uint64 *)
Theorem dec_varint_bound s v r : dec_varint s = Some (v, r) -> v < 18446744073709551616.
Proof. intros H. apply dec_varint_fuel_bound in H. now rewrite vbound_10 in H. Qed.

(* the decoder only ever consumes a prefix: the rest it returns is a suffix of its input *)
Lemma dec_varint_fuel_suffix f : forall s v r,
  dec_varint_fuel f s = Some (v, r) -> exists p, s = (p ++ r)%string /\ p <> EmptyString.
Proof.
  induction f as [|f IH]; intros s v r H; [discriminate|].
  destruct s as [|c s]; [discriminate|]. cbn [dec_varint_fuel] in H.
  destruct (N_of_ascii c <? 128).
  - assert (r = s) by (destruct f; [destruct (N_of_ascii c <? 2)|]; now inversion H). subst.
    exists (String c EmptyString). split; [reflexivity|discriminate].
  - destruct (dec_varint_fuel f s) as [[v' r']|] eqn:E; [|discriminate]. inversion H; subst.
    destruct (IH _ _ _ E) as [p [-> _]]. exists (String c p). split; [reflexivity|discriminate].
Qed.

Lemma enc_varint_nonempty n : exists c r, enc_varint n = String c r.
Proof. unfold enc_varint. cbn [enc_varint_fuel]. destruct (n <? 128); eauto. Qed.

(* ---- two's complement ----------------------------------------------------------------------- *)
Lemma u64_of_Z_bound z : u64_of_Z z < 18446744073709551616.
Proof. unfold u64_of_Z, two64. lia. Qed.

Lemma i64_u64 z : (- two63 <= z < two63)%Z -> i64_of_N (u64_of_Z z) = z.
Proof.
  unfold i64_of_N, u64_of_Z, two63, two64. intros H.
  destruct (Z.ltb_spec (Z.of_N (Z.to_N (z mod 18446744073709551616)) mod 18446744073709551616) 9223372036854775808); lia.
Qed.

Lemma i32_u64 z : (- two31 <= z < two31)%Z -> i32_of_Z (Z.of_N (u64_of_Z z)) = z.
Proof.
  unfold i32_of_Z, u64_of_Z, two31, two32, two64. intros H.
  destruct (Z.ltb_spec (Z.of_N (Z.to_N (z mod 18446744073709551616)) mod 4294967296) 2147483648); lia.
Qed.

Lemma i32_idem z : (- two31 <= z < two31)%Z -> i32_of_Z z = z.
Proof.
  unfold i32_of_Z, two31, two32. intros H.
  destruct (Z.ltb_spec (z mod 4294967296) 2147483648); lia.
Qed.

Lemma i64_idem z : (- two63 <= z < two63)%Z -> i64_of_Z z = z.
Proof.
  unfold i64_of_Z, two63, two64. intros H.
  destruct (Z.ltb_spec (z mod 18446744073709551616) 9223372036854775808); lia.
Qed.

Lemma u64_of_Z_zero z : (- two63 <= z < two63)%Z -> u64_of_Z z = 0 -> z = 0%Z.
Proof. unfold u64_of_Z, two63, two64. lia. Qed.

(* ---- little endian -------------------------------------------------------------------------- *)
Lemma pow256_succ k : 256 ^ N.of_nat (S k) = 256 * 256 ^ N.of_nat k.
Proof. rewrite Nat2N.inj_succ, N.pow_succ_r'. reflexivity. Qed.

Lemma pow256_pos k : 0 < 256 ^ N.of_nat k.
Proof. apply N.neq_0_lt_0. apply N.pow_nonzero. lia. Qed.

Lemma dec_enc_le k : forall n rest,
  n < 256 ^ N.of_nat k -> dec_le k (enc_le k n ++ rest) = Some (n, rest).
Proof.
  induction k as [|k IH]; intros n rest Hn.
  - simpl in *. f_equal. f_equal. change (256 ^ 0) with 1 in Hn. lia.
  - rewrite pow256_succ in Hn. cbn [enc_le append dec_le].
    rewrite IH by lia. rewrite byte_val by lia. f_equal. f_equal. lia.
Qed.

Lemma pow256_8 : 256 ^ N.of_nat 8 = 18446744073709551616.
Proof. reflexivity. Qed.
Lemma pow256_4 : 256 ^ N.of_nat 4 = 4294967296.
Proof. reflexivity. Qed.

Theorem dec_enc_fixed64 n rest :
  n < 18446744073709551616 -> dec_le 8 (enc_le 8 n ++ rest) = Some (n, rest).
Proof. intros H. apply dec_enc_le. rewrite pow256_8. exact H. Qed.

Lemma enc_le_length k n : String.length (enc_le k n) = k.
Proof. revert n. induction k as [|k IH]; intros n; simpl; [reflexivity|now rewrite IH]. Qed.

(* ---- big endian ----------------------------------------------------------------------------- *)
Lemma mod_pow256_succ n k :
  n mod (256 ^ N.of_nat (S k)) = n mod 256 ^ N.of_nat k + 256 ^ N.of_nat k * ((n / 256 ^ N.of_nat k) mod 256).
Proof.
  rewrite pow256_succ. rewrite (N.mul_comm 256).
  pose proof (pow256_pos k) as Hp.
  apply N.mod_mul_r; lia.
Qed.

Lemma dec_enc_be_acc k : forall n rest acc,
  dec_be_acc k (enc_be k n ++ rest) acc = Some (acc * 256 ^ N.of_nat k + n mod 256 ^ N.of_nat k, rest).
Proof.
  induction k as [|k IH]; intros n rest acc.
  - simpl. change (256 ^ 0) with 1. f_equal. f_equal. lia.
  - cbn [enc_be append dec_be_acc]. rewrite IH.
    rewrite byte_val by lia. f_equal. f_equal.
    rewrite mod_pow256_succ, pow256_succ. lia.
Qed.

Theorem dec_enc_be8 n rest : n < 18446744073709551616 -> dec_be 8 (be8 n ++ rest) = Some (n, rest).
Proof.
  intros H. unfold dec_be, be8. rewrite dec_enc_be_acc. rewrite pow256_8.
  f_equal. f_equal. lia.
Qed.

Lemma be8_decode_be8 n : n < 18446744073709551616 -> be8_decode (be8 n) = Some n.
Proof.
  intros H. unfold be8_decode. rewrite <- (app_nil_r_s (be8 n)). now rewrite dec_enc_be8.
Qed.

Lemma enc_be_length k n : String.length (enc_be k n) = k.
Proof. induction k as [|k IH]; simpl; [reflexivity|now rewrite IH]. Qed.

(* bytewise order of the encodings = numeric order (modulo 256^k) *)
Lemma compare_enc_be k : forall a b,
  String.compare (enc_be k a) (enc_be k b) = N.compare (a mod 256 ^ N.of_nat k) (b mod 256 ^ N.of_nat k).
Proof.
  induction k as [|k IH]; intros a b.
  - simpl. change (256 ^ 0) with 1. rewrite !N.mod_1_r. reflexivity.
  - cbn [enc_be String.compare]. unfold Ascii.compare.
    rewrite !byte_val by lia. rewrite IH. rewrite !mod_pow256_succ.
    pose proof (pow256_pos k) as Hp.
    set (P := 256 ^ N.of_nat k) in *.
    assert (Ha : a mod P < P) by (apply N.mod_lt; lia).
    assert (Hb : b mod P < P) by (apply N.mod_lt; lia).
    set (ra := a mod P) in *. set (rb := b mod P) in *.
    set (da := (a / P) mod 256). set (db := (b / P) mod 256).
    destruct (N.compare_spec da db) as [E|L|G].
    + rewrite E. destruct (N.compare_spec ra rb) as [E2|L2|G2]; symmetry.
      * apply N.compare_eq_iff. lia.
      * apply N.compare_lt_iff. lia.
      * apply N.compare_gt_iff. lia.
    + symmetry. apply N.compare_lt_iff. nia.
    + symmetry. apply N.compare_gt_iff. nia.
Qed.

Theorem compare_be8 a b :
  a < 18446744073709551616 -> b < 18446744073709551616 ->
  String.compare (be8 a) (be8 b) = N.compare a b.
Proof.
  intros Ha Hb. unfold be8. rewrite compare_enc_be, pow256_8.
  rewrite !N.mod_small by assumption. reflexivity.
Qed.

Lemma be8_inj a b :
  a < 18446744073709551616 -> b < 18446744073709551616 -> be8 a = be8 b -> a = b.
Proof.
  intros Ha Hb E. pose proof (compare_be8 a b Ha Hb) as C. rewrite E in C.
  assert (String.compare (be8 b) (be8 b) = Eq).
  { rewrite compare_be8 by assumption. apply N.compare_refl. }
  rewrite H in C. symmetry in C. now apply N.compare_eq_iff in C.
Qed.

Lemma ltb_be8 a b :
  a < 18446744073709551616 -> b < 18446744073709551616 -> String.ltb (be8 a) (be8 b) = (a <? b).
Proof.
  intros Ha Hb. unfold String.ltb. rewrite compare_be8 by assumption.
  destruct (N.compare_spec a b); destruct (N.ltb_spec a b); try reflexivity; lia.
Qed.
Lemma leb_be8 a b :
  a < 18446744073709551616 -> b < 18446744073709551616 -> String.leb (be8 a) (be8 b) = (a <=? b).
Proof.
  intros Ha Hb. unfold String.leb. rewrite compare_be8 by assumption.
  destruct (N.compare_spec a b); destruct (N.leb_spec a b); try reflexivity; lia.
Qed.

(* ---- the bytewise order on strings ---------------------------------------------------------- *)
Lemma compare_refl_s s : String.compare s s = Eq.
Proof.
  induction s as [|c s IH]; simpl; [reflexivity|].
  unfold Ascii.compare. now rewrite N.compare_refl.
Qed.

Lemma compare_eq_s a b : String.compare a b = Eq <-> a = b.
Proof. split; [apply String.compare_eq_iff|intros ->; apply compare_refl_s]. Qed.

Lemma ascii_compare_eq a b : Ascii.compare a b = Eq -> a = b.
Proof. apply Ascii.compare_eq_iff. Qed.

Lemma compare_lt_trans : forall a b c,
  String.compare a b = Lt -> String.compare b c = Lt -> String.compare a c = Lt.
Proof.
  induction a as [|x a IH]; intros [|y b] [|z c] H1 H2; simpl in *; try discriminate; try reflexivity.
  unfold Ascii.compare in *.
  destruct (N.compare_spec (N_of_ascii x) (N_of_ascii y)) as [E1|L1|G1]; try discriminate;
  destruct (N.compare_spec (N_of_ascii y) (N_of_ascii z)) as [E2|L2|G2]; try discriminate.
  - rewrite E1, E2, N.compare_refl. eapply IH; eassumption.
  - rewrite E1. now apply N.compare_lt_iff in L2 as ->.
  - rewrite <- E2. now apply N.compare_lt_iff in L1 as ->.
  - assert (L : N_of_ascii x < N_of_ascii z) by lia. now apply N.compare_lt_iff in L as ->.
Qed.

Lemma compare_gt_lt a b : String.compare a b = Gt <-> String.compare b a = Lt.
Proof.
  rewrite (String.compare_antisym b a). destruct (String.compare a b); simpl; split; congruence.
Qed.

Lemma eqb_compare a b : String.eqb a b = match String.compare a b with Eq => true | _ => false end.
Proof.
  destruct (String.eqb_spec a b) as [->|N].
  - now rewrite compare_refl_s.
  - destruct (String.compare a b) eqn:E; try reflexivity. apply compare_eq_s in E. contradiction.
Qed.

(* x and y of equal length: the comparison is decided before either ends, so appending to y
   changes nothing unless x = y *)
Lemma compare_app_r : forall x y t,
  String.length x = String.length y ->
  String.compare x (y ++ t) =
  match String.compare x y with
  | Eq => match t with EmptyString => Eq | _ => Lt end
  | c => c
  end.
Proof.
  induction x as [|a x IH]; intros [|b y] t L; simpl in *; try discriminate.
  - destruct t; reflexivity.
  - destruct (Ascii.compare a b); try reflexivity. apply IH. lia.
Qed.

(* ---- has_prefix ----------------------------------------------------------------------------- *)
Lemma has_prefix_length p s : has_prefix p s = true -> (String.length p <= String.length s)%nat.
Proof.
  revert s. induction p as [|a p IH]; intros s H; simpl in *; [lia|].
  destruct s as [|b s]; [discriminate|]. apply andb_true_iff in H. destruct H as [_ H].
  apply IH in H. simpl. lia.
Qed.

Lemma has_prefix_app p s : has_prefix p (p ++ s) = true.
Proof.
  induction p as [|a p IH]; simpl; [reflexivity|]. now rewrite Ascii.eqb_refl, IH.
Qed.

Lemma has_prefix_split p s : has_prefix p s = true -> exists t, s = (p ++ t)%string.
Proof.
  revert s. induction p as [|a p IH]; intros s H; simpl in *; [now exists s|].
  destruct s as [|b s]; [discriminate|]. apply andb_true_iff in H. destruct H as [E H].
  apply Ascii.eqb_eq in E. subst. destruct (IH _ H) as [t ->]. now exists t.
Qed.

(* ---- fields --------------------------------------------------------------------------------- *)
Definition wval_ok (v : wval) : Prop :=
  match v with
  | VVarint n => n < 18446744073709551616
  | VFixed64 n => n < 18446744073709551616
  | VBytes s => slen s < 18446744073709551616
  | VFixed32 n => n < 4294967296
  end.

Lemma dec_enc_field num v rest :
  0 < num -> num < 536870912 -> wval_ok v ->
  dec_field (enc_field num v ++ rest) = Some (num, v, rest).
Proof.
  intros Hn0 Hn Hv. unfold enc_field, enc_tag, dec_field.
  rewrite app_assoc_s. rewrite dec_enc_varint by (destruct v; simpl; lia).
  assert (Hd : (num * 8 + wt_of v) / 8 = num) by (destruct v; simpl; lia).
  assert (Hm : (num * 8 + wt_of v) mod 8 = wt_of v) by (destruct v; simpl; lia).
  rewrite Hd, Hm.
  destruct (N.eqb_spec num 0); [lia|].
  destruct v as [x|x|s|x]; cbn [wt_of enc_wval wval_ok] in *.
  - change (0 =? 0) with true. cbv iota. now rewrite dec_enc_varint.
  - change (1 =? 0) with false. change (1 =? 1) with true. cbv iota. now rewrite dec_enc_fixed64.
  - change (2 =? 0) with false. change (2 =? 1) with false. change (2 =? 2) with true. cbv iota.
    rewrite app_assoc_s, dec_enc_varint by assumption. now rewrite split_at_app.
  - change (5 =? 0) with false. change (5 =? 1) with false. change (5 =? 2) with false.
    change (5 =? 5) with true. cbv iota.
    rewrite dec_enc_le; [reflexivity|]. now rewrite pow256_4.
Qed.

Lemma enc_field_nonempty num v : exists c r, enc_field num v = String c r.
Proof.
  unfold enc_field, enc_tag. destruct (enc_varint_nonempty (num * 8 + wt_of v)) as [c [r ->]].
  simpl. eauto.
Qed.

Fixpoint enc_fields (l : list (N * wval)) : string :=
  match l with [] => EmptyString | (num, v) :: r => (enc_field num v ++ enc_fields r)%string end.

Definition field_ok (f : N * wval) : Prop := 0 < fst f /\ fst f < 536870912 /\ wval_ok (snd f).

Lemma enc_fields_app a b : enc_fields (a ++ b) = (enc_fields a ++ enc_fields b)%string.
Proof.
  induction a as [|[n v] a IH]; simpl; [reflexivity|]. now rewrite IH, app_assoc_s.
Qed.

Lemma enc_fields_length l : (List.length l <= String.length (enc_fields l))%nat.
Proof.
  induction l as [|[n v] l IH]; simpl; [lia|].
  destruct (enc_field_nonempty n v) as [c [r ->]]. simpl.
  assert (forall a b, String.length (a ++ b) = String.length a + String.length b)%nat as L.
  { clear. induction a; intros; simpl; [reflexivity|now rewrite IHa]. }
  rewrite L. lia.
Qed.

Lemma parse_enc_fields l : forall fuel,
  Forall field_ok l -> (List.length l <= fuel)%nat -> parse_fields fuel (enc_fields l) = Some l.
Proof.
  induction l as [|[n v] l IH]; intros fuel Hok Hf.
  - destruct fuel; reflexivity.
  - inversion Hok as [|x y [H1 [H2 H3]] Hok']; subst. simpl in H1, H2, H3.
    cbn [enc_fields]. destruct (enc_field_nonempty n v) as [c [r E]].
    destruct fuel as [|fuel]; [simpl in Hf; lia|].
    assert (P : parse_fields (S fuel) (enc_field n v ++ enc_fields l) =
                match dec_field (enc_field n v ++ enc_fields l) with
                | Some (num, v0, r0) => match parse_fields fuel r0 with
                                        | Some l0 => Some ((num, v0) :: l0)
                                        | None => None
                                        end
                | None => None
                end).
    { rewrite E. reflexivity. }
    rewrite P, dec_enc_field by assumption.
    rewrite IH; [reflexivity|assumption|simpl in Hf; lia].
Qed.

(* a message body written as a sequence of well-formed fields parses back to that sequence *)
Theorem parse_message_enc_fields l :
  Forall field_ok l -> parse_message (enc_fields l) = Some l.
Proof. intros H. unfold parse_message. apply parse_enc_fields; [exact H|apply enc_fields_length]. Qed.
