//go:build verif

package timesafeguard

// Correspondence driver for property C19 (injected by `go test -overlay`, never part of
// /repo).  Reads case lines "tsg <ET> <disabled> {<start> <end> <result|->}*" from $VERIF_IN and
// writes, per line, the decision of the real synchronizedWithNetwork to $VERIF_OUT in the
// canonical form the Coq model prints.

import (
	"bufio"
	"bytes"
	"fmt"
	"log"
	"os"
	"strconv"
	"strings"
	"testing"
	"time"
)

func verifTime(s string) time.Time {
	if s == "-" {
		return time.Time{}
	}
	n, err := strconv.ParseInt(s, 10, 64)
	if err != nil {
		panic(err)
	}
	return time.Unix(0, n)
}

func TestVerifTsg(t *testing.T) {
	in, err := os.Open(os.Getenv("VERIF_IN"))
	if err != nil {
		t.Fatal(err)
	}
	defer in.Close()
	out, err := os.Create(os.Getenv("VERIF_OUT"))
	if err != nil {
		t.Fatal(err)
	}
	defer out.Close()
	w := bufio.NewWriter(out)
	defer w.Flush()
	sc := bufio.NewScanner(in)
	sc.Buffer(make([]byte, 1<<20), 1<<26)
	for sc.Scan() {
		f := strings.Fields(sc.Text())
		if len(f) < 3 || f[0] != "tsg" {
			continue
		}
		// f[1] is the threshold the model is told to use; the real code uses its constant,
		// which is echoed so that a disagreement about the constant itself is visible.
		*DisableTimesafeguard = f[2] == "1"
		var results []timeResult
		var raw []string
		for i := 3; i+2 < len(f); i += 3 {
			results = append(results, timeResult{
				Start:  verifTime(f[i]),
				End:    verifTime(f[i+1]),
				Result: verifTime(f[i+2]),
			})
			raw = append(raw, f[i]+":"+f[i+1]+":"+f[i+2])
		}
		var logbuf bytes.Buffer
		log.SetOutput(&logbuf)
		rerr := synchronizedWithNetwork(results)
		log.SetOutput(os.Stderr)

		var drifts []string
		for _, r := range results {
			if !r.Result.IsZero() {
				drifts = append(drifts, strconv.FormatInt(int64(r.worstCaseDrift()), 10))
			}
		}
		decision := "accept"
		detail := ""
		const marker = "Conflicting remote times: "
		if rerr != nil {
			decision = "refuse"
			detail = rerr.Error()
		} else if idx := strings.Index(logbuf.String(), "but timesafeguard is disabled"); idx >= 0 {
			decision = "accept-disabled"
			detail = logbuf.String()[idx:]
		}
		var off []string
		if i := strings.Index(detail, marker); i >= 0 {
			used := make([]bool, len(results))
			for _, line := range strings.Split(strings.TrimRight(detail[i+len(marker):], "\n"), "\n") {
				found := false
				for k := range results {
					if !used[k] && results[k].String() == line {
						used[k] = true
						off = append(off, raw[k])
						found = true
						break
					}
				}
				if !found {
					off = append(off, "unmatched")
				}
			}
		}
		show := func(l []string) string {
			if len(l) == 0 {
				return "-"
			}
			return strings.Join(l, ",")
		}
		fmt.Fprintf(w, "tsg et=%d %s off=%s drifts=%s\n", int64(ElectionTimeout), decision, show(off), show(drifts))
	}
}
