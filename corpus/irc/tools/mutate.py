# Mutation campaign (detection power of the irclib monitors).  Applies one small compiling edit at a time to a scratch
# worktree of /repo and reports which monitor signature the smoke run shows that the unmutated tree does not.
#   git -C /repo worktree add /tmp/wt-ircdrv HEAD ; python3 corpus/irc/tools/mutate.py [mutation names...]
#   git -C /repo worktree remove --force /tmp/wt-ircdrv
# Every file is restored after its mutation.  Result of the run of 2026-09-25 (tree = f2b7004 + fixes/D1,D2,D6,D7a,D8):
# 36 of 36 non-equivalent mutations caught (see corpus/irc/README.md).
import os, re, subprocess, sys
WT = "/tmp/wt-ircdrv"
M = [
 ("kick-no-chanop", "internal/ircserver/cmd_kick.go", "if !perms[chanop] {", "if false && !perms[chanop] {"),
 ("privmsg-to-sender-too", "internal/ircserver/cmd_privmsg.go", "i.sendChannelButOne(c, s, reply, &irc.Message{", "i.sendChannel(c, reply, &irc.Message{"),
 ("names-unsorted", "internal/ircserver/cmd_names.go", "\t\t\tsort.Strings(nicks)\n", "\t\t\t_ = sort.Strings\n"),
 ("delete-keeps-nick", "internal/ircserver/ircserver.go", "\tdelete(i.nicks, NickToLower(s.Nick))\n\t// Instead of deleting", "\t// Instead of deleting"),
 ("mod-no-marker", "statemachine.go", "\t\ti.UpdateLastClientMessageID(msg)\n\t\tlog.Printf(\"Skipped", "\t\tlog.Printf(\"Skipped"),
 ("marshal-drops-cmid", "internal/ircserver/serialize.go", "\t\t\tLastClientMessageId: session.lastClientMessageId,\n", ""),
 ("marshal-drops-invites", "internal/ircserver/serialize.go", "\t\t\tInvitedTo:           invitedTo,\n", "\t\t\tInvitedTo:           invitedTo[:0],\n"),
 ("getsession-reversed", "internal/ircserver/ircserver.go", "if i.lastProcessed.Id > id.Id {", "if i.lastProcessed.Id < id.Id {"),
 ("expire-pseudo", "internal/ircserver/ircserver.go", "\t\tif id.Reply != 0 {\n\t\t\tcontinue\n\t\t}\n\t\tif time.Since", "\t\tif time.Since"),
 ("config-install-invalid", "statemachine.go", "\t\tif err != nil {\n\t\t\tlog.Printf(\"Skipping unexpectedly invalid configuration (%v)\\n\", err)\n\t\t} else {", "\t\tif err != nil && false {\n\t\t\tlog.Printf(\"Skipping unexpectedly invalid configuration (%v)\\n\", err)\n\t\t} else {"),
 ("gline-no-ban", "internal/ircserver/cmd_gline.go", "\ti.Config.Banned[session.RemoteAddr] = msg.Trailing()\n", "\t_ = i.Config.Banned\n"),
 ("mode-anyone", "internal/ircserver/cmd_mode.go", "isChanOp := c.nicks[NickToLower(s.Nick)][chanop] || s.Operator", "isChanOp := c.nicks[NickToLower(s.Nick)][chanop] || s.Operator || true"),
 ("join-ignores-invite-only", "internal/ircserver/cmd_join.go", "} else if c.modes['i'] && !s.invitedTo[ChanToLower(channelname)] {", "} else if false && c.modes['i'] && !s.invitedTo[ChanToLower(channelname)] {"),
 ("invite-not-consumed", "internal/ircserver/cmd_join.go", "\t\t\tdelete(s.invitedTo, ChanToLower(channelname))\n", "\t\t\t_ = s.invitedTo\n"),
 ("oper-any-password", "internal/ircserver/cmd_oper.go", "if op.Name == name && op.Password == password {", "if op.Name == name {"),
 ("server-any-password", "internal/ircserver/server_commands.go", "\tauthenticated := false\n", "\tauthenticated := len(s.Pass) > 0\n"),
 ("nick-stale-prefix", "internal/ircserver/cmd_nick.go", "\ts.updateIrcPrefix()\n\n\tif oldNick != \"\" {", "\tif oldNick != \"\" {"),
 ("kick-keeps-session-chan", "internal/ircserver/cmd_kick.go", "\tdelete(session.Channels, ChanToLower(channelname))\n", "\t_ = session\n"),
 ("chanlimit-off-by-one", "internal/ircserver/cmd_join.go", "got >= limit && limit > 0", "got > limit && limit > 0"),
 ("sesslimit-off-by-one", "internal/ircserver/ircserver.go", "got >= limit && limit > 0 {\n\t\treturn ErrSessionLimitReached", "got > limit && limit > 0 {\n\t\treturn ErrSessionLimitReached"),
 ("nick-inuse-tolower", "internal/ircserver/cmd_nick.go", "if _, ok := i.nicks[NickToLower(nick)]; (ok && !onlyCapsChanged)", "if _, ok := i.nicks[lcNick(nick)]; (ok && !onlyCapsChanged)"),
 ("privmsg-no-n-check", "internal/ircserver/cmd_privmsg.go", "!ok && c.modes['n'] {", "!ok && c.modes['n'] && false {"),
 ("topic-no-t-check", "internal/ircserver/cmd_topic.go", "\tif c.modes['t'] && !c.nicks[NickToLower(s.Nick)][chanop] {\n\t\ti.sendUser(s, reply, &irc.Message{\n\t\t\tPrefix:  i.ServerPrefix,\n\t\t\tCommand: irc.ERR_CHANOPRIVSNEEDED,\n\t\t\tParams:  []string{s.Nick, channel, \"You're not channel operator\"},\n\t\t})\n\t\treturn\n\t}\n\n\tc.topicNick = s.Nick", "\tc.topicNick = s.Nick"),
 ("invite-no-chanop", "internal/ircserver/cmd_invite.go", "if c.modes['i'] && !c.nicks[NickToLower(s.Nick)][chanop] {", "if false && c.modes['i'] {"),
 ("kill-no-oper", "internal/ircserver/cmd_kill.go", "\tif !s.Operator {", "\tif false {"),
 ("nick-only-self", "internal/ircserver/cmd_nick.go", "\t\t\ti.sendCommonChannels(s, reply,\n\t\t\t\ti.sendUser(s, reply, &irc.Message{\n\t\t\t\t\tPrefix:  &oldPrefix,\n\t\t\t\t\tCommand: irc.NICK,\n\t\t\t\t\tParams:  []string{nick},\n\t\t\t\t})))", "\t\t\ti.sendUser(s, reply, &irc.Message{\n\t\t\t\tPrefix:  &oldPrefix,\n\t\t\t\tCommand: irc.NICK,\n\t\t\t\tParams:  []string{nick},\n\t\t\t}))"),
 ("channel-never-deleted", "internal/ircserver/ircserver.go", "\tif len(c.nicks) > 0 {\n\t\treturn\n\t}\n\tlc := ChanToLower(c.name)", "\tif len(c.nicks) >= 0 {\n\t\treturn\n\t}\n\tlc := ChanToLower(c.name)"),
 ("part-keeps-session-chan", "internal/ircserver/cmd_part.go", "\t\tdelete(s.Channels, ChanToLower(channelname))\n", ""),
 ("captcha-not-checked", "internal/ircserver/ircserver.go", "\tif captcha == \"\" {\n\t\treturn errors.New(\"no captcha specified\")\n\t}\n", "\tif captcha == \"\" {\n\t\treturn nil\n\t}\n"),
 ("captcha-replay-ok", "internal/ircserver/ircserver.go", "if !strings.HasPrefix(string(purpose), \"okay:\") {", "if false {"),
 ("captcha-never-stale", "internal/ircserver/ircserver.go", "> 5*time.Minute {", "> 5000*time.Minute {"),
 ("join-ban-ignored", "internal/ircserver/cmd_join.go", "} else if banned(c.bans, s.ircPrefix.String(), s.Nick+\"!\"+s.Username+\"@\"+s.RemoteAddr) {", "} else if false && banned(c.bans, s.ircPrefix.String(), s.Nick+\"!\"+s.Username+\"@\"+s.RemoteAddr) {"),
 ("join-key-ignored", "internal/ircserver/cmd_join.go", "} else if c.modes['k'] && c.key != key {", "} else if false && c.key != key {"),
 ("client-reaches-server-table", "internal/ircserver/ircserver.go", "\tif s.Server {\n\t\tserverPrefix = \"server_\"\n\t}", "\tif s.Server || command == \"SVSHOLD\" || command == \"SVSMODE\" {\n\t\tserverPrefix = \"server_\"\n\t}"),
 ("marker-after-process", "statemachine.go", None, None),
 ("error-to-everyone", "internal/ircserver/cmd_quit.go", "\t\ti.sendUser(s, reply, &irc.Message{\n\t\t\tCommand: irc.ERROR,", "\t\ti.sendCommonChannels(s, reply, &irc.Message{\n\t\t\tCommand: irc.ERROR,"),
 ("whois-to-target", "internal/ircserver/cmd_whois.go", "\ti.sendUser(s, reply, &irc.Message{\n\t\tPrefix:  i.ServerPrefix,\n\t\tCommand: irc.RPL_WHOISUSER,", "\ti.sendUser(session, reply, &irc.Message{\n\t\tPrefix:  i.ServerPrefix,\n\t\tCommand: irc.RPL_WHOISUSER,"),
 ("unmarshal-loses-oper", "internal/ircserver/serialize.go", "\t\t\tOperator:            s.Operator,\n", "\t\t\tOperator:            false && s.Operator,\n"),
 ("quit-no-trunc-raw-data", "internal/ircserver/cmd_away.go", "s.AwayMsg = strings.TrimSpace(msg.Trailing())", "s.AwayMsg = strings.TrimSpace(msg.Trailing()) + \"\""),
]
only = sys.argv[1:] 
env = dict(os.environ, VERIF_REPO=WT)
def smoke(seed="11", n="150"):
    out = subprocess.run(["python3", "/verif/harness/py/irc_smoke.py", "--n", n, "--seed", seed, "--no-shrink"], env=env, stdout=subprocess.PIPE, stderr=subprocess.STDOUT).stdout.decode("utf-8", "replace")
    sigs = set(re.findall(r"^(?:KNOWN \S+\s+|UNKNOWN )(\S+)", out, re.M))
    return sigs, out
base, out = smoke()
print("baseline signatures:", sorted(base))
for name, f, old, new in M:
    if only and name not in only: continue
    if old is None: continue
    p = os.path.join(WT, f)
    src = open(p).read()
    if src.count(old) != 1:
        print("%-28s MUTATION-DOES-NOT-APPLY (%d)" % (name, src.count(old))); continue
    open(p, "w").write(src.replace(old, new))
    try:
        b = subprocess.run("cd %s && GOFLAGS=-mod=mod GOPROXY=off GOSUMDB=off GOTOOLCHAIN=local go build ./... 2>&1 | grep -v WARNING | head -5" % WT, shell=True, stdout=subprocess.PIPE).stdout.decode()
        if b.strip():
            print("%-28s DOES-NOT-COMPILE %s" % (name, b.strip()[:200])); continue
        sigs, o = smoke()
        new_s = sorted(s for s in sigs - base if not s.startswith("harness"))
        harness = sorted(s for s in sigs - base if s.startswith("harness"))
        print("%-28s %s %s%s" % (name, "CAUGHT" if new_s else "MISSED", ",".join(new_s)[:300], (" HARNESS:" + ",".join(harness)) if harness else ""))
    finally:
        open(p, "w").write(src)
