//go:build verif

package outputstream

// C20 race-detector stress harness for the output stream (run with `go test -race`).
// Injected into internal/outputstream by `go test -overlay`; never part of /repo.
//
// One goroutine plays raft's FSM goroutine: Add (from Apply) and Delete of old batches (from
// Snapshot's compaction) — these two are serial in the running system.  The other goroutines play
// GetMessages handlers: Get + GetNext followers with cancellation, InterruptGetNext from the
// handler's cancel function, LastSeen.  Deletes stay behind every follower's published position (and
// at least 200 batches behind the head), so that no follower ever waits behind a deleted batch: that
// situation is defect D5 / property C08 (nil dereference in GetNext while holding messagesMu), not a
// data race, and would take the whole harness down.

import (
	"context"
	"fmt"
	"math/rand"
	"os"
	"sort"
	"strconv"
	"sync"
	"sync/atomic"
	"testing"
	"time"

	"github.com/robustirc/robustirc/internal/robust"
)

func verifRaceEnvInt(name string, def int64) int64 {
	if v, err := strconv.ParseInt(os.Getenv(name), 10, 64); err == nil {
		return v
	}
	return def
}

func TestVerifRaceStream(t *testing.T) {
	ms := verifRaceEnvInt("VERIF_RACE_MS", 3000)
	seed := verifRaceEnvInt("VERIF_SEED", 1)
	readers := int(verifRaceEnvInt("VERIF_RACE_READERS", 4))

	o, err := NewOutputStream(t.TempDir())
	if err != nil {
		t.Fatal(err)
	}
	defer o.Close()

	var stop int32
	var head uint64 // highest id added (atomic)
	counts := map[string]*int64{}
	for _, n := range []string{"fsm:Add", "fsm:Delete", "handler:Get", "handler:GetNext", "handler:GetNext-cancelled",
		"handler:InterruptGetNext", "handler:LastSeen"} {
		counts[n] = new(int64)
	}
	var wg sync.WaitGroup
	// position (batch id) each follower is at or behind which it may wait; MaxUint64 = none
	pos := make([]uint64, readers)
	for r := range pos {
		pos[r] = ^uint64(0)
	}
	horizon := func(head uint64) uint64 { // delete only ids < horizon
		h := head - 200
		for r := range pos {
			if p := atomic.LoadUint64(&pos[r]); p < h {
				h = p
			}
		}
		return h
	}

	// FSM goroutine
	wg.Add(1)
	go func() {
		defer wg.Done()
		rng := rand.New(rand.NewSource(seed))
		id := uint64(100)
		deleted := uint64(100)
		for atomic.LoadInt32(&stop) == 0 {
			id++
			n := 1 + rng.Intn(3)
			msgs := make([]Message, n)
			for k := range msgs {
				msgs[k] = Message{Id: robust.Id{Id: id, Reply: uint64(k + 1)}, Data: fmt.Sprintf("PRIVMSG #c :%d.%d", id, k),
					InterestingFor: map[uint64]bool{1: true, 2: k%2 == 0}}
			}
			if err := o.Add(msgs); err != nil {
				t.Errorf("Add: %v", err)
				return
			}
			atomic.StoreUint64(&head, id)
			atomic.AddInt64(counts["fsm:Add"], 1)
			if id%16 == 0 && id > 400 {
				for lim := horizon(id); deleted+1 < lim; deleted++ {
					if err := o.Delete(robust.Id{Id: deleted + 1}); err != nil {
						t.Errorf("Delete: %v", err)
						return
					}
					atomic.AddInt64(counts["fsm:Delete"], 1)
				}
			}
			if id%64 == 0 {
				time.Sleep(200 * time.Microsecond)
			}
		}
	}()

	// followers (api.getMessages) and their cancellation (handleGetMessages' cancelAll)
	for r := 0; r < readers; r++ {
		wg.Add(1)
		go func(r int) {
			defer wg.Done()
			rng := rand.New(rand.NewSource(seed + int64(r) + 1))
			for atomic.LoadInt32(&stop) == 0 {
				func() {
					defer atomic.StoreUint64(&pos[r], ^uint64(0))
					ctx, cancel := context.WithCancel(context.Background())
					defer cancel()
					atomic.StoreUint64(&pos[r], 0) // no deletions until the start position is published
					h := atomic.LoadUint64(&head)
					last := robust.Id{Id: h}
					if h > 120 && rng.Intn(3) == 0 {
						last = robust.Id{Id: h - uint64(rng.Intn(20)), Reply: 1}
					}
					atomic.StoreUint64(&pos[r], last.Id)
					if _, ok := o.Get(last); ok {
						atomic.AddInt64(counts["handler:Get"], 1)
					}
					steps := 1 + rng.Intn(30)
					timer := time.AfterFunc(time.Duration(1+rng.Intn(5))*time.Millisecond, func() {
						cancel()
						o.InterruptGetNext()
						atomic.AddInt64(counts["handler:InterruptGetNext"], 1)
					})
					defer timer.Stop()
					for s := 0; s < steps; s++ {
						atomic.StoreUint64(&pos[r], last.Id)
						msgs := o.GetNext(ctx, last)
						if len(msgs) == 0 {
							atomic.AddInt64(counts["handler:GetNext-cancelled"], 1)
							return
						}
						atomic.AddInt64(counts["handler:GetNext"], 1)
						last = msgs[0].Id
						_ = msgs[0].InterestingFor[1]
					}
				}()
			}
		}(r)
	}
	wg.Add(1)
	go func() {
		defer wg.Done()
		for atomic.LoadInt32(&stop) == 0 {
			o.LastSeen()
			atomic.AddInt64(counts["handler:LastSeen"], 1)
			time.Sleep(50 * time.Microsecond)
		}
	}()

	time.Sleep(time.Duration(ms) * time.Millisecond)
	atomic.StoreInt32(&stop, 1)
	// wake followers that wait at the head
	done := make(chan struct{})
	go func() {
		for {
			select {
			case <-done:
				return
			default:
				o.InterruptGetNext()
				time.Sleep(time.Millisecond)
			}
		}
	}()
	wg.Wait()
	close(done)

	if path := os.Getenv("VERIF_OUT"); path != "" {
		f, err := os.OpenFile(path, os.O_TRUNC|os.O_CREATE|os.O_WRONLY, 0644)
		if err == nil {
			var names []string
			for n := range counts {
				names = append(names, n)
			}
			sort.Strings(names)
			for _, n := range names {
				fmt.Fprintf(f, "op outputstream/%s %d\n", n, atomic.LoadInt64(counts[n]))
			}
			f.Close()
		}
	}
}
