(* Extraction of the executable models.  ExtrOcamlBasic only: bool, option, unit, list,
   prod, sumbool, sumor map to OCaml's; N, Z, positive, nat, ascii, string stay the
   extracted inductive types. *)
From Coq Require Extraction.
From Coq Require Import ExtrOcamlBasic.
From RV Require Import Driver.Main.
Extraction Language OCaml.
Extraction "model.ml" Driver.Main.run.
