//go:build verif

package ircserver

// C20 race-detector stress harness, package level (run with `go test -race`).
// Injected into internal/ircserver by `go test -overlay`; never part of /repo.
//
// One goroutine plays raft's FSM goroutine (the only caller of the mutating API: CreateSession,
// UpdateLastClientMessageID, ProcessMessage, SetLastProcessed, MaybeDeleteSession, config
// replacement under ConfigMu as statemachine.go does it; in the restore scenario: Unmarshal on
// a server that has already been handed to the readers, as FSM.Restore does).  The other
// goroutines play HTTP handlers, the expiry loop and the metrics callbacks and only call what
// those call: ThrottleUntil, GetSession/GetAuth, GetNick, LastPostMessage, GetSessions,
// NumSessions, NumChannels, ExpireSessions, Marshal, SessionLimit, ChannelLimit, TrustedBridge,
// OriginWhitelisted.  The harness itself shares no variable with them except through these calls
// and sync/atomic counters.

import (
	"fmt"
	"math/rand"
	"os"
	"sort"
	"strconv"
	"sync"
	"sync/atomic"
	"testing"
	"time"

	"github.com/robustirc/robustirc/internal/config"
	"github.com/robustirc/robustirc/internal/robust"
	"gopkg.in/sorcix/irc.v2"
)

type verifRaceCounters struct {
	mu sync.Mutex
	m  map[string]*int64
}

func (c *verifRaceCounters) get(name string) *int64 {
	c.mu.Lock()
	defer c.mu.Unlock()
	if c.m == nil {
		c.m = map[string]*int64{}
	}
	p, ok := c.m[name]
	if !ok {
		p = new(int64)
		c.m[name] = p
	}
	return p
}

func (c *verifRaceCounters) dump(prefix string) { c.dumpTo(os.Getenv("VERIF_OUT"), prefix) }

// dumpTo rewrites path with the current counters (called periodically by scenarios that may be
// aborted by the runtime)
func (c *verifRaceCounters) dumpTo(path, prefix string) {
	if path == "" || path == ".restore" {
		return
	}
	f, err := os.OpenFile(path, os.O_TRUNC|os.O_CREATE|os.O_WRONLY, 0644)
	if err != nil {
		return
	}
	defer f.Close()
	c.mu.Lock()
	defer c.mu.Unlock()
	var names []string
	for n := range c.m {
		names = append(names, n)
	}
	sort.Strings(names)
	for _, n := range names {
		fmt.Fprintf(f, "op %s%s %d\n", prefix, n, atomic.LoadInt64(c.m[n]))
	}
}

func verifRaceEnvInt(name string, def int64) int64 {
	if v, err := strconv.ParseInt(os.Getenv(name), 10, 64); err == nil {
		return v
	}
	return def
}

const verifRaceSessions = 6

func verifRaceID(k int) robust.Id { return robust.Id{Id: uint64(1000 + k)} }

// the FSM goroutine: applies entries one after the other
func verifRaceApply(i *IRCServer, rng *rand.Rand, stop *int32, cnt *verifRaceCounters) {
	next := uint64(5000)
	gens := make([]int, verifRaceSessions)     // incarnation of session k: a fresh remote address per incarnation
	nicks := make([]string, verifRaceSessions) // current nickname of session k (as far as the stream knows)
	apply := func(k int, line string) {
		next++
		msg := &robust.Message{Id: robust.Id{Id: next}, Session: verifRaceID(k), Type: robust.IRCFromClient,
			Data: line, ClientMessageId: next, UnixNano: time.Now().UnixNano(),
			RemoteAddr: fmt.Sprintf("10.%d.%d.%d", gens[k]>>8&255, gens[k]&255, k)}
		if err := i.UpdateLastClientMessageID(msg); err != nil {
			return
		}
		i.ProcessMessage(msg, irc.ParseMessage(line))
		i.SetLastProcessed(robust.Id{Id: msg.Id.Id})
		i.MaybeDeleteSession(msg.Session)
		atomic.AddInt64(cnt.get("apply:ProcessMessage"), 1)
	}
	gen := 0
	// what statemachine.go does for a robust.Config entry
	setConfig := func() {
		cfg := config.DefaultConfig
		cfg.Banned = map[string]string{}
		cfg.IRC.Operators = []config.IRCOp{{Name: "verifop", Password: "verifpw"}}
		cfg.PostMessageCooloff = config.Duration(time.Duration(1+rng.Intn(3)) * time.Millisecond)
		cfg.SessionExpiration = config.Duration(time.Hour)
		cfg.MaxSessions = uint64(100 + rng.Intn(5))
		func() {
			i.ConfigMu.Lock()
			defer i.ConfigMu.Unlock()
			i.Config = cfg
			i.Config.Revision = uint64(gen)
		}()
		atomic.AddInt64(cnt.get("apply:Config"), 1)
	}
	setConfig()
	create := func(k int) {
		next++
		gens[k]++
		i.CreateSession(verifRaceID(k), fmt.Sprintf("auth-%d-0123456789", k), time.Now())
		atomic.AddInt64(cnt.get("apply:CreateSession"), 1)
		nicks[k] = fmt.Sprintf("n%d", k)
		apply(k, "NICK "+nicks[k])
		apply(k, fmt.Sprintf("USER u%d 0 * :Real %d", k, k))
		if k == 0 {
			apply(k, "OPER verifop verifpw") // session 0 is the IRC operator
		}
	}
	for k := 0; k < verifRaceSessions; k++ {
		create(k)
	}
	chans := []string{"#a", "#b", "#c"}
	for atomic.LoadInt32(stop) == 0 {
		k := rng.Intn(verifRaceSessions)
		switch rng.Intn(14) {
		case 0, 1:
			apply(k, "JOIN "+chans[rng.Intn(len(chans))])
		case 2:
			apply(k, "PART "+chans[rng.Intn(len(chans))])
		case 3, 4:
			apply(k, "PRIVMSG "+chans[rng.Intn(len(chans))]+" :hello")
		case 5:
			gen++
			nicks[k] = fmt.Sprintf("n%dx%d", k, gen%7)
			apply(k, "NICK "+nicks[k])
		case 6:
			apply(k, "TOPIC "+chans[rng.Intn(len(chans))]+" :topic")
		case 7:
			apply(k, "AWAY :gone")
		case 8:
			apply(k, "PING x")
		case 9:
			setConfig()
		case 10:
			// QUIT and re-create (DeleteSession + CreateSession entries)
			apply(k, "QUIT :bye")
			create(k)
		case 11:
			apply(k, "WHOIS n"+strconv.Itoa(rng.Intn(verifRaceSessions)))
		case 12, 13:
			// the operator GLINEs a user whose remote address is known: cmdGline writes Config.Banned in
			// place under ConfigMu.Lock and kills the session, which then reconnects from a new address
			if k == 0 {
				k = 1
			}
			apply(0, "GLINE "+nicks[k]+" :verif gline")
			atomic.AddInt64(cnt.get("apply:GLINE"), 1)
			create(k)
		}
	}
}

// one reader goroutine: what HTTP handlers, the expiry loop and metrics callbacks call
func verifRaceReader(get func() *IRCServer, rng *rand.Rand, stop *int32, cnt *verifRaceCounters, ops []string) {
	for atomic.LoadInt32(stop) == 0 {
		i := get()
		id := verifRaceID(rng.Intn(verifRaceSessions))
		op := ops[rng.Intn(len(ops))]
		switch op {
		case "ThrottleUntil":
			i.ThrottleUntil(id)
		case "GetSession":
			i.GetSession(id)
		case "GetAuth":
			i.GetAuth(id)
		case "GetNick":
			i.GetNick(id)
		case "LastPostMessage":
			i.LastPostMessage(id)
		case "GetSessions":
			i.GetSessions()
		case "NumSessions":
			i.NumSessions()
		case "NumChannels":
			i.NumChannels()
		case "ExpireSessions":
			i.ExpireSessions()
		case "Marshal":
			i.Marshal(0)
		case "SessionLimit":
			i.SessionLimit()
		case "ChannelLimit":
			i.ChannelLimit()
		case "TrustedBridge":
			i.TrustedBridge("x")
		case "OriginWhitelisted":
			i.OriginWhitelisted("https://x")
		}
		atomic.AddInt64(cnt.get("read:"+op), 1)
	}
}

var verifRaceAllReads = []string{"ThrottleUntil", "ThrottleUntil", "GetSession", "GetAuth", "GetNick", "LastPostMessage",
	"GetSessions", "NumSessions", "NumChannels", "ExpireSessions", "Marshal", "SessionLimit", "ChannelLimit",
	"TrustedBridge", "OriginWhitelisted"}

// scenario 1: entries are applied while handlers read
func TestVerifRaceApply(t *testing.T) {
	ms := verifRaceEnvInt("VERIF_RACE_MS", 3000)
	seed := verifRaceEnvInt("VERIF_SEED", 1)
	readers := int(verifRaceEnvInt("VERIF_RACE_READERS", 6))
	{
		cnt := &verifRaceCounters{}
		i := NewIRCServer("verif.net", time.Now())
		var stop int32
		var wg sync.WaitGroup
		wg.Add(1)
		go func() {
			defer wg.Done()
			verifRaceApply(i, rand.New(rand.NewSource(seed)), &stop, cnt)
		}()
		for r := 0; r < readers; r++ {
			wg.Add(1)
			go func(r int) {
				defer wg.Done()
				verifRaceReader(func() *IRCServer { return i }, rand.New(rand.NewSource(seed+int64(r)+1)), &stop, cnt, verifRaceAllReads)
			}(r)
		}
		time.Sleep(time.Duration(ms) * time.Millisecond)
		atomic.StoreInt32(&stop, 1)
		wg.Wait()
		cnt.dump("ircserver/apply-vs-handlers/")
	}
}

// scenario 2: FSM.Restore: a fresh server is handed to the handlers (ReplaceState) and only then
// filled by Unmarshal.  On a tree where Unmarshal takes no lock the Go runtime may abort the process
// ("fatal error: concurrent map ..."), which the check treats like a race report.
func TestVerifRaceRestore(t *testing.T) {
	ms := verifRaceEnvInt("VERIF_RACE_MS", 3000)
	seed := verifRaceEnvInt("VERIF_SEED", 1)
	readers := int(verifRaceEnvInt("VERIF_RACE_READERS", 6))
	{
		cnt := &verifRaceCounters{}
		src := NewIRCServer("verif.net", time.Now())
		for k := 0; k < verifRaceSessions; k++ {
			src.CreateSession(verifRaceID(k), fmt.Sprintf("auth-%d-0123456789", k), time.Now())
			src.ProcessMessage(&robust.Message{Id: robust.Id{Id: uint64(2000 + k)}, Session: verifRaceID(k)}, irc.ParseMessage(fmt.Sprintf("NICK n%d", k)))
			src.ProcessMessage(&robust.Message{Id: robust.Id{Id: uint64(2100 + k)}, Session: verifRaceID(k)}, irc.ParseMessage("USER u 0 * :r"))
			src.ProcessMessage(&robust.Message{Id: robust.Id{Id: uint64(2200 + k)}, Session: verifRaceID(k)}, irc.ParseMessage("JOIN #a"))
		}
		state, err := src.Marshal(0)
		if err != nil {
			t.Fatal(err)
		}
		var cur atomic.Value // what api.HTTP.ircServer() returns (guarded by HTTP.mu there)
		cur.Store(NewIRCServer("verif.net", time.Now()))
		var stop int32
		var wg sync.WaitGroup
		for r := 0; r < readers; r++ {
			wg.Add(1)
			go func(r int) {
				defer wg.Done()
				verifRaceReader(func() *IRCServer { return cur.Load().(*IRCServer) }, rand.New(rand.NewSource(seed+100+int64(r))), &stop, cnt,
					[]string{"GetSession", "GetAuth", "GetNick", "GetSessions", "NumSessions", "NumChannels", "SessionLimit", "ChannelLimit", "Marshal", "ThrottleUntil", "ExpireSessions"})
			}(r)
		}
		deadline := time.Now().Add(time.Duration(ms) * time.Millisecond)
		for time.Now().Before(deadline) {
			fresh := NewIRCServer("verif.net", time.Now())
			cur.Store(fresh) // fsm.ReplaceState(ircServer, ...)
			if _, err := fresh.Unmarshal(state); err != nil {
				t.Fatal(err)
			}
			atomic.AddInt64(cnt.get("restore:Unmarshal"), 1)
			if n := atomic.LoadInt64(cnt.get("restore:Unmarshal")); n%20 == 1 {
				cnt.dumpTo(os.Getenv("VERIF_OUT")+".restore", "ircserver/restore-vs-handlers/")
			}
			time.Sleep(200 * time.Microsecond)
		}
		atomic.StoreInt32(&stop, 1)
		wg.Wait()
		cnt.dump("ircserver/restore-vs-handlers/")
	}
}
