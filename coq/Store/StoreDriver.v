(* Store/StoreDriver.v — case-file driver for the codec and store models.

   kind `codec` (one encode/decode case per line):
     codec msg <idid> <idreply> <sid> <sreply> <type> <datahex> <nano> <servers> <masterhex> <cmid> <rev> <remotehex> <index>
        -> codec msg enc=<hex|err> copy=<hex|err|panic> dec=<M|panic|->
     codec msgdec <hex> <index>              -> codec msgdec <M|panic>
     codec batch <next> {<id>,<reply>,<datahex>,<rcpts>}*
        -> codec batch len=<n> enc=<hex|multi> dec=<B|panic>
     codec batchdec <hex>                    -> codec batchdec <B|panic>
     codec stream {<hex>}*                   -> codec stream enc=<hex> dec=<hex,hex,..|err>
     codec readers <offset> {<L>}*           -> codec readers {<per entry>}*   (see run_readers)
   M = m:idid,idreply,sid,sreply,type,datahex,nano,servers,masterhex,cmid,rev,remotehex
       servers = hex/hex/... with - for an empty element, _ for the empty list
   B = b:next{;id,reply,datahex,rcpts}  rcpts = sorted duplicate-free n/n/.. or _
   L = idx,term,type,datahex,exthex,sec,nsec

   kind `store` (one operation program per line):
     store <p|r> <offset> <j|p> <table> {<op>}*   -> store {<obs>}*
     table = - or entries jsonhex~<12 message fields comma separated>, joined by ;
     ops: first last get:i sl:L|L|.. slp:idx,term,type,datahex,exthex,sec|none,nsec dr:min,max
          set:khex,vhex getk:khex setu:khex,n getu:khex reopen:j reopen:p kill:j kill:p convert
          raw:i putraw:i,hex fb:i msg:i (the replicated message of a command entry)
     obs: ok idx=n log=L notfound bytes=<hex|nil> u64=n err panic raw=<hex|json|absent> fb=<L|err|absent>
          msg=<M|panic|-|notfound|err>
   Legacy JSON in the executable instance: messages are looked up in the table shipped with the
   case (filled by the generator for exactly the JSON texts that occur); the JSON form of a
   raft.Log never leaves the store, so a private stand-in ("J" ++ protobuf) is used and raw
   values that do not start with 'p' are printed as `json` on both sides. *)
From RV Require Import Base.Text Store.Wire Store.Proto Store.Batch Store.KV.
Local Open Scope string_scope.

Definition comma := ","%char.
Definition toks (c : ascii) (s : string) : list string := split_on c s.
Definition Nf (s : string) : N := match N_of_dec s with Some n => n | None => 0%N end.
Definition Zf (s : string) : Z := match Z_of_dec s with Some n => n | None => 0%Z end.
Definition nth_s (l : list string) (i : nat) : string := nth i l EmptyString.

(* ---- messages ------------------------------------------------------------------------------ *)
Definition parse_servers (s : string) : list string :=
  if String.eqb s "_" then [] else map unhex_field (toks "/"%char s).
Definition show_servers (l : list string) : string :=
  match l with [] => "_" | _ => sjoin "/" (map hex_field l) end.

Definition parse_msg (f : list string) : msg :=
  Msg (Nf (nth_s f 0), Nf (nth_s f 1)) (Nf (nth_s f 2), Nf (nth_s f 3)) (Zf (nth_s f 4))
      (unhex_field (nth_s f 5)) (Zf (nth_s f 6)) (parse_servers (nth_s f 7)) (unhex_field (nth_s f 8))
      (Nf (nth_s f 9)) (Nf (nth_s f 10)) (unhex_field (nth_s f 11)).
Definition show_msg (m : msg) : string :=
  "m:" ++ sjoin "," [dec_of_N (fst (m_id m)); dec_of_N (snd (m_id m));
                     dec_of_N (fst (m_session m)); dec_of_N (snd (m_session m));
                     dec_of_Z (m_type m); hex_field (m_data m); dec_of_Z (m_unixnano m);
                     show_servers (m_servers m); hex_field (m_master m);
                     dec_of_N (m_cmid m); dec_of_N (m_revision m); hex_field (m_remote m)].
Definition show_res_msg (r : res msg) : string :=
  match r with ROk m => show_msg m | RErr => "err" | RPanic => "panic" end.

Definition no_json_msg (_ : string) : option msg := None.

(* the destination CopyToProtoMessage is tried on: every field pre-filled with junk *)
Definition dirty_dst : pb_msg :=
  PbMsg (Some (PbId 7 9)) (Some (PbId 3 4)) 5 "x" 6 ["y"; "yy"] "z" 1 2 "w".

Definition run_msg (f : list string) : string :=
  let m := parse_msg (skipn 2 f) in
  let index := Nf (nth_s f 14) in
  let enc := encode_msg_checked m in
  let copy := match copy_to_proto m dirty_dst with
              | ROk p => match marshal_msg_checked p with
                         | Some b => hex_encode (String "p"%char b)
                         | None => "err"
                         end
              | RErr => "err"
              | RPanic => "panic"
              end in
  match enc with
  | Some b => "codec msg enc=" ++ hex_encode (String "p"%char b) ++ " copy=" ++ copy ++
              " dec=" ++ show_res_msg (from_bytes no_json_msg (String "p"%char b) index)
  | None => "codec msg enc=err copy=" ++ copy ++ " dec=-"
  end.

Definition run_msgdec (f : list string) : string :=
  "codec msgdec " ++ show_res_msg (from_bytes no_json_msg (unhex_field (nth_s f 2)) (Nf (nth_s f 3))).

(* ---- batches ------------------------------------------------------------------------------- *)
Definition parse_rcpts (s : string) : list N :=
  if String.eqb s "_" then [] else map Nf (toks "/"%char s).
Definition show_rcpts (l : list N) : string :=
  match l with [] => "_" | _ => sjoin "/" (map dec_of_N l) end.
Definition parse_bmsg (s : string) : bmsg :=
  let f := toks comma s in
  BMsg (Nf (nth_s f 0)) (Nf (nth_s f 1)) (unhex_field (nth_s f 2)) (parse_rcpts (nth_s f 3)).
Definition show_bmsg (m : bmsg) : string :=
  sjoin "," [dec_of_N (bm_id m); dec_of_N (bm_reply m); hex_field (bm_data m);
             show_rcpts (canon_rcpts (bm_rcpt m))].
Definition show_batch (b : batch) : string :=
  "b:" ++ sjoin ";" (dec_of_N (b_next b) :: map show_bmsg (b_msgs b)).
Definition show_opt_batch (o : option batch) : string :=
  match o with Some b => show_batch b | None => "panic" end.
Definition single_rcpt (m : bmsg) : bool :=
  match bm_rcpt m with [] => true | [_] => true | _ => false end.

Definition run_batch (f : list string) : string :=
  let b := Batch (Nf (nth_s f 2)) (map parse_bmsg (skipn 3 f)) in
  let e := marshal_batch b in
  "codec batch len=" ++ dec_of_N (slen e) ++
  " enc=" ++ (if forallb single_rcpt (b_msgs b) then hex_field e else "multi") ++
  " dec=" ++ show_opt_batch (unmarshal_batch e).
Definition run_batchdec (f : list string) : string :=
  "codec batchdec " ++ show_opt_batch (unmarshal_batch (unhex_field (nth_s f 2))).

(* ---- snapshot stream framing ---------------------------------------------------------------- *)
Definition run_stream (f : list string) : string :=
  let e := persist_stream (map unhex_field (skipn 2 f)) in
  "codec stream enc=" ++ hex_encode e ++ " dec=" ++
  match restore_stream e with
  | Some l => (match l with [] => "_" | _ => sjoin "," (map hex_field l) end)
  | None => "err"
  end.

(* ---- raft log entries ----------------------------------------------------------------------- *)
Definition parse_log (s : string) : rlog :=
  let f := toks comma s in
  RLog (Nf (nth_s f 0)) (Nf (nth_s f 1)) (Nf (nth_s f 2)) (unhex_field (nth_s f 3))
       (unhex_field (nth_s f 4)) (Zf (nth_s f 5)) (Zf (nth_s f 6)).
Definition show_log (l : rlog) : string :=
  sjoin "," [dec_of_N (l_index l); dec_of_N (l_term l); dec_of_N (l_type l); hex_field (l_data l);
             hex_field (l_ext l); dec_of_Z (l_sec l); dec_of_Z (l_nsec l)].
Definition show_res_log (r : res rlog) : string :=
  match r with ROk l => show_log l | RErr => "err" | RPanic => "panic" end.
Definition parse_pblog (s : string) : pb_log :=
  let f := toks comma s in
  PbLog (Nf (nth_s f 0)) (Nf (nth_s f 1)) (Zf (nth_s f 2)) (unhex_field (nth_s f 3))
        (unhex_field (nth_s f 4))
        (if String.eqb (nth_s f 5) "none" then None else Some (Zf (nth_s f 5), Zf (nth_s f 6))).

(* stand-in for the JSON form of a raft.Log (never observable): "J" ++ protobuf; json.Marshal
   fails for years outside [0, 9999] *)
Definition json_year_ok (l : rlog) : bool :=
  (Z.leb (-62167219200) (l_sec l)) && (Z.ltb (l_sec l) 253402300800).
Definition standin_enc_log (l : rlog) : option string :=
  if json_year_ok l then Some (String "J"%char (marshal_log (pb_of_log l))) else None.
Definition standin_dec_log (v : string) : option rlog :=
  match v with
  | String c r => if Ascii.eqb c "J"%char
                  then match unmarshal_log r with Some p => Some (log_of_pb_store p) | None => None end
                  else None
  | EmptyString => None
  end.

(* ---- readers of one stored entry (C18): what each copy of the decoder sees ---------------- *)
(* per entry: G=<L> (GetLog) F=<L> (raftlog.FromBytes) S=<L> (Snapshot loop) D=<L> (text dump)
   C=<L> (canary) R=<idx>,<datahex>,<keyhex> (decodeProtobuf) M=<M> (the message every one of
   them hands to NewMessageFromBytes, when the entry is a command) *)
Definition run_readers (f : list string) : string :=
  let off := Nf (nth_s f 2) in
  let one (s : string) : string :=
    let l := parse_log s in
    let v := encode_log l in
    "G=" ++ show_res_log (read_store standin_dec_log v) ++
    " F=" ++ show_res_log (read_frombytes standin_dec_log v) ++
    " S=" ++ show_res_log (read_snapshot standin_dec_log v) ++
    " D=" ++ show_res_log (read_dump standin_dec_log v) ++
    " C=" ++ show_res_log (read_canary standin_dec_log v) ++
    " R=" ++ match read_restore v with
             | ROk (i, d, (k, _)) => dec_of_N i ++ "," ++ hex_field d ++ "," ++ hex_encode k
             | RErr => "err" | RPanic => "panic" end ++
    " M=" ++ (if N.eqb (l_type l) 0
              then show_res_msg (from_bytes no_json_msg (l_data l) (id_from_raft_index off (l_index l)))
              else "-") in
  "codec readers " ++ sjoin " | " (map one (skipn 3 f)).

Definition run_codec (f : list string) : string :=
  let k := nth_s f 1 in
  if String.eqb k "msg" then run_msg f
  else if String.eqb k "msgdec" then run_msgdec f
  else if String.eqb k "batch" then run_batch f
  else if String.eqb k "batchdec" then run_batchdec f
  else if String.eqb k "stream" then run_stream f
  else if String.eqb k "readers" then run_readers f
  else "codec unknown".

(* ---- store programs --------------------------------------------------------------------------- *)
Definition parse_table (s : string) : list (string * msg) :=
  if String.eqb s "-" then []
  else map (fun e => let p := toks "~"%char e in
                     (unhex_field (nth_s p 0), parse_msg (toks comma (nth_s p 1))))
           (toks ";"%char s).
Fixpoint table_lookup (t : list (string * msg)) (b : string) : option msg :=
  match t with
  | [] => None
  | (k, m) :: r => if String.eqb k b then Some m else table_lookup r b
  end.

Inductive xop :=
| XOp (o : op)
| XRaw (i : N)
| XPutRaw (i : N) (v : string)
| XFromBytes (i : N)
| XMsg (i : N)
| XBad.

Definition parse_op (s : string) : xop :=
  let p := toks ":"%char s in
  let k := nth_s p 0 in
  let a := toks comma (nth_s p 1) in
  if String.eqb k "first" then XOp OFirst
  else if String.eqb k "last" then XOp OLast
  else if String.eqb k "get" then XOp (OGetLog (Nf (nth_s a 0)))
  else if String.eqb k "sl" then XOp (OStoreLogs (map parse_log (toks "|"%char (nth_s p 1))))
  else if String.eqb k "slp" then XOp (OStoreLogProto (parse_pblog (nth_s p 1)))
  else if String.eqb k "dr" then XOp (ODeleteRange (Nf (nth_s a 0)) (Nf (nth_s a 1)))
  else if String.eqb k "set" then XOp (OSet (unhex_field (nth_s a 0)) (unhex_field (nth_s a 1)))
  else if String.eqb k "getk" then XOp (OGet (unhex_field (nth_s a 0)))
  else if String.eqb k "setu" then XOp (OSetU64 (unhex_field (nth_s a 0)) (Nf (nth_s a 1)))
  else if String.eqb k "getu" then XOp (OGetU64 (unhex_field (nth_s a 0)))
  else if String.eqb k "reopen" then XOp (OReopen (String.eqb (nth_s p 1) "p"))
  else if String.eqb k "kill" then XOp (OReopen (String.eqb (nth_s p 1) "p"))   (* SIGKILL + reopen: durability assumption *)
  else if String.eqb k "convert" then XOp OConvert
  else if String.eqb k "raw" then XRaw (Nf (nth_s a 0))
  else if String.eqb k "putraw" then XPutRaw (Nf (nth_s a 0)) (unhex_field (nth_s a 1))
  else if String.eqb k "fb" then XFromBytes (Nf (nth_s a 0))
  else if String.eqb k "msg" then XMsg (Nf (nth_s a 0))
  else XBad.

Definition show_obs (o : obs) : string :=
  match o with
  | ObsOk => "ok"
  | ObsIndex n => "idx=" ++ dec_of_N n
  | ObsLog l => "log=" ++ show_log l
  | ObsNotFound => "notfound"
  | ObsBytes None => "bytes=nil"
  | ObsBytes (Some v) => "bytes=" ++ hex_field v
  | ObsU64 n => "u64=" ++ dec_of_N n
  | ObsErr => "err"
  | ObsPanic => "panic"
  end.

Definition show_raw (o : option string) : string :=
  match o with
  | None => "raw=absent"
  | Some v => if starts_p v then "raw=" ++ hex_encode v else "raw=json"
  end.

Section Run.
Variable var : variant.
Variable off : N.
Variable tbl : list (string * msg).

Definition xstep (s : store) (x : xop) : store * string :=
  match x with
  | XOp o => let '(s', ob) := step standin_enc_log standin_dec_log (table_lookup tbl) off var s o in
             (s', show_obs ob)
  | XRaw i => (s, show_raw (kv_get (log_key i) (st_kv s)))
  | XPutRaw i v => (Store (kv_put (log_key i) v (st_kv s)) (st_proto s), "ok")
  | XFromBytes i =>
      (s, match kv_get (log_key i) (st_kv s) with
          | None => "fb=absent"
          | Some v => "fb=" ++ show_res_log (read_frombytes standin_dec_log v)
          end)
  | XMsg i =>
      (s, match get_log standin_dec_log s i with
          | ObsLog l => if N.eqb (l_type l) 0
                        then "msg=" ++ show_res_msg (from_bytes (table_lookup tbl) (l_data l)
                                                                (id_from_raft_index off (l_index l)))
                        else "msg=-"
          | ObsNotFound => "msg=notfound"
          | _ => "msg=err"
          end)
  | XBad => (s, "bad-op")
  end.

Fixpoint xrun (s : store) (xs : list xop) : list string :=
  match xs with
  | [] => []
  | x :: r => let '(s', o) := xstep s x in o :: xrun s' r
  end.
End Run.

Definition run_store (f : list string) : string :=
  let var := if String.eqb (nth_s f 1) "r" then Repaired else Pinned in
  let off := Nf (nth_s f 2) in
  let proto := String.eqb (nth_s f 3) "p" in
  let tbl := parse_table (nth_s f 4) in
  sjoin " " ("store" :: xrun var off tbl (empty_store proto) (map parse_op (skipn 5 f))).

Definition run_line (f : list string) : string :=
  if String.eqb (nth_s f 0) "codec" then run_codec f else run_store f.
