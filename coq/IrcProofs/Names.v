(* IrcProofs/Names.v — the two remaining clauses of C14:
   (1) every owned nickname and every channel name is syntactically valid in every reachable state;
   (2) the configured limits on the numbers of sessions and channels are honoured by every entry.
   Both are proved with a small partial-correctness Hoare logic over the handler monad ("whatever the
   handler does, if it returns then ..."), so neither needs the base invariant or well-formedness:
   the only hypothesis of (1) is that NICK lines of services links carry a valid nickname (scmd_nick.go
   does not validate it; [conforming] demands it), and (2) has no hypothesis at all. *)
From stdpp Require Import gmap.
From Coq Require Import Strings.String Strings.Ascii ZArith NArith Lia.
From RV Require Import Base.Text Irc.Str Irc.Parse Irc.State Irc.Monad Irc.Cmds Irc.SCmds Irc.Apply.
From RV Require IrcProofs.StrLemmas.
From RV Require Import IrcProofs.Inv IrcProofs.InvPrims IrcProofs.Handlers IrcProofs.Top IrcProofs.Examples.
Local Open Scope string_scope.

(* ---- partial-correctness triples ------------------------------------------------------------------- *)
Definition ht {A} (P : server -> Prop) (m : M A) (Q : A -> server -> Prop) : Prop :=
  forall sv r, P sv -> match m sv r with Ok (a, sv', _) => Q a sv' | _ => True end.

Section Logic.
  Context {A B : Type}.
  Implicit Types P : server -> Prop.

  Lemma ht_conseq P P' (m : M A) (Q Q' : A -> server -> Prop) :
    (forall sv, P sv -> P' sv) -> (forall a sv, Q' a sv -> Q a sv) -> ht P' m Q' -> ht P m Q.
  Proof.
    intros HP HQ H sv r Hp. specialize (H sv r (HP _ Hp)).
    destruct (m sv r) as [[[a sv'] r']|?|?]; auto.
  Qed.
  Lemma ht_pre P P' (m : M A) Q : (forall sv, P sv -> P' sv) -> ht P' m Q -> ht P m Q.
  Proof. intros HP. apply ht_conseq; auto. Qed.
  Lemma ht_post P (m : M A) (Q Q' : A -> server -> Prop) : (forall a sv, Q' a sv -> Q a sv) -> ht P m Q' -> ht P m Q.
  Proof. intros HQ. apply ht_conseq; auto. Qed.

  Lemma ht_bind P (m : M A) (f : A -> M B) R Q : ht P m R -> (forall a, ht (R a) (f a) Q) -> ht P (bindM m f) Q.
  Proof.
    intros Hm Hf sv r Hp. unfold bindM. specialize (Hm sv r Hp).
    destruct (m sv r) as [[[a sv'] r']|?|?]; [|exact Logic.I|exact Logic.I]. apply (Hf a sv' r' Hm).
  Qed.
  Lemma ht_bind_pres P (m : M A) (f : A -> M B) Q : ht P m (fun _ => P) -> (forall a, ht P (f a) Q) -> ht P (bindM m f) Q.
  Proof. intros Hm Hf. eapply ht_bind; [exact Hm|exact Hf]. Qed.
  Lemma ht_bind_ret P (a : A) (f : A -> M B) Q : ht P (f a) Q -> ht P (bindM (retM a) f) Q.
  Proof. intros H sv r Hp. apply (H sv r Hp). Qed.
  Lemma ht_bind_panic P s (f : A -> M B) Q : ht P (bindM (panicM s) f) Q.
  Proof. intros sv r Hp. exact Logic.I. Qed.
  Lemma ht_bind_gap P s (f : A -> M B) Q : ht P (bindM (gapM s) f) Q.
  Proof. intros sv r Hp. exact Logic.I. Qed.
  Lemma ht_bind_liftR P (x : res A) (f : A -> M B) Q : (forall a, ht P (f a) Q) -> ht P (bindM (liftR x) f) Q.
  Proof. intros H sv r Hp. unfold bindM, liftR. destruct x; [apply (H a sv r Hp)|exact Logic.I|exact Logic.I]. Qed.

  Lemma ht_ret P (a : A) (Q : A -> server -> Prop) : (forall sv, P sv -> Q a sv) -> ht P (retM a) Q.
  Proof. intros H sv r Hp. apply H, Hp. Qed.
  Lemma ht_ret_pres P (a : A) : ht P (retM a) (fun _ => P).
  Proof. apply ht_ret. auto. Qed.
  Lemma ht_panic P s (Q : A -> server -> Prop) : ht P (panicM s) Q.
  Proof. intros sv r Hp. exact Logic.I. Qed.
  Lemma ht_gap P s (Q : A -> server -> Prop) : ht P (gapM s) Q.
  Proof. intros sv r Hp. exact Logic.I. Qed.
  Lemma ht_liftR P (x : res A) : ht P (liftR x) (fun _ => P).
  Proof. intros sv r Hp. unfold liftR. destruct x; auto. Qed.
End Logic.

Lemma ht_bind_assoc {A B C} (P : server -> Prop) (m : M A) (g : A -> M B) (f : B -> M C) Q :
  ht P (bindM m (fun x => bindM (g x) f)) Q -> ht P (bindM (bindM m g) f) Q.
Proof.
  intros H sv r Hp. specialize (H sv r Hp). unfold bindM in *.
  destruct (m sv r) as [[[a sv'] r']|?|?]; exact H.
Qed.
(* reading the state: the state read satisfies the current precondition *)
Lemma ht_bind_getS {B} (P : server -> Prop) (f : server -> M B) Q : (forall a, P a -> ht P (f a) Q) -> ht P (bindM getS f) Q.
Proof. intros H sv r Hp. apply (H sv Hp sv r Hp). Qed.
(* ... and is the current state *)
Lemma ht_bind_getS_eq {B} (P : server -> Prop) (f : server -> M B) Q : (forall a, P a -> ht (fun sv => sv = a) (f a) Q) -> ht P (bindM getS f) Q.
Proof. intros H sv r Hp. apply (H sv Hp sv r eq_refl). Qed.
Lemma ht_getS_pres (P : server -> Prop) : ht P getS (fun _ => P).
Proof. intros sv r Hp. exact Hp. Qed.
Lemma ht_bind_replyCount {B} (P : server -> Prop) (f : nat -> M B) Q : (forall a, ht P (f a) Q) -> ht P (bindM replyCount f) Q.
Proof. intros H sv r Hp. apply (H _ sv r Hp). Qed.
Lemma ht_replyCount (P : server -> Prop) : ht P replyCount (fun _ => P).
Proof. intros sv r Hp. exact Hp. Qed.
Lemma ht_modS (P : server -> Prop) f (Q : unit -> server -> Prop) : (forall sv, P sv -> Q tt (f sv)) -> ht P (modS f) Q.
Proof. intros H sv r Hp. apply H, Hp. Qed.
Lemma ht_emit (P : server -> Prop) rc m : ht P (emit rc m) (fun _ => P).
Proof. intros sv r Hp. exact Hp. Qed.
Lemma ht_whenM (P : server -> Prop) b m : ht P m (fun _ => P) -> ht P (whenM b m) (fun _ => P).
Proof. intros H. destruct b; [exact H|apply ht_ret_pres]. Qed.
Lemma ht_forM {A} (P : server -> Prop) (l : list A) (f : A -> M unit) : (forall x, ht P (f x) (fun _ => P)) -> ht P (forM l f) (fun _ => P).
Proof.
  intros Hf. induction l as [|x l IH]; cbn [forM]; [apply ht_ret_pres|].
  apply ht_bind_pres; [apply Hf|intros _; exact IH].
Qed.
Lemma ht_bind_param {B} (P : server -> Prop) m i (f : string -> M B) Q :
  (forall p, nth_error (m_params m) i = Some p -> ht P (f p) Q) -> ht P (bindM (param m i) f) Q.
Proof.
  intros H. unfold param. destruct (nth_error (m_params m) i) as [p|]; [|apply ht_bind_panic].
  apply ht_bind_ret. now apply H.
Qed.
Lemma ht_param (P : server -> Prop) m i : ht P (param m i) (fun _ => P).
Proof. unfold param. destruct (nth_error _ _); [apply ht_ret_pres|apply ht_panic]. Qed.

Lemma ht_elim {A} (P : server -> Prop) (m : M A) Q :
  ht P m Q -> forall sv r, P sv -> match m sv r with Ok (a, sv', _) => Q a sv' | _ => True end.
Proof. intros H. exact H. Qed.
Lemma ht_intro {A} (P : server -> Prop) (m : M A) (Q : A -> server -> Prop) :
  (forall sv r, P sv -> match m sv r with Ok (a, sv', _) => Q a sv' | _ => True end) -> ht P m Q.
Proof. intros H. exact H. Qed.
(* from here on triples are only built with the rules above: [apply] must not look inside *)
Global Opaque ht.

(* structural steps: values that matter (everything but unit) are pushed into the continuation *)
Ltac ht_struct :=
  lazymatch goal with
  | |- ht _ (bindM (bindM _ _) _) _ => apply ht_bind_assoc
  | |- ht _ (bindM (retM _) _) _ => apply ht_bind_ret; cbv beta iota
  | |- ht _ (bindM getS _) _ => apply ht_bind_getS; intros ? ?
  | |- ht _ (bindM (panicM _) _) _ => apply ht_bind_panic
  | |- ht _ (bindM (gapM _) _) _ => apply ht_bind_gap
  | |- ht _ (bindM (liftR _) _) _ => apply ht_bind_liftR; intros ?
  | |- ht _ (bindM replyCount _) _ => apply ht_bind_replyCount; intros ?
  | |- ht _ (bindM (param _ _) _) _ => apply ht_bind_param; intros ? ?
  | |- ht _ (@bindM unit _ _ _) _ => apply ht_bind_pres; [|intros ?]
  | |- ht _ (bindM (if ?b then _ else _) _) _ => destruct b eqn:?
  | |- ht _ (bindM (match ?x with _ => _ end) _) _ => destruct x eqn:?
  | |- ht _ (bindM (let _ := _ in _) _) _ => cbv zeta
  | |- ht _ (retM _) _ => apply ht_ret_pres
  | |- ht _ (panicM _) _ => apply ht_panic
  | |- ht _ (gapM _) _ => apply ht_gap
  | |- ht _ getS _ => apply ht_getS_pres
  | |- ht _ (liftR _) _ => apply ht_liftR
  | |- ht _ replyCount _ => apply ht_replyCount
  | |- ht _ (emit _ _) _ => apply ht_emit
  | |- ht _ (param _ _) _ => apply ht_param
  | |- ht _ (whenM _ _) _ => apply ht_whenM
  | |- ht _ (forM _ _) _ => apply ht_forM; intros ?
  | |- ht _ (if ?b then _ else _) _ => destruct b eqn:?
  | |- ht _ (match ?x with _ => _ end) _ => destruct x eqn:?
  | |- ht _ (let _ := _ in _) _ => cbv zeta
  end.
(* a named sub-computation whose value is not needed *)
Ltac ht_named := lazymatch goal with |- ht _ (bindM _ _) _ => apply ht_bind_pres; [|intros ?] end.

Ltac unf := unfold reply_num, reply_svc, sessM, chanM, nickM, cfgM, prefix_name, msg_prefix,
              chanop_of, captcha_url_check, leave_channel, maybe_delete_channel,
              remove_nick_everywhere, rename_in_channels, change_nick.

(* ==== (1) owned names are syntactically valid ========================================================= *)
(* a session that has not chosen a nickname yet has the empty one *)
Definition nickok (n : string) : Prop := n = "" \/ valid_nick n = true.

Record NV (sv : server) : Prop := {
  nv_nick : forall (k : N * N) s, sv_sessions sv !! k = Some s -> nickok (s_nick s);
  nv_chan : forall lc c, sv_channels sv !! lc = Some c -> valid_chan (c_name c) = true;
}.

Lemma NV_init net : NV (init_server net).
Proof. split; cbn; intros *; rewrite lookup_empty; discriminate. Qed.

Lemma NV_sessions F sv :
  NV sv -> (forall (k : N * N) s', F (sv_sessions sv) !! k = Some s' -> nickok (s_nick s')) -> NV (set_sessions F sv).
Proof. intros [H1 H2] HF. split; cbn [sv_sessions sv_channels set_sessions]; [exact HF|exact H2]. Qed.
Lemma NV_channels F sv :
  NV sv -> (forall lc c', F (sv_channels sv) !! lc = Some c' -> valid_chan (c_name c') = true) -> NV (set_channels F sv).
Proof. intros [H1 H2] HF. split; cbn [sv_sessions sv_channels set_channels]; [exact H1|exact HF]. Qed.
Lemma NV_set_nicks F sv : NV sv -> NV (set_nicks F sv).
Proof. intros [H1 H2]. split; [exact H1|exact H2]. Qed.
Lemma NV_set_svsholds F sv : NV sv -> NV (set_svsholds F sv).
Proof. intros [H1 H2]. split; [exact H1|exact H2]. Qed.
Lemma NV_set_config F sv : NV sv -> NV (set_config F sv).
Proof. intros [H1 H2]. split; [exact H1|exact H2]. Qed.
Lemma NV_set_serverSessions F sv : NV sv -> NV (set_serverSessions F sv).
Proof. intros [H1 H2]. split; [exact H1|exact H2]. Qed.
Lemma NV_set_lastProcessed k sv : NV sv -> NV (set_lastProcessed k sv).
Proof. intros [H1 H2]. split; [exact H1|exact H2]. Qed.

Lemma NV_sess_fmap (g : session -> session) sv :
  NV sv -> (forall s, s_nick (g s) = s_nick s) -> NV (set_sessions (fmap g) sv).
Proof.
  intros H Hg. apply NV_sessions; [exact H|]. intros k s'. rewrite lookup_fmap.
  destruct (sv_sessions sv !! k) as [s|] eqn:E; [|discriminate]. cbn. intros [= <-]. rewrite Hg. eapply nv_nick; eauto.
Qed.
Lemma NV_drop_invites lc sv : NV sv -> NV (set_sessions (drop_invites lc) sv).
Proof. intros H. unfold drop_invites. apply (NV_sess_fmap _ sv H). intros s. reflexivity. Qed.
Lemma NV_sess_sub (m' : gmap (N * N) session) sv :
  NV sv -> (forall k s, m' !! k = Some s -> sv_sessions sv !! k = Some s) -> NV (set_sessions (fun _ => m') sv).
Proof. intros H Hsub. apply NV_sessions; [exact H|]. intros k s' Hs. eapply nv_nick; eauto. Qed.
Lemma NV_chan_delete x sv : NV sv -> NV (set_channels (delete x) sv).
Proof.
  intros H. apply NV_channels; [exact H|]. intros lc c' Hc. apply lookup_delete_Some in Hc. eapply nv_chan; [exact H|apply Hc].
Qed.
Lemma NV_chan_fmap (g : chan -> chan) sv :
  NV sv -> (forall c, c_name (g c) = c_name c) -> NV (set_channels (fmap g) sv).
Proof.
  intros H Hg. apply NV_channels; [exact H|]. intros lc c'. rewrite lookup_fmap.
  destruct (sv_channels sv !! lc) as [c|] eqn:E; [|discriminate]. cbn. intros [= <-]. rewrite Hg. eapply nv_chan; eauto.
Qed.
Lemma NV_chan_filter_fmap (P : string * chan -> Prop) (HD : forall x, Decision (P x)) (g : chan -> chan) sv :
  NV sv -> (forall c, c_name (g c) = c_name c) -> NV (set_channels (fun chs => base.filter P (g <$> chs)) sv).
Proof.
  intros H Hg. apply NV_channels; [exact H|]. intros lc c' Hc. apply map_filter_lookup_Some in Hc. destruct Hc as [Hc _].
  rewrite lookup_fmap in Hc. destruct (sv_channels sv !! lc) as [c|] eqn:E; [|discriminate]. cbn in Hc. injection Hc as <-.
  rewrite Hg. eapply nv_chan; eauto.
Qed.

Lemma nv_updSess k f : (forall s, nickok (s_nick s) -> nickok (s_nick (f s))) -> ht NV (updSess k f) (fun _ => NV).
Proof.
  intros Hf. apply ht_modS. intros sv H. apply NV_sessions; [exact H|]. cbv beta. intros k' s'. rewrite lookup_upd_sess.
  destruct (bool_decide (k = k')); [|apply H]. destruct (sv_sessions sv !! k') as [s|] eqn:E; [|discriminate].
  cbn. intros [= <-]. apply Hf. eapply nv_nick; eauto.
Qed.
Lemma nv_updChan lc f : (forall c, c_name (f c) = c_name c) -> ht NV (updChan lc f) (fun _ => NV).
Proof.
  intros Hf. apply ht_modS. intros sv H. apply NV_channels; [exact H|]. cbv beta. intros lc' c'. rewrite lookup_upd_chan.
  destruct (bool_decide (lc = lc')); [|apply H]. destruct (sv_channels sv !! lc') as [c|] eqn:E; [|discriminate].
  cbn. intros [= <-]. rewrite Hf. eapply nv_chan; eauto.
Qed.
Lemma nv_add_member lc c0 n tk op : valid_chan (c_name c0) = true -> ht NV (add_member lc c0 n tk op) (fun _ => NV).
Proof.
  intros Hv. unfold add_member. apply ht_bind_pres; [|intros _; apply nv_updSess; intros s Hs; exact Hs].
  apply ht_modS. intros sv H. apply NV_channels; [exact H|]. intros lc' c'.
  destruct (decide (lc = lc')) as [<-|Hne]; [rewrite lookup_insert; intros [= <-]; exact Hv|].
  rewrite lookup_insert_ne by exact Hne. apply H.
Qed.
Lemma nv_create_session key auth ts : ht NV (create_session key auth ts) (fun _ => NV).
Proof.
  unfold create_session. apply ht_bind_getS. intros sv _. cbv zeta. destruct (_ && _); [apply ht_ret_pres|].
  apply ht_bind_pres; [|intros _; apply ht_ret_pres]. apply ht_modS. intros sv' H. apply NV_sessions; [exact H|].
  intros k s'. destruct (decide (key = k)) as [<-|Hne]; [rewrite lookup_insert; intros [= <-]; now left|].
  rewrite lookup_insert_ne by exact Hne. apply H.
Qed.

Ltac nv_mod :=
  let sv := fresh "sv" in let H := fresh "H" in intros sv H;
  first [ apply NV_set_nicks; exact H | apply NV_set_svsholds; exact H | apply NV_set_config; exact H
        | apply NV_set_serverSessions; exact H | apply NV_chan_delete; exact H | apply NV_drop_invites; exact H
        | apply NV_sess_fmap; [exact H|intros ?; reflexivity]
        | apply NV_chan_filter_fmap; [exact H|intros ?; reflexivity]
        | apply NV_chan_fmap; [exact H|intros ?; reflexivity] ].
Ltac nv_validnick :=
  first [ assumption
        | match goal with Hx : negb (valid_nick ?n) = false |- valid_nick ?n = true => apply negb_false_iff in Hx; exact Hx end ].
Ltac nv_sess_side :=
  let s := fresh "s" in let H := fresh "H" in intros s H; first [exact H | cbn [s_nick ss_nick]; right; nv_validnick].
Ltac nv_validchan :=
  repeat match goal with |- context [match ?x with Some _ => _ | None => _ end] => destruct x eqn:? end;
  first [ match goal with Hc : sv_channels ?sv !! _ = Some ?c |- valid_chan (c_name ?c) = true =>
            apply (nv_chan sv ltac:(assumption) _ _ Hc) end
        | cbn [c_name new_chan];
          first [ assumption
                | match goal with Hx : negb (valid_chan ?n) = false |- valid_chan ?n = true => apply negb_false_iff in Hx; exact Hx end ] ].
Ltac nv_prim :=
  lazymatch goal with
  | |- ht NV (updSess _ _) _ => apply nv_updSess; nv_sess_side
  | |- ht NV (updChan _ _) _ => apply nv_updChan; intros ?; reflexivity
  | |- ht NV (modS _) _ => apply ht_modS; nv_mod
  | |- ht NV (add_member _ _ _ _ _) _ => apply nv_add_member; nv_validchan
  | |- ht NV (create_session _ _ _) _ => apply nv_create_session
  end.
Ltac nv_go := repeat first [ ht_struct | assumption | progress unf | nv_prim | ht_named ].

Section NamesHandlers.
  Lemma nv_delete_session k : ht NV (delete_session k) (fun _ => NV).
  Proof. unfold delete_session. nv_go. Qed.
  Lemma nv_verify_captcha e k c : ht NV (verify_captcha e k c) (fun _ => NV).
  Proof. unfold verify_captcha. nv_go. Qed.
  Lemma nv_cmd_motd k m : ht NV (cmd_motd k m) (fun _ => NV).
  Proof. unfold cmd_motd. nv_go. Qed.
  Lemma nv_cmd_oper k m : ht NV (cmd_oper k m) (fun _ => NV).
  Proof. unfold cmd_oper. nv_go. Qed.
  Lemma nv_maybe_login e k m : ht NV (maybe_login e k m) (fun _ => NV).
  Proof. unfold maybe_login. nv_go; try apply nv_verify_captcha; try apply nv_cmd_oper; try apply nv_cmd_motd. Qed.
  Lemma nv_cmd_nick e k m : ht NV (cmd_nick e k m) (fun _ => NV).
  Proof. unfold cmd_nick. nv_go; try apply nv_maybe_login. Qed.
  Lemma nv_cmd_user e k m : ht NV (cmd_user e k m) (fun _ => NV).
  Proof. unfold cmd_user. nv_go; try apply nv_maybe_login. Qed.
  Lemma nv_cmd_pass e k m : ht NV (cmd_pass e k m) (fun _ => NV).
  Proof. unfold cmd_pass. nv_go; try apply nv_maybe_login. Qed.
  Lemma nv_mode_step k lc ch op md q : ht NV (cmd_mode_chan_step k lc ch op md q) (fun _ => NV).
  Proof. unfold cmd_mode_chan_step. nv_go. Qed.
  Lemma nv_mode_loop k lc ch op mds q : ht NV (cmd_mode_chan_loop k lc ch op mds q) (fun _ => NV).
  Proof.
    revert q. induction mds as [|md mds IH]; intros q; cbn [cmd_mode_chan_loop]; [apply ht_ret_pres|].
    apply ht_bind_pres; [apply nv_mode_step|]. intros st. destruct (fst st); [apply ht_ret_pres|apply IH].
  Qed.
  Lemma nv_cmd_mode k m : ht NV (cmd_mode k m) (fun _ => NV).
  Proof. unfold cmd_mode. nv_go; try apply nv_mode_loop. Qed.
  Lemma nv_cmd_topic k m : ht NV (cmd_topic k m) (fun _ => NV).
  Proof. unfold cmd_topic. nv_go. Qed.
  Lemma nv_cmd_names k m : ht NV (cmd_names k m) (fun _ => NV).
  Proof. unfold cmd_names. nv_go. Qed.
  Lemma nv_join_one e k ch key : ht NV (join_one e k ch key) (fun _ => NV).
  Proof. unfold join_one. nv_go; try apply nv_verify_captcha; try apply nv_cmd_mode; try apply nv_cmd_topic; try apply nv_cmd_names. Qed.
  Lemma nv_cmd_join e k m : ht NV (cmd_join e k m) (fun _ => NV).
  Proof. unfold cmd_join. nv_go; try apply nv_join_one. Qed.
  Lemma nv_cmd_part k m : ht NV (cmd_part k m) (fun _ => NV).
  Proof. unfold cmd_part. nv_go. Qed.
  Lemma nv_cmd_kick k m : ht NV (cmd_kick k m) (fun _ => NV).
  Proof. unfold cmd_kick. nv_go. Qed.
  Lemma nv_cmd_invite k m : ht NV (cmd_invite k m) (fun _ => NV).
  Proof. unfold cmd_invite. nv_go. Qed.
  Lemma nv_cmd_privmsg k m : ht NV (cmd_privmsg k m) (fun _ => NV).
  Proof. unfold cmd_privmsg. nv_go. Qed.
  Lemma nv_cmd_service_alias k m : ht NV (cmd_service_alias k m) (fun _ => NV).
  Proof. unfold cmd_service_alias. nv_go; try apply nv_cmd_privmsg. Qed.
  Lemma nv_cmd_who k m : ht NV (cmd_who k m) (fun _ => NV).
  Proof. unfold cmd_who. nv_go. Qed.
  Lemma nv_cmd_whois k m : ht NV (cmd_whois k m) (fun _ => NV).
  Proof. unfold cmd_whois. nv_go. Qed.
  Lemma nv_cmd_list k m : ht NV (cmd_list k m) (fun _ => NV).
  Proof. unfold cmd_list. nv_go. Qed.
  Lemma nv_cmd_away k m : ht NV (cmd_away k m) (fun _ => NV).
  Proof. unfold cmd_away. nv_go. Qed.
  Lemma nv_cmd_ison k m : ht NV (cmd_ison k m) (fun _ => NV).
  Proof. unfold cmd_ison. nv_go. Qed.
  Lemma nv_cmd_userhost k m : ht NV (cmd_userhost k m) (fun _ => NV).
  Proof. unfold cmd_userhost. nv_go. Qed.
  Lemma nv_cmd_knock k m : ht NV (cmd_knock k m) (fun _ => NV).
  Proof. unfold cmd_knock. nv_go. Qed.
  Lemma nv_cmd_ping k m : ht NV (cmd_ping k m) (fun _ => NV).
  Proof. unfold cmd_ping. nv_go. Qed.
  Lemma nv_cmd_quit k m : ht NV (cmd_quit k m) (fun _ => NV).
  Proof. unfold cmd_quit. nv_go; try apply nv_delete_session. Qed.
  Lemma nv_cmd_kill k m : ht NV (cmd_kill k m) (fun _ => NV).
  Proof. unfold cmd_kill. nv_go; try apply nv_delete_session. Qed.
  Lemma nv_cmd_gline k m : ht NV (cmd_gline k m) (fun _ => NV).
  Proof. unfold cmd_gline. nv_go; try apply nv_cmd_kill. Qed.
  (* services *)
  Lemma nv_burst_one sv t : ht NV (burst_one sv t) (fun _ => NV).
  Proof. unfold burst_one. nv_go. Qed.
  Lemma nv_cmd_server k m : ht NV (cmd_server k m) (fun _ => NV).
  Proof. unfold cmd_server. nv_go; try apply nv_burst_one. Qed.
  (* scmd_nick.go takes the nickname of a new pseudo-client as it comes: the hypothesis *)
  Definition nick_param_ok (m : imsg) : Prop :=
    nparams m <> 1 -> forall p0, nth_error (m_params m) 0 = Some p0 -> valid_nick p0 = true.
  Lemma nv_cmd_server_nick k m : nick_param_ok m -> ht NV (cmd_server_nick k m) (fun _ => NV).
  Proof.
    intros Hok. unfold cmd_server_nick. destruct (Nat.eqb (nparams m) 1) eqn:Hn; [apply ht_ret_pres|].
    apply Nat.eqb_neq in Hn. apply ht_bind_param. intros p0 Hp0. pose proof (Hok Hn p0 Hp0) as Hv. nv_go.
  Qed.
  Lemma nv_quit_pseudo tk m : ht NV (quit_pseudo tk m) (fun _ => NV).
  Proof. unfold quit_pseudo. nv_go; try apply nv_delete_session. Qed.
  Lemma nv_cmd_server_quit k m : ht NV (cmd_server_quit k m) (fun _ => NV).
  Proof. unfold cmd_server_quit. nv_go; try apply nv_delete_session; try apply nv_quit_pseudo. Qed.
  Lemma nv_cmd_server_kill k m : ht NV (cmd_server_kill k m) (fun _ => NV).
  Proof. unfold cmd_server_kill. nv_go; try apply nv_delete_session. Qed.
  Lemma nv_cmd_server_join k m : ht NV (cmd_server_join k m) (fun _ => NV).
  Proof. unfold cmd_server_join. nv_go. Qed.
  Lemma nv_cmd_server_part k m : ht NV (cmd_server_part k m) (fun _ => NV).
  Proof. unfold cmd_server_part. nv_go. Qed.
  Lemma nv_cmd_server_kick k m : ht NV (cmd_server_kick k m) (fun _ => NV).
  Proof. unfold cmd_server_kick. nv_go. Qed.
  Lemma nv_cmd_server_svsjoin k m : ht NV (cmd_server_svsjoin k m) (fun _ => NV).
  Proof. unfold cmd_server_svsjoin. nv_go; try apply nv_cmd_topic; try apply nv_cmd_names. Qed.
  Lemma nv_cmd_server_svspart k m : ht NV (cmd_server_svspart k m) (fun _ => NV).
  Proof. unfold cmd_server_svspart. nv_go. Qed.
  Lemma nv_cmd_server_svsnick k m : ht NV (cmd_server_svsnick k m) (fun _ => NV).
  Proof. unfold cmd_server_svsnick. nv_go. Qed.
  Lemma nv_cmd_server_mode k m : ht NV (cmd_server_mode k m) (fun _ => NV).
  Proof. unfold cmd_server_mode. nv_go. Qed.
  Lemma nv_cmd_server_topic k m : ht NV (cmd_server_topic k m) (fun _ => NV).
  Proof. unfold cmd_server_topic. nv_go. Qed.
  Lemma nv_cmd_server_invite k m : ht NV (cmd_server_invite k m) (fun _ => NV).
  Proof. unfold cmd_server_invite. nv_go. Qed.
  Lemma nv_cmd_server_privmsg k m : ht NV (cmd_server_privmsg k m) (fun _ => NV).
  Proof. unfold cmd_server_privmsg. nv_go. Qed.
  Lemma nv_cmd_server_svshold k m : ht NV (cmd_server_svshold k m) (fun _ => NV).
  Proof. unfold cmd_server_svshold. nv_go. Qed.
  Lemma nv_cmd_server_svsmode k m : ht NV (cmd_server_svsmode k m) (fun _ => NV).
  Proof. unfold cmd_server_svsmode. nv_go. Qed.

  Lemma nv_dispatch name minp (f : handler) e k m :
    In (name, (minp, f)) commands -> (name = "server_NICK" -> nick_param_ok m) -> ht NV (f e k m) (fun _ => NV).
  Proof.
    intros Hin Hnick. unfold commands in Hin.
    repeat (destruct Hin as [Hin|Hin]; [injection Hin as <- <- <-|]); try contradiction; unfold noenv;
      first [ apply nv_cmd_service_alias | apply nv_cmd_away | apply nv_cmd_gline | apply nv_cmd_invite | apply nv_cmd_ison
            | apply nv_cmd_join | apply nv_cmd_kick | apply nv_cmd_kill | apply nv_cmd_knock | apply nv_cmd_list | apply nv_cmd_mode
            | apply nv_cmd_motd | apply nv_cmd_names | apply nv_cmd_nick | apply nv_cmd_oper | apply nv_cmd_part | apply nv_cmd_pass
            | apply nv_cmd_ping | apply nv_cmd_privmsg | apply nv_cmd_quit | apply nv_cmd_topic | apply nv_cmd_user
            | apply nv_cmd_userhost | apply nv_cmd_who | apply nv_cmd_whois | apply nv_cmd_server
            | apply nv_cmd_server_invite | apply nv_cmd_server_join | apply nv_cmd_server_kick | apply nv_cmd_server_kill
            | apply nv_cmd_server_mode | apply nv_cmd_server_nick; apply Hnick; reflexivity | apply nv_cmd_server_part
            | apply nv_cmd_server_privmsg
            | apply nv_cmd_server_quit | apply nv_cmd_server_svshold | apply nv_cmd_server_svsjoin | apply nv_cmd_server_svsmode
            | apply nv_cmd_server_svsnick | apply nv_cmd_server_svspart | apply nv_cmd_server_topic ].
  Qed.
End NamesHandlers.

(* ---- ProcessMessage: the NICK handler of a services link runs only for a session that is a link --------- *)
(* [X] holds whenever the acting session is an authenticated services link *)
Definition SF (X : Prop) (k : N * N) (sv : server) : Prop :=
  forall s, sv_sessions sv !! k = Some s -> s_server s = true -> X.
Definition nick_msg_ok (ircmsg : option imsg) : Prop :=
  forall m, ircmsg = Some m -> to_upper (m_cmd m) = "NICK" -> nick_param_ok m.

Lemma px_updSess X k f :
  (forall s, s_nick (f s) = s_nick s /\ s_server (f s) = s_server s) ->
  ht (fun sv => NV sv /\ SF X k sv) (updSess k f) (fun _ sv => NV sv /\ SF X k sv).
Proof.
  intros Hf. apply ht_intro. intros sv r [H1 H2]. split.
  - apply (ht_elim _ _ _ (nv_updSess k f (fun s Hs => eq_ind_r nickok Hs (proj1 (Hf s)))) sv r H1).
  - intros s'. cbn [sv_sessions set_sessions]. rewrite lookup_upd_sess, bool_decide_true by reflexivity.
    destruct (sv_sessions sv !! k) as [s|] eqn:E; [|discriminate]. cbn. intros [= <-]. rewrite (proj2 (Hf s)). now apply H2.
Qed.

Lemma server_name_nick x : "server_" ++ x = "server_NICK" -> x = "NICK".
Proof. intros H. cbn in H. now injection H. Qed.

Lemma nv_process_message e k ra ircmsg :
  ht (fun sv => NV sv /\ SF (nick_msg_ok ircmsg) k sv) (process_message e k ra ircmsg) (fun _ => NV).
Proof.
  set (X := nick_msg_ok ircmsg). set (PX := fun sv => NV sv /\ SF X k sv).
  assert (Hw : forall sv, PX sv -> NV sv) by (intros sv [H _]; exact H).
  unfold process_message.
  apply ht_bind with (R := fun _ => PX). { unfold sessM. repeat ht_struct. }
  intros s. destruct ircmsg as [m|]; [|apply (ht_pre _ NV _ _ Hw); nv_go]. cbv zeta.
  apply ht_bind with (R := fun banned sv => NV sv /\ (banned = false -> SF X k sv)).
  { assert (Hf : ht PX (retM false) (fun banned sv => NV sv /\ (banned = false -> SF X k sv)))
      by (apply ht_ret; intros sv [H1 H2]; split; auto).
    destruct (negb (is_empty ra) && negb (String.eqb ra (s_remoteAddr s))); [|exact Hf].
    apply ht_bind with (R := fun _ => PX); [apply px_updSess; intros s0; split; reflexivity|intros _].
    unfold cfgM. apply ht_bind_assoc, ht_bind_getS. intros sv0 _. apply ht_bind_ret. cbv beta.
    destruct (g_banned (sv_config sv0) !! ra) as [reason|]; [|exact Hf].
    destruct (is_empty reason); [exact Hf|].
    apply (ht_pre _ NV _ _ Hw). apply ht_bind_pres; [apply ht_emit|intros _].
    apply ht_bind_pres; [apply nv_delete_session|intros _]. apply ht_ret. intros sv H. split; [exact H|discriminate]. }
  intros banned. destruct banned; [apply ht_ret; intros sv [H _]; exact H|].
  apply (ht_pre _ PX); [intros sv [H1 H2]; split; [exact H1|apply H2; reflexivity]|].
  unfold sessM. apply ht_bind_assoc, ht_bind_getS. intros sv1 [HNV1 HSF1].
  destruct (sv_sessions sv1 !! k) as [s1|] eqn:Hs1; [|apply ht_bind_gap].
  apply ht_bind_ret. cbv beta. apply (ht_pre _ NV _ _ Hw).
  destruct (negb (s_loggedIn s1) && negb (s_server s1) && negb (pre_registration (to_upper (m_cmd m)))).
  { nv_go; apply nv_delete_session. }
  destruct (assoc_str _ commands) as [[minp f]|] eqn:Hc; [|nv_go].
  destruct (Nat.ltb _ _); [nv_go|].
  eapply nv_dispatch; [eapply assoc_str_In; exact Hc|].
  intros Hname. destruct (s_server s1) eqn:Hsrv.
  - apply (HSF1 s1 Hs1 Hsrv m eq_refl). now apply server_name_nick.
  - exfalso. cbn [String.append] in Hname. revert Hname. apply StrLemmas.to_upper_not_s.
Qed.

(* ---- entries ---------------------------------------------------------------------------------------------- *)
Lemma NV_maybe_delete_session k sv : NV sv -> NV (maybe_delete_session k sv).
Proof.
  intros H. unfold maybe_delete_session. destruct (sv_sessions sv !! k) as [s|]; [|exact H].
  assert (H1 : NV (if s_server s || s_operator s
                   then set_sessions (base.filter (fun kv : N * N * session => s_deleted kv.2 = false)) sv else sv)).
  { destruct (s_server s || s_operator s); [|exact H]. apply NV_sessions; [exact H|].
    intros k' s' Hs. apply map_filter_lookup_Some in Hs. eapply nv_nick; [exact H|apply Hs]. }
  destruct (s_deleted s); [|exact H1]. apply NV_sessions; [exact H1|].
  intros k' s' Hs. apply lookup_delete_Some in Hs. eapply nv_nick; [exact H1|apply Hs].
Qed.

Lemma NV_update_last_cmid k ts d c sv sv1 :
  update_last_cmid k ts d c sv = Some sv1 -> NV sv -> NV sv1 /\ forall X, SF X k sv -> SF X k sv1.
Proof.
  unfold update_last_cmid. destruct (sv_sessions sv !! k) as [s|] eqn:E; [|discriminate]. intros [= <-] H. split.
  - apply NV_sessions; [exact H|]. intros k' s'. destruct (decide (k = k')) as [<-|Hne].
    + rewrite lookup_insert. intros [= <-]. cbn. eapply nv_nick; eauto.
    + rewrite lookup_insert_ne by exact Hne. apply H.
  - intros X HX s'. cbn [sv_sessions set_sessions]. rewrite lookup_insert. intros [= <-]. cbn. now apply HX.
Qed.

(* NICK lines of services links carry a valid nickname; [line_ok] (hence [wf_history]) implies it *)
Definition nick_line_ok (sv : server) (k : N * N) (ircmsg : option imsg) : Prop := SF (nick_msg_ok ircmsg) k sv.
Definition nick_entry_ok (sv : server) (en : entry) : Prop :=
  match en with
  | EMessage _ _ session _ _ data => nick_line_ok sv (session, 0%N) (parse_message data)
  | _ => True
  end.

Lemma line_ok_nick sv k ircmsg : line_ok sv k ircmsg -> nick_line_ok sv k ircmsg.
Proof.
  intros H s Hs Hsrv m Hm Hcmd Hn p0 Hp0. specialize (H s m Hs Hsrv Hm).
  destruct (cf_nick _ _ _ _ H) as [H1|[_ Hv]]; [rewrite Hcmd; reflexivity|contradiction|]. apply (Hv p0 Hp0).
Qed.
Lemma wf_entry_nick sv en : wf_entry sv en -> nick_entry_ok sv en.
Proof. destruct en; cbn; auto. apply line_ok_nick. Qed.

Theorem nv_apply_entry e sv en sv' :
  NV sv -> nick_entry_ok sv en -> entry_result (apply_entry e sv en) = Some sv' -> NV sv'.
Proof.
  intros H Hok. destruct en as [id un auth|id un session q|id un session cmid ra data|id un session cmid data|id un rev parsed];
    cbn [apply_entry].
  - pose proof (ht_elim _ _ _ (nv_create_session (id, 0%N) auth (timestamp id un)) sv (RCtx id []) H) as Hc.
    destruct (create_session _ _ _ sv _) as [[[[] sv1] r1]|?|?]; cbn; try discriminate; intros [= <-]; exact Hc.
  - destruct (sv_sessions sv !! (session, 0%N)); [|cbn; intros [= <-]; exact H].
    destruct (StrLemmas.parse_quit q) as [ps Hq]. rewrite Hq. unfold run_handler.
    assert (HX : SF (nick_msg_ok (Some (IMsg None "QUIT" ps))) (session, 0%N) sv).
    { intros s0 _ _ m0 [= <-] Hu. vm_compute in Hu. discriminate. }
    pose proof (ht_elim _ _ _ (nv_process_message e (session, 0%N) "" _) sv (RCtx id []) (conj H HX)) as Hp.
    destruct (process_message _ _ _ _ sv _) as [[[[] sv1] r1]|?|?]; cbn; try discriminate.
    intros [= <-]. apply NV_maybe_delete_session, NV_set_lastProcessed, Hp.
  - destruct (is_retry _ _ sv); [cbn; intros [= <-]; exact H|].
    destruct (update_last_cmid _ _ _ _ sv) as [sv1|] eqn:Hu; [|cbn; intros [= <-]; exact H].
    destruct (NV_update_last_cmid _ _ _ _ _ _ Hu H) as [H1 HX]. unfold run_handler.
    pose proof (ht_elim _ _ _ (nv_process_message e (session, 0%N) ra _) sv1 (RCtx id []) (conj H1 (HX _ Hok))) as Hp.
    destruct (process_message _ _ _ _ sv1 _) as [[[[] sv2] r2]|?|?]; cbn; try discriminate.
    intros [= <-]. apply NV_maybe_delete_session, NV_set_lastProcessed, Hp.
  - destruct (update_last_cmid _ _ _ _ sv) as [sv1|] eqn:Hu; cbn; intros [= <-]; [|exact H].
    apply (NV_update_last_cmid _ _ _ _ _ _ Hu H).
  - destruct (config_in_force _ _ _); cbn; intros [= <-]; [apply NV_set_config|]; exact H.
Qed.

(* ---- histories -------------------------------------------------------------------------------------------- *)
Fixpoint nick_history (e : env) (sv : server) (es : list entry) : Prop :=
  match es with
  | [] => True
  | en :: r => nick_entry_ok sv en /\ forall sv', entry_result (apply_entry e sv en) = Some sv' -> nick_history e sv' r
  end.

Lemma wf_nick_history e sv es : wf_history e sv es -> nick_history e sv es.
Proof.
  revert sv. induction es as [|en es IH]; intros sv; cbn [wf_history nick_history]; [auto|].
  intros [Hen Hr]. split; [now apply wf_entry_nick|]. intros sv' Hs. apply IH, Hr, Hs.
Qed.

Theorem nv_run e sv es sv' : NV sv -> nick_history e sv es -> run e sv es = Some sv' -> NV sv'.
Proof.
  revert sv. induction es as [|en es IH]; intros sv H Hh; cbn [run].
  - intros [= <-]. exact H.
  - destruct Hh as [Hen Hr]. destruct (entry_result (apply_entry e sv en)) as [sv1|] eqn:E; [|discriminate].
    apply IH; [eapply nv_apply_entry; eauto|apply Hr; reflexivity].
Qed.

(* the clause of C14: every owned nickname and every channel name is valid, and the tables are keyed by the
   folded names *)
Record names_valid (sv : server) : Prop := {
  names_nick : forall (k : N * N) s, sv_sessions sv !! k = Some s ->
      s_nick s = "" \/ (valid_nick (s_nick s) = true /\ sv_nicks sv !! nick_to_lower (s_nick s) = Some k);
  names_index : forall n (k : N * N), sv_nicks sv !! n = Some k ->
      exists s, sv_sessions sv !! k = Some s /\ valid_nick (s_nick s) = true /\ nick_to_lower (s_nick s) = n;
  names_chan : forall lc c, sv_channels sv !! lc = Some c -> valid_chan (c_name c) = true /\ chan_to_lower (c_name c) = lc;
}.

Lemma names_valid_of sv : EInv sv -> NV sv -> names_valid sv.
Proof.
  intros [I L _ _] H. split.
  - intros k s Hs. destruct (nv_nick sv H k s Hs) as [He|Hv]; [now left|right]. split; [exact Hv|].
    apply (i_idx_complete sv I k s Hs (L k s Hs)). now apply valid_nick_nonempty.
  - intros n k Hn. destruct (i_idx_sound sv I n k Hn) as (Hne & s & Hs & _ & Hl). exists s. split; [exact Hs|]. split; [|exact Hl].
    destruct (nv_nick sv H k s Hs) as [He|Hv]; [|exact Hv]. exfalso. apply Hne. rewrite <- Hl, He. reflexivity.
  - intros lc c Hc. split; [eapply nv_chan; eauto|apply (i_chan sv I lc c Hc)].
Qed.

Theorem names_valid_history e net es :
  wf_history e (init_server net) es ->
  exists sv', run e (init_server net) es = Some sv' /\ names_valid sv'.
Proof.
  intros Hwf. destruct (no_panic e net es Hwf) as (sv' & Hr & E). exists sv'. split; [exact Hr|].
  apply names_valid_of; [exact E|]. eapply nv_run; [apply NV_init|apply wf_nick_history; exact Hwf|exact Hr].
Qed.

(* ==== (2) the configured limits ========================================================================= *)
(* What is counted is what the Go code counts: len(i.sessions) — every entry of the session table, i.e. clients,
   services links and the pseudo-clients of services alike — and len(i.channels).  A limit of 0 means "no limit". *)
Definition max_sessions (sv : server) : N := g_maxSessions (sv_config sv).
Definition max_channels (sv : server) : N := g_maxChannels (sv_config sv).
Definition nsess (sv : server) : N := N.of_nat (size (sv_sessions sv)).
Definition nchan (sv : server) : N := N.of_nat (size (sv_channels sv)).

Lemma size_upd {K} `{Countable K} {A} (m : gmap K A) k (f : A -> A) :
  size (match m !! k with Some s => <[k := f s]> m | None => m end) = size m.
Proof. destruct (m !! k) eqn:E; [|reflexivity]. apply map_size_insert_Some. now rewrite E. Qed.
Lemma size_delete_le {K} `{Countable K} {A} (m : gmap K A) k : size (delete k m) <= size m.
Proof. rewrite map_size_delete. destruct (m !! k); cbn; lia. Qed.
Lemma size_filter_le {K} `{Countable K} {A} (P : K * A -> Prop) `{!forall x, Decision (P x)} (m : gmap K A) :
  size (base.filter P m) <= size m.
Proof.
  rewrite <- !(size_dom (D := gset K)). apply subseteq_size. apply dom_filter_subseteq.
Qed.
Lemma size_filter_fmap_le {K} `{Countable K} {A} (P : K * A -> Prop) `{!forall x, Decision (P x)} (g : A -> A) (m : gmap K A) :
  size (base.filter P (g <$> m)) <= size m.
Proof. etransitivity; [apply size_filter_le|]. now rewrite map_size_fmap. Qed.
Lemma size_insert_le {K} `{Countable K} {A} (m : gmap K A) k x : size (<[k := x]> m) <= S (size m).
Proof. rewrite map_size_insert. destruct (m !! k); cbn; lia. Qed.

Lemma room_guard (L n : N) : ((L <=? n) && (0 <? L))%N = false -> L = 0%N \/ (n < L)%N.
Proof. intros H. apply andb_false_iff in H. destruct H as [H|H]; [apply N.leb_gt in H|apply N.ltb_ge in H]; lia. Qed.
Lemma room_guard2 (X : Prop) `{Decision X} (L n : N) :
  (negb (bool_decide X) && (L <=? n) && (0 <? L))%N = false -> X \/ L = 0%N \/ (n < L)%N.
Proof.
  destruct (decide X) as [HX|HX]; [now left|]. rewrite bool_decide_false by exact HX. cbn [negb andb].
  intros Hg. right. now apply room_guard.
Qed.

Section Limits.
  (* ghosts: the limits in force and the counts when the entry started *)
  Variables (Ls Lc ns nc : N).
  Definition bnd (L n0 n : N) : Prop := (L = 0 \/ n <= N.max n0 L)%N.
  Record Lim (sv : server) : Prop := {
    lim_s : max_sessions sv = Ls;
    lim_c : max_channels sv = Lc;
    lim_ns : bnd Ls ns (nsess sv);
    lim_nc : bnd Lc nc (nchan sv);
  }.

  Lemma Lim_mono sv sv' :
    Lim sv -> max_sessions sv' = max_sessions sv -> max_channels sv' = max_channels sv ->
    size (sv_sessions sv') <= size (sv_sessions sv) -> size (sv_channels sv') <= size (sv_channels sv) -> Lim sv'.
  Proof.
    intros [h1 h2 h3 h4] e1 e2 l1 l2. split; [congruence|congruence| |].
    - destruct h3 as [h3|h3]; [now left|right]. unfold nsess in *. lia.
    - destruct h4 as [h4|h4]; [now left|right]. unfold nchan in *. lia.
  Qed.

  Lemma lim_updSess k f : ht Lim (updSess k f) (fun _ => Lim).
  Proof.
    apply ht_modS. intros sv H. apply (Lim_mono sv _ H); try reflexivity. cbn [sv_sessions sv_channels set_sessions].
    now rewrite size_upd.
  Qed.
  Lemma lim_updChan lc f : ht Lim (updChan lc f) (fun _ => Lim).
  Proof.
    apply ht_modS. intros sv H. apply (Lim_mono sv _ H); try reflexivity. cbn [sv_sessions sv_channels set_channels].
    now rewrite size_upd.
  Qed.
  (* createSessionLocked: the test and the insertion see the same table *)
  Lemma lim_create_session key auth ts : ht Lim (create_session key auth ts) (fun _ => Lim).
  Proof.
    apply ht_intro. intros sv r H. unfold create_session, bindM, getS. cbv zeta.
    destruct ((g_maxSessions (sv_config sv) <=? N.of_nat (size (sv_sessions sv)))%N && (0 <? g_maxSessions (sv_config sv))%N) eqn:Hg;
      [exact H|]. cbn. apply room_guard in Hg. destruct H as [h1 h2 h3 h4]. unfold max_sessions in h1. rewrite h1 in Hg.
    split; [exact h1|exact h2| |exact h4]. destruct Hg as [Hg|Hg]; [now left|right].
    unfold nsess. cbn [sv_sessions set_sessions]. pose proof (size_insert_le (sv_sessions sv) key (new_session key auth ts)). lia.
  Qed.

  (* between the test of the channel limit and the insertion nothing touches the channel table *)
  Definition P1 (C : gmap string chan) (sv : server) : Prop := Lim sv /\ sv_channels sv = C.
  Lemma ht_p1_term {A} C (m : M A) : ht (P1 C) m (fun _ => P1 C) -> ht (P1 C) m (fun _ => Lim).
  Proof. apply ht_post. intros _ sv [H _]. exact H. Qed.
  Lemma p1_updSess C k f : ht (P1 C) (updSess k f) (fun _ => P1 C).
  Proof. apply ht_intro. intros sv r [H1 H2]. split; [apply (ht_elim _ _ _ (lim_updSess k f) sv r H1)|exact H2]. Qed.
  Lemma lim_add_member C lc c0 n tk op :
    is_Some (C !! lc) \/ Lc = 0%N \/ (N.of_nat (size C) < Lc)%N ->
    ht (P1 C) (add_member lc c0 n tk op) (fun _ => Lim).
  Proof.
    intros Hroom. unfold add_member. apply ht_bind with (R := fun _ => Lim); [|intros _; apply lim_updSess].
    apply ht_modS. intros sv [[h1 h2 h3 h4] HC]. split; [exact h1|exact h2|exact h3|].
    unfold nchan in *. cbn [sv_channels set_channels]. rewrite HC in h4 |- *.
    destruct Hroom as [Hs|[Hz|Hlt]].
    - rewrite map_size_insert_Some by exact Hs. exact h4.
    - now left.
    - right. pose proof (size_insert_le C lc (cc_nicks <[n:=(op, false)]> c0)). lia.
  Qed.
  Lemma p1_enter {B} (f : server -> M B) Q :
    (forall sv, Lim sv -> ht (P1 (sv_channels sv)) (f sv) Q) -> ht Lim (bindM getS f) Q.
  Proof.
    intros H. apply ht_bind_getS_eq. intros sv Hsv. apply (ht_pre _ (P1 (sv_channels sv))); [|apply H, Hsv].
    intros sv' ->. split; [exact Hsv|reflexivity].
  Qed.

  Ltac lim_size :=
    cbn [sv_sessions sv_channels set_sessions set_channels set_nicks set_svsholds set_config set_serverSessions];
    first [ apply le_n | rewrite map_size_fmap; apply le_n | unfold drop_invites; rewrite map_size_fmap; apply le_n
          | apply size_delete_le | apply size_filter_fmap_le ].
  Ltac lim_mod :=
    let sv := fresh "sv" in let H := fresh "H" in intros sv H;
    apply (Lim_mono sv _ H); [reflexivity|reflexivity|lim_size|lim_size].
  Ltac lim_prim :=
    lazymatch goal with
    | |- ht Lim (updSess _ _) _ => apply lim_updSess
    | |- ht (P1 _) (updSess _ _) _ => apply p1_updSess
    | |- ht Lim (updChan _ _) _ => apply lim_updChan
    | |- ht Lim (create_session _ _ _) _ => apply lim_create_session
    | |- ht Lim (modS _) _ => apply ht_modS; lim_mod
    end.
  Ltac p1_add :=
    lazymatch goal with
    | |- ht (P1 _) (bindM (add_member _ _ _ _ _) _) _ => apply ht_bind with (R := fun _ => Lim); [apply lim_add_member|intros _]
    end.
  Ltac p1_term :=
    lazymatch goal with
    | |- ht _ (bindM _ _) _ => fail
    | |- ht _ (match _ with _ => _ end) _ => fail
    | |- ht _ (let _ := _ in _) _ => fail
    | |- ht (P1 _) _ (fun _ => Lim) => apply ht_p1_term
    end.
  Ltac lim_step := first [ p1_add | ht_struct | assumption | progress unf | lim_prim | p1_term | ht_named ].
  Ltac lim_go := repeat lim_step.
  (* the side condition of [lim_add_member] from what the handler tested *)
  Ltac room :=
    first [ left; eexists; eassumption
          | match goal with
            | Hl : Lim ?sv, Hg : (_ && _)%bool = false |- _ =>
                rewrite <- (lim_c sv Hl); unfold max_channels;
                first [ right; apply room_guard; exact Hg | exact (room_guard2 _ _ _ Hg) ]
            end ].

  Lemma lim_delete_session k : ht Lim (delete_session k) (fun _ => Lim).
  Proof. unfold delete_session. lim_go. Qed.
  Lemma lim_verify_captcha e k c : ht Lim (verify_captcha e k c) (fun _ => Lim).
  Proof. unfold verify_captcha. lim_go. Qed.
  Lemma p1_verify_captcha C e k c : ht (P1 C) (verify_captcha e k c) (fun _ => P1 C).
  Proof. unfold verify_captcha. lim_go. Qed.
  Lemma lim_cmd_motd k m : ht Lim (cmd_motd k m) (fun _ => Lim).
  Proof. unfold cmd_motd. lim_go. Qed.
  Lemma lim_cmd_oper k m : ht Lim (cmd_oper k m) (fun _ => Lim).
  Proof. unfold cmd_oper. lim_go. Qed.
  Lemma lim_maybe_login e k m : ht Lim (maybe_login e k m) (fun _ => Lim).
  Proof. unfold maybe_login. lim_go; try apply lim_verify_captcha; try apply lim_cmd_oper; try apply lim_cmd_motd. Qed.
  Lemma lim_cmd_nick e k m : ht Lim (cmd_nick e k m) (fun _ => Lim).
  Proof. unfold cmd_nick. lim_go; try apply lim_maybe_login. Qed.
  Lemma lim_cmd_user e k m : ht Lim (cmd_user e k m) (fun _ => Lim).
  Proof. unfold cmd_user. lim_go; try apply lim_maybe_login. Qed.
  Lemma lim_cmd_pass e k m : ht Lim (cmd_pass e k m) (fun _ => Lim).
  Proof. unfold cmd_pass. lim_go; try apply lim_maybe_login. Qed.
  Lemma lim_mode_step k lc ch op md q : ht Lim (cmd_mode_chan_step k lc ch op md q) (fun _ => Lim).
  Proof. unfold cmd_mode_chan_step. lim_go. Qed.
  Lemma lim_mode_loop k lc ch op mds q : ht Lim (cmd_mode_chan_loop k lc ch op mds q) (fun _ => Lim).
  Proof.
    revert q. induction mds as [|md mds IH]; intros q; cbn [cmd_mode_chan_loop]; [apply ht_ret_pres|].
    apply ht_bind_pres; [apply lim_mode_step|]. intros st. destruct (fst st); [apply ht_ret_pres|apply IH].
  Qed.
  Lemma lim_cmd_mode k m : ht Lim (cmd_mode k m) (fun _ => Lim).
  Proof. unfold cmd_mode. lim_go; try apply lim_mode_loop. Qed.
  Lemma lim_cmd_topic k m : ht Lim (cmd_topic k m) (fun _ => Lim).
  Proof. unfold cmd_topic. lim_go. Qed.
  Lemma lim_cmd_names k m : ht Lim (cmd_names k m) (fun _ => Lim).
  Proof. unfold cmd_names. lim_go. Qed.
  Lemma lim_join_one e k ch key : ht Lim (join_one e k ch key) (fun _ => Lim).
  Proof.
    unfold join_one. unfold sessM at 1. apply ht_bind_assoc, ht_bind_getS. intros sv0 _.
    destruct (sv_sessions sv0 !! k) as [s|]; [|apply ht_bind_gap]. apply ht_bind_ret. cbv beta.
    apply p1_enter. intros sv Hsv. cbv zeta.
    lim_go; try apply p1_verify_captcha; try apply lim_cmd_mode; try apply lim_cmd_topic; try apply lim_cmd_names.
    all: room.
  Qed.
  Lemma lim_cmd_join e k m : ht Lim (cmd_join e k m) (fun _ => Lim).
  Proof. unfold cmd_join. lim_go; try apply lim_join_one. Qed.
  Lemma lim_cmd_part k m : ht Lim (cmd_part k m) (fun _ => Lim).
  Proof. unfold cmd_part. lim_go. Qed.
  Lemma lim_cmd_kick k m : ht Lim (cmd_kick k m) (fun _ => Lim).
  Proof. unfold cmd_kick. lim_go. Qed.
  Lemma lim_cmd_invite k m : ht Lim (cmd_invite k m) (fun _ => Lim).
  Proof. unfold cmd_invite. lim_go. Qed.
  Lemma lim_cmd_privmsg k m : ht Lim (cmd_privmsg k m) (fun _ => Lim).
  Proof. unfold cmd_privmsg. lim_go. Qed.
  Lemma lim_cmd_service_alias k m : ht Lim (cmd_service_alias k m) (fun _ => Lim).
  Proof. unfold cmd_service_alias. lim_go; try apply lim_cmd_privmsg. Qed.
  Lemma lim_cmd_who k m : ht Lim (cmd_who k m) (fun _ => Lim).
  Proof. unfold cmd_who. lim_go. Qed.
  Lemma lim_cmd_whois k m : ht Lim (cmd_whois k m) (fun _ => Lim).
  Proof. unfold cmd_whois. lim_go. Qed.
  Lemma lim_cmd_list k m : ht Lim (cmd_list k m) (fun _ => Lim).
  Proof. unfold cmd_list. lim_go. Qed.
  Lemma lim_cmd_away k m : ht Lim (cmd_away k m) (fun _ => Lim).
  Proof. unfold cmd_away. lim_go. Qed.
  Lemma lim_cmd_ison k m : ht Lim (cmd_ison k m) (fun _ => Lim).
  Proof. unfold cmd_ison. lim_go. Qed.
  Lemma lim_cmd_userhost k m : ht Lim (cmd_userhost k m) (fun _ => Lim).
  Proof. unfold cmd_userhost. lim_go. Qed.
  Lemma lim_cmd_knock k m : ht Lim (cmd_knock k m) (fun _ => Lim).
  Proof. unfold cmd_knock. lim_go. Qed.
  Lemma lim_cmd_ping k m : ht Lim (cmd_ping k m) (fun _ => Lim).
  Proof. unfold cmd_ping. lim_go. Qed.
  Lemma lim_cmd_quit k m : ht Lim (cmd_quit k m) (fun _ => Lim).
  Proof. unfold cmd_quit. lim_go; try apply lim_delete_session. Qed.
  Lemma lim_cmd_kill k m : ht Lim (cmd_kill k m) (fun _ => Lim).
  Proof. unfold cmd_kill. lim_go; try apply lim_delete_session. Qed.
  Lemma lim_cmd_gline k m : ht Lim (cmd_gline k m) (fun _ => Lim).
  Proof. unfold cmd_gline. lim_go; try apply lim_cmd_kill. Qed.
  (* services *)
  Lemma lim_burst_one sv t : ht Lim (burst_one sv t) (fun _ => Lim).
  Proof. unfold burst_one. lim_go. Qed.
  Lemma lim_cmd_server k m : ht Lim (cmd_server k m) (fun _ => Lim).
  Proof. unfold cmd_server. lim_go; try apply lim_burst_one. Qed.
  Lemma lim_cmd_server_nick k m : ht Lim (cmd_server_nick k m) (fun _ => Lim).
  Proof. unfold cmd_server_nick. lim_go. Qed.
  Lemma lim_quit_pseudo tk m : ht Lim (quit_pseudo tk m) (fun _ => Lim).
  Proof. unfold quit_pseudo. lim_go; try apply lim_delete_session. Qed.
  Lemma lim_cmd_server_quit k m : ht Lim (cmd_server_quit k m) (fun _ => Lim).
  Proof. unfold cmd_server_quit. lim_go; try apply lim_delete_session; try apply lim_quit_pseudo. Qed.
  Lemma lim_cmd_server_kill k m : ht Lim (cmd_server_kill k m) (fun _ => Lim).
  Proof. unfold cmd_server_kill. lim_go; try apply lim_delete_session. Qed.
  Lemma lim_cmd_server_join k m : ht Lim (cmd_server_join k m) (fun _ => Lim).
  Proof.
    unfold cmd_server_join. apply ht_bind_param. intros p0 _. apply ht_forM. intros ch.
    apply p1_enter. intros sv Hsv. cbv zeta. lim_go. all: room.
  Qed.
  Lemma lim_cmd_server_part k m : ht Lim (cmd_server_part k m) (fun _ => Lim).
  Proof. unfold cmd_server_part. lim_go. Qed.
  Lemma lim_cmd_server_kick k m : ht Lim (cmd_server_kick k m) (fun _ => Lim).
  Proof. unfold cmd_server_kick. lim_go. Qed.
  Lemma lim_cmd_server_svsjoin k m : ht Lim (cmd_server_svsjoin k m) (fun _ => Lim).
  Proof.
    unfold cmd_server_svsjoin. apply ht_bind_param. intros p0 _. apply ht_bind_param. intros ch _.
    apply p1_enter. intros sv Hsv. cbv zeta. lim_go; try apply lim_cmd_topic; try apply lim_cmd_names. all: room.
  Qed.
  Lemma lim_cmd_server_svspart k m : ht Lim (cmd_server_svspart k m) (fun _ => Lim).
  Proof. unfold cmd_server_svspart. lim_go. Qed.
  Lemma lim_cmd_server_svsnick k m : ht Lim (cmd_server_svsnick k m) (fun _ => Lim).
  Proof. unfold cmd_server_svsnick. lim_go. Qed.
  Lemma lim_cmd_server_mode k m : ht Lim (cmd_server_mode k m) (fun _ => Lim).
  Proof. unfold cmd_server_mode. lim_go. Qed.
  Lemma lim_cmd_server_topic k m : ht Lim (cmd_server_topic k m) (fun _ => Lim).
  Proof. unfold cmd_server_topic. lim_go. Qed.
  Lemma lim_cmd_server_invite k m : ht Lim (cmd_server_invite k m) (fun _ => Lim).
  Proof. unfold cmd_server_invite. lim_go. Qed.
  Lemma lim_cmd_server_privmsg k m : ht Lim (cmd_server_privmsg k m) (fun _ => Lim).
  Proof. unfold cmd_server_privmsg. lim_go. Qed.
  Lemma lim_cmd_server_svshold k m : ht Lim (cmd_server_svshold k m) (fun _ => Lim).
  Proof. unfold cmd_server_svshold. lim_go. Qed.
  Lemma lim_cmd_server_svsmode k m : ht Lim (cmd_server_svsmode k m) (fun _ => Lim).
  Proof. unfold cmd_server_svsmode. lim_go. Qed.

  Lemma lim_dispatch name minp (f : handler) e k m : In (name, (minp, f)) commands -> ht Lim (f e k m) (fun _ => Lim).
  Proof.
    intros Hin. unfold commands in Hin.
    repeat (destruct Hin as [Hin|Hin]; [injection Hin as <- <- <-|]); try contradiction; unfold noenv;
      first [ apply lim_cmd_service_alias | apply lim_cmd_away | apply lim_cmd_gline | apply lim_cmd_invite | apply lim_cmd_ison
            | apply lim_cmd_join | apply lim_cmd_kick | apply lim_cmd_kill | apply lim_cmd_knock | apply lim_cmd_list | apply lim_cmd_mode
            | apply lim_cmd_motd | apply lim_cmd_names | apply lim_cmd_nick | apply lim_cmd_oper | apply lim_cmd_part | apply lim_cmd_pass
            | apply lim_cmd_ping | apply lim_cmd_privmsg | apply lim_cmd_quit | apply lim_cmd_topic | apply lim_cmd_user
            | apply lim_cmd_userhost | apply lim_cmd_who | apply lim_cmd_whois | apply lim_cmd_server
            | apply lim_cmd_server_invite | apply lim_cmd_server_join | apply lim_cmd_server_kick | apply lim_cmd_server_kill
            | apply lim_cmd_server_mode | apply lim_cmd_server_nick | apply lim_cmd_server_part | apply lim_cmd_server_privmsg
            | apply lim_cmd_server_quit | apply lim_cmd_server_svshold | apply lim_cmd_server_svsjoin | apply lim_cmd_server_svsmode
            | apply lim_cmd_server_svsnick | apply lim_cmd_server_svspart | apply lim_cmd_server_topic ].
  Qed.

  Lemma lim_process_message e k ra ircmsg : ht Lim (process_message e k ra ircmsg) (fun _ => Lim).
  Proof.
    unfold process_message. apply ht_bind_pres; [lim_go|]. intros s.
    destruct ircmsg as [m|]; [|lim_go]. cbv zeta.
    apply ht_bind_pres.
    { destruct (_ && _); [|apply ht_ret_pres]. lim_go; apply lim_delete_session. }
    intros banned. destruct banned; [apply ht_ret_pres|].
    apply ht_bind_pres; [lim_go|]. intros s1.
    destruct (_ && _ && _).
    { lim_go; apply lim_delete_session. }
    destruct (assoc_str _ commands) as [[minp f]|] eqn:Hc; [|lim_go].
    destruct (Nat.ltb _ _); [lim_go|].
    eapply lim_dispatch. eapply assoc_str_In. exact Hc.
  Qed.

  Lemma Lim_maybe_delete_session k sv : Lim sv -> Lim (maybe_delete_session k sv).
  Proof.
    intros H. unfold maybe_delete_session. destruct (sv_sessions sv !! k) as [s|]; [|exact H].
    assert (H1 : Lim (if s_server s || s_operator s
                      then set_sessions (base.filter (fun kv : N * N * session => s_deleted kv.2 = false)) sv else sv)).
    { destruct (s_server s || s_operator s); [|exact H]. apply (Lim_mono sv _ H); try reflexivity.
      cbn [sv_sessions set_sessions]. apply size_filter_le. }
    destruct (s_deleted s); [|exact H1]. eapply Lim_mono; [exact H1|reflexivity|reflexivity| |reflexivity].
    cbn [sv_sessions set_sessions]. apply size_delete_le.
  Qed.
  Lemma Lim_set_lastProcessed k sv : Lim sv -> Lim (set_lastProcessed k sv).
  Proof. intros H. apply (Lim_mono sv _ H); reflexivity. Qed.
  Lemma Lim_update_last_cmid k ts d c sv sv1 : update_last_cmid k ts d c sv = Some sv1 -> Lim sv -> Lim sv1.
  Proof.
    unfold update_last_cmid. destruct (sv_sessions sv !! k) as [s|] eqn:E; [|discriminate]. intros [= <-] H.
    apply (Lim_mono sv _ H); try reflexivity. cbn [sv_sessions set_sessions].
    rewrite map_size_insert_Some; [reflexivity|now rewrite E].
  Qed.

  (* every entry other than a configuration change *)
  Lemma Lim_apply_entry e sv en sv' :
    Lim sv -> (forall id un rev g, en <> EConfig id un rev (Some g)) ->
    entry_result (apply_entry e sv en) = Some sv' -> Lim sv'.
  Proof.
    intros H Hnc. destruct en as [id un auth|id un session q|id un session cmid ra data|id un session cmid data|id un rev parsed];
      cbn [apply_entry].
    - pose proof (ht_elim _ _ _ (lim_create_session (id, 0%N) auth (timestamp id un)) sv (RCtx id []) H) as Hc.
      destruct (create_session _ _ _ sv _) as [[[[] sv1] r1]|?|?]; cbn; try discriminate; intros [= <-]; exact Hc.
    - destruct (sv_sessions sv !! (session, 0%N)); [|cbn; intros [= <-]; exact H]. unfold run_handler.
      pose proof (ht_elim _ _ _ (lim_process_message e (session, 0%N) "" (parse_message ("QUIT :" ++ q))) sv (RCtx id []) H) as Hp.
      destruct (process_message _ _ _ _ sv _) as [[[[] sv1] r1]|?|?]; cbn; try discriminate.
      intros [= <-]. apply Lim_maybe_delete_session, Lim_set_lastProcessed. exact Hp.
    - destruct (is_retry _ _ sv); [cbn; intros [= <-]; exact H|].
      destruct (update_last_cmid _ _ _ _ sv) as [sv1|] eqn:Hu; [|cbn; intros [= <-]; exact H].
      pose proof (Lim_update_last_cmid _ _ _ _ _ _ Hu H) as H1. unfold run_handler.
      pose proof (ht_elim _ _ _ (lim_process_message e (session, 0%N) ra (parse_message data)) sv1 (RCtx id []) H1) as Hp.
      destruct (process_message _ _ _ _ sv1 _) as [[[[] sv2] r2]|?|?]; cbn; try discriminate.
      intros [= <-]. apply Lim_maybe_delete_session, Lim_set_lastProcessed. exact Hp.
    - destruct (update_last_cmid _ _ _ _ sv) as [sv1|] eqn:Hu; cbn; intros [= <-]; [|exact H].
      apply (Lim_update_last_cmid _ _ _ _ _ _ Hu H).
    - destruct (config_in_force _ _ _) as [g|] eqn:Hcf; [exfalso; eapply Hnc; rewrite (config_in_force_Some _ _ _ _ Hcf); reflexivity|]. cbn. intros [= <-]. exact H.
  Qed.
End Limits.

(* ---- the statements about entries and histories ----------------------------------------------------------- *)
Lemma Lim_start sv : Lim (max_sessions sv) (max_channels sv) (nsess sv) (nchan sv) sv.
Proof. split; [reflexivity|reflexivity|right; lia|right; lia]. Qed.

(* One entry.  An entry that is not a configuration change leaves both limits alone, and afterwards each count
   is at most the larger of its old value and the limit (0 = unlimited): a creation happens only below the limit,
   and a count that is above a (lowered) limit can only shrink.  A configuration change replaces the limits and
   leaves the counts alone — so "count <= limit" as such is not an invariant: the network configuration may set a
   limit below the present count. *)
Theorem limits_step e sv en sv' :
  entry_result (apply_entry e sv en) = Some sv' ->
  (max_sessions sv = 0 \/ nsess sv' <= N.max (nsess sv) (max_sessions sv))%N /\
  (max_channels sv = 0 \/ nchan sv' <= N.max (nchan sv) (max_channels sv))%N /\
  match en with
  | EConfig _ _ rev (Some g) =>
      (* takes effect only if it carries the revision in force + 1 (fix b3bad2c); otherwise nothing changes *)
      (if (rev =? g_revision (sv_config sv) + 1)%N
       then max_sessions sv' = g_maxSessions g /\ max_channels sv' = g_maxChannels g
       else max_sessions sv' = max_sessions sv /\ max_channels sv' = max_channels sv) /\
      nsess sv' = nsess sv /\ nchan sv' = nchan sv
  | _ => max_sessions sv' = max_sessions sv /\ max_channels sv' = max_channels sv
  end.
Proof.
  intros Hr.
  assert (Hgen : (forall id un rev g, en <> EConfig id un rev (Some g)) ->
                 Lim (max_sessions sv) (max_channels sv) (nsess sv) (nchan sv) sv').
  { intros Hnc. eapply Lim_apply_entry; [apply Lim_start|exact Hnc|exact Hr]. }
  destruct en as [id un auth|id un session q|id un session cmid ra data|id un session cmid data|id un rev [g|]].
  1-4,6: destruct Hgen as [h1 h2 h3 h4]; [intros; discriminate|]; (split; [exact h3|split; [exact h4|split; [exact h1|exact h2]]]).
  cbn [apply_entry config_in_force] in Hr. destruct (rev =? g_revision (sv_config sv) + 1)%N; cbn in Hr; injection Hr as <-;
    (split; [right; unfold nsess; cbn; lia|]); (split; [right; unfold nchan; cbn; lia|]); repeat split.
Qed.

(* createSessionLocked at the limit: ErrSessionLimitReached, nothing changes *)
Lemma create_refused e sv id un auth :
  max_sessions sv <> 0%N -> (max_sessions sv <= nsess sv)%N -> apply_entry e sv (ECreate id un auth) = OSessionLimit sv.
Proof.
  intros Hz Hle. cbn [apply_entry]. unfold create_session, bindM, getS, retM. cbv zeta. unfold max_sessions, nsess in *.
  replace ((g_maxSessions (sv_config sv) <=? N.of_nat (size (sv_sessions sv)))%N) with true by (symmetry; apply N.leb_le; exact Hle).
  replace ((0 <? g_maxSessions (sv_config sv))%N) with true by (symmetry; apply N.ltb_lt; lia). reflexivity.
Qed.

(* Histories: as long as no configuration change sets a limit below the count of that moment, the counts are
   within the limits in every reachable state. *)
Definition within_limits (sv : server) : Prop :=
  (max_sessions sv = 0 \/ nsess sv <= max_sessions sv)%N /\ (max_channels sv = 0 \/ nchan sv <= max_channels sv)%N.
Definition config_keeps (sv : server) (en : entry) : Prop :=
  match en with
  | EConfig _ _ _ (Some g) =>
      (g_maxSessions g = 0 \/ nsess sv <= g_maxSessions g)%N /\ (g_maxChannels g = 0 \/ nchan sv <= g_maxChannels g)%N
  | _ => True
  end.
Fixpoint configs_keep (e : env) (sv : server) (es : list entry) : Prop :=
  match es with
  | [] => True
  | en :: r => config_keeps sv en /\ forall sv', entry_result (apply_entry e sv en) = Some sv' -> configs_keep e sv' r
  end.

Lemma within_init net : within_limits (init_server net).
Proof. split; now left. Qed.

Lemma within_step e sv en sv' :
  within_limits sv -> config_keeps sv en -> entry_result (apply_entry e sv en) = Some sv' -> within_limits sv'.
Proof.
  intros [Ws Wc] Hk Hr. destruct (limits_step e sv en sv' Hr) as (Bs & Bc & Hm). unfold within_limits.
  destruct en as [id un auth|id un session q|id un session cmid ra data|id un session cmid data|id un rev [g|]].
  1-4,6: destruct Hm as [-> ->]; split; [destruct Ws as [?|?]; [now left|]; destruct Bs as [?|?]; [now left|right; lia]
                                           |destruct Wc as [?|?]; [now left|]; destruct Bc as [?|?]; [now left|right; lia]].
  destruct Hm as (Hl & -> & ->). destruct (rev =? g_revision (sv_config sv) + 1)%N; destruct Hl as [-> ->]; [exact Hk|].
  split; [exact Ws|exact Wc].
Qed.

Theorem limits_run e sv es sv' :
  within_limits sv -> configs_keep e sv es -> run e sv es = Some sv' -> within_limits sv'.
Proof.
  revert sv. induction es as [|en es IH]; intros sv W Hk; cbn [run].
  - intros [= <-]. exact W.
  - destruct Hk as [Hen Hr]. destruct (entry_result (apply_entry e sv en)) as [sv1|] eqn:E; [|discriminate].
    apply IH; [eapply within_step; eauto|apply Hr; reflexivity].
Qed.

Theorem limits_history e net es :
  wf_history e (init_server net) es -> configs_keep e (init_server net) es ->
  exists sv', run e (init_server net) es = Some sv' /\ within_limits sv'.
Proof.
  intros Hwf Hk. destruct (no_panic e net es Hwf) as (sv' & Hr & _). exists sv'. split; [exact Hr|].
  eapply limits_run; [apply within_init|exact Hk|exact Hr].
Qed.

(* ==== examples ============================================================================================== *)
Definition lim_config : config := Config 1 600000000000 500000000 2 1 "" "" false [] [] ∅ ∅ ∅.
Definition lim_history : list entry :=
  [ EConfig 1 1000 1 (Some lim_config);            (* MaxSessions = 2, MaxChannels = 1 *)
    ECreate 2 2000 "0123456789abcdef";
    ECreate 3 3000 "fedcba9876543210";
    ECreate 4 4000 "0123456789abcdef";             (* refused *)
    EMessage 5 5000 2 1 "" "NICK foo";
    EMessage 6 6000 2 2 "" "USER foo 0 * :Foo";
    EMessage 7 7000 2 3 "" "JOIN #a";
    EMessage 8 8000 2 4 "" "JOIN #b" ].            (* refused *)

Definition config_keeps_b (sv : server) (en : entry) : bool :=
  match en with
  | EConfig _ _ _ (Some g) =>
      (N.eqb (g_maxSessions g) 0 || N.leb (nsess sv) (g_maxSessions g)) &&
      (N.eqb (g_maxChannels g) 0 || N.leb (nchan sv) (g_maxChannels g))
  | _ => true
  end.
Fixpoint configs_keep_b (e : env) (sv : server) (es : list entry) : bool :=
  match es with
  | [] => true
  | en :: r => config_keeps_b sv en &&
               match entry_result (apply_entry e sv en) with Some sv' => configs_keep_b e sv' r | None => true end
  end.
Lemma configs_keep_b_sound e sv es : configs_keep_b e sv es = true -> configs_keep e sv es.
Proof.
  revert sv. induction es as [|en es IH]; intros sv H; cbn [configs_keep configs_keep_b] in *; [exact Logic.I|].
  apply andb_true_iff in H. destruct H as [H Hr]. split.
  - destruct en as [| | | |id un rev [g|]]; cbn [config_keeps config_keeps_b] in *; try exact Logic.I.
    apply andb_true_iff in H. destruct H as [H1 H2]. apply orb_true_iff in H1, H2.
    rewrite !N.eqb_eq, !N.leb_le in *. tauto.
  - intros sv' Hs. rewrite Hs in Hr. now apply IH.
Qed.

(* the hypotheses of [limits_history] hold of a history that sets limits and runs into both of them *)
Example lim_history_ok :
  wf_history ex_env (init_server "robustirc.net") lim_history /\ configs_keep ex_env (init_server "robustirc.net") lim_history.
Proof. split; [apply wf_history_b_sound|apply configs_keep_b_sound]; vm_compute; reflexivity. Qed.

(* the third CreateSession is refused (ErrSessionLimitReached, two sessions stay), the second JOIN is answered with
   403 and creates no channel; evaluated inside the model *)
Definition state_after (n : nat) (es : list entry) : option server := run ex_env (init_server "robustirc.net") (firstn n es).
Definition lim_refusals_b : bool :=
  match state_after 3 lim_history, state_after 7 lim_history, state_after 8 lim_history with
  | Some sv3, Some sv7, Some sv8 =>
      N.eqb (nsess sv3) 2 &&
      match apply_entry ex_env sv3 (ECreate 4 4000 "0123456789abcdef") with
      | OSessionLimit sv4 => N.eqb (nsess sv4) 2
      | _ => false
      end &&
      N.eqb (nsess sv7) 2 && N.eqb (nchan sv7) 1 &&
      match apply_entry ex_env sv7 (EMessage 8 8000 2 4 "" "JOIN #b") with
      | OOk sv8' out =>
          match map o_data out with [d] => String.eqb d ":robustirc.net 403 foo #b :No such channel" | _ => false end &&
          N.eqb (nchan sv8') 1 && bool_decide (sv_channels sv8' !! "#b" = None) && bool_decide (is_Some (sv_channels sv8' !! "#a"))
      | _ => false
      end &&
      N.eqb (nsess sv8) 2 && N.eqb (nchan sv8) 1 && N.eqb (max_sessions sv8) 2 && N.eqb (max_channels sv8) 1
  | _, _, _ => false
  end.
Example lim_history_refusals : lim_refusals_b = true.
Proof. vm_compute. reflexivity. Qed.

(* names: [names_valid_history] applies to the first nine entries of [ex_history], and the state they reach has two
   nicknamed sessions on one channel *)
Example names_nonvacuous :
  wf_history ex_env (init_server "robustirc.net") (firstn 9 ex_history) /\
  match state_after 9 ex_history with
  | Some sv' =>
      N.eqb (nsess sv') 2 && bool_decide (sv_nicks sv' !! "foo" = Some (1%N, 0%N)) &&
      bool_decide (sv_nicks sv' !! "bar" = Some (4%N, 0%N)) &&
      match sv_channels sv' !! "#chan" with
      | Some c => String.eqb (c_name c) "#Chan" && Nat.eqb (size (c_nicks c)) 2
      | None => false
      end
  | None => false
  end = true.
Proof. split; [apply wf_history_b_sound|]; vm_compute; reflexivity. Qed.

(* ---- what happens without the hypothesis on services NICK lines ----------------------------------------------- *)
(* internal/ircserver/scmd_nick.go (cmdServerNick) stores msg.Params[0] as the nickname of the new pseudo-client
   without calling IsValidNickname (cmd_nick.go and scmd_svsnick.go do call it).  An authenticated services link can
   therefore introduce a name no client could own; such a line is outside [conforming] (cf_nick). *)
Definition svc_config : config := Config 1 600000000000 500000000 0 0 "" "" false [] ["secret"] ∅ ∅ ∅.
Definition bad_nick_history : list entry :=
  [ EConfig 1 1000 1 (Some svc_config);
    ECreate 2 2000 "0123456789abcdef";
    EMessage 3 3000 2 1 "" "PASS services=secret";
    EMessage 4 4000 2 2 "" "SERVER services.example.net 1 :Services";
    EMessage 5 5000 2 3 "" "NICK 1bad,nick 1 1 svc services.example.net services.example.net 0 :Bad" ].

Definition bad_nick_b : bool :=
  match run ex_env (init_server "robustirc.net") bad_nick_history with
  | Some sv' =>
      match sv_sessions sv' !! (2%N, fnv64 "1bad,nick") with
      | Some s => String.eqb (s_nick s) "1bad,nick" && negb (valid_nick (s_nick s)) &&
                  bool_decide (sv_nicks sv' !! nick_to_lower (s_nick s) = Some (2%N, fnv64 "1bad,nick"))
      | None => false
      end
  | None => false
  end.
Lemma bad_nick_b_true : bad_nick_b = true.
Proof. vm_compute. reflexivity. Qed.

Theorem names_refuted :
  exists sv' (k : N * N) s,
    run ex_env (init_server "robustirc.net") bad_nick_history = Some sv' /\
    sv_sessions sv' !! k = Some s /\ s_nick s = "1bad,nick" /\ valid_nick (s_nick s) = false /\
    sv_nicks sv' !! nick_to_lower (s_nick s) = Some k /\ ~ NV sv'.
Proof.
  pose proof bad_nick_b_true as Hb. unfold bad_nick_b in Hb.
  destruct (run ex_env (init_server "robustirc.net") bad_nick_history) as [sv'|]; [|discriminate].
  destruct (sv_sessions sv' !! (2%N, fnv64 "1bad,nick")) as [s|] eqn:Hs; [|discriminate].
  apply andb_true_iff in Hb. destruct Hb as [Hb H3]. apply andb_true_iff in Hb. destruct Hb as [H1 H2].
  apply String.eqb_eq in H1. apply negb_true_iff in H2. apply bool_decide_eq_true in H3.
  exists sv', (2%N, fnv64 "1bad,nick"), s. repeat split; try assumption.
  intros H. destruct (nv_nick _ H _ _ Hs) as [He|Hv]; [rewrite H1 in He; discriminate|congruence].
Qed.

(* ---- corollaries --------------------------------------------------------------------------------------------- *)
(* validity alone needs neither well-formedness nor the base invariant: only the hypothesis on services NICK lines *)
Corollary nv_history e net es sv' :
  nick_history e (init_server net) es -> run e (init_server net) es = Some sv' -> NV sv'.
Proof. apply nv_run, NV_init. Qed.

(* at or above a limit nothing is created *)
Corollary limits_full e sv en sv' :
  entry_result (apply_entry e sv en) = Some sv' ->
  (max_sessions sv <> 0%N -> (max_sessions sv <= nsess sv)%N -> (nsess sv' <= nsess sv)%N) /\
  (max_channels sv <> 0%N -> (max_channels sv <= nchan sv)%N -> (nchan sv' <= nchan sv)%N).
Proof.
  intros Hr. destruct (limits_step e sv en sv' Hr) as (Bs & Bc & _). split; intros Hz Hle.
  - destruct Bs as [?|?]; [contradiction|lia].
  - destruct Bc as [?|?]; [contradiction|lia].
Qed.

(* a snapshot restore (Marshal + Unmarshal into a fresh instance) keeps both *)
Lemma NV_reload sv : NV sv -> NV (reload sv).
Proof.
  intros H. split; cbn [reload sv_sessions sv_channels].
  - intros k s'. rewrite lookup_fmap. destruct (sv_sessions sv !! k) as [s|] eqn:E; [|discriminate]. cbn. intros [= <-].
    cbn. eapply nv_nick; eauto.
  - apply H.
Qed.
Lemma within_limits_reload sv : within_limits sv -> within_limits (reload sv).
Proof.
  unfold within_limits, max_sessions, max_channels, nsess, nchan. cbn [reload sv_sessions sv_channels sv_config g_maxSessions g_maxChannels].
  now rewrite map_size_fmap.
Qed.

(* ---- the statements in full, for Properties/C14.v -------------------------------------------------------------- *)
Theorem C14_names_valid_stmt e net es :
  wf_history e (init_server net) es ->
  exists sv', run e (init_server net) es = Some sv' /\
    (forall (k : N * N) s, sv_sessions sv' !! k = Some s ->
       s_nick s = "" \/ (valid_nick (s_nick s) = true /\ sv_nicks sv' !! nick_to_lower (s_nick s) = Some k)) /\
    (forall n (k : N * N), sv_nicks sv' !! n = Some k ->
       exists s, sv_sessions sv' !! k = Some s /\ valid_nick (s_nick s) = true /\ nick_to_lower (s_nick s) = n) /\
    (forall lc c, sv_channels sv' !! lc = Some c -> valid_chan (c_name c) = true /\ chan_to_lower (c_name c) = lc).
Proof.
  intros H. destruct (names_valid_history e net es H) as (sv' & Hr & [H1 H2 H3]). exists sv'. auto.
Qed.

Theorem C14_names_valid_any_history_stmt e net es sv' :
  nick_history e (init_server net) es -> run e (init_server net) es = Some sv' ->
  (forall (k : N * N) s, sv_sessions sv' !! k = Some s -> s_nick s = "" \/ valid_nick (s_nick s) = true) /\
  (forall lc c, sv_channels sv' !! lc = Some c -> valid_chan (c_name c) = true).
Proof. intros H Hr. destruct (nv_history e net es sv' H Hr) as [H1 H2]. split; assumption. Qed.

Theorem C14_nonvacuous_stmt :
  (wf_history ex_env (init_server "robustirc.net") lim_history /\ configs_keep ex_env (init_server "robustirc.net") lim_history /\
   lim_refusals_b = true) /\
  (wf_history ex_env (init_server "robustirc.net") (firstn 9 ex_history) /\
   match state_after 9 ex_history with
   | Some sv' =>
       N.eqb (nsess sv') 2 && bool_decide (sv_nicks sv' !! "foo" = Some (1%N, 0%N)) &&
       bool_decide (sv_nicks sv' !! "bar" = Some (4%N, 0%N)) &&
       match sv_channels sv' !! "#chan" with
       | Some c => String.eqb (c_name c) "#Chan" && Nat.eqb (size (c_nicks c)) 2
       | None => false
       end
   | None => false
   end = true).
Proof.
  split; [|exact names_nonvacuous]. destruct lim_history_ok as [H1 H2]. split; [exact H1|]. split; [exact H2|exact lim_history_refusals].
Qed.
