#!/usr/bin/env python3
# Regression suite of the lock scanner: applies every testdata/mutations/*.diff to a scratch worktree
# of /repo's HEAD (never to /repo), runs lockscan, evaluates the discipline with the guard map of
# Conc/GuardMap.v and checks that the set of NEW breaches (relative to the unmutated tree) is exactly
# the expected one.  usage: run_mutations.py [-v] [--with-fixes]   (--with-fixes: first apply
# /verif/fixes/D9*.diff to the scratch worktree, i.e. test against the repaired tree)
import json, os, re, subprocess, sys

sys.path.insert(0, os.path.dirname(os.path.abspath(__file__)))

HERE = os.path.dirname(os.path.abspath(__file__))
MUT = os.path.join(HERE, "mutations")
WT = "/tmp/wt-lock-mut"
SCAN = "/verif/build/lockscan"
GUARD = "/verif/coq/Conc/GuardMap.v"


def guard_map():
    """parse Conc/GuardMap.v (the Coq file stays the single source of the guard map)"""
    src = open(GUARD).read()
    src = src[src.index("Definition guard_list"):]
    src = src[:src.index("].") + 2]
    consts_src = open(GUARD).read()
    consts = dict(re.findall(r'Definition (\w+) := "([^"]+)"\.', consts_src))
    g = {}
    for f, rhs in re.findall(r'^\s*\("([^"]+)",\s*(.+?)\)\s*;?\s*$', src, re.M):
        rhs = rhs.strip()
        if rhs == "Immutable":
            g[f] = "I"
        elif rhs.startswith("g1"):
            a = rhs[2:].strip()
            g[f] = [a.strip('"') if a.startswith('"') else consts[a]]
        elif rhs.startswith("Guarded"):
            g[f] = re.findall(r'"([^"]+)"', rhs)
        else:
            raise SystemExit("cannot parse guard for %s: %s" % (f, rhs))
    return g


def justified_aliases():
    src = open(GUARD).read()
    src = src[src.index("Definition justified_global_aliases"):]
    src = src[:src.index("].") + 2]
    return set(re.findall(r'\("([^"]+)",\s*"([^"]+)"\)', src))


def justified_instances():
    src = open(GUARD).read()
    src = src[src.index("Definition justified_instance_mismatches"):]
    src = src[:src.index("].") + 2]
    return set(re.findall(r'\("([^"]+)",\s*"([^"]+)"\)', src))


def breaches(summary, g):
    """python transcription of Lockset.entry_ok / fields_classified (cross-checked against Coq by c20.py on every run)"""
    written = {e["field"] for e in summary["entries"] if e["kind"] == "W"}
    out = set()
    for e in summary["entries"]:
        gd = g.get(e["field"])
        held = dict(e["held"])
        if gd is None:
            ok = False
        elif gd == "I":
            ok = e["kind"] != "W"
        elif e["kind"] == "W":
            ok = bool(gd) and all(held.get(l) == "X" for l in gd)
        else:
            ok = e["field"] not in written or any(l in held for l in gd)
        if not ok:
            out.add((e["fn"], e["field"], e["kind"]))
    for f in summary["declared_fields"]:
        if f not in g:
            out.add(("<declared>", f, "unclassified"))
    jinst = justified_instances()
    for x in summary.get("instance_mismatch_sites", []):
        gd = g.get(x["base_field"])
        held = dict(x["held"])
        ok = gd == "I" or (isinstance(gd, list) and any(l in held for l in gd))
        if not ok and (x["fn"], x["what"]) not in jinst:
            out.add((x["fn"], x["what"], "instance-mismatch"))
    just = justified_aliases()
    for a in summary.get("global_alias_sites", []):
        if (a["var"], a["fn"]) not in just:
            out.add((a["fn"], a["var"], "global-alias"))
    return out


def scan(tree):
    js = "/verif/build/tmp/mut-%d.json" % os.getpid()
    env = dict(os.environ, GOFLAGS="-mod=mod", GOPROXY="off", GOSUMDB="off", GOTOOLCHAIN="local")
    p = subprocess.run([SCAN, "-dir", tree, "-json", js], env=env, capture_output=True, text=True)
    if p.returncode != 0:
        raise SystemExit("lockscan failed on %s:\n%s" % (tree, p.stdout + p.stderr))
    s = json.load(open(js))
    os.remove(js)
    return s


def main():
    verbose = "-v" in sys.argv
    g = guard_map()
    exp = json.load(open(os.path.join(MUT, "expected.json")))
    os.makedirs("/verif/build/tmp", exist_ok=True)
    subprocess.run(["git", "-C", "/repo", "worktree", "remove", "--force", WT], capture_output=True)
    subprocess.run(["git", "-C", "/repo", "worktree", "add", "--detach", WT, "HEAD"], check=True, capture_output=True)
    bad = 0
    try:
        label = "HEAD of /repo"
        fixes = []
        if "--with-fixes" in sys.argv:
            import glob
            fixes = sorted(glob.glob("/verif/fixes/D9*.diff"))
            label = "HEAD of /repo + /verif/fixes/D9*.diff"

        def reset():
            subprocess.run(["git", "-C", WT, "checkout", "--", "."], check=True)
            subprocess.run(["git", "-C", WT, "clean", "-fdq"], check=True)
            for f in fixes:  # a fix that is already committed (no longer applies) is skipped
                if subprocess.run(["git", "-C", WT, "apply", "--check", f], capture_output=True).returncode == 0:
                    subprocess.run(["git", "-C", WT, "apply", f], check=True)

        reset()
        base = breaches(scan(WT), g)
        print("baseline (%s): %d breaching (function, field, kind) triples" % (label, len(base)))
        for name in sorted(exp):
            d = os.path.join(MUT, name + ".diff")
            how = "diff"
            if subprocess.run(["git", "-C", WT, "apply", d], capture_output=True).returncode != 0:
                # the tree moved under the recorded diff: fall back to the pattern edit it was made from
                how = "pattern (recorded diff is stale: re-run make_mutations.py)"
                import make_mutations
                stale = False
                for f, old, new in make_mutations.M[name][1]:
                    src = open(os.path.join(WT, f)).read()
                    if src.count(old) != 1:
                        stale = True
                        break
                    open(os.path.join(WT, f), "w").write(src.replace(old, new))
                if stale:
                    reset()
                    bad += 1
                    print("%-42s STALE: neither the diff nor its pattern applies to this tree" % name)
                    continue
            try:
                got = breaches(scan(WT), g) - base
                gone = base - breaches(scan(WT), g) if verbose else set()
            finally:
                reset()
            want = {tuple(x) for x in exp[name]["new_breaches"]}
            ok = got == want
            bad += not ok
            print("%-42s %s  new=%d expected=%d  (%s)%s" % (name, "ok  " if ok else "FAIL", len(got), len(want), exp[name]["description"],
                                                           "" if how == "diff" else "  [applied by " + how + "]"))
            if not ok or verbose:
                for x in sorted(got - want):
                    print("      unexpected:", x)
                for x in sorted(want - got):
                    print("      missed:    ", x)
                for x in sorted(gone):
                    print("      (baseline breach no longer reported:", x, ")")
    finally:
        subprocess.run(["git", "-C", "/repo", "worktree", "remove", "--force", WT], capture_output=True)
    print("%d mutations, %d failures" % (len(exp), bad))
    return 1 if bad else 0


if __name__ == "__main__":
    sys.exit(main())
