# C16 — configuration updates: accepted iff the body parses and names the revision in force; +1 exactly; rejected =>
#   nothing changes; same configuration on every replica; GLINE bans live in the replicated configuration.
#   proofs (Properties/C16.v) + correspondence of Api/ConfigPost.v with postconfig.go / the FSM Config case /
#   cmd_gline.go + a model-independent monitor (python reference bookkeeping of revision and bans) on every step,
#   GET /config, a second replica fed the same log, and a copy restored from Marshal/Unmarshal.
import json, os, time
import vlib
from props import c11 as api
from props.c11 import hx, unhx, ref_parse_uint


def cfg(oppw="verifoppw", extra="", bridges=True, banned=None, origins=None):
    s = 'SessionExpiration = "30m"\nPostMessageCooloff = "0s"\n' + extra
    s += '[IRC]\n[[IRC.Operators]]\nName = "verifop"\nPassword = "%s"\n' % oppw
    if bridges:
        s += '[TrustedBridges]\nverifbridge = "verif"\n'
    if banned:
        s += "[Banned]\n" + "".join('"%s" = "%s"\n' % kv for kv in banned)
    if origins:
        s += "[WhitelistedOrigins]\n" + "".join('"%s" = %s\n' % (o, "true" if on else "false") for o, on in origins)
    return s


def some_origins(rng):
    """allowed origins: some switched on, some switched off by flipping the value (not by deleting the line)"""
    if rng.random() < 0.5:
        return None
    return [("https://web%d.example" % i, rng.random() < 0.6) for i in range(rng.randint(1, 3))]


INVALID = ['SessionExpiration = 5\n', '[IRC\n', 'garbage === 1\n', 'SessionExpiration = "notaduration"\n', 'MaxSessions = "many"\n',
           '[[IRC.Operators]]\nName = 1\n', 'CaptchaHMACSecret = "zz"\n', '\xff\xfe', 'PostMessageCooloff = "0s"\nPostMessageCooloff = "1s"\n']


def addr(k):
    return "10.7.%d.%d" % (k // 250, k % 250 + 1)


def gen_case(rng, ci, quick):
    """Returns (case line, annotations per op).  A python-side bookkeeping of revision / operator password / operator
    status steers the generator (headers that are current, stale, future) and annotates which GLINEs are expected to take effect."""
    ops, ann = ["N"], [None]
    rev, oppw = 0, None                     # configuration in force as the generator expects it
    nick = lambda k: "g%dx%d" % (ci, k)
    sessions, alive = [], set()
    def I(k, line): return "I:%d:%s" % (k, hx(line))
    def add(op, a=None):
        ops.append(op); ann.append(a)
    def post(valid=None, how=None):
        nonlocal rev, oppw
        valid = rng.random() < 0.7 if valid is None else valid
        if valid:
            newpw = rng.choice(["verifoppw", "pw-%d" % rng.randint(0, 3)])
            body = cfg(newpw, extra=rng.choice(["", "MaxSessions = %d\n" % rng.randint(50, 99), "MaxChannels = 77\n", 'CaptchaURL = "http://c/%d"\n' % rng.randint(0, 9),
                                               "Unknown = 1\n"]),
                       banned=[("10.9.9.%d" % rng.randint(1, 9), "preset")] if rng.random() < 0.2 else None, origins=some_origins(rng))
        else:
            newpw, body = None, rng.choice(INVALID)
        how = how or rng.choice(["current", "current", "current", "hex", "stale", "future", "garbage", "missing", "empty", "underscore"])
        h = {"current": str(rev), "hex": "0x%x" % rev, "stale": str(rev - 1) if rev > 0 else "7", "future": str(rev + rng.randint(1, 3)),
             "garbage": rng.choice(["abc", "-1", "1.0", " 1", "0x"]), "missing": None, "empty": "", "underscore": "0_%o" % rev if rev else "0_0"}[how]
        add("F:%s:%s:ok" % ("!" if h is None else hx(h), hx(body)), {"hdr": h, "valid_guess": valid})
        hv = ref_parse_uint(h.strip(" \t")) if h is not None else None
        if valid and hv is not None and hv == rev:
            rev += 1; oppw = newpw      # the Operator flag of a session stays with the session; only the password changes
        if rng.random() < 0.6:
            add("G")
    def inject():
        """raw Config entries in the log that no caught-up handler would have let through (op H): what a handler that lagged
        behind the log proposes (D20), or an update proposed twice"""
        nonlocal rev, oppw
        def H(r, body): add("H:%d:%s" % (r, hx(body)), {"inject": r})
        kind = rng.choice(["stale", "stale", "duplicate", "future", "unparsable", "valid", "stale-then-valid"])
        pw = "inj-%d" % rng.randint(0, 9)
        good = cfg(pw, extra=rng.choice(["", "MaxChannels = %d\n" % rng.randint(10, 40)]), origins=some_origins(rng))
        if kind == "stale":
            H(rng.randint(0, rev), good)
        elif kind == "future":
            H(rev + rng.randint(2, 4), good)
        elif kind == "unparsable":
            H(rev + 1, rng.choice(INVALID))
        elif kind == "valid":
            H(rev + 1, good); rev += 1; oppw = pw
        elif kind == "duplicate":           # the same update twice, optionally with traffic in between: the second copy has no effect
            H(rev + 1, good); rev += 1; oppw = pw
            if rng.random() < 0.5 and alive:
                add(I(rng.choice(sorted(alive)), "PING between"))
            H(rev, rng.choice([good, cfg("other-body")]))
        else:                               # a stale copy of revision n, then the legitimate update n+1 through the handler
            H(rng.randint(0, rev), good)
            post(valid=True, how="current")
        if rng.random() < 0.6:
            add("G")
    post(valid=True, how="current")        # a configuration with operator + trusted bridge, so that traffic has addresses
    ns = rng.randint(2, 4)
    for k in range(ns):
        add("C:%d" % k); add(I(k, "NICK " + nick(k))); add(I(k, "USER u%d 0 * :U" % k)); sessions.append(k); alive.add(k)
    steps = rng.randint(5, 10) if quick else rng.randint(10, 40)
    isoper = set()
    if rng.random() < 0.6 and oppw:
        add(I(0, "OPER verifop " + oppw)); isoper.add(0)
    for _ in range(steps):
        r = rng.random()
        if r < 0.25:
            post()
        elif r < 0.45:
            inject()
            if rng.random() < 0.3:
                add(rng.choice(["S", "K"])); add("G")
        elif r < 0.55 and alive:       # config-dependent behaviour: OPER with the password of some configuration
            k = rng.choice(sorted(alive))
            pw = oppw if (oppw and rng.random() < 0.6) else rng.choice(["verifoppw", "pw-0", "pw-1", "pw-2", "pw-3", "nope"])
            add(I(k, "OPER verifop " + pw))
            if pw == oppw:
                isoper.add(k)
        elif r < 0.75 and alive:       # GLINE
            ops_alive = sorted(alive & isoper)
            k = rng.choice(ops_alive) if ops_alive and rng.random() < 0.7 else rng.choice(sorted(alive))
            victims = [v for v in sorted(alive) if v != k]
            if not victims:
                continue
            v = rng.choice(victims)
            reason = "verif ban %d" % rng.randint(0, 99)
            eff = k in isoper
            add(I(k, "GLINE %s :%s" % (nick(v), reason)), {"gline": (addr(v), reason), "effective": eff})
            if eff:
                alive.discard(v); isoper.discard(v)
        elif r < 0.85:
            add(rng.choice(["S", "S", "K"])); add("G")
        elif alive:
            k = rng.choice(sorted(alive))
            add(I(k, rng.choice(["JOIN #g%d" % ci, "PRIVMSG #g%d :hi" % ci, "PING p"])))
    add("G"); add("Z")
    return "cfg c%d " % ci + " ".join(ops), ann


def state_of(o, prefix=""):
    return (o[prefix + "rev"], o[prefix + "base"], o[prefix + "banned"])


def banned_dict(s):
    return {} if s == "-" else dict(kv.split("=") for kv in s.split(","))


def monitor(ops, obs, ann):
    """the property on the implementation's trace, with a python bookkeeping of (revision, configuration, bans)"""
    fails, cur, accepted = [], None, 0
    expected_rev_after = {}          # raft index of every Config entry in the log -> revision in force after it
    def note_entry(o):
        if o.get("ent", "-") != "-":
            for e in o["ent"].split(";"):
                f = e.split(".")
                if len(f) > 1 and f[1] == "config":
                    expected_rev_after[int(f[0])] = int(cur[0])
    for idx, (tok, o) in enumerate(zip(ops, obs)):
        k = o["op"]
        a = ann[idx] if ann and idx < len(ann) else None
        if "panic" in o or ("err" in o and k not in ("X", "H", "Q")):
            fails.append(("driver-op-failed", "op %s failed: %s" % (tok[:40], o)))
            continue
        if k == "N":
            cur = state_of(o)
        elif k == "F":
            hdr = None if o["h"] == "!" else unhx(o["h"]).decode("latin-1").strip(" \t")   # net/http trims optional whitespace around header values
            hv = ref_parse_uint(hdr) if hdr is not None else None
            should = o["tp"] != "!" and hv is not None and str(hv) == cur[0]
            new = state_of(o)
            if should:
                tb, tbl = o["tp"].split("/")
                if o["status"] != "200" or new != (str(int(cur[0]) + 1), tb, tbl) or o["grew"] != "1":
                    fails.append(("valid-update-not-applied", "post with current revision %s and a valid body: status %s, grew %s, config %s -> %s (parsed %s)" % (cur[0], o["status"], o["grew"], cur, new, o["tp"])))
                else:
                    accepted += 1
            else:
                why = "unparsable body" if o["tp"] == "!" else "revision header %r while %s is in force" % (hdr, cur[0])
                if o["status"] == "200" or new != cur or o["grew"] != "0":
                    fails.append(("rejected-update-took-effect", "%s: status %s, grew %s, config %s -> %s" % (why, o["status"], o["grew"], cur, new)))
            cur = new
            note_entry(o)
        elif k == "H":
            # a Config entry that is in the log whatever the handler saw: it takes effect iff it parses and carries revision in force + 1
            hrev, new = int(o["hrev"]), state_of(o)
            should = o["tp"] != "!" and hrev == int(cur[0]) + 1
            if o.get("err") != "false" or o["grew"] != "1":
                fails.append(("driver-op-failed", "injected Config entry was not committed: %s" % {x: o[x] for x in ("err", "grew") if x in o}))
            elif should:
                tb, tbl = o["tp"].split("/")
                if new != (str(hrev), tb, tbl) or o["refused"] != "false":
                    fails.append(("valid-update-not-applied", "Config entry with revision %d (revision in force %s) and a valid body: config %s -> %s, proposer refused=%s" % (hrev, cur[0], cur, new, o["refused"])))
                else:
                    accepted += 1
            else:
                why = "unparsable body" if o["tp"] == "!" else "revision %d while %s is in force (%s)" % (
                    hrev, cur[0], "stale" if hrev <= int(cur[0]) else "future")
                if new != cur or o["same"] != "1":
                    fails.append(("out-of-sequence-config-entry-took-effect", "Config entry in the log with %s: configuration %s -> %s%s" % (
                        why, cur, new, "" if o["same"] == "1" else " (state digest changed)")))
                elif o["tp"] != "!" and o["refused"] != "true":
                    fails.append(("skipped-update-not-reported", "Config entry with %s was skipped but its proposer got no error" % why))
            cur = new
            note_entry(o)
        elif k == "K":
            if "noop" in o:
                continue
            if o.get("cfg_same") != "true" or state_of(o) != cur:
                fails.append(("config-lost-in-compaction", "configuration differs after a raft snapshot (FSM.Snapshot fold + Persist) and FSM.Restore: %s vs %s" % (cur, state_of(o))))
        elif k == "G":
            got = (unhx(o["hrev"]).decode(), ) + tuple(o["served"].split("/")) if o["served"] != "!" else None
            if o["status"] != "200" or got != cur or state_of(o) != cur:
                fails.append(("get-config-differs", "GET /config serves %s (status %s) while %s is in force" % (got, o["status"], cur)))
        elif k in ("I", "P", "T", "C", "D"):
            if "crev" not in o:
                continue
            new = state_of(o, "c")
            if a and "gline" in a:
                want = dict(banned_dict(cur[2]))
                if a["effective"]:
                    want[hx(a["gline"][0])] = hx(a["gline"][1])
                if (new[0], new[1]) != (cur[0], cur[1]) or banned_dict(new[2]) != want:
                    fails.append(("gline-ban-not-in-config", "GLINE (%s) by %s: bans %s -> %s, expected %s" % (a["gline"], "an operator" if a["effective"] else "a non-operator", cur[2], new[2], want)))
            elif new != cur:
                fails.append(("config-changed-without-update", "op %s changed the configuration %s -> %s" % (tok[:30], cur, new)))
            cur = new
        elif k == "S":
            if o.get("cfg_same") != "true" or state_of(o) != cur:
                fails.append(("config-lost-in-snapshot", "configuration differs after Unmarshal(Marshal()): %s vs %s" % (cur, state_of(o))))
        elif k == "Z":
            if o.get("replica_cfg") != "true":
                fails.append(("replica-config-differs", "a second instance fed the same log ends with a different configuration"))
            if o.get("replica_out") != "true":
                fails.append(("replica-output-differs", "a second instance fed the same log behaves differently (entry %s)" % o.get("outdiff")))
            if o.get("restored_cfg") != "true":
                fails.append(("config-lost-in-snapshot", "a copy restored from the snapshot encoding has a different configuration"))
            # every accepted update is one Config entry whose revision is one higher than the previous one
            # on the second replica, after every Config entry of the log, the revision in force must be what the bookkeeping says:
            # +1 for an entry in sequence, unchanged for a stale / future / duplicate / unparsable one
            tr = [] if o.get("cfgtrace", "-") == "-" else [t.split(".") for t in o["cfgtrace"].split(";")]
            got = [(int(t[0]), int(t[1])) for t in tr]
            bad = [(i, r, expected_rev_after[i]) for i, r in got if i in expected_rev_after and expected_rev_after[i] != r]
            steps = [b[1] - a[1] for a, b in zip(got, got[1:])]
            if bad or any(d not in (0, 1) for d in steps):
                fails.append(("revision-not-consecutive", "revisions on the replica after each Config entry (index, revision): %s; expected %s" % (
                    got, [(i, expected_rev_after.get(i)) for i, _ in got])))
            if state_of(o) != cur:
                fails.append(("config-changed-without-update", "final configuration %s differs from the last observed %s" % (state_of(o), cur)))
    return fails, accepted


def model_case(ops, obs, ann):
    mops, want, st0 = [], [], None
    for idx, (tok, o) in enumerate(zip(ops, obs)):
        k = o["op"]
        a = ann[idx] if ann and idx < len(ann) else None
        if k == "N":
            st0 = state_of(o)
        elif k == "F" and "status" in o:
            h = o["h"] if o["h"] == "!" else hx(unhx(o["h"]).decode("latin-1").strip(" \t"))   # as the handler sees it (net/http trims)
            mops.append("F:%s:%s:%s" % (h, o["b"], o["tp"]))
            want.append("F:%s:%s" % ("acc" if o["status"] == "200" else "rej", ":".join(state_of(o))))
        elif k in ("I", "P", "T") and "crev" in o:
            if a and "gline" in a and a["effective"]:
                mops.append("B:%s:%s" % (hx(a["gline"][0]), hx(a["gline"][1]))); want.append("B:" + ":".join(state_of(o, "c")))
            else:
                mops.append("O"); want.append("O:" + ":".join(state_of(o, "c")))
        elif k == "H" and "hrev" in o:
            mops.append("H:%s:%s:%s" % (o["hrev"], o["b"], o["tp"]))
            want.append("H:%s:%s" % ("skip" if o["same"] == "1" else "eff", ":".join(state_of(o))))
        elif k in ("S", "K") and "rev" in o:
            # K = raft snapshot through FSM.Snapshot's fold + Persist + FSM.Restore; the model's restore is the identity
            mops.append("S"); want.append("S:" + ":".join(state_of(o)))
    return "cfg %s %s %s " % st0 + " ".join(mops), "cfg " + " ".join(want)


def norm_model(line):
    return " ".join(t.replace("F:badhdr:", "F:rej:").replace("F:badtoml:", "F:rej:").replace("F:mismatch:", "F:rej:") for t in line.split(" "))


def shrink(ops, ann, wiring, sig):
    """drop ops (never the first: the node) while the failure signature persists"""
    def fails(c_ops, c_ann):
        res, _ = api.run_go(["cfg s " + " ".join(c_ops)], wiring, "shrink")
        if not res:
            return False
        fl, _ = monitor(c_ops, res[0][2:], c_ann)
        return any(s == sig for s, _ in fl)
    i = len(ops) - 1
    while i >= 1 and len(ops) > 2:
        c_ops, c_ann = ops[:i] + ops[i + 1:], ann[:i] + ann[i + 1:]
        if fails(c_ops, c_ann):
            ops, ann = c_ops, c_ann
        i -= 1
    return ops, ann


def run(ck, replay):
    quick = ck.tier == "quick"
    ck.cov["trusted_base"] += [
        "Go driver harness/go/main/zz_verif_api_*_test.go (single-node raft, real LevelDB stores, real FSM and api.HTTP; second replica = fresh IRCServer fed the "
        "node's irclog through FSM.applyRobustMessage, outputs compared entry by entry; restore = Unmarshal(Marshal()))",
        "oracle from the implementation: config.FromString on every posted body (BurntSushi/toml is not modelled); configuration digests = reflection dump of "
        "config.Network without Revision/Banned",
        "modelled, not verified: net/http, BurntSushi/toml, hashicorp/raft; uint64 wrap-around of the revision is outside the modelled domain"]
    ck.assumptions += ["no assumption on what the answering handler saw is left: the state machine skips every Config entry that does not carry revision in force + 1 "
                       "(C16_fsm_out_of_sequence, C16_log_effects, C16_stale_post; statemachine.go b3bad2c); of two concurrent posts naming the same revision exactly one takes effect. "
                       "The lagging handler itself is not reproduced here (single node; the sysdrv scenarios of C05 do that): its effect, the out-of-sequence entry, is injected (op H)",
                       "allowed origins (Config.WhitelistedOrigins, part of the snapshot encoding since baa91ab) are exercised with entries switched on and off",
                       "config.DefaultConfig.Banned is one process-wide map shared by every IRCServer that has not yet applied a Config entry; GLINE needs an operator and "
                       "therefore a Config entry first, so every history here has its own map"]
    ok = ck.proof_obligations()
    facts, _, slog = api.scan_routes()
    wiring = api.wiring_of(facts)
    anns = []
    if replay:
        rp = json.load(open(replay))
        lines, anns = rp.get("cases", []), rp.get("annotations", [])
    else:
        lines = []
        corpus = os.path.join(vlib.ROOT, "corpus", "C16")
        if os.path.isdir(corpus):
            for fn in sorted(os.listdir(corpus)):
                if fn.endswith(".json"):
                    c = json.load(open(os.path.join(corpus, fn)))
                    lines += c["cases"]; anns += c["annotations"]
        for i in range(30 if quick else 400):
            l, a = gen_case(ck.rng, i, quick)
            lines.append(l); anns.append(a)
    t0 = time.time()
    res, goout = api.run_go(lines, wiring, "c16", timeout=3000)
    ck.notes["go_wall_s"] = round(time.time() - t0, 1)
    if res is None:
        ck.violation("tie-broken:go-driver", {"what": "Go correspondence driver did not build/run against the current tree", "output": goout[-4000:],
                                              "obligation": "correspondence apidrv (package main)", "cases": lines[:2]}, concrete=False)
        return
    mins, wants, monfail, nontriv, dist = [], [], [], set(), {}
    for ci, case in enumerate(res):
        ops, obs = lines[ci].split(" ")[2:], case[2:]
        ann = anns[ci] if ci < len(anns) else [None] * len(ops)
        fl, acc = monitor(ops, obs, ann)
        if acc >= 1:
            nontriv.add(lines[ci].split(" ", 2)[2])
        for sig, text in fl:
            monfail.append((ci, sig, text))
        mi, w = model_case(ops, obs, ann)
        mins.append(mi); wants.append(w)
        for o in obs:
            if o["op"] == "F" and "status" in o:
                key = "post/%s/%s" % (o["status"], "parses" if o["tp"] != "!" else "unparsable")
                dist[key] = dist.get(key, 0) + 1
        for o in obs:
            if o["op"] == "H" and "hrev" in o:
                key = "entry/%s/%s" % ("parses" if o["tp"] != "!" else "unparsable", "took-effect" if o["same"] != "1" else "skipped")
                dist[key] = dist.get(key, 0) + 1
        for a, o in zip(ann, obs):
            if a and "gline" in a:
                key = "gline/" + ("effective" if a["effective"] else "by-non-operator")
                dist[key] = dist.get(key, 0) + 1
    mism, mout = [], []
    if getattr(ck, "model_ok", False):
        mout = [norm_model(l) for l in vlib.run_model("\n".join(mins) + "\n")]
        mism = [i for i in range(len(mins)) if i >= len(mout) or mout[i] != wants[i]]
        if ck.tier == "thorough":
            idx = api.vm_sample(mins)
            vm = [norm_model(l) for l in vlib.run_model_vm("\n".join(mins[i] for i in idx) + "\n")]
            ck.add_obligation(vm == [mout[i] for i in idx], "extracted model agrees with vm_compute on %d cases" % len(idx))
    else:
        ck.violation("tie-broken:model", {"what": "model driver could not be built", "output": ck.model_out[-3000:], "obligation": "extraction of Driver.Main.run"}, concrete=False)
    ck.cov["evaluations"] = len(lines)
    ck.cov["distinct_nontrivial"] = len(nontriv)
    ck.cov["disagreements_checked"] = len(lines)
    ck.cov["traces_validated_against_impl"] = len(lines)
    ck.cov["rule"] = ("per history a fresh node: raw Config entries injected into raft with stale / duplicate / future / in-sequence revisions and unparsable bodies (what a handler "
                      "lagging behind the log lets through, D20), also across Marshal/Unmarshal and a real raft snapshot + FSM.Restore; configuration posts (valid bodies differing in operator password / limits / captcha URL / preset bans / unknown keys; "
                      "allowed origins switched on / off; invalid TOML, wrong types, bad durations, duplicate keys, non-UTF-8) x revision header (current, hex, stale, future, garbage, missing, empty, with "
                      "underscore), GET /config after most steps, 2-4 sessions with traffic, OPER with passwords of current/old/never configurations, GLINE by operators "
                      "and non-operators, Marshal/Unmarshal restore; ends with a second replica of the log (outputs compared entry by entry) and a restored copy. "
                      "non-trivial = history with at least one accepted update confirmed by the monitor, distinct by text")
    ck.cov["input_distribution"] = dist
    ck.cov["samples"] = [{"case": lines[i][:300], "impl": wants[i][:300], "model": (mout[i] if i < len(mout) else "")[:300]} for i in range(min(3, len(lines)))]
    seen = set()
    for ci, sig, text in monfail:
        if sig in seen:
            continue
        seen.add(sig)
        ops = lines[ci].split(" ")[2:]
        ann = anns[ci] if ci < len(anns) else [None] * len(ops)
        if not replay and sig != "gline-ban-not-in-config":   # a GLINE's expected effect depends on the OPER / config ops before it: keep the history
            ops, ann = shrink(ops, ann, wiring, sig)
        ck.violation(sig, {"what": text, "cases": ["cfg replay " + " ".join(ops)], "annotations": [ann],
                           "expected": "accepted iff parses and revision matches; +1; otherwise unchanged; same on replica and after restore",
                           "how_to_replay": "bin/check C16 --replay <this file>"}, concrete=True)
    if mism and not monfail:
        i = mism[0]
        ck.violation("correspondence:cfg", {"what": "model (Api/ConfigPost.v) and implementation disagree; the monitor found no history violating the property",
                                            "obligation": "correspondence apidrv (Api/ConfigPost.v vs postconfig.go + applyRobustMessage + cmd_gline.go)",
                                            "model_input": mins[i][:3000], "model_output": mout[i] if i < len(mout) else None, "impl_output": wants[i],
                                            "mismatches": len(mism), "cases": [lines[i]], "annotations": [anns[i] if i < len(anns) else None]}, concrete=False)
    if not ok:
        ck.violation("proof-broken", {"what": "proof obligations not discharged", "errors": ck.proof_errors,
                                      "obligation": ck.proof_result.get("broken_at", "Properties/C16.v"), "coq_output": ck.proof_result["output_tail"]}, concrete=False)
